#!/usr/bin/env python3
"""
harness/translate_vec.py — Python `ast` -> Lean 4 translator for the numpy-VECTORISED, non-jit helper
functions (straight-line numpy expressions such as `autoarray/fit/fit_util.py`) and for the class glue
that only dispatches to them (`autoarray/fit/fit_dataset.py`); the companion of harness/translate2.py
(which handles the `@numba_util.jit()` loop subset).  DESIGN.md §12, design_notes/LOOP_TIES.md,
design_notes/TIES_C08vec.md.

A targets file `harness/loop_targets/<Module>.json` with `"translator": "translate_vec"` is dispatched
here by `translate2.generate` (-> `generate(cfg, repo)`), so `common.regenerate_and_check_loops` and
`translate2.GENERATORS2 / TIE_INFO` work unchanged.

  CLI   python3 harness/translate_vec.py <Module> [--repo /repo] [--write]   print / write Generated/<Module>.lean
  API   generate(cfg, repo) -> str         (raises translate2.TranslationError outside the subset)

Targets:
  {"module": "VecFit", "translator": "translate_vec", "tie_module": "Proofs.TieFit", "namespace": "TieFit",
   "transparent_decorators": {"to_new_array": "<sha of the decorator's normalised AST>"},
   "functions": [{"file": "autoarray/fit/fit_util.py", "name": "residual_map_with_mask_from",
                  "params": {"data": "A1 Real", "mask": "A1 Bool", "model_data": "A1 Real"},
                  "returns": "A1 Real"}, ...],
   "records":   {...}, "instances": [...]            (optional: CLASS GLUE, below)}
Type vocabulary: Real | Bool | A1 Real | A1 Bool   (`A1 Real` = `PyRt.A1 α` = `List α`; an n-D numpy array
is its flattened row-major entries — every function of the subset is elementwise / a full reduction and
therefore shape-agnostic; the declared types are assumptions of the tie, as in translate2).

SUBSET (functions).  A function whose body (after the docstring) is a sequence of simple assignments
`x = e` and one final `return e`; parameters positional or keyword-only, no defaults, no *args / **kwargs.
Decorators: only those listed in "transparent_decorators", and only while the decorator's own definition
has the pinned sha (`to_new_array` re-wraps the returned ndarray in the structure type of the first
argument — it does not change a value; if somebody edits it the translation is refused until it is
re-reviewed and re-pinned).

Expressions, rendered operator by operator (u, v are bound variables of the emitted lambdas):
  x                                   the local / parameter
  2, 0.5, -0.5, 2.0                   literals exactly as translate2 spells them (`real_lit`): `(0 : α)`, `(1 : α)`,
                                      `((2 : Int) : α)`, `(-((((1 : Int) : α) / ((2 : Int) : α))))`
  np.pi                               the oracle parameter `pi`
  a + b, a - b, a * b, a / b          scalar∘scalar `(a ∘ b)`;  array∘array `PyRt.A1.zipWith (fun u v => u ∘ v) a b`;
  np.add/subtract/multiply/divide     array∘scalar `PyRt.A1.map (fun u => u ∘ s) a`;  scalar∘array `PyRt.A1.map (fun u => s ∘ u) a`
  -a                                  `(-a)` / `PyRt.A1.map (fun u => -u) a`
  a ** 2, a ** 2.0, np.square(a)      `PyRt.sq a` / `PyRt.A1.map (fun u => PyRt.sq u) a`   (as translate2)
  np.log / np.sqrt / np.exp / ...     the oracle parameter: `log a` / `PyRt.A1.map (fun u => log u) a`
  np.sum(a)                           real array: `PyRt.A1.sum a` (left fold from 0); boolean array: `PyRt.A1.count a` (Int)
  np.size(a)                          `PyRt.A1.len a` (Int)
  float(x), int(n)                    `x` (x a real scalar), `n` (n an integer; `int` of a real is refused)
  np.asarray(a)                       `a`
  m == 0, m != 0, m == 1, == False …  on a BOOLEAN array / scalar: `PyRt.A1.map (fun u => u == false) m` / `(m == false)`
  a[w]                                (w a boolean array) `PyVec.select a w`
  np.zeros_like(a [, dtype=np.result_type(<names | float>)])      `PyVec.zerosLike a`
  np.f(a, b, out=o, where=w)          `PyVec.ufuncWhere (fun u v => u ∘ v) a b o w`    (f ∈ add/subtract/multiply/divide,
  np.f(a, b, out=o)                   `PyVec.ufuncOut (fun u v => u ∘ v) a b o`          a, b, o real arrays, w a boolean array)
  g(k1=e1, ...), mod.g(...)           a call of another function of the same targets file (keyword or positional);
                                      `mod` must be bound by an import of exactly that module
Integers (`np.size`, `np.sum` of a mask, integer literals) are Lean `Int`; an integer meeting a real is cast
`((n : Int) : α)`.  `npw.f` (`from autoarray.numpy_wrapper import numpy as npw`) is `np.f`; the translator checks
that `np` / `npw` are bound by exactly those imports in the file.

Everything else raises `TranslationError` naming file, function and line — nothing is ever guessed.
Only the standard library is used.  The output is a deterministic function of the source text (and does
not depend on the Python version); the header lists, per function, a sha-256 of its normalised AST
(docstrings, comments, annotations excluded).

CLASS GLUE ("records" + "instances").  The `@property` methods of a single-inheritance chain of plain Python
classes, whose bodies only dispatch to the functions above, rendered as functions of ONE record `self`:
  "records":   {"FitSelf": {"self.use_mask_in_fit": "Bool", "self.dataset.data": "A1 Real",
                            "self.dataset.noise_covariance_matrix": "None", "self.inversion": "Option InvSelf"},
                "InvSelf": {"self.regularization_term": "Real", ...}}
  "instances": [{"class": "FitImaging", "record": "FitSelf",
                 "mro": [{"file": ".../fit_imaging.py", "class": "FitImaging"}, {"file": ..., "class": "FitDataset"}, ...],
                 "overridden": ["model_data", "inversion"],
                 "properties": ["data", "residual_map", ...]}]
An instance is "an object whose class is a user subclass of <class> that overrides exactly the properties in
`overridden`"; `self.p` is resolved DYNAMICALLY along that instance's MRO (so `AbstractFit.residual_map`, reached
from a `FitImaging`, reads `FitImaging.data`), `super().p` along the MRO after the defining class.  Emitted name:
`<Instance>.<p>` for the definition `self.p` resolves to, `<Instance>.<Definer>_<p>` for one reached by `super()`.
  self.a.b.c                          a declared field path of the record -> `self.a_b_c`   (instance attributes and
                                      attributes of other objects are ASSUMPTIONS of the tie, like parameter types);
  self.p                              p in "overridden": the declared field; p a property defined on the MRO: the call of
                                      its rendering (rendered on demand, callee first); a field path may not shadow one
  super().p                           the rendering of the next definition of p after the defining class
  if c: return e1 … return e2         `if c then e1 else e2`; c: a Bool, `not`, `and`, `or`, `x != 0.0` on a real
                                      (`(x != (0 : α))`, BEq)
  x is None / x is not None           x a field declared "None": decided statically (the dead branch is NOT rendered: the
                                      tie covers that configuration only); x declared "Option R": `match x with | some v => … |
                                      none => …`, and `x.f` under the `some` branch is the field `v.f` of the record R
  a property that can fall off its end returns `Option T`: `… some e … none`
The declared MRO is checked against the `class X(Base)` headers (single inheritance, `ABC` ignored); a property
must carry exactly the decorator `@property`; abstract properties (docstring-only body / `@abstractmethod`)
must be in "overridden".
"""
from __future__ import annotations

import ast
import copy
import hashlib
import sys
from fractions import Fraction
from pathlib import Path

HERE = Path(__file__).resolve().parent
if str(HERE) not in sys.path:
    sys.path.insert(0, str(HERE))
_main = sys.modules.get("__main__")
if getattr(_main, "__file__", None) and Path(_main.__file__).resolve() == HERE / "translate2.py":
    T2 = _main                      # translate2 run as a script: share ITS TranslationError class
else:
    import translate2 as T2

TranslationError = T2.TranslationError
lid, par, strip_par, real_lit = T2.lid, T2.par, T2.strip_par, T2.real_lit
CLASS_ORDER, CLASS_TEXT = T2.CLASS_ORDER, T2.CLASS_TEXT
ORACLE_ORDER, ORACLE_TYPE = T2.ORACLE_ORDER, T2.ORACLE_TYPE
LEAN_DIR = T2.LEAN_DIR

REAL, BOOL, INT, INTLIT = "Real", "Bool", "Int", "IntLit"
AR, AB = "A1 Real", "A1 Bool"
TYPES = {"Real": REAL, "real": REAL, "float": REAL, "Bool": BOOL, "bool": BOOL,
         "A1 Real": AR, "A1 Bool": AB}
LEAN_TYPE = {REAL: "α", BOOL: "Bool", AR: "PyRt.A1 α", AB: "PyRt.A1 Bool", INT: "Int"}

BINOPS = {ast.Add: ("+", "Add"), ast.Sub: ("-", "Sub"), ast.Mult: ("*", "Mul"), ast.Div: ("/", "Div")}
UFUNCS = {"np.add": ast.Add, "np.subtract": ast.Sub, "np.multiply": ast.Mult, "np.divide": ast.Div}
ORACLE_CALLS = {"np.sqrt": "sqrt", "np.cos": "cos", "np.sin": "sin", "np.exp": "exp", "np.log": "log"}
NP_IMPORTS = {"np": ("import", "numpy"), "numpy": ("import", "numpy"),
              "npw": ("from", "autoarray.numpy_wrapper", "numpy")}


def parse_type(s, where):
    t = TYPES.get(" ".join(str(s).split()))
    if t is None:
        raise TranslationError(f"{where}: type {s!r} is not in the vocabulary Real | Bool | A1 Real | A1 Bool")
    return t


def is_arr(t):
    return t in (AR, AB)


def strip_doc(body):
    return [s for s in body if not (isinstance(s, ast.Expr) and isinstance(s.value, ast.Constant))]


def canon(x):
    """a dump of an AST that does not depend on the Python version (`ast.dump` prints empty / None fields
    in 3.12 and omits them in 3.13): fields that are None or [] are skipped, positions are never included"""
    if isinstance(x, ast.AST):
        parts = []
        for f in x._fields:
            v = getattr(x, f, None)
            if v is None or v == []:
                continue
            parts.append(f"{f}={canon(v)}")
        return f"{type(x).__name__}({', '.join(parts)})"
    if isinstance(x, list):
        return "[" + ", ".join(canon(v) for v in x) + "]"
    return repr(x)


def normalised_sha(node):
    """sha-256 of a FunctionDef without docstrings, comments and annotations"""
    n = copy.deepcopy(node)
    for sub in ast.walk(n):
        if isinstance(sub, (ast.FunctionDef, ast.AsyncFunctionDef)):
            sub.body = strip_doc(sub.body) or [ast.Pass()]
            sub.returns = None
        if isinstance(sub, ast.arg):
            sub.annotation = None
    text = canon(n.body) + canon(n.args) + canon(n.decorator_list)
    return hashlib.sha256(text.encode()).hexdigest()[:16]


def dotted(e):
    try:
        return ast.unparse(e)
    except Exception:
        return "?"


def field_name(path):
    """`self.dataset.data` -> `dataset_data`"""
    return lid("_".join(path.split(".")[1:]))


# ======================================================================================== one function
class VFn:
    """the translation of one function, or (inst, k given) of the definition of one property in class
    number k of the MRO of an instance"""

    def __init__(self, mod, spec, node, inst=None, k=None):
        self.mod, self.spec, self.node, self.inst, self.k = mod, spec, node, inst, k
        self.file = spec["file"]
        self.pyname = node.name
        self.qual = f"{inst.mro[k]['class']}.{node.name}" if inst else node.name
        self.name = spec.get("lean_name") or node.name
        self.body = strip_doc(node.body)
        self.ast_sha = normalised_sha(node)
        self.classes, self.oracles = set(), set()
        self.fresh_n = {}
        self.vt = {}
        self.params = []
        self.ret = None
        self.ret_opt = False
        self.unwrapped = {}         # class glue: Option field path -> the variable bound by `match … | some v`
        a = node.args
        if a.vararg or a.kwarg or a.posonlyargs or a.defaults or any(d is not None for d in a.kw_defaults):
            self.fail("*args / **kwargs / positional-only parameters / default values are not in the subset")
        if inst is None:
            declared = spec.get("params", {})
            for arg in list(a.args) + list(a.kwonlyargs):
                if arg.arg not in declared:
                    self.fail(f"parameter {arg.arg!r} has no declared type in the targets JSON")
                t = parse_type(declared[arg.arg], f"{self.file}:{self.qual}")
                self.params.append((arg.arg, t))
                self.vt[arg.arg] = t
            extra = set(declared) - {p for p, _ in self.params}
            if extra:
                self.fail(f"targets JSON declares unknown parameter(s) {sorted(extra)}")
            if not spec.get("returns"):
                self.fail("no \"returns\" type in the targets JSON")
            self.ret_decl = parse_type(spec["returns"], f"{self.file}:{self.qual}")
        else:
            if [x.arg for x in a.args] != ["self"] or a.kwonlyargs:
                self.fail("class glue: only properties `def p(self)` are in the subset")
            self.ret_decl = None
        self.locals = set(self.vt) | {n.id for st in self.body for n in ast.walk(st)
                                      if isinstance(n, ast.Name) and isinstance(n.ctx, ast.Store)}
        clash = [n for n in self.locals if lid(n) != n and lid(n) in self.locals]
        if clash:
            self.fail(f"local name(s) {sorted(clash)} clash with their Lean spelling")

    # ------------------------------------------------------------------ errors / helpers
    def fail(self, msg, node=None):
        loc = f" (line {node.lineno})" if node is not None and hasattr(node, "lineno") else ""
        raise TranslationError(f"{self.file}:{self.qual}{loc}: {msg}")

    def unsupported(self, node, what=None):
        src = dotted(node).split("\n")[0][:70]
        self.fail(f"unsupported {what or type(node).__name__}: `{src}`", node)

    def need(self, c):
        self.classes.add(c)

    def fresh(self, base):
        while True:
            k = self.fresh_n.get(base, 0)
            self.fresh_n[base] = k + 1
            n = base if k == 0 else f"{base}{k}"
            if n not in self.locals and lid(n) == n:
                return n

    def builtin(self, name):
        """`name` still means the Python builtin: nothing in the file (or the function) rebinds it"""
        return name not in self.locals and not self.mod.bindings(self.file, name)

    def real(self, text, ty, node):
        """a scalar operand in a real position"""
        if ty == REAL:
            return text
        if ty == INTLIT:
            return self.lit(int(text), node)
        if ty == INT:
            self.need("IntCast")
            return f"(({strip_par(text)} : Int) : α)"
        self.fail(f"a {ty} where a real scalar is required", node)

    def lit(self, v, node):
        f = Fraction(v) if isinstance(v, int) else Fraction(str(v))
        if f < 0:
            self.need("Neg")
        f = abs(f)
        if f.denominator != 1:
            self.need("IntCast")
            self.need("Div")
        elif f.numerator == 0:
            self.need("OfNat0")
        elif f.numerator == 1:
            self.need("OfNat1")
        else:
            self.need("IntCast")
        return real_lit(v)

    def np_name(self, e):
        """`np.f` / `npw.f` / `numpy.f` -> 'np.f' after checking the import that binds the prefix; else None"""
        if isinstance(e, ast.Attribute) and isinstance(e.value, ast.Name) and e.value.id in NP_IMPORTS \
                and e.value.id not in self.locals:
            if not self.mod.import_ok(self.file, e.value.id):
                self.fail(f"`{e.value.id}` is not bound by the expected import "
                          f"({' '.join(NP_IMPORTS[e.value.id])}) in this file", e)
            return "np." + e.attr
        return None

    # ------------------------------------------------------------------ expressions
    def ex(self, e):
        """-> (lean text, type)"""
        if isinstance(e, ast.Constant):
            v = e.value
            if isinstance(v, bool):
                return ("true" if v else "false"), BOOL
            if isinstance(v, int):
                return str(v), INTLIT
            if isinstance(v, float):
                return self.lit(v, e), REAL
            self.unsupported(e, "constant")
        if isinstance(e, ast.Name):
            if e.id not in self.vt:
                self.fail(f"name `{e.id}` is not a parameter or a local assigned before", e)
            return lid(e.id), self.vt[e.id]
        if isinstance(e, ast.Attribute):
            if self.np_name(e) == "np.pi":
                self.oracles.add("pi")
                return "pi", REAL
            if self.inst is not None:
                return self.inst.attribute(self, e)
            self.unsupported(e, "attribute")
        if isinstance(e, ast.UnaryOp):
            return self.unary(e)
        if isinstance(e, ast.BinOp):
            return self.binop(e)
        if isinstance(e, ast.Compare):
            return self.compare(e)
        if isinstance(e, ast.Subscript):
            return self.subscript(e)
        if isinstance(e, ast.Call):
            return self.call(e)
        if isinstance(e, ast.BoolOp) and self.inst is not None:
            parts = []
            for x in e.values:
                t, ty = self.ex(x)
                if ty != BOOL:
                    self.fail("`and` / `or` on a non-boolean", x)
                parts.append(par(t))
            return "(" + (" && " if isinstance(e.op, ast.And) else " || ").join(parts) + ")", BOOL
        self.unsupported(e)

    def unary(self, e):
        if isinstance(e.op, ast.USub):
            if isinstance(e.operand, ast.Constant) and isinstance(e.operand.value, (int, float)) \
                    and not isinstance(e.operand.value, bool):
                return self.ex(ast.copy_location(ast.Constant(value=-e.operand.value), e))
            t, ty = self.ex(e.operand)
            if ty == AR:
                self.need("Neg")
                u = self.fresh("u")
                return f"(PyRt.A1.map (fun {u} => -{u}) {par(t)})", AR
            if ty == REAL:
                self.need("Neg")
                return f"(-{par(t)})", REAL
            if ty == INT:
                return f"(-{par(t)})", INT
            self.fail(f"unary `-` on {ty}", e)
        if isinstance(e.op, ast.Not) and self.inst is not None:
            t, ty = self.ex(e.operand)
            if ty != BOOL:
                self.fail("`not` on a non-boolean", e)
            return f"(!{par(t)})", BOOL
        self.unsupported(e, "unary operator")

    def arith(self, op, l, lt, r, rt, node):
        """one binary arithmetic operator, with numpy's scalar/array broadcasting"""
        sym, cls = BINOPS[op]
        for t in (lt, rt):
            if t not in (REAL, INTLIT, INT, AR):
                self.fail(f"`{sym}` on {t}", node)
        if lt in (INT, INTLIT) and rt in (INT, INTLIT):
            if op is ast.Div or (lt == INTLIT and rt == INTLIT):
                self.fail("integer `/` and arithmetic on integer literals are not in the subset", node)
            return f"({par(l)} {sym} {par(r)})", INT
        self.need(cls)
        if lt == AR and rt == AR:
            u, v = self.fresh("u"), self.fresh("v")
            return f"(PyRt.A1.zipWith (fun {u} {v} => {u} {sym} {v}) {par(l)} {par(r)})", AR
        if lt == AR:
            u = self.fresh("u")
            return f"(PyRt.A1.map (fun {u} => {u} {sym} {par(self.real(r, rt, node))}) {par(l)})", AR
        if rt == AR:
            u = self.fresh("u")
            return f"(PyRt.A1.map (fun {u} => {par(self.real(l, lt, node))} {sym} {u}) {par(r)})", AR
        return f"({par(self.real(l, lt, node))} {sym} {par(self.real(r, rt, node))})", REAL

    def square(self, t, ty, node):
        if ty == AR:
            self.need("Mul")
            u = self.fresh("u")
            return f"(PyRt.A1.map (fun {u} => PyRt.sq {u}) {par(t)})", AR
        if ty not in (REAL, INTLIT, INT):
            self.fail(f"squaring a {ty}", node)
        self.need("Mul")
        return f"(PyRt.sq {par(self.real(t, ty, node))})", REAL

    def binop(self, e):
        if isinstance(e.op, ast.Pow):
            if isinstance(e.right, ast.Constant) and not isinstance(e.right.value, bool) \
                    and isinstance(e.right.value, (int, float)) and e.right.value == 2:
                return self.square(*self.ex(e.left), e)
            self.fail("`**` is in the subset only with the literal exponent 2 / 2.0", e)
        if type(e.op) not in BINOPS:
            self.unsupported(e, "binary operator")
        (l, lt), (r, rt) = self.ex(e.left), self.ex(e.right)
        return self.arith(type(e.op), l, lt, r, rt, e)

    def compare(self, e):
        if len(e.ops) != 1:
            self.unsupported(e, "comparison chain")
        op, rhs = e.ops[0], e.comparators[0]
        if self.inst is not None:
            g = self.inst.compare(self, e)
            if g is not None:
                return g
        if not isinstance(op, (ast.Eq, ast.NotEq)):
            self.unsupported(e, "comparison (only `==` / `!=` of a boolean array with 0 / 1 / False / True)")
        l, lt = self.ex(e.left)
        if lt not in (AB, BOOL):
            self.fail(f"`==` / `!=` on {lt}: only boolean arrays (masks) are compared in the subset "
                      f"(declare the operand `A1 Bool`)", e)
        if not (isinstance(rhs, ast.Constant) and type(rhs.value) in (int, bool) and rhs.value in (0, 1)):
            self.unsupported(e, "comparison (the right-hand side must be the literal 0 / 1 / False / True)")
        b = "true" if rhs.value else "false"
        sym = "==" if isinstance(op, ast.Eq) else "!="
        if lt == AB:
            u = self.fresh("u")
            return f"(PyRt.A1.map (fun {u} => {u} {sym} {b}) {par(l)})", AB
        return f"({par(l)} {sym} {b})", BOOL

    def subscript(self, e):
        if isinstance(e.slice, (ast.Slice, ast.Tuple)):
            self.unsupported(e, "subscript (only boolean-mask selection `a[w]`)")
        a, at = self.ex(e.value)
        w, wt = self.ex(e.slice)
        if not is_arr(at) or wt != AB:
            self.fail(f"subscript of {at} by {wt}: only boolean-mask selection `a[w]` of a 1-D value "
                      f"by a boolean array is in the subset", e)
        return f"(PyVec.select {par(a)} {par(w)})", at

    def args_of(self, e, n, kw=()):
        """exactly n positional arguments and only the keywords in kw -> (positional, {kw: node})"""
        if len(e.args) != n or any(isinstance(x, ast.Starred) for x in e.args):
            self.fail(f"`{dotted(e.func)}` takes {n} positional argument(s) here", e)
        kws = {}
        for k in e.keywords:
            if k.arg is None or k.arg not in kw:
                self.fail(f"keyword `{k.arg}` of `{dotted(e.func)}` is not in the subset", e)
            kws[k.arg] = k.value
        return e.args, kws

    def check_dtype(self, d):
        """`dtype=np.result_type(<real values | float>)`: selects the float type only"""
        ok = isinstance(d, ast.Call) and self.np_name(d.func) == "np.result_type" and not d.keywords and d.args
        if ok:
            for x in d.args:
                if isinstance(x, ast.Name) and x.id == "float" and self.builtin("float"):
                    continue
                if isinstance(x, ast.Name) and self.vt.get(x.id) in (AR, REAL):
                    continue
                ok = False
        if not ok:
            self.fail("`dtype=` is in the subset only as `np.result_type(<real arrays> [, float])`", d)

    def call(self, e):
        f = e.func
        if isinstance(f, ast.Name) and f.id == "float" and self.builtin("float"):
            (x,), _ = self.args_of(e, 1)
            t, ty = self.ex(x)
            return self.real(t, ty, e), REAL
        if isinstance(f, ast.Name) and f.id == "int" and self.builtin("int"):
            (x,), _ = self.args_of(e, 1)
            t, ty = self.ex(x)
            if ty not in (INT, INTLIT):
                self.fail(f"`int` of {ty}: only of an integer value (truncation of a real is not in the subset)", e)
            return t, ty
        name = self.np_name(f)
        if name == "np.asarray":
            (x,), _ = self.args_of(e, 1)
            t, ty = self.ex(x)
            if not is_arr(ty):
                self.fail(f"`np.asarray` of {ty}", e)
            return t, ty
        if name == "np.sum":
            (x,), _ = self.args_of(e, 1)
            t, ty = self.ex(x)
            if ty == AB:
                return f"(PyRt.A1.count {par(t)})", INT
            if ty != AR:
                self.fail(f"`np.sum` of {ty} (only of an array, without `axis=`)", e)
            self.need("Add")
            self.need("OfNat0")
            return f"(PyRt.A1.sum {par(t)})", REAL
        if name == "np.size":
            (x,), _ = self.args_of(e, 1)
            t, ty = self.ex(x)
            if not is_arr(ty):
                self.fail(f"`np.size` of {ty}", e)
            return f"(PyRt.A1.len {par(t)})", INT
        if name == "np.square":
            (x,), _ = self.args_of(e, 1)
            return self.square(*self.ex(x), e)
        if name in ORACLE_CALLS:
            (x,), _ = self.args_of(e, 1)
            t, ty = self.ex(x)
            o = ORACLE_CALLS[name]
            self.oracles.add(o)
            if ty == AR:
                u = self.fresh("u")
                return f"(PyRt.A1.map (fun {u} => {o} {u}) {par(t)})", AR
            return f"({o} {par(self.real(t, ty, e))})", REAL
        if name == "np.zeros_like":
            (x,), kws = self.args_of(e, 1, ("dtype",))
            t, ty = self.ex(x)
            if ty != AR:
                self.fail(f"`np.zeros_like` of {ty}", e)
            if "dtype" in kws:
                self.check_dtype(kws["dtype"])
            self.need("OfNat0")
            return f"(PyVec.zerosLike {par(t)})", AR
        if name in UFUNCS:
            (x, y), kws = self.args_of(e, 2, ("out", "where"))
            (l, lt), (r, rt) = self.ex(x), self.ex(y)
            if not kws:
                return self.arith(UFUNCS[name], l, lt, r, rt, e)
            if "out" not in kws:
                self.fail("`where=` without `out=` leaves the unselected entries uninitialised: not in the subset", e)
            if lt != AR or rt != AR:
                self.fail(f"`{name}(…, out=…)` on {lt} and {rt}: both operands must be real arrays", e)
            o, ot = self.ex(kws["out"])
            if ot != AR:
                self.fail(f"`out=` of type {ot}", e)
            sym, cls = BINOPS[UFUNCS[name]]
            self.need(cls)
            u, v = self.fresh("u"), self.fresh("v")
            fn = f"(fun {u} {v} => {u} {sym} {v})"
            if "where" in kws:
                w, wt = self.ex(kws["where"])
                if wt != AB:
                    self.fail(f"`where=` of type {wt}: a boolean array is required", e)
                return f"(PyVec.ufuncWhere {fn} {par(l)} {par(r)} {par(o)} {par(w)})", AR
            return f"(PyVec.ufuncOut {fn} {par(l)} {par(r)} {par(o)})", AR
        if name is not None:
            self.unsupported(e, f"numpy function `{name}`")
        return self.call_target(e)

    def call_target(self, e):
        """a call of another (already translated) function of the same targets file"""
        f = e.func
        cname = None
        if isinstance(f, ast.Name) and f.id not in self.locals:
            cname = f.id
        elif isinstance(f, ast.Attribute) and isinstance(f.value, ast.Name) and f.value.id not in self.locals \
                and f.value.id != "self":
            cname = f.attr
        callee = self.mod.fns.get(cname) if cname else None
        if callee is None:
            self.unsupported(e, "call (not a numpy function of the subset, not a function of the targets file "
                                "translated before this one)")
        if isinstance(f, ast.Attribute) and not self.mod.module_alias_ok(self.file, f.value.id, callee.file):
            self.fail(f"`{f.value.id}` is not an import of the module {callee.file}", e)
        if isinstance(f, ast.Name) and (callee.file != self.file or self.mod.function_def(self.file, cname) is None):
            self.unsupported(e, "call")
        names = [p for p, _ in callee.params]
        n_pos = len(callee.node.args.args)
        if len(e.args) > n_pos or any(isinstance(x, ast.Starred) for x in e.args):
            self.fail(f"too many positional arguments for `{cname}`", e)
        given = dict(zip(names, e.args))
        for k in e.keywords:
            if k.arg is None or k.arg not in names or k.arg in given:
                self.fail(f"bad keyword `{k.arg}` in the call of `{cname}`", e)
            given[k.arg] = k.value
        if set(given) != set(names):
            self.fail(f"the call of `{cname}` does not give exactly the arguments {names}", e)
        args = []
        for p, pt in callee.params:
            t, ty = self.ex(given[p])
            if pt == REAL:
                t = self.real(t, ty, e)
            elif ty != pt:
                self.fail(f"argument `{p}` of `{cname}` has type {ty}, declared {pt}", e)
            args.append(par(t))
        self.classes |= callee.classes
        self.oracles |= callee.oracles
        head = " ".join([callee.name] + [o for o in ORACLE_ORDER if o in callee.oracles] + args)
        return f"({head})", callee.ret

    # ------------------------------------------------------------------ body
    def check_decorators(self):
        pins = self.mod.cfg.get("transparent_decorators", {})
        for d in self.node.decorator_list:
            if not (isinstance(d, ast.Name) and d.id in pins):
                self.fail(f"decorator `@{dotted(d)}` is not declared value-transparent in the targets JSON", d)
            ddef = self.mod.function_def(self.file, d.id)
            if ddef is None:
                self.fail(f"decorator `@{d.id}` is not defined in this file", d)
            sha = normalised_sha(ddef)
            if sha != pins[d.id]:
                self.fail(f"decorator `@{d.id}` changed (normalised-AST sha {sha}, reviewed as value-transparent "
                          f"at {pins[d.id]}): re-review it and update \"transparent_decorators\"", ddef)

    def translate(self):
        self.check_decorators()
        lines = []
        if not self.body or not isinstance(self.body[-1], ast.Return) or self.body[-1].value is None:
            self.fail("the body must end with `return <expression>`")
        for st in self.body[:-1]:
            if not (isinstance(st, ast.Assign) and len(st.targets) == 1 and isinstance(st.targets[0], ast.Name)):
                self.unsupported(st, "statement (only `x = e` and a final `return e`)")
            t, ty = self.ex(st.value)
            if ty == INTLIT:
                ty = INT
            x = st.targets[0].id
            self.vt[x] = ty
            lines.append(f"  let {lid(x)} : {LEAN_TYPE[ty]} := {strip_par(t)}")
        t, ty = self.ex(self.body[-1].value)
        if self.ret_decl == REAL:
            t, ty = self.real(t, ty, self.body[-1]), REAL
        if ty != self.ret_decl:
            self.fail(f"the returned value has type {ty}, the targets JSON declares {self.ret_decl}", self.body[-1])
        self.ret = ty
        lines.append(f"  {strip_par(t)}")
        binders = [f"({lid(p)} : {LEAN_TYPE[t]})" for p, t in self.params]
        return self.render(binders, LEAN_TYPE[ty], lines)

    def render(self, binders, ret_text, lines):
        uses_alpha = bool(self.classes or self.oracles) or "α" in ret_text or any("α" in b for b in binders)
        pre = []
        if uses_alpha:
            pre.append("{α : Type}")
            pre += [CLASS_TEXT[c] for c in CLASS_ORDER if c in self.classes]
            pre += [f"({o} : {ORACLE_TYPE[o]})" for o in ORACLE_ORDER if o in self.oracles]
        out, line = [], f"def {self.name}"
        for b in pre + binders:
            if len(line) + 1 + len(b) > 100:
                out.append(line)
                line = "    " + b
            else:
                line += " " + b
        out.append(line + f" : {ret_text} :=")
        doc = f"/-- `{self.file}` : `{self.qual}` -/"
        return "\n".join([doc] + out + lines) + "\n"


# ======================================================================================== class glue
class Instance:
    """the properties of ONE kind of object — a user subclass of `cls` overriding exactly `overridden` —
    rendered as functions of the record of the attribute paths they read (module docstring, CLASS GLUE)"""

    def __init__(self, mod, spec):
        self.mod, self.spec = mod, spec
        self.cls = spec["class"]
        self.record = spec["record"]
        self.mro = list(spec["mro"])
        self.overridden = list(spec.get("overridden", []))
        self.want = list(spec["properties"])
        if self.record not in mod.cfg.get("records", {}):
            raise TranslationError(f"instance {self.cls}: record {self.record!r} is not declared")
        self.fields = mod.cfg["records"][self.record]
        self.done = {}          # (k, property) -> VFn
        self.active = []
        self.texts, self.index = [], []

    def where(self):
        return f"{self.mro[0]['file']}:{self.cls}"

    # ------------------------------------------------------------------ the class chain
    def class_def(self, k):
        c = self.mod.class_def(self.mro[k]["file"], self.mro[k]["class"])
        if c is None:
            raise TranslationError(f"{self.mro[k]['file']}: class {self.mro[k]['class']} not found")
        return c

    def check_mro(self):
        if not self.mro or self.mro[0]["class"] != self.cls:
            raise TranslationError(f"{self.where()}: \"mro\" must start with the class itself")
        for k in range(len(self.mro)):
            bases = [dotted(b) for b in self.class_def(k).bases if dotted(b) not in ("ABC", "object")]
            want = [self.mro[k + 1]["class"]] if k + 1 < len(self.mro) else []
            if bases != want or self.class_def(k).keywords:
                raise TranslationError(f"{self.mro[k]['file']}: class {self.mro[k]['class']} has the bases "
                                       f"{bases}, the targets JSON continues the MRO with {want} "
                                       f"(single inheritance only)")
            if k + 1 < len(self.mro) and not self.mod.class_import_ok(self.mro[k]["file"], want[0],
                                                                      self.mro[k + 1]["file"]):
                raise TranslationError(f"{self.mro[k]['file']}: `{want[0]}` is not the class of "
                                       f"{self.mro[k + 1]['file']}")
        for p in self.overridden:
            if "self." + p not in self.fields:
                raise TranslationError(f"{self.where()}: overridden property `{p}` needs the record field `self.{p}`")

    def method(self, k, name):
        return next((n for n in self.class_def(k).body
                     if isinstance(n, (ast.FunctionDef, ast.AsyncFunctionDef)) and n.name == name), None)

    def definers(self, name):
        return [k for k in range(len(self.mro)) if self.method(k, name) is not None]

    def assigned_in_class_body(self, name):
        return any(isinstance(n, ast.Name) and isinstance(n.ctx, ast.Store) and n.id == name
                   for k in range(len(self.mro)) for st in self.class_def(k).body
                   if not isinstance(st, (ast.FunctionDef, ast.AsyncFunctionDef, ast.ClassDef))
                   for n in ast.walk(st))

    # ------------------------------------------------------------------ rendering of one definition
    def prop(self, k, name, fn=None, node=None):
        """the rendering of property `name` as defined in class k of the MRO (on demand, callee first)"""
        key = (k, name)
        if key in self.done:
            return self.done[key]
        if key in self.active:
            raise TranslationError(f"{self.where()}: cyclic property dependency through "
                                   f"{self.mro[k]['class']}.{name}")
        m = self.method(k, name)
        cls = self.mro[k]["class"]
        new = VFn(self.mod, {"file": self.mro[k]["file"], "name": name}, m, inst=self, k=k)
        decos = [dotted(d) for d in m.decorator_list]
        if not isinstance(m, ast.FunctionDef) or decos != ["property"] or not new.builtin("property"):
            new.fail(f"class glue renders only plain `@property` methods (decorators here: {decos})", m)
        if not [s for s in new.body if not isinstance(s, ast.Pass)]:
            new.fail(f"abstract property (empty body): list `{name}` in \"overridden\" and declare the field "
                     f"`self.{name}`", m)
        first = self.definers(name)[0]
        new.name = f"{self.cls}.{name}" if k == first else f"{self.cls}.{cls}_{name}"
        if new.name in self.mod.lean_names:
            new.fail(f"duplicate Lean name {new.name}")
        self.active.append(key)
        text = self.translate(new)
        self.active.pop()
        self.done[key] = new
        self.mod.lean_names.add(new.name)
        self.texts.append(text)
        self.index.append(f"  {new.file} : {new.qual} (as {new.name})   ast-sha256 {new.ast_sha}")
        return new

    def call_prop(self, fn, hit, node):
        if hit.ret_opt:
            fn.fail(f"`{hit.qual}` can return None: its value cannot be used inside an expression", node)
        fn.classes |= hit.classes
        fn.oracles |= hit.oracles
        return "(" + " ".join([hit.name] + [o for o in ORACLE_ORDER if o in hit.oracles] + ["self"]) + ")", hit.ret

    # ------------------------------------------------------------------ attributes
    @staticmethod
    def path_of(e):
        parts = []
        while isinstance(e, ast.Attribute):
            parts.append(e.attr)
            e = e.value
        if isinstance(e, ast.Name) and e.id == "self":
            return ".".join(["self"] + parts[::-1])
        return None

    def field(self, fn, path, node):
        """a declared field path -> (text, type) | None; checks that the path does not shadow a property"""
        head = path.split(".")[1]
        ty = self.fields.get(path)
        if ty is not None:
            if head not in self.overridden and (self.definers(head) or self.assigned_in_class_body(head)):
                fn.fail(f"`{path}`: `{head}` is defined by a class of the MRO — a declared field may not shadow "
                        f"it (list it in \"overridden\" if the concrete subclass overrides it)", node)
            if ty == "None" or str(ty).startswith("Option "):
                fn.fail(f"`{path}` is declared {ty}: it can only be tested with `is [not] None`", node)
            return "self." + field_name(path), parse_type(ty, self.record)
        for opt, var in fn.unwrapped.items():          # a field of an Option sub-record, under `some`
            if path.startswith(opt + "."):
                rec = str(self.fields[opt])[7:]
                sub = "self." + path[len(opt) + 1:]
                sub_fields = self.mod.cfg["records"][rec]
                if sub in sub_fields:
                    return f"{var}." + field_name(sub), parse_type(sub_fields[sub], rec)
        return None

    def attribute(self, fn, e):
        # super().p
        if isinstance(e.value, ast.Call) and isinstance(e.value.func, ast.Name) and e.value.func.id == "super" \
                and not e.value.args and not e.value.keywords and fn.builtin("super"):
            later = [k for k in self.definers(e.attr) if k > fn.k]
            if not later:
                fn.fail(f"`super().{e.attr}`: no class after {self.mro[fn.k]['class']} in the MRO defines it", e)
            return self.call_prop(fn, self.prop(later[0], e.attr), e)
        path = self.path_of(e)
        if path is None:
            fn.unsupported(e, "attribute")
        ft = self.field(fn, path, e)
        if ft is not None:
            return ft
        name = path.split(".")[1]
        if path.count(".") == 1 and name not in self.overridden:
            ks = self.definers(name)
            if ks:
                return self.call_prop(fn, self.prop(ks[0], name), e)
        fn.fail(f"`{path}` is neither a declared field of the record {self.record} nor a property defined on "
                f"the MRO", e)

    def static_none(self, e):
        """`x is None` / `x is not None` -> ('static', bool) | ('option', path, is_not) | None"""
        if isinstance(e, ast.Compare) and len(e.ops) == 1 and isinstance(e.ops[0], (ast.Is, ast.IsNot)) \
                and isinstance(e.comparators[0], ast.Constant) and e.comparators[0].value is None:
            path = self.path_of(e.left)
            ty = self.fields.get(path) if path else None
            is_not = isinstance(e.ops[0], ast.IsNot)
            if ty == "None":
                return ("static", not is_not)
            if ty is not None and str(ty).startswith("Option "):
                return ("option", path, is_not)
            return ("bad",)
        return None

    def compare(self, fn, e):
        op, rhs = e.ops[0], e.comparators[0]
        if isinstance(op, (ast.Is, ast.IsNot)):
            fn.fail("`is` / `is not` is in the subset only as the whole condition of an `if`, against None, on a "
                    "field declared \"None\" or \"Option <record>\"", e)
        if isinstance(op, (ast.Eq, ast.NotEq)) and isinstance(rhs, ast.Constant) \
                and type(rhs.value) in (int, float):
            l, lt = fn.ex(e.left)
            if lt == REAL:
                fn.need("BEq")
                sym = "==" if isinstance(op, ast.Eq) else "!="
                return f"({par(l)} {sym} {fn.lit(rhs.value, e)})", BOOL
        return None

    # ------------------------------------------------------------------ body of a property
    def translate(self, fn):
        """(`if c: return e`)* then [`return e`]; a body that can fall off its end returns Option"""
        branches = []
        for st in fn.body:
            if isinstance(st, ast.If) and not st.orelse and len(st.body) == 1 \
                    and isinstance(st.body[0], ast.Return) and st.body[0].value is not None:
                branches.append((st.test, st.body[0].value, st))
            elif isinstance(st, ast.Return) and st.value is not None and st is fn.body[-1]:
                branches.append((None, st.value, st))
            else:
                fn.unsupported(st, "statement (class glue: only `if c: return e` and a final `return e`)")
        # conditions decided statically by a field declared "None": the dead code is not rendered
        live = []
        for test, val, st in branches:
            sn = self.static_none(test) if test is not None else None
            if sn == ("bad",):
                fn.fail("`is [not] None` on something that is not a field declared \"None\" / \"Option <record>\"", st)
            if sn is not None and sn[0] == "static":
                if sn[1]:
                    live.append((None, val, st))
                    break
                continue
            live.append((test, val, st))
            if test is None:
                break
        falls_off = not live or live[-1][0] is not None
        fn.ret_opt = falls_off
        result = {"ty": None}

        def value(e, st):
            t, ty = fn.ex(e)
            if ty == INTLIT:
                t, ty = fn.real(t, ty, st), REAL
            if result["ty"] is None:
                result["ty"] = ty
            if ty != result["ty"]:
                fn.fail(f"the branches return {result['ty']} and {ty}", st)
            return f"some {par(t)}" if falls_off else strip_par(t)

        lines = []
        depth = 1
        for test, val, st in live:
            ind = "  " * depth
            if test is None:
                lines.append(f"{ind}{value(val, st)}")
                break
            sn = self.static_none(test)
            if sn is not None:                       # ('option', path, is_not)
                _, path, is_not = sn
                var = field_name(path) + "_v"
                lines.append(f"{ind}match self.{field_name(path)} with")
                if is_not:
                    saved = dict(fn.unwrapped)
                    fn.unwrapped[path] = var
                    lines.append(f"{ind}| some {var} => {value(val, st)}")
                    fn.unwrapped = saved
                    lines.append(f"{ind}| none =>")
                else:
                    lines.append(f"{ind}| none => {value(val, st)}")
                    lines.append(f"{ind}| some {var} =>")
                    fn.unwrapped[path] = var
            else:
                c, ct = fn.ex(test)
                if ct != BOOL:
                    fn.fail("the condition of `if` is not a boolean", st)
                lines.append(f"{ind}if {strip_par(c)} then {value(val, st)}")
                lines.append(f"{ind}else")
            depth += 1
        if falls_off:
            lines.append("  " * depth + "none")
        if result["ty"] is None:
            fn.fail("the property never returns a value in this configuration")
        fn.ret = result["ty"]
        ret_text = f"Option {par(LEAN_TYPE[fn.ret])}" if falls_off else LEAN_TYPE[fn.ret]
        return fn.render([f"(self : {self.record} α)"], ret_text, lines)

    def generate(self):
        self.check_mro()
        for p in self.want:
            ks = self.definers(p)
            if p in self.overridden or not ks:
                raise TranslationError(f"{self.where()}: `{p}` is not a property defined on the MRO "
                                       f"(or it is listed as overridden)")
            self.prop(ks[0], p)
        return self.texts, self.index


# ======================================================================================== module
class VecModule:
    def __init__(self, cfg, repo):
        self.cfg, self.repo = cfg, Path(repo)
        self.name = cfg["module"]
        self.namespace = f"Generated.{self.name}"
        self.trees = {}
        self.fns = {}        # python name -> VFn (plain functions), in emission order
        self.lean_names = set()

    def tree(self, file):
        if file not in self.trees:
            p = self.repo / file
            if not p.exists():
                raise TranslationError(f"{file}: source file not found under {self.repo}")
            self.trees[file] = ast.parse(p.read_text())
        return self.trees[file]

    def function_def(self, file, name):
        return next((n for n in self.tree(file).body if isinstance(n, ast.FunctionDef) and n.name == name), None)

    def class_def(self, file, cls):
        return next((n for n in self.tree(file).body if isinstance(n, ast.ClassDef) and n.name == cls), None)

    def bindings(self, file, alias):
        """everything that binds `alias` anywhere in the file"""
        hits = []
        for n in ast.walk(self.tree(file)):
            if isinstance(n, ast.Import):
                for a in n.names:
                    if (a.asname or a.name.split(".")[0]) == alias:
                        hits.append(("import", a.name) if a.asname or "." not in a.name else ("import-pkg", a.name))
            elif isinstance(n, ast.ImportFrom):
                for a in n.names:
                    if (a.asname or a.name) == alias:
                        hits.append(("from", n.module, a.name) if n.level == 0 else ("from-relative",))
            elif isinstance(n, (ast.FunctionDef, ast.AsyncFunctionDef, ast.ClassDef)) and n.name == alias:
                hits.append(("def",))
            elif isinstance(n, ast.Name) and isinstance(n.ctx, (ast.Store, ast.Del)) and n.id == alias:
                hits.append(("assign",))
            elif isinstance(n, ast.arg) and n.arg == alias:
                hits.append(("arg",))
        return hits

    def import_ok(self, file, alias):
        """is `alias` bound by exactly the expected numpy import (and by nothing else)?"""
        return self.bindings(file, alias) == [NP_IMPORTS[alias]]

    def module_alias_ok(self, file, alias, target_file):
        """`alias.f(...)`: alias must be bound (only) by `from pkg import mod` / `import pkg.mod as alias`"""
        dotted_mod = target_file[:-3].replace("/", ".")
        pkg, _, mod = dotted_mod.rpartition(".")
        return self.bindings(file, alias) in ([("from", pkg, mod)], [("import", dotted_mod)])

    def class_import_ok(self, file, cls, target_file):
        """the base-class name `cls` used in `file` is the class defined in `target_file`"""
        if file == target_file:
            return self.bindings(file, cls) == [("def",)]
        return self.bindings(file, cls) == [("from", target_file[:-3].replace("/", "."), cls)]

    def record_text(self, rec, fields):
        lines = ["/-- the attribute paths the rendered class properties read (declared in the targets file) -/",
                 f"structure {rec} (α : Type) where"]
        seen = set()
        for path, ty in fields.items():
            if not path.startswith("self.") or path.count(".") < 1:
                raise TranslationError(f"record {rec}: field path {path!r} must start with `self.`")
            if ty == "None":
                continue
            name = field_name(path)
            if name in seen:
                raise TranslationError(f"record {rec}: two field paths are spelled `{name}`")
            seen.add(name)
            if str(ty).startswith("Option "):
                sub = str(ty)[7:]
                if sub not in self.cfg.get("records", {}):
                    raise TranslationError(f"record {rec}: `Option {sub}` names no declared record")
                lines.append(f"  {name} : Option ({sub} α)")
            else:
                lines.append(f"  {name} : {LEAN_TYPE[parse_type(ty, rec)]}")
        return "\n".join(lines) + "\n"

    def generate(self):
        defs, index = [], []
        pins = self.cfg.get("transparent_decorators", {})
        for spec in self.cfg.get("functions", []):
            node = self.function_def(spec["file"], spec["name"])
            if node is None:
                raise TranslationError(f"{spec['file']}: function {spec['name']} not found")
            fn = VFn(self, spec, node)
            if fn.name in self.lean_names:
                raise TranslationError(f"duplicate function {fn.name}")
            defs.append(fn.translate())
            self.fns[fn.pyname] = fn
            self.lean_names.add(fn.name)
            index.append(f"  {fn.file} : {fn.pyname}   ast-sha256 {fn.ast_sha}")
        for d in sorted(pins):
            index.append(f"  transparent decorator @{d}   ast-sha256 {pins[d]} (pinned)")
        records = self.cfg.get("records", {})
        order = sorted(records, key=lambda r: any(str(t) == f"Option {r}" for f in records.values()
                                                  for t in f.values()), reverse=True)
        for rec in order:                # sub-records first
            defs.append(self.record_text(rec, records[rec]))
        for ispec in self.cfg.get("instances", []):
            texts, idx = Instance(self, ispec).generate()
            defs += texts
            index += idx
        tie = T2.tie_info(self.cfg)["tie_module"]
        return (f"/-\nGenerated/{self.name}.lean — GENERATED by harness/translate_vec.py from the current Python "
                f"source.  Do not edit.\nDefinitions only (DESIGN.md §12): each `def` is the operator-by-operator "
                f"rendering of one numpy-vectorised\nfunction (or of one class property that dispatches to them) "
                f"over Model/PyRt.lean + Model/PyVec.lean;\nthe tie theorems live in {tie}.\n\n"
                + "\n".join(index) + "\n-/\n"
                "import Model.PyRt\nimport Model.PyVec\n\nset_option linter.unusedVariables false\n\n"
                f"namespace {self.namespace}\n\n" + "\n".join(defs) + f"\nend {self.namespace}\n")


def generate(cfg, repo="/repo"):
    return VecModule(cfg, repo).generate()


def main(argv):
    repo, write, args = "/repo", False, []
    it = iter(argv)
    for a in it:
        if a == "--repo":
            repo = next(it)
        elif a == "--write":
            write = True
        else:
            args.append(a)
    if len(args) != 1:
        print(__doc__)
        return 2
    try:
        cfg = T2.load_cfg(args[0])
        if cfg.get("translator") != "translate_vec":
            raise TranslationError(f"{args[0]}: the targets file does not name the translator `translate_vec`")
        src = generate(cfg, repo)
    except TranslationError as e:
        print(f"TranslationError: {e}", file=sys.stderr)
        return 1
    if write:
        f = LEAN_DIR / "Generated" / f"{args[0]}.lean"
        if not f.exists() or f.read_text() != src:
            f.write_text(src)
            print(f"wrote {f}")
        else:
            print(f"{f} is up to date")
    else:
        sys.stdout.write(src)
    return 0


if __name__ == "__main__":
    sys.exit(main(sys.argv[1:]))
