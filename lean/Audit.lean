/-
Audit.lean — run as `lake env lean --run Audit.lean Props.C07 C07`.
Loads the compiled module, lists every theorem whose name starts with the given namespace prefix
and that is declared in that module, and prints the axioms each depends on, one JSON line each:
  {"theorem": "C07.a_quadratic_form", "axioms": ["propext", ...]}
The harness parses this (obligations / discharged counts and the accepted-axiom check).
-/
import Lean

open Lean

instance : MonadEnv (StateM Environment) where
  getEnv := get
  modifyEnv f := modify f

unsafe def main (args : List String) : IO UInt32 := do
  let (modStr, pfx) ← match args with
    | [m, p] => pure (m, p)
    | _ => IO.eprintln "usage: Audit.lean <Module> <Namespace>"; return 2
  initSearchPath (← findSysroot)
  unsafe enableInitializersExecution
  let modName := modStr.splitOn "." |>.foldl (fun n s => Name.mkStr n s) Name.anonymous
  let env ← importModules #[{ module := modName }] {} (loadExts := true)
  let some modIdx := env.getModuleIdx? modName
    | IO.eprintln s!"module {modStr} not found"; return 2
  let pfxName := pfx.splitOn "." |>.foldl (fun n s => Name.mkStr n s) Name.anonymous
  let mut names : Array Name := #[]
  for (n, ci) in env.constants.map₁.toList do
    if env.getModuleIdxFor? n == some modIdx && pfxName.isPrefixOf n && !n.isInternal then
      match ci with
      | .thmInfo _ => names := names.push n
      | _ => pure ()
  let sorted := names.qsort (fun a b => a.toString < b.toString)
  for n in sorted do
    let (axsArr, _) := (collectAxioms (m := StateM Environment) n).run env
    let axs := axsArr.toList.map (fun a => a.toString)
    IO.println (Json.mkObj [("theorem", Json.str n.toString),
      ("axioms", Json.arr (axs.map Json.str).toArray)]).compress
  return 0
