/- Driver ops for C01 (slim/native). -/
import Driver.Loop
import Model.Slim

open Lean Model

namespace Driver.C01

def storedToJson (f : α → Json) : Impl.Stored α → Json
  | .slim v => obj [("stored", "slim"), ("values", listToJson f v)]
  | .native v => obj [("stored", "native"), ("values", listToJson f v)]

/-- run the constructor, then read `.slim` and `.native` off the stored structure -/
def convertGeneric (m : Mask) (form : String) (vals : List α) (storeNative skipMask : Bool)
    (zero : α) (f : α → Json) : Except String Json := do
  let inp : Impl.Input α ← match form with
    | "slim" => pure (.slim vals)
    | "native" => pure (.native vals)
    | _ => throw "bad form"
  match Impl.convertArray2d m inp storeNative skipMask zero with
  | none => throw "shape_mismatch"
  | some st =>
    let sl := Impl.viewSlim m st zero
    let na := Impl.viewNative m st zero
    match sl, na with
    | some (.slim s), some (.native n) =>
      pure (obj [("stored", storedToJson f st), ("slim", listToJson f s), ("native", listToJson f n)])
    | _, _ => throw "view_failed"

def nativeForSlim : Op := fun j => do
  let m ← getMask (← field j "mask")
  pure (listToJson pairToJson (Impl.nativeForSlim m))

def maskSlimIndexes : Op := fun j => do
  let m ← getMask (← field j "mask")
  let flag ← getBool (← field j "flag")
  pure (natsToJson (Impl.maskSlimIndexes m flag))

def totalPixels : Op := fun j => do
  let m ← getMask (← field j "mask")
  pure (natToJson (Impl.totalPixels m))

def arrayConvert : Op := fun j => do
  let m ← getMask (← field j "mask")
  let form ← getStr (← field j "form")
  let vals ← getRats (← field j "values")
  let sn ← getBool (← field j "store_native")
  let sk ← getBool (fieldD j "skip_mask" (Json.bool false))
  convertGeneric m form vals sn sk (0 : Rat) ratToJson

/-- grids / vector fields: element type is a (y,x) pair; the code gathers the two components
    separately with the array routine and stacks them — done literally here. -/
def gridConvert : Op := fun j => do
  let m ← getMask (← field j "mask")
  let form ← getStr (← field j "form")
  let vals ← getList getRats (← field j "values")
  let sn ← getBool (← field j "store_native")
  let ys := vals.map fun p => p.getD 0 0
  let xs := vals.map fun p => p.getD 1 0
  let run (c : List Rat) : Except String (List Rat × List Rat × String) := do
    let inp : Impl.Input Rat ← match form with
      | "slim" => pure (.slim c)
      | "native" => pure (.native c)
      | _ => throw "bad form"
    match Impl.convertArray2d m inp sn false (0 : Rat) with
    | none => throw "shape_mismatch"
    | some st =>
      match Impl.viewSlim m st 0, Impl.viewNative m st 0 with
      | some (.slim s), some (.native n) =>
        pure (s, n, match st with | .slim _ => "slim" | .native _ => "native")
      | _, _ => throw "view_failed"
  let (sy, ny, k) ← run ys
  let (sx, nx, _) ← run xs
  let zipj (a b : List Rat) : Json := listToJson (fun (p : Rat × Rat) => ratsToJson [p.1, p.2]) (a.zip b)
  pure (obj [("stored", Json.str k), ("slim", zipj sy sx), ("native", zipj ny nx)])

def array1d : Op := fun j => do
  let bits ← getStr (← field j "bits")
  let mask := bits.toList.map (· == '1')
  let vals ← getRats (← field j "values")
  let dir ← getStr (← field j "dir")
  match dir with
  | "slim_from" => pure (ratsToJson (Impl.slim1dFrom mask vals 0))
  | "native_from" => pure (ratsToJson (Impl.native1dFrom mask vals 0))
  | "native_for_slim" => pure (natsToJson (Impl.nativeForSlim1d mask))
  | _ => throw "bad dir"

/-- `Array1D(values, mask, store_native)` then `.slim` and `.native` -/
def array1dConvert : Op := fun j => do
  let bits ← getStr (← field j "bits")
  let mask := bits.toList.map (· == '1')
  let vals ← getRats (← field j "values")
  let sn ← getBool (← field j "store_native")
  match Impl.convertArray1d mask vals sn (0 : Rat) with
  | none => throw "shape_mismatch"
  | some st =>
    match Impl.viewSlim1d mask st 0, Impl.viewNative1d mask st 0 with
    | some sl, some na =>
      pure (obj [("stored", Json.str (match st with | .slim _ => "slim" | .native _ => "native")),
                 ("slim", ratsToJson sl.values), ("native", ratsToJson na.values)])
    | _, _ => throw "view_failed"

def ops : List (String × Op) :=
  [("c01.native_for_slim", nativeForSlim), ("c01.mask_slim_indexes", maskSlimIndexes),
   ("c01.total_pixels", totalPixels), ("c01.array_convert", arrayConvert),
   ("c01.grid_convert", gridConvert), ("c01.array1d", array1d),
   ("c01.array1d_convert", array1dConvert)]

end Driver.C01

def main : IO Unit := Driver.runLoop Driver.C01.ops
