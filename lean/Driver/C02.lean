/- Driver ops for C02 (pixel ↔ scaled coordinates, shape masks).  Everything runs on exact `Rat`:
   the geometry maps are rational functions, `int()` is `Model.truncRat`, and the shape constructors
   run in their polynomial form with `(cos φ, sin φ)` supplied by the harness as exact rationals. -/
import Driver.Loop
import Model.Geometry
import Model.MaskShapes

open Lean Model

namespace Driver.C02

def getPair (j : Json) : Except String (Rat × Rat) := do
  match (← getRats j) with
  | [a, b] => pure (a, b)
  | _ => throw "expected a pair"

def getShape (j : Json) : Except String (Nat × Nat) := do
  match (← getNats j) with
  | [a, b] => pure (a, b)
  | _ => throw "expected a shape pair"

def pairJ (p : Rat × Rat) : Json := ratsToJson [p.1, p.2]
def ipairJ (p : Int × Int) : Json := intsToJson [p.1, p.2]

/-- scalar geometry: central pixel / central scaled coordinates, minima, maxima, extent -/
def geometry : Op := fun j => do
  let shape ← getShape (← field j "shape")
  let s ← getPair (← field j "scales")
  let o ← getPair (← field j "origin")
  let e := Impl.extent shape s o
  pure (obj [
    ("central_pixel", pairJ (Impl.centralPixel2 shape)),
    ("central_scaled", pairJ (Impl.centralScaled2 shape s o)),
    ("minima", pairJ (Impl.scaledMinima shape s o)),
    ("maxima", pairJ (Impl.scaledMaxima shape s o)),
    ("shape_scaled", pairJ (Impl.shapeNativeScaled shape s)),
    ("extent", ratsToJson [e.1, e.2.1, e.2.2.1, e.2.2.2])])

/-- scaled → pixel, every code variant, on a list of query points -/
def pixelOfScaled : Op := fun j => do
  let shape ← getShape (← field j "shape")
  let s ← getPair (← field j "scales")
  let o ← getPair (← field j "origin")
  let pts ← getList getPair (← field j "points")
  pure (obj [
    ("pix_a", listToJson ipairJ (pts.map (Impl.pixelCoordinates2 truncRat shape s o))),
    ("centres", listToJson ipairJ (Impl.gridPixelCentres2 truncRat shape s o pts)),
    ("indexes", intsToJson (Impl.gridPixelIndexes2 truncRat shape s o pts)),
    ("pixels", listToJson pairJ (Impl.gridPixels2 shape s o pts)),
    ("roundtrip", listToJson pairJ (Impl.gridScaled2 shape s o (Impl.gridPixels2 shape s o pts))),
    -- `scaled_coordinate_2d_to_scaled_at_pixel_centre_from`: index, then back to the centre
    ("snap", listToJson pairJ (pts.map fun p =>
      let ij := Impl.pixelCoordinates2 truncRat shape s o p
      Impl.scaledCoordinates2 shape s o (((ij.1 : Int) : Rat), ((ij.2 : Int) : Rat))))])

/-- pixel → scaled on a list of (possibly fractional) pixel coordinates -/
def scaledOfPixel : Op := fun j => do
  let shape ← getShape (← field j "shape")
  let s ← getPair (← field j "scales")
  let o ← getPair (← field j "origin")
  let pix ← getList getPair (← field j "pixels")
  pure (obj [
    ("scaled", listToJson pairJ (pix.map (Impl.scaledCoordinates2 shape s o))),
    ("grid_scaled", listToJson pairJ (Impl.gridScaled2 shape s o pix)),
    ("roundtrip", listToJson pairJ (Impl.gridPixels2 shape s o (Impl.gridScaled2 shape s o pix)))])

/-- pixel centre → index → back, composed in the model, for every pixel of the frame (row-major) -/
def centreRoundtrip : Op := fun j => do
  let shape ← getShape (← field j "shape")
  let s ← getPair (← field j "scales")
  let o ← getPair (← field j "origin")
  pure (listToJson ipairJ ((pixels shape.1 shape.2).map fun p =>
    Impl.pixelCoordinates2 truncRat shape s o
      (Impl.scaledCoordinates2 shape s o (((p.1 : Nat) : Rat), ((p.2 : Nat) : Rat)))))

def gridViaMask : Op := fun j => do
  let m ← getMask (← field j "mask")
  let s ← getPair (← field j "scales")
  let o ← getPair (← field j "origin")
  pure (listToJson pairJ (Impl.grid2dSlimViaMask m s o))

def gridViaShape : Op := fun j => do
  let shape ← getShape (← field j "shape")
  let s ← getPair (← field j "scales")
  let o ← getPair (← field j "origin")
  pure (listToJson pairJ (Impl.grid2dSlimViaShape shape s o))

def grid1d : Op := fun j => do
  let bits ← getStr (← field j "bits")
  let mask := bits.toList.map (· == '1')
  let s ← getRat (← field j "scale")
  let o ← getRat (← field j "origin")
  let pts ← getRats (fieldD j "points" (Json.arr #[]))
  let pix ← getRats (fieldD j "pixels" (Json.arr #[]))
  let e := Impl.extent1 mask.length s o
  pure (obj [
    ("grid", ratsToJson (Impl.grid1dSlimViaMask mask s o)),
    ("uniform", ratsToJson (Impl.grid1dSlimViaShape mask.length s o)),
    ("extent", ratsToJson [e.1, e.2]),
    ("pix", intsToJson (pts.map (Impl.pixelCoordinates1 truncRat mask.length s o))),
    ("scaled", ratsToJson (pix.map (Impl.scaledCoordinates1 mask.length s o)))])

/-- the five shape constructors, polynomial form.  Returns the mask and, per pixel (row-major), the
    squared radial quantities the decision compares against the squared radii, so that the harness can
    leave decisions inside the property's 1e-9 tie band out of the comparison. -/
def maskShape : Op := fun j => do
  let kind ← getStr (← field j "kind")
  let shape ← getShape (← field j "shape")
  let s ← getPair (← field j "scales")
  let c ← getPair (← field j "centre")
  let r (k : String) : Except String Rat := do getRat (← field j k)
  let p (k : String) : Except String (Rat × Rat) := do getPair (← field j k)
  let out (m : Mask) (qs : List (List Rat)) : Json :=
    obj [("mask", maskToJson m), ("quantities", listToJson ratsToJson qs)]
  match kind with
  | "circular" =>
    pure (out (Impl.maskCircular shape s c (← r "radius")) [Impl.shapeQuantities shape s c Impl.r2])
  | "annular" =>
    pure (out (Impl.maskAnnular shape s c (← r "inner") (← r "outer"))
      [Impl.shapeQuantities shape s c Impl.r2])
  | "anti_annular" =>
    pure (out (Impl.maskAntiAnnular shape s c (← r "inner") (← r "outer") (← r "outer2"))
      [Impl.shapeQuantities shape s c Impl.r2])
  | "elliptical" =>
    let q ← r "axis_ratio"
    let cs ← p "cs"
    if q == 0 then throw "zero_axis_ratio"
    pure (out (Impl.maskElliptical shape s c (← r "major") q cs)
      [Impl.shapeQuantities shape s c (Impl.ellR2 cs q)])
  | "elliptical_annular" =>
    let qi ← r "inner_axis_ratio"
    let qo ← r "outer_axis_ratio"
    let csi ← p "inner_cs"
    let cso ← p "outer_cs"
    if qi == 0 || qo == 0 then throw "zero_axis_ratio"
    pure (out (Impl.maskEllipticalAnnular shape s c (← r "inner_major") qi csi (← r "outer_major") qo cso)
      [Impl.shapeQuantities shape s c (Impl.ellR2 csi qi),
       Impl.shapeQuantities shape s c (Impl.ellR2 cso qo)])
  | _ => throw "bad kind"

def ops : List (String × Op) :=
  [("c02.geometry", geometry), ("c02.pixel_of_scaled", pixelOfScaled),
   ("c02.scaled_of_pixel", scaledOfPixel), ("c02.centre_roundtrip", centreRoundtrip),
   ("c02.grid_via_mask", gridViaMask),
   ("c02.grid_via_shape", gridViaShape), ("c02.grid1d", grid1d), ("c02.mask_shape", maskShape)]

end Driver.C02

def main : IO Unit := Driver.runLoop Driver.C02.ops
