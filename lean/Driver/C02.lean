/- Driver ops for C02. -/
import Driver.Loop

open Lean Model

namespace Driver.C02

def ops : List (String × Op) := []

end Driver.C02

def main : IO Unit := Driver.runLoop Driver.C02.ops
