/- Driver ops for C02. -/
import Driver.Json

open Lean Model

namespace Driver.C02

def ops : List (String × Op) := []

end Driver.C02
