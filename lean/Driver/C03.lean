/- Driver ops for C03. -/
import Driver.Loop

open Lean Model

namespace Driver.C03

def ops : List (String × Op) := []

end Driver.C03

def main : IO Unit := Driver.runLoop Driver.C03.ops
