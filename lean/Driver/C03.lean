/- Driver ops for C03. -/
import Driver.Json

open Lean Model

namespace Driver.C03

def ops : List (String × Op) := []

end Driver.C03
