/- Driver ops for C03 (masked PSF convolution). -/
import Driver.Loop
import Model.Convolution

open Lean Model

namespace Driver.C03

def getKernel (j : Json) : Except String (Kernel Rat) := do
  let h ← getNat (← field j "h")
  let w ← getNat (← field j "w")
  let vals ← getRats (← field j "vals")
  if vals.length ≠ h * w then throw "kernel length mismatch"
  pure { h := h, w := w, vals := vals }

def mkConvolver (m : Mask) (K : Kernel Rat) : Except String (Impl.Convolver Rat) :=
  match Impl.convolver m K with
  | .error .evenKernel => throw "even_kernel"
  | .error .footprintOutside => throw "footprint_outside"
  | .ok cv => pure cv

/-- {"op":"c03.convolve","mask":…,"kernel":{h,w,vals},"image":[native…],"blur":[native…]}
    → convolve_image(Array2D(image, mask), Array2D(blur, blurring_mask)) and the no-blurring twin -/
def convolve : Op := fun j => do
  let m ← getMask (← field j "mask")
  let K ← getKernel (← field j "kernel")
  let a ← getRats (← field j "image")
  let b ← getRats (← field j "blur")
  if a.length ≠ m.h * m.w ∨ b.length ≠ m.h * m.w then throw "shape_mismatch"
  let cv ← mkConvolver m K
  let img := Impl.slimFrom m a (0 : Rat)
  let blur := Impl.slimFrom cv.blurringMask b (0 : Rat)
  pure (obj [("blurred", ratsToJson (Impl.convolve cv img blur)),
             ("no_blurring", ratsToJson (Impl.convolveNoBlurring cv img)),
             ("blurring_mask", bitsToJson cv.blurringMask.bits)])

/-- {"op":"c03.convolve_matrix","mask":…,"kernel":…,"matrix":[[row]…],"ncols":n} -/
def convolveMatrix : Op := fun j => do
  let m ← getMask (← field j "mask")
  let K ← getKernel (← field j "kernel")
  let M ← getRatMat (← field j "matrix")
  let ncols ← getNat (← field j "ncols")
  let cv ← mkConvolver m K
  if M.length ≠ cv.pixelsInMask then throw "shape_mismatch"
  pure (ratMatToJson (Impl.convolveMatrix cv M.length ncols M))

/-- {"op":"c03.conv_same","h":…,"w":…,"kernel":…,"image":[native…]} — contract of scipy convolve2d -/
def convSame : Op := fun j => do
  let h ← getNat (← field j "h")
  let w ← getNat (← field j "w")
  let K ← getKernel (← field j "kernel")
  let a ← getRats (← field j "image")
  if a.length ≠ h * w then throw "shape_mismatch"
  match Spec.convSame h w K a with
  | none => throw "even_kernel"
  | some r => pure (ratsToJson r)

def ops : List (String × Op) :=
  [("c03.convolve", convolve), ("c03.convolve_matrix", convolveMatrix), ("c03.conv_same", convSame)]

end Driver.C03

def main : IO Unit := Driver.runLoop Driver.C03.ops
