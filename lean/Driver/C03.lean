/- Driver ops for C03 (masked PSF convolution). -/
import Driver.Loop
import Model.Convolution
import Model.ConvolutionPipeline

open Lean Model

namespace Driver.C03

def getKernel (j : Json) : Except String (Kernel Rat) := do
  let h ← getNat (← field j "h")
  let w ← getNat (← field j "w")
  let vals ← getRats (← field j "vals")
  if vals.length ≠ h * w then throw "kernel length mismatch"
  pure { h := h, w := w, vals := vals }

def mkConvolver (m : Mask) (K : Kernel Rat) : Except String (Impl.Convolver Rat) :=
  match Impl.convolver m K with
  | .error .evenKernel => throw "even_kernel"
  | .error .footprintOutside => throw "footprint_outside"
  | .ok cv => pure cv

/-- {"op":"c03.convolve","mask":…,"kernel":{h,w,vals},"image":[native…],"blur":[native…]}
    → convolve_image(Array2D(image, mask), Array2D(blur, blurring_mask)) and the no-blurring twin -/
def convolve : Op := fun j => do
  let m ← getMask (← field j "mask")
  let K ← getKernel (← field j "kernel")
  let a ← getRats (← field j "image")
  let b ← getRats (← field j "blur")
  if a.length ≠ m.h * m.w ∨ b.length ≠ m.h * m.w then throw "shape_mismatch"
  let cv ← mkConvolver m K
  let img := Impl.slimFrom m a (0 : Rat)
  let blur := Impl.slimFrom cv.blurringMask b (0 : Rat)
  pure (obj [("blurred", ratsToJson (Impl.convolve cv img blur)),
             ("no_blurring", ratsToJson (Impl.convolveNoBlurring cv img)),
             ("blurring_mask", bitsToJson cv.blurringMask.bits)])

/-- {"op":"c03.convolve_matrix","mask":…,"kernel":…,"matrix":[[row]…],"ncols":n} -/
def convolveMatrix : Op := fun j => do
  let m ← getMask (← field j "mask")
  let K ← getKernel (← field j "kernel")
  let M ← getRatMat (← field j "matrix")
  let ncols ← getNat (← field j "ncols")
  let cv ← mkConvolver m K
  if M.length ≠ cv.pixelsInMask then throw "shape_mismatch"
  pure (ratMatToJson (Impl.convolveMatrix cv M.length ncols M))

/-- {"op":"c03.conv_same","h":…,"w":…,"kernel":…,"image":[native…]} — contract of scipy convolve2d -/
def convSame : Op := fun j => do
  let h ← getNat (← field j "h")
  let w ← getNat (← field j "w")
  let K ← getKernel (← field j "kernel")
  let a ← getRats (← field j "image")
  if a.length ≠ h * w then throw "shape_mismatch"
  -- Kernel2D.convolved_array_from on an unmasked Array2D (native = slim on the all-False mask)
  match Impl.convolvedArrayFrom Spec.convSameFn K (Mask.allFalse h w) a with
  | none => throw "even_kernel"
  | some r =>
    match j.getObjVal? "gather_mask" with
    | .error _ => pure (obj [("same", ratsToJson r)])
    | .ok mj =>
      let gm ← getMask mj
      match Impl.convolvedArrayWithMaskFrom Spec.convSameFn K a gm with
      | none => throw "even_kernel"
      | some r2 => pure (obj [("same", ratsToJson r), ("same_masked", ratsToJson r2)])

/-- {"op":"c03.simulate_fit","mask":…,"kernel":…,"image":[native…],"normalize_psf":b,
     "background":"q","exposure":"q","subtract_background":b[,"pre_repair":b]}
    → the composed SimulatorImaging → apply_mask → convolver → residual pipeline -/
def simulateFit : Op := fun j => do
  let m ← getMask (← field j "mask")
  let K ← getKernel (← field j "kernel")
  let a ← getRats (← field j "image")
  let norm ← getBool (← field j "normalize_psf")
  let bg ← getRat (fieldD j "background" (Json.str "0"))
  let ex ← getRat (fieldD j "exposure" (Json.str "1"))
  let sub ← getBool (fieldD j "subtract_background" (Json.bool true))
  let pre ← getBool (fieldD j "pre_repair" (Json.bool false))
  if a.length ≠ m.h * m.w then throw "shape_mismatch"
  match Impl.simulateAndFitWith (!pre) Spec.convSameFn ex bg sub K norm (1 / 10 : Rat) m a with
  | .error .evenKernel => throw "even_kernel"
  | .error .padded => throw "padded"
  | .error .footprintOutside => throw "footprint_outside"
  | .ok o =>
    pure (obj [("simulated", ratsToJson o.simulated), ("data", ratsToJson o.data),
               ("psf", ratsToJson o.psf.vals), ("model", ratsToJson o.model),
               ("residual", ratsToJson o.residual)])

def ops : List (String × Op) :=
  [("c03.convolve", convolve), ("c03.convolve_matrix", convolveMatrix), ("c03.conv_same", convSame),
   ("c03.simulate_fit", simulateFit)]

end Driver.C03

def main : IO Unit := Driver.runLoop Driver.C03.ops
