/- Driver ops for C04 (normal equations in the mapping and the w-tilde formalism). -/
import Driver.Loop
import Model.NormalEq

open Lean Model

namespace Driver.C04

def getPair (j : Json) : Except String (Nat × Rat) := do
  match (← getArr j) with
  | [a, b] => pure ((← getNat a), (← getRat b))
  | _ => throw "expected [index, value]"

def getRows (j : Json) : Except String (Rows Rat) := getList (getList getPair) j

def rowsToJson (r : Rows Rat) : Json :=
  listToJson (listToJson fun (e : Nat × Rat) => Json.arr #[natToJson e.1, ratToJson e.2]) r

def getKernel (j : Json) : Except String (Kernel Rat) := do
  let kh ← getNat (← field j "kh")
  let kw ← getNat (← field j "kw")
  let vals ← getRats (← field j "vals")
  if vals.length ≠ kh * kw then throw "kernel length mismatch"
  pure { kh := kh, kw := kw, vals := vals }

def getObj (j : Json) : Except String (LinObj Rat) := do
  let kind ← getStr (← field j "kind")
  let hasReg ← getBool (← field j "has_reg")
  match kind with
  | "mapper" =>
    let t : MapperTables Rat := {
      pixels := ← getNat (← field j "pixels")
      subRows := ← getRows (← field j "sub_rows")
      slimForSub := ← getNats (← field j "slim_for_sub")
      subFraction := ← getRats (← field j "sub_fraction")
      subSize := ← getNats (← field j "sub_size") }
    pure (.mapper t hasReg)
  | "func" =>
    let p ← getNat (← field j "params")
    let M ← getRatMat (← field j "matrix")
    pure (.funcList p M hasReg)
  | _ => throw "bad object kind"

def getDataset (j : Json) : Except String (Dataset Rat) := do
  let m ← getMask (← field j "mask")
  let K ← getKernel (← field j "kernel")
  let d ← getRats (← field j "data")
  let nz ← getRats (← field j "noise")
  let n := (Impl.nativeForSlim m).length
  if d.length ≠ n ∨ nz.length ≠ n then throw "shape_mismatch"
  if K.kh % 2 = 0 ∨ K.kw % 2 = 0 then throw "even_kernel"
  pure { mask := m, kernel := K, data := d, noise := nz }

def matToJson (M : Mat Rat) : Json := ratMatToJson M.toLists

def paddedToJson (p : Impl.Padded Rat) : Json :=
  obj [("data_to_pix_unique", listToJson intsToJson p.idx), ("data_weights", ratMatToJson p.val),
       ("pix_lengths", natsToJson p.len)]

def getPadded (j : Json) : Except String (Impl.Padded Rat) := do
  pure { idx := ← getList getInts (← field j "data_to_pix_unique")
         val := ← getRatMat (← field j "data_weights")
         len := ← getNats (← field j "pix_lengths") }

def flatToJson (q : Impl.PreloadFlat Rat) : Json :=
  obj [("curvature_preload", ratsToJson q.preload), ("curvature_indexes", natsToJson q.indexes),
       ("curvature_lengths", natsToJson q.lengths)]

def getFlat (j : Json) : Except String (Impl.PreloadFlat Rat) := do
  pure { preload := ← getRats (← field j "curvature_preload")
         indexes := ← getNats (← field j "curvature_indexes")
         lengths := ← getNats (← field j "curvature_lengths") }
def vecToJson (v : Vec Rat) : Json := ratsToJson v.toList

/-- exact solution of `A x = b` by Gauss–Jordan elimination with first-non-zero pivoting
    (the contract assumed of `numpy.linalg.solve`); `none` = singular. -/
def solve (A : List (List Rat)) (b : List Rat) : Option (List Rat) := Id.run do
  let n := b.length
  let mut M : Array (Array Rat) := (A.zip b).toArray.map fun (r, bi) => (r ++ [bi]).toArray
  for col in [0:n] do
    let mut piv := n
    for r in [col:n] do
      if piv = n ∧ (M[r]!)[col]! ≠ 0 then piv := r
    if piv = n then return none
    let tmp := M[col]!
    M := M.set! col (M[piv]!)
    M := M.set! piv tmp
    let p := (M[col]!)[col]!
    M := M.set! col ((M[col]!).map (· / p))
    for r in [0:n] do
      if r ≠ col then
        let f := (M[r]!)[col]!
        if f ≠ 0 then
          let rowc := M[col]!
          M := M.set! r ((M[r]!).mapIdx fun k x => x - f * rowc[k]!)
  return some ((List.range n).map fun r => (M[r]!)[n]!)

/-- the factory's choice (`inversion_imaging_from`): w-tilde only when requested and at least one
    object is not a function list -/
def usesWTilde (useWTilde : Bool) (objs : List (LinObj Rat)) : Bool :=
  useWTilde && !(objs.all fun o => !o.isMapper)

/-- the whole inversion, observable level -/
def inversion : Op := fun j => do
  let ds ← getDataset j
  let objs ← getList getObj (← field j "objs")
  let eps ← getRat (← field j "eps")
  let useW ← getBool (← field j "use_w_tilde")
  let wt := usesWTilde useW objs
  let n := (Impl.nativeForSlim ds.mask).length
  let opList := Impl.operatedList ds objs
  let B := Impl.operatedMappingMatrix ds objs
  -- the w-tilde side runs the transliterated dispatcher (`none` = the Python would fail on `None`)
  let D ← if wt then
      match Impl.dataVectorWTDispatchP ds objs with
      | some v => pure v
      | none => throw "no_mapper"
    else pure (Impl.dataVectorMap ds objs)
  let F ← if wt then
      match Impl.curvatureWTDispatchP ds objs eps with
      | some m => pure m
      | none => throw "no_mapper"
    else pure (Impl.curvatureMap ds objs eps)
  let mut out : List (String × Json) :=
    [("formalism", Json.str (if wt then "w_tilde" else "mapping")),
     ("operated_mapping_matrix", matToJson B),
     ("data_vector", vecToJson D), ("curvature_matrix", matToJson F)]
  -- reconstruction (optional): solve (F + H) s = D exactly, then map back to the image plane
  match (j.getObjVal? "reg_matrix").toOption with
  | none => pure ()
  | some hj =>
    let H ← getRatMat hj
    let FH := (F.toLists.zip H).map fun (r, hr) => (r.zip hr).map fun (a, b) => a + b
    match solve FH D.toList with
    | none => out := out ++ [("reconstruction", Json.str "singular")]
    | some s =>
      let rs := Impl.paramRanges objs
      let fr := Impl.frames ds.mask ds.kernel
      let parts : List (List Rat) := (objs.zip (rs.zip opList)).map fun (o, (r, Bo)) =>
        let so := (s.drop r.1).take (r.2 - r.1)
        if wt then
          match o with
          | .mapper t _ =>
            (Impl.convolveNoBlurring fr (Impl.mappedViaUniqueP (Impl.uniqueFromPadded t n) so).toList).toList
          | .funcList _ _ _ => (Impl.mappedViaMatrix Bo so).toList
        else (Impl.mappedViaMatrix Bo so).toList
      let total := parts.foldl (fun acc p => (acc.zip p).map fun (a, b) => a + b)
        (List.replicate n (0 : Rat))
      out := out ++ [("reconstruction", ratsToJson s), ("mapped_reconstructed_data", ratsToJson total)]
  pure (obj out)

/-- util level: the w-tilde tables and the per-mapper quantities -/
def wtildeUtils : Op := fun j => do
  let ds ← getDataset j
  let n := (Impl.nativeForSlim ds.mask).length
  let wtd := Impl.wTildeDataOf ds
  let pre := Impl.wTildePreloadOf ds
  let idx := Impl.nativeForSlim ds.mask
  let nn := Impl.nativeFrom ds.mask ds.noise 0
  let full : List (List Rat) := idx.map fun a => idx.map fun b =>
    Impl.wTildeCurvatureValue ds.mask.w nn ds.kernel a b
  let mut out : List (String × Json) :=
    [("w_tilde_data", ratsToJson wtd), ("preload", rowsToJson pre), ("w_tilde", ratMatToJson full)]
  match (j.getObjVal? "mapper").toOption with
  | none => pure ()
  | some mj =>
    match (← getObj mj) with
    | .mapper t _ =>
      let U := Impl.uniqueFrom t n
      out := out ++ [("unique_stored", paddedToJson (Impl.uniqueFromPadded t n)),
        ("preload_stored", flatToJson (Impl.wTildePreloadFlatOf ds)),
        ("unique", rowsToJson U),
        ("mapping_matrix", matToJson (Impl.mappingMatrixFrom t n)),
        ("data_vector", vecToJson (Impl.dataVectorWTilde wtd U t.pixels)),
        ("curvature", matToJson (Impl.curvatureFromPreload pre U t.pixels))]
    | _ => throw "expected mapper"
  -- consume the tables exactly as the implementation returned them
  match (j.getObjVal? "impl_unique").toOption, (j.getObjVal? "impl_preload").toOption with
  | some uj, some pj =>
    let p ← getPadded uj
    let q ← getFlat pj
    let pix ← getNat (← field j "pix_pixels")
    out := out ++ [("data_vector_from_impl_tables", vecToJson (Impl.dataVectorWTildeP wtd p pix)),
      ("curvature_from_impl_tables", matToJson (Impl.curvatureFromPreloadP q p pix))]
  | _, _ => pure ()
  pure (obj out)

def mirrored : Op := fun j => do
  let rows ← getRatMat (← field j "matrix")
  let n := rows.length
  pure (matToJson (Impl.mirrored (Mat.ofLists n n rows)))

def frames : Op := fun j => do
  let m ← getMask (← field j "mask")
  let K ← getKernel (← field j "kernel")
  pure (rowsToJson (Impl.frames m K))

def ops : List (String × Op) :=
  [("c04.inversion", inversion), ("c04.wtilde_utils", wtildeUtils), ("c04.mirrored", mirrored),
   ("c04.frames", frames)]

end Driver.C04

def main : IO Unit := Driver.runLoop Driver.C04.ops
