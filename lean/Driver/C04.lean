/- Driver ops for C04. -/
import Driver.Json

open Lean Model

namespace Driver.C04

def ops : List (String × Op) := []

end Driver.C04
