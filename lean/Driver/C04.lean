/- Driver ops for C04. -/
import Driver.Loop

open Lean Model

namespace Driver.C04

def ops : List (String × Op) := []

end Driver.C04

def main : IO Unit := Driver.runLoop Driver.C04.ops
