/- Driver ops for C05. -/
import Driver.Json

open Lean Model

namespace Driver.C05

def ops : List (String × Op) := []

end Driver.C05
