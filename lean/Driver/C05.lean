/- Driver ops for C05 (non-negative least-squares reconstruction).  Exact `Rat` arithmetic throughout;
   the linear solver parameter of the model is instantiated with `Model.checkedSolve`. -/
import Driver.Loop
import Model.NNLS

open Lean Model

namespace Driver.C05

def rsolve : List (List Rat) → List Rat → Option (List Rat) := checkedSolve

def errName : Impl.Err → String
  | .singular => "singular"
  | .runtime => "runtime"
  | .fuel => "fuel"
  | .degenerate => "degenerate"
  | .empty => "empty"

def exitName : Impl.Exit → String
  | .main => "main"
  | .noUpdate => "no_update"

/-- `{"op":"c05.solve","A":[[..]],"b":[..]}` → x with A x = b, or err singular -/
def solveOp : Op := fun j => do
  let A ← getRatMat (← field j "A")
  let b ← getRats (← field j "b")
  match rsolve A b with
  | none => throw "singular"
  | some x => pure (ratsToJson x)

def getPInit (j : Json) : Except String (Option (List Nat)) :=
  match fieldD j "p_init" Json.null with
  | .null => pure none
  | v => do pure (some (← getNats v))

/-- `fnnls_cholesky(ZTZ, ZTx, P_initial)`; `tol` = 2.2204e-16·n, `max_iter` = 10000 -/
def fnnlsOp : Op := fun j => do
  let A ← getRatMat (← field j "A")
  let b ← getRats (← field j "b")
  let tol ← getRat (← field j "tol")
  let maxIter ← getNat (fieldD j "max_iter" (natToJson 10000))
  let p ← getPInit j
  match Impl.fnnls rsolve A b tol maxIter p with
  | .err e => throw (errName e)
  | .ok d ex lc lc2 =>
    pure (obj [("d", ratsToJson d), ("exit", Json.str (exitName ex)), ("loop_count", natToJson lc),
      ("loop_count2", natToJson lc2), ("kkt", Json.bool (Spec.isKKTb A b d tol)),
      ("kkt0", Json.bool (Spec.isKKTb A b d 0))])

def getRange (j : Json) : Except String (Nat × Nat) := do
  match ← getNats j with
  | [a, b] => pure (a, b)
  | _ => throw "bad range"

/-- AbstractInversion.reconstruction on a given system with the given settings -/
def reconstructionOp : Op := fun j => do
  let A ← getRatMat (← field j "A")
  let b ← getRats (← field j "b")
  let eps ← getRat (← field j "eps")
  let atol ← getRat (fieldD j "atol" (Json.str "1/100000000"))
  let rtol ← getRat (fieldD j "rtol" (Json.str "1/100000"))
  let maxIter ← getNat (fieldD j "max_iter" (natToJson 10000))
  let usePos ← getBool (← field j "use_positive_only_solver")
  let usePInit ← getBool (← field j "positive_only_uses_p_initial")
  let forceEdge ← getBool (← field j "force_edge_pixels_to_zeros")
  let forceEdgeImage ← getBool (fieldD j "force_edge_image_pixels_to_zeros" (Json.bool false))
  let check ← getBool (fieldD j "check_reconstruction" (Json.bool true))
  let edge ← getNats (fieldD j "edge" (Json.arr #[]))
  let zero ← getNats (fieldD j "zero" (Json.arr #[]))
  let ranges ← getList getRange (fieldD j "mapper_ranges" (Json.arr #[]))
  match Impl.reconstruction rsolve eps atol rtol maxIter usePos usePInit forceEdge forceEdgeImage check
      edge zero ranges A b with
  | .error e => throw (errName e)
  | .ok s => pure (ratsToJson s)

/-- per-object mapped data and their sum: `{"Bs":[B_obj…], "s":[…], "m": rows}` -/
def mappedDataOp : Op := fun j => do
  let Bs ← getList getRatMat (← field j "Bs")
  let s ← getRats (← field j "s")
  let m ← getNat (← field j "m")
  let imgs := Impl.mappedDataDict Bs s
  pure (obj [("dict", listToJson ratsToJson imgs), ("total", ratsToJson (Impl.mappedData m imgs))])

def ops : List (String × Op) :=
  [("c05.solve", solveOp), ("c05.fnnls", fnnlsOp), ("c05.reconstruction", reconstructionOp),
   ("c05.mapped_data", mappedDataOp)]

end Driver.C05

def main : IO Unit := Driver.runLoop Driver.C05.ops
