/- Driver ops for C05. -/
import Driver.Loop

open Lean Model

namespace Driver.C05

def ops : List (String × Op) := []

end Driver.C05

def main : IO Unit := Driver.runLoop Driver.C05.ops
