/- Driver ops for C05 (non-negative least-squares reconstruction).  Exact `Rat` arithmetic throughout;
   the linear solver parameter of the model is instantiated with `Model.checkedSolve`.
   The Cholesky bookkeeping ops (`c05.cholupdate|cholinsertlast|choldelete|cho_solve|cholesky|chol_seq|
   fnnls_chol`, Model/Cholesky.lean) run either in `Float` with `Float.sqrt` (`"num":"float"`, the default)
   or in exact `Rat` with the exact root of rational squares (`"num":"rat"`; an irrational root is reported
   as `{"err":"irrational"}` after an exact check of the result). -/
import Driver.Loop
import Model.NNLS
import Model.Cholesky

open Lean Model

namespace Driver.C05

def rsolve : List (List Rat) → List Rat → Option (List Rat) := checkedSolve

def errName : Impl.Err → String
  | .singular => "singular"
  | .runtime => "runtime"
  | .fuel => "fuel"
  | .degenerate => "degenerate"
  | .empty => "empty"

def exitName : Impl.Exit → String
  | .main => "main"
  | .noUpdate => "no_update"

/-- `{"op":"c05.solve","A":[[..]],"b":[..]}` → x with A x = b, or err singular -/
def solveOp : Op := fun j => do
  let A ← getRatMat (← field j "A")
  let b ← getRats (← field j "b")
  match rsolve A b with
  | none => throw "singular"
  | some x => pure (ratsToJson x)

def getPInit (j : Json) : Except String (Option (List Nat)) :=
  match fieldD j "p_init" Json.null with
  | .null => pure none
  | v => do pure (some (← getNats v))

/-- `fnnls_cholesky(ZTZ, ZTx, P_initial)`; `tol` = 2.2204e-16·n, `max_iter` = 10000 -/
def fnnlsOp : Op := fun j => do
  let A ← getRatMat (← field j "A")
  let b ← getRats (← field j "b")
  let tol ← getRat (← field j "tol")
  let maxIter ← getNat (fieldD j "max_iter" (natToJson 10000))
  let p ← getPInit j
  match Impl.fnnls rsolve A b tol maxIter p with
  | .err e => throw (errName e)
  | .ok d ex lc lc2 =>
    pure (obj [("d", ratsToJson d), ("exit", Json.str (exitName ex)), ("loop_count", natToJson lc),
      ("loop_count2", natToJson lc2), ("kkt", Json.bool (Spec.isKKTb A b d tol)),
      ("kkt0", Json.bool (Spec.isKKTb A b d 0))])

def getRange (j : Json) : Except String (Nat × Nat) := do
  match ← getNats j with
  | [a, b] => pure (a, b)
  | _ => throw "bad range"

/-- AbstractInversion.reconstruction on a given system with the given settings -/
def reconstructionOp : Op := fun j => do
  let A ← getRatMat (← field j "A")
  let b ← getRats (← field j "b")
  let eps ← getRat (← field j "eps")
  let atol ← getRat (fieldD j "atol" (Json.str "1/100000000"))
  let rtol ← getRat (fieldD j "rtol" (Json.str "1/100000"))
  let maxIter ← getNat (fieldD j "max_iter" (natToJson 10000))
  let usePos ← getBool (← field j "use_positive_only_solver")
  let usePInit ← getBool (← field j "positive_only_uses_p_initial")
  let forceEdge ← getBool (← field j "force_edge_pixels_to_zeros")
  let forceEdgeImage ← getBool (fieldD j "force_edge_image_pixels_to_zeros" (Json.bool false))
  let check ← getBool (fieldD j "check_reconstruction" (Json.bool true))
  let edge ← getNats (fieldD j "edge" (Json.arr #[]))
  let zero ← getNats (fieldD j "zero" (Json.arr #[]))
  let ranges ← getList getRange (fieldD j "mapper_ranges" (Json.arr #[]))
  match Impl.reconstruction rsolve eps atol rtol maxIter usePos usePInit forceEdge forceEdgeImage check
      edge zero ranges A b with
  | .error e => throw (errName e)
  | .ok s => pure (ratsToJson s)

/-- per-object mapped data and their sum: `{"Bs":[B_obj…], "s":[…], "m": rows}` -/
def mappedDataOp : Op := fun j => do
  let Bs ← getList getRatMat (← field j "Bs")
  let s ← getRats (← field j "s")
  let m ← getNat (← field j "m")
  let imgs := Impl.mappedDataDict Bs s
  pure (obj [("dict", listToJson ratsToJson imgs), ("total", ratsToJson (Impl.mappedData m imgs))])

/-! ### Cholesky bookkeeping (Model/Cholesky.lean) -/

/-- number I/O for the two instantiations -/
structure NumIO (α : Type) where
  get : Json → Except String α
  put : α → Json

def floatIO : NumIO Float := ⟨getFloat, floatToJson⟩
def ratIO : NumIO Rat := ⟨getRat, ratToJson⟩

def natSqrt (n : Nat) : Nat := Id.run do
  if n < 2 then return n
  let mut x := 2 ^ (n.log2 / 2 + 1)
  for _ in [0:4 * n.log2 + 8] do
    let y := (x + n / x) / 2
    if y < x then x := y else break
  return x

/-- exact root of a rational square; `-1` otherwise (the ops check their result exactly and report
    `irrational`) -/
def ratSqrt (x : Rat) : Rat :=
  if x < 0 then -1
  else
    let a := natSqrt x.num.toNat
    let b := natSqrt x.den
    if a * a == x.num.toNat && b * b == x.den then mkRat a b else -1

section Generic
variable {α : Type} [Add α] [Sub α] [Mul α] [Div α] [OfNat α 0] [LT α] [DecidableLT α]

def getMat (io : NumIO α) (j : Json) : Except String (List (List α)) := getList (getList io.get) j
def putMat (io : NumIO α) (m : List (List α)) : Json := listToJson (listToJson io.put) m
def putVec (io : NumIO α) (v : List α) : Json := listToJson io.put v

/-- `UᵀU` as an array -/
def gramMat (U : List (List α)) : List (List α) :=
  (List.range U.length).map fun i => (List.range U.length).map fun j => Spec.gram U i j

/-- one recorded stage of `chol_seq` -/
def stageJson (io : NumIO α) (U : List (List α)) (P : List Nat) (x : List α) : Json :=
  obj [("U", putMat io U), ("P", natsToJson P), ("x", putVec io x)]

/-- the calls `fnnls_cholesky` makes on its factor, in sequence: `inserts` (one `cholinsertlast(U,
    ZTZ[i][P_inorder])` each, from the empty factor), then one `choldeleteindexes(U, dels)` +
    `np.delete(P_inorder, dels)` per entry of `deletes`; after every step `cho_solve((U, False), ZTx[P_inorder])`.
    `check` validates a stage exactly (Rat mode). -/
def cholSeq (io : NumIO α) (sqrt : α → α) (check : List (List α) → List Nat → Bool)
    (A : List (List α)) (b : List α) (inserts : List Nat) (deletes : List (List Nat)) :
    Except String (List Json) := do
  let mut U : List (List α) := []
  let mut P : List Nat := []
  let mut out : List Json := []
  for i in inserts do
    let P' := P ++ [i]
    match Impl.cholinsertlast sqrt U (gather (A.getD i []) P') with
    | none => throw "domain"
    | some S =>
      U := S
      P := P'
      if !(check U P) then throw "irrational"
      out := out ++ [stageJson io U P (Impl.choSolve U (gather b P))]
  for dels in deletes do
    U := Impl.choldeleteindexes sqrt U dels
    P := Impl.npDelete P dels
    if !(check U P) then throw "irrational"
    out := out ++ [stageJson io U P (Impl.choSolve U (gather b P))]
  pure out

end Generic

def ratFactorOK (A : List (List Rat)) (U : List (List Rat)) (P : List Nat) : Bool :=
  gramMat U == subMat A P && (List.range U.length).all fun i => decide (0 < mget U i i)

def isRat (j : Json) : Bool :=
  match fieldD j "num" (Json.str "float") with
  | .str "rat" => true
  | _ => false

/-- `{"op":"c05.cholupdate","U":[[..]],"x":[..],"num":"float"|"rat"}` → `_cholupdate(U, x)` -/
def cholupdateOp : Op := fun j => do
  if isRat j then
    let U ← getMat ratIO (← field j "U")
    let x ← getRats (← field j "x")
    let U' := Impl.cholupdate ratSqrt U x
    let want := (List.range U.length).map fun i => (List.range U.length).map fun k =>
      Spec.gram U i k + vget x i * vget x k
    if gramMat U' != want then throw "irrational"
    pure (putMat ratIO U')
  else
    let U ← getMat floatIO (← field j "U")
    let x ← getFloats (← field j "x")
    pure (putMat floatIO (Impl.cholupdate Float.sqrt U x))

/-- `cholinsertlast(U, x)`; `{"err":"domain"}` = `math.sqrt` domain error -/
def cholinsertlastOp : Op := fun j => do
  if isRat j then
    let U ← getMat ratIO (← field j "U")
    let x ← getRats (← field j "x")
    match Impl.cholinsertlast ratSqrt U x with
    | none => throw "domain"
    | some S =>
      let n := U.length
      let S12 := Impl.solveUT U (x.take n)
      if mget S n n * mget S n n != vget x n - dot S12 S12 || mget S n n < 0 then throw "irrational"
      pure (putMat ratIO S)
  else
    let U ← getMat floatIO (← field j "U")
    let x ← getFloats (← field j "x")
    match Impl.cholinsertlast Float.sqrt U x with
    | none => throw "domain"
    | some S => pure (putMat floatIO S)

/-- `choldeleteindexes(U, indexes)` -/
def choldeleteOp : Op := fun j => do
  let dels ← getNats (← field j "indexes")
  if isRat j then
    let U ← getMat ratIO (← field j "U")
    let U' := Impl.choldeleteindexes ratSqrt U dels
    let keep := Impl.npDelete (List.range U.length) dels
    let want := keep.map fun i => keep.map fun k => Spec.gram U i k
    if gramMat U' != want then throw "irrational"
    pure (putMat ratIO U')
  else
    let U ← getMat floatIO (← field j "U")
    pure (putMat floatIO (Impl.choldeleteindexes Float.sqrt U dels))

/-- `scipy.linalg.cho_solve((U, False), b)` -/
def choSolveOp : Op := fun j => do
  if isRat j then
    let U ← getMat ratIO (← field j "U")
    let b ← getRats (← field j "b")
    pure (ratsToJson (Impl.choSolve U b))
  else
    let U ← getMat floatIO (← field j "U")
    let b ← getFloats (← field j "b")
    pure (floatsToJson (Impl.choSolve U b))

/-- `scipy.linalg.cholesky(A)` (upper factor) as the bordering recursion `Impl.cholFactor` -/
def choleskyOp : Op := fun j => do
  if isRat j then
    let A ← getMat ratIO (← field j "A")
    match Impl.cholFactor ratSqrt A with
    | none => throw "domain"
    | some U =>
      if !(ratFactorOK A U (List.range A.length)) then throw "irrational"
      pure (putMat ratIO U)
  else
    let A ← getMat floatIO (← field j "A")
    match Impl.cholFactor Float.sqrt A with
    | none => throw "domain"
    | some U => pure (putMat floatIO U)

/-- the insert / delete / solve sequence of `fnnls_cholesky`, see `cholSeq` -/
def cholSeqOp : Op := fun j => do
  let inserts ← getNats (← field j "inserts")
  let deletes ← getList getNats (fieldD j "deletes" (Json.arr #[]))
  if isRat j then
    let A ← getMat ratIO (← field j "A")
    let b ← getRats (← field j "b")
    pure (Json.arr (← cholSeq ratIO ratSqrt (ratFactorOK A) A b inserts deletes).toArray)
  else
    let A ← getMat floatIO (← field j "A")
    let b ← getFloats (← field j "b")
    pure (Json.arr (← cholSeq floatIO Float.sqrt (fun _ _ => true) A b inserts deletes).toArray)

/-- `fnnls_cholesky` with its OWN passive-set solves (`Impl.cholSolve`, exact `Rat`): only meaningful when
    every root met is rational (else the solve reports `singular`) -/
def fnnlsCholOp : Op := fun j => do
  let A ← getRatMat (← field j "A")
  let b ← getRats (← field j "b")
  let tol ← getRat (← field j "tol")
  let maxIter ← getNat (fieldD j "max_iter" (natToJson 10000))
  let p ← getPInit j
  match Impl.fnnls (Impl.cholSolve ratSqrt) A b tol maxIter p with
  | .err e => throw (errName e)
  | .ok d ex lc lc2 =>
    pure (obj [("d", ratsToJson d), ("exit", Json.str (exitName ex)), ("loop_count", natToJson lc),
      ("loop_count2", natToJson lc2), ("kkt", Json.bool (Spec.isKKTb A b d tol)),
      ("kkt0", Json.bool (Spec.isKKTb A b d 0))])

def ops : List (String × Op) :=
  [("c05.solve", solveOp), ("c05.fnnls", fnnlsOp), ("c05.reconstruction", reconstructionOp),
   ("c05.mapped_data", mappedDataOp), ("c05.cholupdate", cholupdateOp),
   ("c05.cholinsertlast", cholinsertlastOp), ("c05.choldelete", choldeleteOp), ("c05.cho_solve", choSolveOp),
   ("c05.cholesky", choleskyOp), ("c05.chol_seq", cholSeqOp), ("c05.fnnls_chol", fnnlsCholOp)]

end Driver.C05

def main : IO Unit := Driver.runLoop Driver.C05.ops
