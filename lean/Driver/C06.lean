/- Driver ops for C06. -/
import Driver.Json

open Lean Model

namespace Driver.C06

def ops : List (String × Op) := []

end Driver.C06
