/- Driver ops for C06. -/
import Driver.Loop

open Lean Model

namespace Driver.C06

def ops : List (String × Op) := []

end Driver.C06

def main : IO Unit := Driver.runLoop Driver.C06.ops
