/- Driver ops for C06 (mappers).  Everything here is rational ⇒ exact `Rat` throughout. -/
import Driver.Loop
import Model.Mapper

open Lean Model

namespace Driver.C06

def getPair (j : Json) : Except String (Rat × Rat) := do
  match ← getRats j with
  | [a, b] => pure (a, b)
  | _ => throw "expected pair"

def getPairs := getList getPair
def getIntMat := getList getInts
def pairToJsonQ (p : Rat × Rat) : Json := ratsToJson [p.1, p.2]
def intMatToJson (m : List (List Int)) : Json := listToJson intsToJson m

/-- numpy would wrap a negative position or raise IndexError: outside the modelled domain. -/
def checkTables (idx : List (List Int)) (sizes : List Nat) (nSub pixels : Nat) : Except String Unit := do
  for sub in List.range nSub do
    let row := idx.getD sub []
    let sz := sizes.getD sub 0
    if sz > row.length then throw "index_out_of_range"
    for c in List.range sz do
      let e := row.getD c (-1)
      if e < 0 || e ≥ (pixels : Int) then throw "index_out_of_range"

def uniqueToJson (u : List (List Int) × List (List Rat) × List Nat) : Json :=
  obj [("data_to_pix_unique", intMatToJson u.1), ("data_weights", ratMatToJson u.2.1),
       ("pix_lengths", natsToJson u.2.2)]

/-- everything downstream of the three `PixSubWeights` tables -/
def mapperCommon (m : Mask) (sub : List Nat) (psw : PixSubWeights Rat) (pixels : Nat) :
    Except String (List (String × Json)) := do
  let slimFor := Impl.slimForSubSlim m sub
  let total := sub.length
  let frac : List Rat := sub.map fun s => Impl.subFraction s
  checkTables psw.mappings psw.sizes slimFor.length pixels
  if slimFor.any (· ≥ total) then throw "index_out_of_range"
  let mm := Impl.mappingMatrix psw.mappings psw.sizes psw.weights pixels total slimFor frac
  let uq := Impl.uniqueFrom total psw.mappings psw.sizes psw.weights pixels sub
  pure [("slim_for_sub_slim", natsToJson slimFor), ("sub_fraction", ratsToJson frac),
        ("mappings", intMatToJson psw.mappings), ("sizes", natsToJson psw.sizes),
        ("weights", ratMatToJson psw.weights), ("mapping_matrix", ratMatToJson mm),
        ("unique", uniqueToJson uq)]

def getGeom (h w : Nat) (j : Json) : Except String (Impl.RectGeom Rat) := do
  pure { h := h, w := w, sy := ← getRat (← field j "sy"), sx := ← getRat (← field j "sx"),
         oy := ← getRat (← field j "oy"), ox := ← getRat (← field j "ox") }

def geomToJson (g : Impl.RectGeom Rat) : Json :=
  obj [("sy", ratToJson g.sy), ("sx", ratToJson g.sx), ("oy", ratToJson g.oy), ("ox", ratToJson g.ox)]

def nbToJson (nb : List (List Int) × List Nat) : List (String × Json) :=
  [("neighbors", intMatToJson nb.1), ("neighbors_sizes", natsToJson nb.2)]

/-- rectangular mapper: overlay geometry (exact), cell indexes with the geometry the mesh object
    actually carries (`geom`, the implementation's doubles, exact), tables, matrix, unique, neighbours -/
def mapperRect : Op := fun j => do
  let m ← getMask (← field j "mask")
  let sub ← getNats (← field j "sub_size")
  let grid ← getPairs (← field j "grid")
  let h ← getNat (← field j "h")
  let w ← getNat (← field j "w")
  let buffer ← getRat (← field j "buffer")
  let g ← getGeom h w (← field j "geom")
  if g.sy == 0 || g.sx == 0 then throw "zero_scale"
  let ov : Impl.RectGeom Rat := Impl.overlayGrid h w grid buffer
  let coords := grid.map (Impl.pixelCoord g)
  let psw : PixSubWeights Rat := Impl.rectPixSubWeights truncRat g grid
  let common ← mapperCommon m sub psw (h * w)
  pure (obj ([("overlay", geomToJson ov), ("pixel_coord", listToJson pairToJsonQ coords)]
    ++ common ++ nbToJson (Impl.rectNeighbors h w)))

/-- Delaunay mapper given Qhull's tables (simplices, find_simplex, vertex_neighbor_vertices) -/
def mapperDelaunay : Op := fun j => do
  let m ← getMask (← field j "mask")
  let sub ← getNats (← field j "sub_size")
  let grid ← getPairs (← field j "grid")
  let points ← getPairs (← field j "points")
  let simplices ← getIntMat (← field j "simplices")
  let findSimplex ← getInts (← field j "find_simplex")
  let indptr ← getNats (← field j "indptr")
  let indices ← getNats (← field j "indices")
  let n := points.length
  if findSimplex.any (fun s => s < -1 || s ≥ (simplices.length : Int)) then throw "index_out_of_range"
  if simplices.any (fun s => s.length != 3 || s.any (fun v => v < 0 || v ≥ (n : Int))) then
    throw "index_out_of_range"
  let psw : PixSubWeights Rat := Impl.delaunayPixSubWeights grid points findSimplex simplices
  -- a zero `norm` is a degenerate triangle: numpy yields nan, the model's total division 0
  for sub in List.range grid.length do
    let pix := psw.mappings.getD sub []
    if pix.getD 1 (-1) != -1 then
      let v := fun k => points.getD (pix.getD k 0).toNat (0, 0)
      let p := grid.getD sub (0, 0)
      if Impl.triangleArea (v 1) (v 2) p + Impl.triangleArea (v 0) (v 2) p
          + Impl.triangleArea (v 0) (v 1) p == 0 then throw "degenerate_triangle"
  let common ← mapperCommon m sub psw n
  let simpNat := simplices.map fun s => s.map Int.toNat
  pure (obj (common ++ nbToJson (Impl.delaunayNeighbors indptr indices n)
    ++ [("neighbors_from_simplices",
          listToJson natsToJson (Spec.neighborsFromSimplices n simpNat))]))

/-- `mapper_util.mapping_matrix_from` on raw tables -/
def mappingMatrix : Op := fun j => do
  let idx ← getIntMat (← field j "idx")
  let sizes ← getNats (← field j "sizes")
  let wts ← getRatMat (← field j "wts")
  let pixels ← getNat (← field j "pixels")
  let total ← getNat (← field j "total")
  let slimFor ← getNats (← field j "slim_for")
  let frac ← getRats (← field j "frac")
  checkTables idx sizes slimFor.length pixels
  if slimFor.any (· ≥ total) then throw "index_out_of_range"
  pure (ratMatToJson (Impl.mappingMatrix idx sizes wts pixels total slimFor frac))

/-- `mapper_util.data_slim_to_pixelization_unique_from` on raw tables -/
def uniqueFrom : Op := fun j => do
  let idx ← getIntMat (← field j "idx")
  let sizes ← getNats (← field j "sizes")
  let wts ← getRatMat (← field j "wts")
  let pixPixels ← getNat (← field j "pix_pixels")
  let dataPixels ← getNat (← field j "data_pixels")
  let sub ← getNats (← field j "sub_size")
  checkTables idx sizes ((sub.take dataPixels).foldl (fun a s => a + s * s) 0) pixPixels
  pure (uniqueToJson (Impl.uniqueFrom dataPixels idx sizes wts pixPixels sub))

def baryWeights : Op := fun j => do
  let v0 ← getPair (← field j "v0")
  let v1 ← getPair (← field j "v1")
  let v2 ← getPair (← field j "v2")
  let p ← getPair (← field j "p")
  if Impl.triangleArea v1 v2 p + Impl.triangleArea v0 v2 p + Impl.triangleArea v0 v1 p == 0 then
    throw "degenerate_triangle"
  pure (ratsToJson (Impl.baryWeights v0 v1 v2 p))

def nearestVertex : Op := fun j => do
  let points ← getPairs (← field j "points")
  let p ← getPair (← field j "p")
  pure (natToJson (Impl.argminFirst (points.map (Impl.sqDist p))))

def rectCellIndex : Op := fun j => do
  let h ← getNat (← field j "h")
  let w ← getNat (← field j "w")
  let g ← getGeom h w (← field j "geom")
  let grid ← getPairs (← field j "grid")
  if g.sy == 0 || g.sx == 0 then throw "zero_scale"
  pure (obj [("indexes", intsToJson (Impl.gridPixelIndexes truncRat g grid)),
             ("pixel_coord", listToJson pairToJsonQ (grid.map (Impl.pixelCoord g)))])

def rectOverlay : Op := fun j => do
  let h ← getNat (← field j "h")
  let w ← getNat (← field j "w")
  let grid ← getPairs (← field j "grid")
  let buffer ← getRat (← field j "buffer")
  pure (geomToJson (Impl.overlayGrid h w grid buffer))

def rectNeighbors : Op := fun j => do
  let h ← getNat (← field j "h")
  let w ← getNat (← field j "w")
  pure (obj (nbToJson (Impl.rectNeighbors h w)
    ++ [("spec_equal", Json.bool (Impl.rectNeighbors h w == Spec.rectNeighbors h w))]))

def neighborsFromSimplices : Op := fun j => do
  let n ← getNat (← field j "n")
  let simplices ← getList getNats (← field j "simplices")
  pure (listToJson natsToJson (Spec.neighborsFromSimplices n simplices))

def delaunayNeighbors : Op := fun j => do
  let n ← getNat (← field j "n")
  let indptr ← getNats (← field j "indptr")
  let indices ← getNats (← field j "indices")
  pure (obj (nbToJson (Impl.delaunayNeighbors indptr indices n)))

def slimForSubSlim : Op := fun j => do
  let m ← getMask (← field j "mask")
  let sub ← getNats (← field j "sub_size")
  pure (natsToJson (Impl.slimForSubSlim m sub))

def ops : List (String × Op) :=
  [("c06.mapper_rect", mapperRect), ("c06.mapper_delaunay", mapperDelaunay),
   ("c06.mapping_matrix", mappingMatrix), ("c06.unique_from", uniqueFrom),
   ("c06.bary_weights", baryWeights), ("c06.nearest_vertex", nearestVertex),
   ("c06.rect_cell_index", rectCellIndex), ("c06.rect_overlay", rectOverlay),
   ("c06.rect_neighbors", rectNeighbors), ("c06.neighbors_from_simplices", neighborsFromSimplices),
   ("c06.delaunay_neighbors", delaunayNeighbors), ("c06.slim_for_sub_slim", slimForSubSlim)]

end Driver.C06

def main : IO Unit := Driver.runLoop Driver.C06.ops
