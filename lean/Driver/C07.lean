/- Driver ops for C07. -/
import Driver.Loop

open Lean Model

namespace Driver.C07

def ops : List (String × Op) := []

end Driver.C07

def main : IO Unit := Driver.runLoop Driver.C07.ops
