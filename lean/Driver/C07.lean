/- Driver ops for C07. -/
import Driver.Json

open Lean Model

namespace Driver.C07

def ops : List (String × Op) := []

end Driver.C07
