/- Driver ops for C07 (regularization matrices). -/
import Driver.Loop
import Model.Regularization
import Model.RegularizationRect

open Lean Model

namespace Driver.C07

instance : Zero Float := ⟨0.0⟩
instance : One Float := ⟨1.0⟩

/-! ### the `inv` oracle of the kernel schemes: exact Gauss–Jordan over `Rat` -/

/-- exact inverse by Gauss–Jordan elimination (first non-zero pivot); `none` = singular -/
def ratInverse (A : List (List Rat)) : Option (List (List Rat)) :=
  let n := A.length
  -- augmented rows
  let aug : List (List Rat) := A.zipIdx.map fun (r, i) =>
    r ++ (List.range n).map fun j => if i = j then (1 : Rat) else 0
  let step (st : Option (List (List Rat))) (c : Nat) : Option (List (List Rat)) :=
    match st with
    | none => none
    | some rows =>
      -- find pivot row p ≥ c with rows[p][c] ≠ 0
      match (List.range n).find? (fun p => decide (c ≤ p) && (rows.getD p []).getD c 0 != 0) with
      | none => none
      | some p =>
        let rp := rows.getD p []
        let rc := rows.getD c []
        let rows := (rows.set p rc).set c rp
        let piv := rp.getD c 0
        let prow := rp.map fun v => v / piv
        let rows := rows.set c prow
        some (rows.zipIdx.map fun (r, i) =>
          if i = c then r else
            let f := r.getD c 0
            if f == 0 then r else List.zipWith (fun a b => a - f * b) r prow)
  match (List.range n).foldl step (some aug) with
  | none => none
  | some rows => some (rows.map fun r => r.drop n)

/-- nearest-double of a rational without overflowing on huge numerators/denominators -/
def ratToFloatSafe (q : Rat) : Float :=
  if q.num == 0 then 0.0 else
  let ln : Int := q.num.natAbs.log2
  let ld : Int := q.den.log2
  let shift : Int := 64 - (ln - ld)
  let qi : Int :=
    if shift ≥ 0 then (q.num * (2 : Int) ^ shift.toNat) / (q.den : Int)
    else q.num / ((q.den : Int) * (2 : Int) ^ (-shift).toNat)
  (Float.ofInt qi).scaleB (-shift)

def floatInv (A : List (List Float)) : List (List Float) :=
  let AR := A.map fun r => r.map fun v => (floatToRat? v).getD 0
  match ratInverse AR with
  | some B => B.map fun r => r.map ratToFloatSafe
  | none => A.map fun r => r.map fun _ => (0.0 / 0.0 : Float)

/-! ### JSON glue -/

def getIntMat := getList getInts
def getNatTable (n : Nat) (j : Json) : Except String (List (List Nat)) := do
  pure (pyTable n (← getIntMat j))

structure Num (α : Type) where
  get : Json → Except String α
  put : α → Json
  ofRat : Rat → α

def ratNum : Num Rat := ⟨getRat, ratToJson, id⟩
def floatNum : Num Float := ⟨getFloat, floatToJson, ratToFloat⟩

def matToJson (N : Num α) (M : List (List α)) : Json := listToJson (listToJson N.put) M

def getSplit (N : Num α) (j : Json) : Except String (Impl.SplitTables α) := do
  let mappings ← getIntMat (← field j "mappings")
  let sizes ← getNats (← field j "sizes")
  let weights ← getList (getList N.get) (← field j "weights")
  pure { mappings := mappings, sizes := sizes, weights := weights }

def splitToJson (N : Num α) (t : Impl.SplitTables α) : Json :=
  obj [("mappings", listToJson intsToJson t.mappings), ("sizes", natsToJson t.sizes),
       ("weights", matToJson N t.weights)]

/-- `x ** signal_scale` in double precision (numpy's float power), as a function on exact rationals:
    the `pow` parameter of `adaptivePixelSignals` for non-integer scales -/
def floatPow (scale : Float) (v : Rat) : Rat :=
  (floatToRat? (Float.pow (ratToFloatSafe v) scale)).getD 0

/-- the `pow` parameter from the JSON `signal_scale` ("p/q"): exact natural-number power when the scale is
    a natural number, numpy's double-precision power otherwise -/
def getPow (j : Json) : Except String (Rat → Rat) := do
  let sc ← getRat j
  if sc.den == 1 && sc.num ≥ 0 then pure (fun v => v ^ sc.num.toNat)
  else pure (floatPow (ratToFloatSafe sc))

/-- `mapper.pixel_signals_from(signal_scale)` from the mapper's own tables (exact means, then `pow`) -/
def mapperSignals (j : Json) : Except String (List Rat) := do
  let pixels ← getNat (← field j "pixels")
  let pw ← getRatMat (← field j "pixel_weights")
  let idx ← getIntMat (← field j "pix_indexes")
  let sz ← getNats (← field j "pix_sizes")
  let sfs ← getNats (← field j "slim_for_sub")
  let ad ← getRats (← field j "adapt_data")
  let pow ← getPow (← field j "signal_scale")
  pure (Impl.adaptivePixelSignals pow pixels pw idx sz sfs ad)

/-- the linear object a scheme reads.  Two ways to supply the neighbour table: `"neighbors"`/`"sizes"`
    (the implementation's own table, an input), `"mesh_shape": [H, W]` (a rectangular mesh: the model's
    own `rectangular_neighbors_from`, `Impl.rectMeshNeighbors`) or `"csr"` (a Delaunay mesh: the model's own
    `Mesh2DDelaunay.neighbors` from scipy's CSR pair).  Two ways to supply the pixel signals:
    `"signals"` (the implementation's, an input) or `"mapper"` (the mapper tables + adapt image: the
    model's own `adaptive_pixel_signals_from`). -/
def getObj [Zero α] (N : Num α) (j : Json) : Except String (Impl.LinObj α) := do
  let params ← getNat (← field j "params")
  let meshShape ← match j.getObjVal? "mesh_shape" with
    | .ok v => do
      let hw ← getNats v
      pure (some (hw.getD 0 0, hw.getD 1 0))
    | .error _ => pure none
  -- a Delaunay mesh given by scipy's CSR pair `vertex_neighbor_vertices` (the model's own `Mesh2DDelaunay.neighbors`)
  let csr ← match j.getObjVal? "csr" with
    | .ok v => do
      let indptr ← getNats (← field v "indptr")
      let indices ← getNats (← field v "indices")
      pure (some (indptr, indices))
    | .error _ => pure none
  let neighbors ← match meshShape, csr, j.getObjVal? "neighbors" with
    | some (h, w), _, _ => pure (Impl.rectMeshNeighbors h w)
    | none, some (ip, ix), _ => pure (Impl.delaunayMeshNeighbors ip ix params)
    | none, none, .ok v => getNatTable params v
    | none, none, .error _ => pure []
  let sizes ← match meshShape, csr, j.getObjVal? "sizes" with
    | some (h, w), _, _ => pure (Impl.rectMeshSizes h w)
    | none, some (ip, ix), _ => pure (Impl.delaunayMeshSizes ip ix params)
    | none, none, .ok v => getNats v
    | none, none, .error _ => pure []
  let signals ← match j.getObjVal? "mapper", j.getObjVal? "signals" with
    | .ok m, _ => do pure ((← mapperSignals m).map N.ofRat)
    | .error _, .ok v => getList N.get v
    | .error _, .error _ => pure []
  let split ← match j.getObjVal? "split" with
    | .ok v => getSplit N v
    | .error _ => pure { mappings := [], sizes := [], weights := [] }
  let points ← match j.getObjVal? "points" with
    | .ok v => do
      let rows ← getList (getList N.get) v
      pure (rows.map fun r => (r.getD 0 0, r.getD 1 0))
    | .error _ => pure []
  pure { params := params, neighbors := neighbors, sizes := sizes, signals := signals,
         split := split, points := points }

def getScheme (N : Num α) (j : Json) : Except String (Impl.Scheme α) := do
  let name ← getStr (← field j "scheme")
  let args ← getList N.get (← field j "args")
  match name, args with
  | "Constant", [c] => pure (.constant c)
  | "ConstantZeroth", [cn, cz] => pure (.constantZeroth cn cz)
  | "Zeroth", [c] => pure (.zeroth c)
  | "AdaptiveBrightness", [i, o] => pure (.adaptiveBrightness i o)
  | "BrightnessZeroth", [c] => pure (.brightnessZeroth c)
  | "ConstantSplit", [c] => pure (.constantSplit c)
  | "AdaptiveBrightnessSplit", [i, o] => pure (.adaptiveBrightnessSplit i o)
  | "GaussianKernel", [c, s] => pure (.gaussianKernel c s)
  | "ExponentialKernel", [c, s] => pure (.exponentialKernel c s)
  | _, _ => throw "bad scheme"

def runScheme [Add α] [Sub α] [Mul α] [Div α] [Neg α] [Zero α] [One α] (N : Num α)
    (env : Impl.Env α) (j : Json) : Except String Json := do
  let s ← getScheme N j
  let o ← getObj N (← field j "obj")
  let w := Impl.schemeWeights s o
  match Impl.schemeMatrix env s o with
  | .meshException => throw "mesh_exception"
  | .unboundLocal => throw "unbound_local"
  | .ok M => pure (obj [("weights", listToJson N.put w), ("matrix", matToJson N M)])

/-- `regularization.regularization_weights_from / regularization_matrix_from (linear_obj)` -/
def scheme : Op := fun j => do
  let num ← getStr (fieldD j "num" (Json.str "rat"))
  if num == "float" then
    let ridge ← getFloat (← field j "ridge")
    let ridge2 ← getFloat (← field j "ridge2")
    runScheme floatNum
      { ridge := ridge, ridge2 := ridge2, sqrt := Float.sqrt, exp := Float.exp, inv := floatInv } j
  else
    let ridge ← getRat (← field j "ridge")
    let ridge2 ← getRat (← field j "ridge2")
    runScheme ratNum { ridge := ridge, ridge2 := ridge2, sqrt := id, exp := id, inv := id } j

/-- the `regularization_util` functions called directly -/
def util : Op := fun j => do
  let fn ← getStr (← field j "fn")
  let ridge ← getRat (fieldD j "ridge" (Json.str "0"))
  match fn with
  | "zeroth" =>
    let c ← getRat (← field j "coefficient")
    let n ← getNat (← field j "pixels")
    pure (matToJson ratNum (Impl.zerothMatrix c n))
  | "constant" =>
    let c ← getRat (← field j "coefficient")
    let raw ← getIntMat (← field j "neighbors")
    let sizes ← getNats (← field j "sizes")
    pure (matToJson ratNum (Impl.constantMatrix ridge c (pyTable raw.length raw) sizes))
  | "constant_zeroth" =>
    let c ← getRat (← field j "coefficient")
    let cz ← getRat (← field j "coefficient_zeroth")
    let raw ← getIntMat (← field j "neighbors")
    let sizes ← getNats (← field j "sizes")
    pure (matToJson ratNum (Impl.constantZerothMatrix ridge c cz (pyTable raw.length raw) sizes))
  | "adaptive_weights" =>
    let i ← getRat (← field j "inner")
    let o ← getRat (← field j "outer")
    let s ← getRats (← field j "signals")
    pure (ratsToJson (Impl.adaptiveWeights i o s))
  | "brightness_zeroth_weights" =>
    let c ← getRat (← field j "coefficient")
    let s ← getRats (← field j "signals")
    pure (ratsToJson (Impl.brightnessZerothWeights c s))
  | "weighted" =>
    let w ← getRats (← field j "weights")
    let raw ← getIntMat (← field j "neighbors")
    let sizes ← getNats (← field j "sizes")
    pure (matToJson ratNum (Impl.weightedMatrix ridge w (pyTable w.length raw) sizes))
  | "brightness_zeroth" =>
    let w ← getRats (← field j "weights")
    pure (matToJson ratNum (Impl.brightnessZerothMatrix w))
  | "reg_split_from" =>
    let t ← getSplit ratNum (← field j "split")
    match Impl.regSplitFrom t with
    | .meshException => throw "mesh_exception"
    | .unboundLocal => throw "unbound_local"
    | .ok t' => pure (splitToJson ratNum t')
  | "pixel_splitted" =>
    let w ← getRats (← field j "weights")
    let t ← getSplit ratNum (← field j "split")
    let ridge2 ← getRat (← field j "ridge2")
    pure (matToJson ratNum (Impl.pixelSplittedMatrix ridge2 w
      (pyTable (t.mappings.length / 4) t.mappings) t.sizes t.weights))
  | "pixel_signals" =>
    let pixels ← getNat (← field j "pixels")
    let pw ← getRatMat (← field j "pixel_weights")
    let idx ← getIntMat (← field j "pix_indexes")
    let sz ← getNats (← field j "pix_sizes")
    let sfs ← getNats (← field j "slim_for_sub")
    let ad ← getRats (← field j "adapt_data")
    let pow ← getPow (← field j "signal_scale")
    let acc := Impl.pixelSignalAccum pixels pw idx sz sfs ad
    pure (obj [("signals", ratsToJson (Impl.adaptivePixelSignals pow pixels pw idx sz sfs ad)),
               ("sums", ratsToJson acc.1), ("counts", ratsToJson acc.2)])
  | _ => throw "bad fn"

/-- `gauss_cov_matrix_from` / `exp_cov_matrix_from` (Float: `sqrt`, `exp` are libm's) -/
def cov : Op := fun j => do
  let kind ← getStr (← field j "kind")
  let scale ← getFloat (← field j "scale")
  let ridge ← getFloat (← field j "ridge")
  let rows ← getList getFloats (← field j "points")
  let pts := rows.map fun r => (r.getD 0 0, r.getD 1 0)
  let k ← match kind with
    | "gauss" => pure (Impl.gaussKernel Float.exp scale)
    | "exp" => pure (Impl.expKernel Float.exp scale)
    | _ => throw "bad kind"
  pure (matToJson floatNum (Impl.covMatrix k Float.sqrt ridge pts))

/-- `Inversion.regularization_matrix`, `.regularization_matrix_reduced`, `.no_regularization_index_list` -/
def inversion : Op := fun j => do
  let objsJ ← getArr (← field j "objs")
  let objs ← objsJ.mapM fun oj => do
    let p ← getNat (← field oj "params")
    let m ← match oj.getObjVal? "scheme" with
      | .ok _ => do
        -- the object's own scheme, evaluated by the model (rational schemes only)
        let ridge ← getRat (← field j "ridge")
        let ridge2 ← getRat (← field j "ridge2")
        let s ← getScheme ratNum oj
        let o ← getObj ratNum (← field oj "obj")
        match Impl.schemeMatrix
            { ridge := ridge, ridge2 := ridge2, sqrt := id, exp := id, inv := id } s o with
        | .ok M => pure (some M)
        | _ => throw "mesh_exception"
      | .error _ =>
        match oj.getObjVal? "matrix" with
        | .ok Json.null => pure none
        | .ok v => do pure (some (← getRatMat v))
        | .error _ => pure none
    pure (p, m)
  pure (obj [
    ("matrix", matToJson ratNum (Impl.inversionMatrix objs)),
    ("reduced", matToJson ratNum (Impl.reducedMatrix objs)),
    ("no_reg", natsToJson (Impl.noRegIndexList (objs.map fun o => (o.1, o.2.isSome))))])

/-- `mesh_util.rectangular_neighbors_from(shape_native)` (the raw `-1`-padded array and the sizes) and the
    table the regularization loops read from it -/
def rectNeighbors : Op := fun j => do
  let hw ← getNats (← field j "shape")
  let h := hw.getD 0 0
  let w := hw.getD 1 0
  let t := Impl.rectNeighbors h w
  pure (obj [("neighbors", listToJson intsToJson t.1), ("sizes", natsToJson t.2),
             ("read", listToJson natsToJson (Impl.rectMeshNeighbors h w))])

def ops : List (String × Op) :=
  [("c07.scheme", scheme), ("c07.util", util), ("c07.cov", cov), ("c07.inversion", inversion),
   ("c07.rect_neighbors", rectNeighbors)]

end Driver.C07

def main : IO Unit := Driver.runLoop Driver.C07.ops
