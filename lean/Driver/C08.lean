/- Driver ops for C08. -/
import Driver.Json

open Lean Model

namespace Driver.C08

def ops : List (String × Op) := []

end Driver.C08
