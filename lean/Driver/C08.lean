/- Driver ops for C08. -/
import Driver.Loop

open Lean Model

namespace Driver.C08

def ops : List (String × Op) := []

end Driver.C08

def main : IO Unit := Driver.runLoop Driver.C08.ops
