/- Driver ops for C08 (fit statistics and evidence).
   Rational outputs (maps, chi-squared, regularization term, reduced matrices) are evaluated on `Rat`
   (exact); outputs containing `log` are evaluated on `Float` with `Float.log`, `2π`, and the model's
   `logDetViaCholesky` / `logDetViaLU` formulas with a Float Cholesky / LU factorisation standing in for
   numpy.linalg.cholesky / SuperLU. -/
import Driver.Loop
import Model.Fit

open Lean Model
open Model.Impl.Fit

namespace Driver.C08

def twoPiF : Float := 2.0 * 3.141592653589793

/-- Cholesky–Banachiewicz factor (lower-triangular `L`, `L·Lᵀ = M`) of a symmetric positive-definite
    matrix: the driver-side instance of the model's `chol` parameter (numpy.linalg.cholesky). -/
def cholF (M : List (List Float)) : List (List Float) := Id.run do
  let n := M.length
  let a : Array (Array Float) := (M.map (·.toArray)).toArray
  let mut L : Array (Array Float) := Array.replicate n (Array.replicate n 0.0)
  for i in [0:n] do
    for j in [0:i+1] do
      let mut s : Float := 0.0
      for k in [0:j] do
        s := s + L[i]![k]! * L[j]![k]!
      if i == j then
        L := L.set! i (L[i]!.set! j (Float.sqrt (a[i]![i]! - s)))
      else
        L := L.set! i (L[i]!.set! j ((a[i]![j]! - s) / L[j]![j]!))
  return (L.map (·.toList)).toList

/-- Doolittle LU without pivoting (`L` unit lower-triangular, `U` upper-triangular, `L·U = M`): the
    driver-side instance of the model's `lu` parameter (SuperLU with identity permutations). -/
def luF (M : List (List Float)) : List (List Float) × List (List Float) := Id.run do
  let n := M.length
  let mut U : Array (Array Float) := (M.map (·.toArray)).toArray
  let mut L : Array (Array Float) := Array.replicate n (Array.replicate n 0.0)
  for i in [0:n] do
    L := L.set! i (L[i]!.set! i 1.0)
  for k in [0:n] do
    let rowk := U[k]!
    let p := rowk[k]!
    for i in [k+1:n] do
      let rowi := U[i]!
      let f := rowi[k]! / p
      L := L.set! i (L[i]!.set! k f)
      let mut r := rowi
      for j in [k:n] do
        r := r.set! j (rowi[j]! - f * rowk[j]!)
      r := r.set! k 0.0
      U := U.set! i r
  return ((L.map (·.toList)).toList, (U.map (·.toList)).toList)

def getObj (j : Json) : Except String (LinObj Rat) := do
  let p ← getNat (← field j "params")
  let r := fieldD j "reg" Json.null
  match r with
  | Json.null => pure { params := p, reg := none }
  | m => pure { params := p, reg := some (← getRatMat m) }

def objToFloat (o : LinObj Rat) : LinObj Float :=
  { params := o.params, reg := o.reg.map fun m => m.map fun r => r.map ratToFloat }

def floatMatToJson (m : List (List Float)) : Json := listToJson floatsToJson m

def fit : Op := fun j => do
  let useMask ← getBool (← field j "use_mask")
  let imaging ← getBool (← field j "imaging")
  let bitsS ← getStr (← field j "bits")
  let bits := bitsS.toList.map (· == '1')
  let data ← getRats (← field j "data")
  let noise ← getRats (← field j "noise")
  let model ← getRats (← field j "model")
  let bg ← getRat (fieldD j "background" (Json.str "0"))
  let n := if useMask then bits.length else (bits.filter (!·)).length
  if data.length ≠ n || noise.length ≠ n || model.length ≠ n then throw "shape_mismatch"
  let f : FitInput Rat :=
    { useMask := useMask, isImaging := imaging, bits := bits, data := data, noise := noise,
      model := model, background := bg }
  let ff : FitInput Float :=
    { useMask := useMask, isImaging := imaging, bits := bits, data := data.map ratToFloat,
      noise := noise.map ratToFloat, model := model.map ratToFloat, background := ratToFloat bg }
  let base : List (String × Json) :=
    [("data", ratsToJson (fitData f)),
     ("residual_map", ratsToJson (fitResidualMap f)),
     ("normalized_residual_map", ratsToJson (fitNormalizedResidualMap f)),
     ("chi_squared_map", ratsToJson (fitChiSquaredMap f)),
     ("residual_flux_fraction_map", ratsToJson (fitResidualFluxFractionMap f)),
     ("signal_to_noise_map", ratsToJson (fitSignalToNoiseMap f)),
     ("chi_squared", ratToJson (fitChiSquared f)),
     ("reduced_chi_squared", ratToJson (fitReducedChiSquared f)),
     ("noise_normalization", floatToJson (fitNoiseNormalization Float.log twoPiF ff)),
     ("log_likelihood", floatToJson (fitLogLikelihood Float.log twoPiF ff))]
  let invJ := fieldD j "inversion" Json.null
  match invJ with
  | Json.null =>
    let none' : Option (InvTerms Float) := none
    pure (obj (base ++
      [("figure_of_merit", floatToJson (fitFigureOfMerit Float.log twoPiF ff none')),
       ("log_evidence", optToJson floatToJson (fitLogEvidence Float.log twoPiF ff none')),
       ("log_likelihood_with_regularization",
          optToJson floatToJson (fitLogLikelihoodWithRegularization Float.log twoPiF ff none')),
       ("inversion", Json.null)]))
  | ij =>
    match fieldD ij "terms" Json.null with
    | Json.null => pure ()
    | tj =>
      -- the three scalars are supplied directly (a mock inversion): only the fit-level composition runs
      let tF : InvTerms Float :=
        { regularizationTerm := ← getFloat (← field tj "regularization_term")
          logDetCurvatureReg := ← getFloat (← field tj "log_det_curvature_reg_matrix_term")
          logDetRegularization := ← getFloat (← field tj "log_det_regularization_matrix_term") }
      return obj (base ++
        [("figure_of_merit", floatToJson (fitFigureOfMerit Float.log twoPiF ff (some tF))),
         ("log_evidence", optToJson floatToJson (fitLogEvidence Float.log twoPiF ff (some tF))),
         ("log_likelihood_with_regularization",
            optToJson floatToJson (fitLogLikelihoodWithRegularization Float.log twoPiF ff (some tF))),
         ("inversion", obj
           [("regularization_term", floatToJson tF.regularizationTerm),
            ("log_det_curvature_reg_matrix_term", floatToJson tF.logDetCurvatureReg),
            ("log_det_regularization_matrix_term", floatToJson tF.logDetRegularization)])])
    let objs ← getList getObj (← field ij "objs")
    let F ← getRatMat (← field ij "F")
    let s ← getRats (← field ij "s")
    let tp := totalParams objs
    if F.length ≠ tp || s.length ≠ tp || F.any (·.length ≠ tp) then throw "shape_mismatch"
    if objs.any (fun o => match o.reg with
        | some m => m.length ≠ o.params || m.any (·.length ≠ o.params)
        | none => false) then throw "shape_mismatch"
    let objsF := objs.map objToFloat
    let FF := F.map fun r => r.map ratToFloat
    let sF := s.map ratToFloat
    let tF : InvTerms Float := invTermsViaFactorisations Float.log Float.abs cholF luF FF sF objsF
    let invOut := obj
      [("no_regularization_index_list", natsToJson (noRegularizationIndexList objs)),
       ("regularization_matrix", ratMatToJson (regularizationMatrix objs)),
       ("regularization_matrix_reduced", ratMatToJson (regularizationMatrixReduced objs)),
       ("curvature_reg_matrix", ratMatToJson (curvatureRegMatrix F objs)),
       ("curvature_reg_matrix_reduced", ratMatToJson (curvatureRegMatrixReduced F objs)),
       ("reconstruction_reduced", ratsToJson (reconstructionReduced s objs)),
       ("regularization_term", ratToJson (regularizationTerm s objs)),
       ("log_det_curvature_reg_matrix_term", floatToJson tF.logDetCurvatureReg),
       ("log_det_regularization_matrix_term", floatToJson tF.logDetRegularization)]
    pure (obj (base ++
      [("figure_of_merit", floatToJson (fitFigureOfMerit Float.log twoPiF ff (some tF))),
       ("log_evidence", optToJson floatToJson (fitLogEvidence Float.log twoPiF ff (some tF))),
       ("log_likelihood_with_regularization",
          optToJson floatToJson (fitLogLikelihoodWithRegularization Float.log twoPiF ff (some tF))),
       ("inversion", invOut)]))

def ops : List (String × Op) := [("c08.fit", fit)]

end Driver.C08

def main : IO Unit := Driver.runLoop Driver.C08.ops
