/- Driver ops for C09 (over-sampling).  Everything is exact `Rat`. -/
import Driver.Loop
import Model.OverSample

open Lean Model

namespace Driver.C09

/-- user functions as data: the harness evaluates the same tree with numpy doubles (implementation
    side) and with Fractions (oracle); here it is evaluated exactly on `Rat`.
    JSON: ["c","p/q"] | ["y"] | ["x"] | ["add",a,b] | ["sub",a,b] | ["mul",a,b] | ["neg",a] |
          ["div",a,b] | ["gt0",e,a,b] (a if e > 0 else b) |
          ["lookup",ey,ex,H,W,[values]] (table[clip(floor ey)][clip(floor ex)]) -/
inductive Expr where
  | c (v : Rat)
  | y
  | x
  | add (a b : Expr)
  | sub (a b : Expr)
  | mul (a b : Expr)
  | neg (a : Expr)
  | div (a b : Expr)
  | gt0 (e a b : Expr)
  | lookup (ey ex : Expr) (h w : Nat) (tab : Array Rat)

partial def parseExpr (j : Json) : Except String Expr := do
  let l ← getArr j
  match l with
  | [] => throw "empty expr"
  | hd :: tl =>
    let k ← getStr hd
    match k, tl with
    | "c", [v] => pure (.c (← getRat v))
    | "y", [] => pure .y
    | "x", [] => pure .x
    | "add", [a, b] => pure (.add (← parseExpr a) (← parseExpr b))
    | "sub", [a, b] => pure (.sub (← parseExpr a) (← parseExpr b))
    | "mul", [a, b] => pure (.mul (← parseExpr a) (← parseExpr b))
    | "neg", [a] => pure (.neg (← parseExpr a))
    | "div", [a, b] => pure (.div (← parseExpr a) (← parseExpr b))
    | "gt0", [e, a, b] => pure (.gt0 (← parseExpr e) (← parseExpr a) (← parseExpr b))
    | "lookup", [ey, ex, h, w, t] =>
      pure (.lookup (← parseExpr ey) (← parseExpr ex) (← getNat h) (← getNat w)
        (← getRats t).toArray)
    | _, _ => throw s!"bad expr {k}"

def clipIdx (q : Rat) (n : Nat) : Nat :=
  let i := q.floor
  if i < 0 then 0 else if i.toNat ≥ n then n - 1 else i.toNat

def Expr.eval (p : Rat × Rat) : Expr → Rat
  | .c v => v
  | .y => p.1
  | .x => p.2
  | .add a b => a.eval p + b.eval p
  | .sub a b => a.eval p - b.eval p
  | .mul a b => a.eval p * b.eval p
  | .neg a => - a.eval p
  | .div a b => a.eval p / b.eval p
  | .gt0 e a b => if e.eval p > 0 then a.eval p else b.eval p
  | .lookup ey ex h w tab => tab.getD (clipIdx (ey.eval p) h * w + clipIdx (ex.eval p) w) 0

def getGeom (j : Json) : Except String (Geom Rat) := do
  match ← getRats j with
  | [sy, sx, oy, ox] => pure ⟨sy, sx, oy, ox⟩
  | _ => throw "bad geom"

def getOptRat (j : Json) : Except String (Option Rat) :=
  match j with
  | .null => pure none
  | _ => do pure (some (← getRat j))

def pointsToJson (l : List (Rat × Rat)) : Json :=
  listToJson (fun (p : Rat × Rat) => ratsToJson [p.1, p.2]) l

/-- grid and index observables of `OverSamplerUniform(mask, sub_size)` -/
def uniform : Op := fun j => do
  let m ← getMask (← field j "mask")
  let sub ← getNats (← field j "sub")
  let g ← getGeom (← field j "geom")
  pure (obj [("grid", pointsToJson (Impl.overSampledGrid m sub g)),
             ("slim_for_sub_slim", natsToJson (Impl.slimForSubSlim m sub)),
             ("sub_native", listToJson pairToJson (Impl.subNativeForSubSlim m sub)),
             ("areas", ratsToJson (Impl.subPixelAreas sub g)),
             ("unmasked_grid", pointsToJson (Impl.unmaskedGrid m g))])

def binned : Op := fun j => do
  let m ← getMask (← field j "mask")
  let sub ← getNats (← field j "sub")
  let vals ← getRats (← field j "values")
  pure (ratsToJson (Impl.binned m sub vals))

def viaFunc : Op := fun j => do
  let m ← getMask (← field j "mask")
  let sub ← getNats (← field j "sub")
  let g ← getGeom (← field j "geom")
  let f ← parseExpr (← field j "f")
  pure (ratsToJson (Impl.arrayViaFunc (fun p => f.eval p) m sub g))

def getOverSampling (j : Json) : Except String (Impl.OverSampling Rat) := do
  let kind ← getStr (← field j "kind")
  match kind with
  | "int" => pure (.uniform (.int (← getNat (← field j "sub"))))
  | "arr" => pure (.uniform (.arr (← getNats (← field j "sub"))))
  | "iterate" =>
    pure (.iterate (← getOptRat (fieldD j "fr" Json.null)) (← getOptRat (fieldD j "rel" Json.null))
      (← getNats (← field j "steps")))
  | _ => throw "bad over_sampling kind"

/-- the `@over_sample` wrapper on a Grid2D with `over_sampling = os`; `grid` = the grid's own values -/
def decorate : Op := fun j => do
  let m ← getMask (← field j "mask")
  let g ← getGeom (← field j "geom")
  let f ← parseExpr (← field j "f")
  let os ← getOverSampling (← field j "os")
  let gv ← getList getRats (← field j "grid")
  let gv := gv.map fun p => (p.getD 0 0, p.getD 1 0)
  match os with
  | .iterate _ _ [] => throw "empty_schedule"
  | _ => pure (ratsToJson (Impl.decorated (fun p => f.eval p) m g gv os))

def iterate : Op := fun j => do
  let m ← getMask (← field j "mask")
  let g ← getGeom (← field j "geom")
  let f ← parseExpr (← field j "f")
  let fr ← getOptRat (fieldD j "fr" Json.null)
  let rel ← getOptRat (fieldD j "rel" Json.null)
  let steps ← getNats (← field j "steps")
  if steps.isEmpty then throw "empty_schedule"
  pure (ratsToJson (Impl.iterateViaFunc (fun p => f.eval p) m g fr rel steps))

/-- iterate on an explicit table: `table[ℓ]` = native values of level ℓ (ℓ = 0 … nSteps) -/
def iterateTable : Op := fun j => do
  let m ← getMask (← field j "mask")
  let fr ← getOptRat (fieldD j "fr" Json.null)
  let rel ← getOptRat (fieldD j "rel" Json.null)
  let tab ← getRatMat (← field j "table")
  if tab.length < 2 then throw "empty_schedule"
  let v : Nat → Nat → Rat := fun l i => (tab.getD l []).getD i 0
  let nat := Impl.iterateNative fr rel m.h m.w m.bits (Impl.tableArray (m.h * m.w) v) (tab.length - 1)
  pure (ratsToJson (Impl.slimFrom m (Impl.applyMask m nat 0) 0))

def ops : List (String × Op) :=
  [("c09.uniform", uniform), ("c09.binned", binned), ("c09.via_func", viaFunc),
   ("c09.decorate", decorate), ("c09.iterate", iterate), ("c09.iterate_table", iterateTable)]

end Driver.C09

def main : IO Unit := Driver.runLoop Driver.C09.ops
