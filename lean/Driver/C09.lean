/- Driver ops for C09. -/
import Driver.Json

open Lean Model

namespace Driver.C09

def ops : List (String × Op) := []

end Driver.C09
