/- Driver ops for C09. -/
import Driver.Loop

open Lean Model

namespace Driver.C09

def ops : List (String × Op) := []

end Driver.C09

def main : IO Unit := Driver.runLoop Driver.C09.ops
