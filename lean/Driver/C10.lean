/- Driver ops for C10 (blurring / edge / border sets and their views). -/
import Driver.Loop
import Model.MaskSets

open Lean Model

namespace Driver.C10

def gridToJson (g : List (Rat × Rat)) : Json := listToJson (fun p => ratsToJson [p.1, p.2]) g

def getGeom (j : Json) : Except String (Impl.Geom Rat) := do
  let sc ← getRats (fieldD j "scales" (Json.arr #[Json.str "1", Json.str "1"]))
  let og ← getRats (fieldD j "origin" (Json.arr #[Json.str "0", Json.str "0"]))
  pure { sy := sc.getD 0 1, sx := sc.getD 1 1, oy := og.getD 0 0, ox := og.getD 1 0 }

/-- {"op":"c10.blurring","mask":…,"kh":3,"kw":5[,"grid":true,"scales":…,"origin":…]}
    → blurring mask (+ its pixel-centre grid = `Grid2D.blurring_grid_from`) | even_kernel | footprint_outside -/
def blurring : Op := fun j => do
  let m ← getMask (← field j "mask")
  let kh ← getNat (← field j "kh")
  let kw ← getNat (← field j "kw")
  let wantGrid ← getBool (fieldD j "grid" (Json.bool false))
  match Impl.blurringFrom m kh kw with
  | .evenKernel => throw "even_kernel"
  | .footprintOutside => throw "footprint_outside"
  | .ok b =>
    if wantGrid then
      let g ← getGeom j
      pure (obj [("bits", bitsToJson b.bits), ("grid", gridToJson (Impl.gridSlimViaMask b g))])
    else pure (obj [("bits", bitsToJson b.bits)])

/-- the util function without the odd check (`mask_2d_util.blurring_mask_2d_from`) -/
def blurringUtil : Op := fun j => do
  let m ← getMask (← field j "mask")
  let kh ← getNat (← field j "kh")
  let kw ← getNat (← field j "kw")
  match Impl.blurringBits m kh kw with
  | none => throw "footprint_outside"
  | some b => pure (maskToJson { h := m.h, w := m.w, bits := b })

/-- {"op":"c10.sets","mask":…,"scales":[sy,sx],"origin":[oy,ox]} → every view of edge and border -/
def sets : Op := fun j => do
  let m ← getMask (← field j "mask")
  let g ← getGeom j
  let es := Impl.edgeSlim m
  let bs := Impl.borderSlim m
  pure (obj [
    ("edge_slim", natsToJson es), ("border_slim", natsToJson bs),
    ("edge_native", listToJson pairToJson (Impl.edgeNative m)),
    ("border_native", listToJson pairToJson (Impl.borderNative m)),
    ("edge_mask", bitsToJson (Impl.edgeMask m).bits),
    ("border_mask", bitsToJson (Impl.borderMask m).bits),
    ("edge_grid", gridToJson (Impl.gridAt m g es)),
    ("border_grid", gridToJson (Impl.gridAt m g bs)),
    ("total_edge", natToJson (Impl.totalEdgePixels m))])

/-- pixel-centre grid of any mask (used for `Grid2D.blurring_grid_from`) -/
def grid : Op := fun j => do
  let m ← getMask (← field j "mask")
  let g ← getGeom j
  pure (gridToJson (Impl.gridSlimViaMask m g))

def ops : List (String × Op) :=
  [("c10.blurring", blurring), ("c10.blurring_util", blurringUtil), ("c10.sets", sets),
   ("c10.grid", grid)]

end Driver.C10

def main : IO Unit := Driver.runLoop Driver.C10.ops
