/- Driver ops for C10. -/
import Driver.Json

open Lean Model

namespace Driver.C10

def ops : List (String × Op) := []

end Driver.C10
