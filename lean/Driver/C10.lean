/- Driver ops for C10. -/
import Driver.Loop

open Lean Model

namespace Driver.C10

def ops : List (String × Op) := []

end Driver.C10

def main : IO Unit := Driver.runLoop Driver.C10.ops
