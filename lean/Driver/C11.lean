/- Driver ops for C11. -/
import Driver.Loop

open Lean Model

namespace Driver.C11

def ops : List (String × Op) := []

end Driver.C11

def main : IO Unit := Driver.runLoop Driver.C11.ops
