/- Driver ops for C11: the cache machine on the symbolic (free) instance, and the RNG machine.

`c11.cache_machine`
  request  {"effects": {"keys":   {K: {"cached":b, "deps":[[r,K'],…], "drops":[K',…],
                                        "cwrites":[[r,tag],…], "vwrites":[[r,K',tag],…]}},
                        "derivs": {D: {"keeps": [K,…]}},          -- "*" in the list = every key
                        "ctors":  {T: {"writes": [[i,tag],…]}}},
            "history": [{"op":"construct","kind":T,"root":i,"parents":[…]}
                       |{"op":"read","obj":o,"key":K}
                       |{"op":"derive","obj":o,"cls":D,"g":"mul:2"}]}
  response {"steps":[{"value": V|null, "changed":[o,…], "vchanged":[[o,K],…], "size":n}]}
  where a contents term is {"root":i,"path":[g,…],"edits":[tag,…]} and a value term V is
  {"key":K,"at":contents,"deps":[V,…],"edits":[tag,…]}: "the body of K run on an object with these
  contents, given these dependency values, then edited in place by these writes".
`c11.rng_machine`
  request  {"history":[{"op":"reseed","j":n}|{"op":"draw","n":n}|{"op":"simulate","seed":k,"npix":n}]}
  response {"outputs":[null|[draws…]]}   (concrete 31-bit LCG; the harness compares equality patterns)
-/
import Driver.Loop
import Model.Purity

open Lean Model Model.Purity

namespace Driver.C11

structure SymC where
  root : Nat
  path : List String
  edits : List String
deriving BEq, Inhabited

inductive SymV where
  | mk (key : String) (at_ : SymC) (deps : List SymV) (edits : List String)
deriving Inhabited

partial def SymV.beq : SymV → SymV → Bool
  | .mk k c ds es, .mk k' c' ds' es' =>
    k == k' && c == c' && es == es' && ds.length == ds'.length &&
      (ds.zip ds').all (fun p => SymV.beq p.1 p.2)

instance : BEq SymV := ⟨SymV.beq⟩

/-- in-place edits recorded here are idempotent (zeroing the masked entries twice = once) -/
def addTag (t : String) (es : List String) : List String := if es.contains t then es else es ++ [t]

def SymV.addEdit (t : String) : SymV → SymV
  | .mk k c ds es => .mk k c ds (addTag t es)

partial def SymV.dirty : SymV → Bool
  | .mk _ c ds es => !es.isEmpty || !c.edits.isEmpty || ds.any SymV.dirty

def strsToJson (l : List String) : Json := Json.arr (l.map Json.str).toArray

def symCToJson (c : SymC) : Json :=
  obj [("root", natToJson c.root), ("path", strsToJson c.path), ("edits", strsToJson c.edits)]

/-- a reported value: its top node, and whether anything in its dependency tree was edited in place
    (`dirty`); the full tree is sent only on request (`"trees": true`). -/
partial def symVToJson (full : Bool) : SymV → Json
  | .mk k c ds es =>
    obj ([("key", Json.str k), ("at", symCToJson c), ("edits", strsToJson es),
          ("dirty", Json.bool (SymV.dirty (.mk k c ds es)))] ++
         (if full then [("deps", Json.arr (ds.map (symVToJson full)).toArray)] else []))

structure KeyEff where
  cached : Bool := false
  deps : List (Nat × String) := []
  drops : List String := []
  cwrites : List (Nat × String) := []
  vwrites : List (Nat × String × String) := []
deriving Inhabited

structure Table where
  keys : List (String × KeyEff)
  derivs : List (String × List String)
  ctors : List (String × List (Nat × String))

def getKeyEff (j : Json) : Except String KeyEff := do
  let cached ← getBool (fieldD j "cached" (Json.bool false))
  let deps ← (← getArr (fieldD j "deps" (Json.arr #[]))).mapM fun d => do
    let a ← getArr d
    match a with
    | [r, k] => pure ((← getNat r), (← getStr k))
    | _ => throw "bad dep"
  let drops ← getList getStr (fieldD j "drops" (Json.arr #[]))
  let cw ← (← getArr (fieldD j "cwrites" (Json.arr #[]))).mapM fun d => do
    match (← getArr d) with
    | [r, t] => pure ((← getNat r), (← getStr t))
    | _ => throw "bad cwrite"
  let vw ← (← getArr (fieldD j "vwrites" (Json.arr #[]))).mapM fun d => do
    match (← getArr d) with
    | [r, k, t] => pure ((← getNat r), (← getStr k), (← getStr t))
    | _ => throw "bad vwrite"
  pure { cached := cached, deps := deps, drops := drops, cwrites := cw, vwrites := vw }

def objEntries (j : Json) : Except String (List (String × Json)) :=
  match j with
  | .obj kvs => pure (kvs.toList.map fun (k, v) => (k, v))
  | .null => pure []
  | _ => throw "expected object"

def getTable (j : Json) : Except String Table := do
  let keys ← (← objEntries (fieldD j "keys" Json.null)).mapM fun (k, v) => do pure (k, (← getKeyEff v))
  let derivs ← (← objEntries (fieldD j "derivs" Json.null)).mapM fun (k, v) => do
    pure (k, (← getList getStr (fieldD v "keeps" (Json.arr #[]))))
  let ctors ← (← objEntries (fieldD j "ctors" Json.null)).mapM fun (k, v) => do
    let ws ← (← getArr (fieldD v "writes" (Json.arr #[]))).mapM fun d => do
      match (← getArr d) with
      | [i, t] => pure ((← getNat i), (← getStr t))
      | _ => throw "bad ctor write"
    pure (k, ws)
  pure { keys := keys, derivs := derivs, ctors := ctors }

/-- the symbolic (free) instance of the effects table: derivations key = (class, concrete g) -/
def symEffects (t : Table) : Effects String (String × String) String SymC SymV :=
  let ke (k : String) : KeyEff := (t.keys.lookup k).getD {}
  { compute := fun k c vs => .mk k c vs []
    cached := fun k => (ke k).cached
    deps := fun k => (ke k).deps
    drops := fun k => (ke k).drops
    cwrites := fun k => (ke k).cwrites.map fun w => (w.1, fun (c : SymC) => { c with edits := addTag w.2 c.edits })
    vwrites := fun k => (ke k).vwrites.map fun w => (w.1, w.2.1, SymV.addEdit w.2.2)
    apply := fun g c => { c with path := c.path ++ [g.2] }
    keeps := fun g k => match t.derivs.lookup g.1 with
      | none => false
      | some ks => ks.contains "*" || ks.contains k
    ctorWrites := fun ty => ((t.ctors.lookup ty).getD []).map fun w =>
      (w.1, fun (c : SymC) => { c with edits := addTag w.2 c.edits }) }

def getStep (j : Json) : Except String (Impl.Step String (String × String) String SymC) := do
  let op ← getStr (← field j "op")
  match op with
  | "construct" =>
    let kind ← getStr (← field j "kind")
    let root ← getNat (← field j "root")
    let ps ← getNats (fieldD j "parents" (Json.arr #[]))
    pure (.construct kind { root := root, path := [], edits := [] } ps)
  | "read" => pure (.read (← getNat (← field j "obj")) (← getStr (← field j "key")))
  | "derive" =>
    pure (.derive (← getNat (← field j "obj")) ((← getStr (← field j "cls")), (← getStr (← field j "g"))))
  | _ => throw "bad step"

/-- objects whose contents differ / cached entries whose value differs between two heaps (objects
    present in both, keys present in both) -/
def diffHeaps (a b : Heap String SymC SymV) : List Nat × List (Nat × String) :=
  let idx := List.range (min a.length b.length)
  let ch := idx.filter fun i => match a[i]?, b[i]? with
    | some x, some y => !(x.contents == y.contents)
    | _, _ => false
  let vch := idx.flatMap fun i => match a[i]?, b[i]? with
    | some x, some y => (x.cache.filterMap fun e => match lookupCache y.cache e.1 with
        | some v => if v == e.2 then none else some (i, e.1)
        | none => none)
    | _, _ => []
  (ch, vch)

def cacheMachine : Op := fun j => do
  let t ← getTable (← field j "effects")
  let E := symEffects t
  let steps ← getList getStep (← field j "history")
  let fuel := 64
  let full ← getBool (fieldD j "trees" (Json.bool false))
  let (_, outs) := steps.foldl (fun (acc : Heap String SymC SymV × List Json) s =>
    let (h, out) := acc
    let (h1, r) := Impl.step E fuel h s
    let (ch, vch) := diffHeaps h h1
    let o := obj [("value", optToJson (symVToJson full) r), ("changed", natsToJson ch),
                  ("vchanged", listToJson (fun (p : Nat × String) => Json.arr #[natToJson p.1, Json.str p.2]) vch),
                  ("size", natToJson h1.length)]
    (h1, out ++ [o])) (([] : Heap String SymC SymV), [])
  -- `tag` is echoed so the harness can keep its bookkeeping with the request
  pure (obj [("steps", Json.arr outs.toArray), ("tag", fieldD j "tag" Json.null)])

def getRStep (j : Json) : Except String Impl.RStep := do
  let op ← getStr (← field j "op")
  match op with
  | "reseed" => pure (.reseed (← getNat (← field j "j")))
  | "draw" => pure (.draw (← getNat (← field j "n")))
  | "simulate" => pure (.simulate (← getInt (← field j "seed")) (← getNat (← field j "npix")))
  | _ => throw "bad rstep"

def rngMachine : Op := fun j => do
  let steps ← getList getRStep (← field j "history")
  let init ← getNat (fieldD j "init" (natToJson 1))
  -- when neither the data nor the noise-map uses the Poisson draws the output is a constant
  let visible ← getBool (fieldD j "noise_visible" (Json.bool true))
  let (_, outs) := Impl.rrun lcg (fun xs => if visible then xs else []) steps init
  pure (obj [("outputs", listToJson (optToJson natsToJson) outs)])

def ops : List (String × Op) :=
  [("c11.cache_machine", cacheMachine), ("c11.rng_machine", rngMachine)]

end Driver.C11

def main : IO Unit := Driver.runLoop Driver.C11.ops
