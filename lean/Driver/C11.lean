/- Driver ops for C11. -/
import Driver.Json

open Lean Model

namespace Driver.C11

def ops : List (String × Op) := []

end Driver.C11
