/- Driver ops for C12. -/
import Driver.Loop

open Lean Model

namespace Driver.C12

def ops : List (String × Op) := []

end Driver.C12

def main : IO Unit := Driver.runLoop Driver.C12.ops
