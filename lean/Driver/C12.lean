/- Driver ops for C12. -/
import Driver.Json

open Lean Model

namespace Driver.C12

def ops : List (String × Op) := []

end Driver.C12
