/- Driver ops for C12 (translation covariance): evaluates the entry-point model at one origin. -/
import Driver.Loop
import Model.EntryPoints

open Lean Model

namespace Driver.C12

def ptToJson (p : Rat × Rat) : Json := ratsToJson [p.1, p.2]
def gridToJson (g : List (Rat × Rat)) : Json := listToJson ptToJson g
def getPt (j : Json) : Except String (Rat × Rat) := do
  let l ← getRats j
  match l with
  | [a, b] => pure (a, b)
  | _ => throw "expected pair"
def getNatPair (j : Json) : Except String (Nat × Nat) := do
  let l ← getNats j
  match l with
  | [a, b] => pure (a, b)
  | _ => throw "expected nat pair"
def bitsOf (s : String) : List Bool := s.toList.map (· == '1')
def optPt : Option (Rat × Rat) → Json
  | some p => ptToJson p
  | none => Json.null

def entries : Op := fun j => do
  let m ← getMask (← field j "mask")
  let s ← getPt (← field j "scales")
  let o ← getPt (← field j "origin")
  let k ← getNatPair (← field j "kernel")
  let sub ← getNat (← field j "sub")
  let g : Geom Rat := { shape := (m.h, m.w), s := s, o := o }
  let grid := Impl.gridFromMask g m.bits
  let edgeIdx ← getNats (← field j "edge_slim")
  let borderIdx ← getNats (← field j "border_slim")
  let blurBits := bitsOf (← getStr (← field j "blurring_bits"))
  let resShape ← getNatPair (← field j "resized_shape")
  let resBits := bitsOf (← getStr (← field j "resized_bits"))
  let zoomShape ← getNatPair (← field j "zoom_shape")
  let zoomedShape ← getNatPair (← field j "zoomed_shape")
  let pts ← getList getPt (← field j "points")
  let ext := Impl.extent g.shape g.s g.o
  let zoomG := Impl.zoomMaskGeom g m.bits zoomShape
  let zoomedG := Impl.zoomedAroundMaskGeom g m.bits zoomedShape
  let resG := Impl.resizedGeom g resShape
  let geomJson (x : Option (Geom Rat)) : Json :=
    match x with
    | some z => obj [("origin", ptToJson z.o), ("shape", natsToJson [z.shape.1, z.shape.2]),
                     ("grid", gridToJson (Impl.gridAllFalse z))]
    | none => Json.null
  pure (obj [
    ("from_mask", gridToJson grid),
    ("all_false", gridToJson (Impl.gridAllFalse g)),
    ("unmasked", gridToJson grid),
    ("edge", gridToJson (Impl.gather grid edgeIdx)),
    ("border", gridToJson (Impl.gather grid borderIdx)),
    ("blurring", gridToJson (Impl.gridFromMask g blurBits)),
    ("padded", gridToJson (Impl.paddedGrid g k)),
    ("over_sampled", gridToJson (Impl.overSampledGrid g m.bits sub)),
    ("border_sub_grid", gridToJson (Impl.overSampledGrid g m.bits sub)),
    ("mask_centre", optPt (Impl.maskCentre g m.bits)),
    ("extent", ratsToJson [ext.1, ext.2.1, ext.2.2.1, ext.2.2.2]),
    ("scaled_minmax", gridToJson [Impl.scaledMinima g.shape g.s g.o, Impl.scaledMaxima g.shape g.s g.o]),
    ("zoom_mask_unmasked", geomJson zoomG),
    ("zoomed_around_mask", match zoomedG with
      | some z => obj [("origin", ptToJson z.o), ("shape", natsToJson [z.shape.1, z.shape.2]),
                       ("grid", gridToJson (Impl.gridAllFalse z))]
      | none => Json.null),
    ("resized", obj [("origin", ptToJson resG.o), ("shape", natsToJson [resG.shape.1, resG.shape.2]),
                     ("grid", gridToJson (Impl.gridFromMask resG resBits))]),
    ("pixel_coordinates", listToJson (fun p =>
        let c := Impl.pixelCoordinates2 truncRat g.shape g.s g.o p
        intsToJson [c.1, c.2]) pts),
    ("grid_pixel_indexes", intsToJson (Impl.gridPixelIndexes2 truncRat g.shape g.s g.o pts)),
    ("grid_pixel_centres", listToJson (fun (c : Int × Int) => intsToJson [c.1, c.2])
        (Impl.gridPixelCentres2 truncRat g.shape g.s g.o pts)),
    ("grid_pixels", gridToJson (Impl.gridPixels2 g.shape g.s g.o pts))
  ])

/-- rectangular mapper: mesh record from the source-plane grid extremes + index table -/
def rectMapper : Op := fun j => do
  let grid ← getList getPt (← field j "grid")
  let ms ← getNatPair (← field j "mesh")
  let buffer ← getRat (← field j "buffer")
  match Impl.overlayMeshGeom grid ms buffer with
  | none => throw "empty_grid"
  | some mesh =>
    -- distance of every continuous mesh-pixel coordinate to the nearest integer (tie band detection)
    let frac (x : Rat) : Rat := let f := x - (x.floor : Rat); if f < 1 - f then f else 1 - f
    -- the outer frame of the mesh is not a tie between two cells (the 1e-8 buffer keeps every point
    -- inside by far more than rounding error): only interior cell boundaries count
    let inner (x : Rat) (n : Nat) : Rat := if x < 1/2 ∨ x > (n : Rat) - 1/2 then 1 else frac x
    let margins := grid.map fun p =>
      let c := Impl.pixelsOfScaled mesh.shape mesh.s mesh.o p
      let a := inner c.1 mesh.shape.1
      let b := inner c.2 mesh.shape.2
      if a < b then a else b
    let margin := margins.foldl (fun a b => if b < a then b else a) 1
    pure (obj [("origin", ptToJson mesh.o), ("scales", ptToJson mesh.s), ("tie_margin", ratToJson margin),
               ("pix_indexes", intsToJson (Impl.rectangularPixIndexes truncRat mesh grid))])

/-- radial projection with the rotation given by exact (cos φ, sin φ) supplied by the harness -/
def radial : Op := fun j => do
  let shape ← getNatPair (← field j "shape")
  let s ← getPt (← field j "scales")
  let o ← getPt (← field j "origin")
  let c ← getPt (← field j "centre")
  let cs ← getPt (← field j "cos_sin")
  -- optional: the caller's explicit `shape_slim` (0 = derive the length from the extent, as the code does)
  let n ← getNat (fieldD j "shape_slim" (natToJson 0))
  let rot : Rat × Rat → Rat × Rat := fun r => (r.1 * cs.1 - r.2 * cs.2, r.2 * cs.1 + r.1 * cs.2)
  pure (gridToJson (Impl.radialProjected truncRat rot (Impl.extent shape s o) s c n))

def ops : List (String × Op) :=
  [("c12.entries", entries), ("c12.rect_mapper", rectMapper), ("c12.radial", radial)]

end Driver.C12

def main : IO Unit := Driver.runLoop Driver.C12.ops
