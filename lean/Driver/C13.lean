/- Driver ops for C13 (direct Fourier transform).  Everything runs on `Float` with `Float.cos`,
   `Float.sin` and π = 3.141592653589793 (the model's `cos`/`sin`/`pi` parameters). -/
import Driver.Loop
import Model.DFT
import Model.Fit
import Model.Slim

open Lean Model
open Model.Impl.DFT

namespace Driver.C13

instance : NatCast Float := ⟨Float.ofNat⟩

def piF : Float := 3.141592653589793

def getPairF (j : Json) : Except String (Float × Float) := do
  match ← getList getFloat j with
  | [a, b] => pure (a, b)
  | _ => throw "expected pair"

def getCxF (j : Json) : Except String (Cx Float) := do
  let (a, b) ← getPairF j
  pure ⟨a, b⟩

def pairToJsonF (p : Float × Float) : Json := floatsToJson [p.1, p.2]
def cxToJson (c : Cx Float) : Json := floatsToJson [c.re, c.im]

def getKeep (j : Json) : Except String (Float → Bool) := do
  match ← getStr (fieldD j "keep" (Json.str "nonzero")) with
  | "nonzero" => pure keepNonzero
  | "positive" => pure keepPositive
  | _ => throw "bad keep"

/-- the radian grid: given explicitly (`grid`) or derived from mask + scales + origin as
    `TransformerDFT.__init__` does. -/
def getGrid (j : Json) : Except String (List (Float × Float)) := do
  match fieldD j "grid" Json.null with
  | Json.null =>
    let m ← getMask (← field j "mask")
    let sc ← getPairF (← field j "pixel_scales")
    let o ← getPairF (← field j "origin")
    pure (transformerGrid piF m sc.1 sc.2 o.1 o.2)
  | g => getList getPairF g

def getMatF (j : Json) : Except String (List (List Float)) := getList getFloats j

def checkMat (M : List (List Float)) (nRows nCols : Nat) : Except String Unit :=
  if M.length ≠ nRows || M.any (·.length ≠ nCols) then throw "shape_mismatch" else pure ()

/-- grid, visibilities of an image, adjoint image of visibilities, transformed mapping matrix. -/
def transformer : Op := fun j => do
  let grid ← getGrid j
  let uv ← getList getPairF (← field j "uv")
  let preload ← getBool (← field j "preload")
  let keep ← getKeep j
  let mut out : List (String × Json) := [("grid", listToJson pairToJsonF grid)]
  match fieldD j "image" Json.null with
  | Json.null => pure ()
  | ij =>
    let image ← getFloats ij
    if image.length ≠ grid.length then throw "shape_mismatch"
    out := out ++ [("visibilities",
      listToJson cxToJson (visibilitiesFrom Float.cos Float.sin piF preload image grid uv))]
  match fieldD j "vis" Json.null with
  | Json.null => pure ()
  | vj =>
    let vis ← getList getCxF vj
    if vis.length ≠ uv.length then throw "shape_mismatch"
    let img := imageFrom Float.cos Float.sin piF grid uv vis
    out := out ++ [("image", floatsToJson img)]
    -- TransformerDFT.image_from scatters the slim image to native with array_2d_native_from (C01)
    match fieldD j "mask" Json.null with
    | Json.null => pure ()
    | mj =>
      let m ← getMask mj
      out := out ++ [("image_native", floatsToJson (Impl.nativeFrom m img 0))]
  match fieldD j "M" Json.null with
  | Json.null => pure ()
  | mj =>
    let M ← getMatF mj
    let nCols ← getNat (← field j "n_cols")
    checkMat M grid.length nCols
    out := out ++ [("transformed", listToJson (listToJson cxToJson)
      (transformMappingMatrix keep Float.cos Float.sin piF preload M nCols grid uv))]
  pure (obj out)

/-- InversionInterferometerMapping.data_vector / curvature_matrix for a list of linear objects. -/
def normalEq : Op := fun j => do
  let grid ← getGrid j
  let uv ← getList getPairF (← field j "uv")
  let preload ← getBool (← field j "preload")
  let keep ← getKeep j
  let vis ← getList getCxF (← field j "data")
  let noise ← getList getCxF (← field j "noise")
  let diag ← getFloat (← field j "diag_value")
  let objsJ ← getArr (← field j "objs")
  if vis.length ≠ uv.length || noise.length ≠ uv.length then throw "shape_mismatch"
  let mut Ts : List (List (List (Cx Float))) := []
  let mut lin : List (Impl.Fit.LinObj Float) := []
  for oj in objsJ do
    let M ← getMatF (← field oj "M")
    let nCols ← getNat (← field oj "n_cols")
    let hasReg ← getBool (← field oj "has_reg")
    checkMat M grid.length nCols
    Ts := Ts ++ [transformMappingMatrix keep Float.cos Float.sin piF preload M nCols grid uv]
    lin := lin ++ [{ params := nCols, reg := if hasReg then some [] else none }]
  let T := hstack uv.length Ts
  let nCols := Impl.Fit.totalParams lin
  let noReg := Impl.Fit.noRegularizationIndexList lin
  let D := (dataVector T uv.length nCols vis noise).toList
  let F := (curvatureMatrix T uv.length nCols noise noReg diag).toLists
  pure (obj [("operated_mapping_matrix", listToJson (listToJson cxToJson) T),
             ("data_vector", floatsToJson D),
             ("curvature_matrix", listToJson floatsToJson F),
             ("no_regularization_index_list", natsToJson noReg)])

def ops : List (String × Op) := [("c13.transformer", transformer), ("c13.normal_eq", normalEq)]

end Driver.C13

def main : IO Unit := Driver.runLoop Driver.C13.ops
