/- Driver ops for C13. -/
import Driver.Loop

open Lean Model

namespace Driver.C13

def ops : List (String × Op) := []

end Driver.C13

def main : IO Unit := Driver.runLoop Driver.C13.ops
