/- Driver ops for C13. -/
import Driver.Json

open Lean Model

namespace Driver.C13

def ops : List (String × Op) := []

end Driver.C13
