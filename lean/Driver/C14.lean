/- Driver ops for C14 (resize / pad / trim / zoom). -/
import Driver.Loop
import Model.Resize

open Lean Model

namespace Driver.C14

def getPair (f : Json → Except String β) (j : Json) : Except String (β × β) := do
  match (← getArr j) with
  | [a, b] => pure (← f a, ← f b)
  | _ => throw "expected pair"

def getGeom (j : Json) : Except String (Impl.Geom Rat) := do
  let (sy, sx) ← getPair getRat (← field j "scales")
  let (oy, ox) ← getPair getRat (← field j "origin")
  pure { sy := sy, sx := sx, oy := oy, ox := ox }

def getGMask (j : Json) : Except String (Impl.GMask Rat) := do
  pure { mask := ← getMask (← field j "mask"), geom := ← getGeom j }

def getArrJ (j : Json) : Except String (Impl.Arr Rat) := do
  let gm ← getGMask j
  let native ← getRats (← field j "native")
  if native.length ≠ gm.mask.h * gm.mask.w then throw "shape_mismatch"
  let sn ← getBool (fieldD j "store_native" (Json.bool false))
  -- the `Array2D(values=native, mask=mask)` constructor zeroes the masked entries
  pure { Impl.arrayWithMask native gm 0 with storeNative := sn }

def geomFields (g : Impl.Geom Rat) : List (String × Json) :=
  [("scales", ratsToJson [g.sy, g.sx]), ("origin", ratsToJson [g.oy, g.ox])]

def gridToJson (l : List (Rat × Rat)) : Json := listToJson (fun p => ratsToJson [p.1, p.2]) l

def gmaskToJson (gm : Impl.GMask Rat) : Json :=
  obj ([("mask", maskToJson gm.mask)] ++ geomFields gm.geom)

def arrToJson (a : Impl.Arr Rat) : Json :=
  obj ([("mask", maskToJson a.gm.mask), ("native", ratsToJson a.native),
        ("slim", ratsToJson (Impl.slimFrom a.gm.mask a.native 0)),
        ("store_native", Json.bool a.storeNative),
        ("grid", gridToJson (Impl.gridSlimViaMask a.gm.mask a.gm.geom))] ++ geomFields a.gm.geom)

def getPad (j : Json) (k : String) : Except String Bool := do
  let v ← getRat (fieldD j k (Json.str "0"))
  pure (v != 0)

/-- `resized_array_2d_from` on a raw array -/
def resizedUtil : Op := fun j => do
  let src ← getRats (← field j "src")
  let h ← getNat (← field j "h")
  let w ← getNat (← field j "w")
  if src.length ≠ h * w then throw "shape_mismatch"
  let (h', w') ← getPair getNat (← field j "shape")
  let pad ← getRat (fieldD j "pad" (Json.str "0"))
  let origin ← match fieldD j "origin" Json.null with
    | Json.null => pure none
    | o => do pure (some (← getPair getNat o))
  pure (ratsToJson (Impl.resizedArray2d src h w h' w' origin pad 0))

/-- `extracted_array_2d_from` on a raw array -/
def extractedUtil : Op := fun j => do
  let src ← getRats (← field j "src")
  let h ← getNat (← field j "h")
  let w ← getNat (← field j "w")
  if src.length ≠ h * w then throw "shape_mismatch"
  let y0 ← getInt (← field j "y0")
  let y1 ← getInt (← field j "y1")
  let x0 ← getInt (← field j "x0")
  let x1 ← getInt (← field j "x1")
  if y1 < y0 ∨ x1 < x0 then throw "negative_shape"
  pure (obj [("shape", natsToJson [(y1 - y0).toNat, (x1 - x0).toNat]),
             ("values", ratsToJson (Impl.extractedArray2d src h w y0 y1 x0 x1 0))])

/-- chain of `Mask2D.resized_from` calls -/
def maskChain : Op := fun j => do
  let gm ← getGMask j
  let steps ← getArr (← field j "steps")
  let mut cur := gm
  let mut out : List Json := []
  for s in steps do
    let (h', w') ← getPair getNat (← field s "shape")
    let pad ← getPad s "pad"
    cur := Impl.maskResizedFrom cur h' w' pad
    out := out ++ [gmaskToJson cur]
  pure (Json.arr out.toArray)

/-- chain of `Array2D.resized_from / padded_before_convolution_from / trimmed_after_convolution_from` -/
def arrayChain : Op := fun j => do
  let a ← getArrJ j
  let steps ← getArr (← field j "steps")
  let mut cur := a
  let mut out : List Json := []
  for s in steps do
    let k ← getStr (← field s "k")
    match k with
    | "resize" =>
      let (h', w') ← getPair getNat (← field s "shape")
      cur := Impl.arrayResizedFrom cur h' w' (← getPad s "mask_pad") 0
    | "pad" =>
      let (kh, kw) ← getPair getNat (← field s "kernel")
      cur := Impl.paddedBeforeConvolution cur kh kw (← getPad s "mask_pad") 0
    | "trim" =>
      let (kh, kw) ← getPair getNat (← field s "kernel")
      match Impl.trimmedAfterConvolution cur kh kw 0 with
      | some c => cur := c
      | none => throw "empty_trim"
    | _ => throw "bad_step"
    out := out ++ [arrToJson cur]
  pure (Json.arr out.toArray)

def trimmedArrayFrom : Op := fun j => do
  let padded ← getRats (← field j "padded")
  let (hp, wp) ← getPair getNat (← field j "padded_shape")
  if padded.length ≠ hp * wp then throw "shape_mismatch"
  let (ih, iw) ← getPair getNat (← field j "image_shape")
  match Impl.trimmedArrayFrom padded hp wp ih iw 0 with
  | none => throw "image_larger_than_padded"
  | some (r, c, v) => pure (obj [("shape", natsToJson [r, c]), ("native", ratsToJson v)])

def zoom : Op := fun j => do
  let a ← getArrJ j
  let buffer ← getInt (← field j "buffer")
  match Impl.zoomRegion a.gm.mask, Impl.zoomedAroundMask a buffer 0 with
  | some (y0, y1, x0, x1), some (zh, zw, vals) =>
    pure (obj [("region", intsToJson [y0, y1, x0, x1]), ("shape", natsToJson [zh, zw]),
               ("native", ratsToJson vals), ("scales", ratsToJson [a.gm.geom.sy, a.gm.geom.sx])])
  | _, _ => throw "all_masked"

def applyMask : Op := fun j => do
  let gm ← getGMask j
  let data ← getRats (← field j "data")
  let noise ← getRats (← field j "noise")
  if data.length ≠ gm.mask.h * gm.mask.w ∨ noise.length ≠ gm.mask.h * gm.mask.w then
    throw "shape_mismatch"
  let (kh, kw) ← getPair getNat (← field j "kernel")
  let (d, n) := Impl.imagingApplyMask data noise gm kh kw 0
  pure (obj [("padded", Json.bool (!Impl.blurringFits gm.mask kh kw)),
             ("data", arrToJson d), ("noise", arrToJson n)])

/-- a sequence of `Imaging.apply_mask` calls on a fresh dataset; observation after every step -/
def applyMaskChain : Op := fun j => do
  let geom ← getGeom j
  let h ← getNat (← field j "h")
  let w ← getNat (← field j "w")
  let data ← getRats (← field j "data")
  let noise ← getRats (← field j "noise")
  if data.length ≠ h * w ∨ noise.length ≠ h * w then throw "shape_mismatch"
  let (kh, kw) ← getPair getNat (← field j "kernel")
  let masks ← getList getMask (← field j "masks")
  let mut cur := Impl.imagingInit data noise h w geom
  let mut out : List Json := []
  for m in masks do
    match Impl.imagingApplyMaskStep cur ⟨m, geom⟩ kh kw 0 with
    | none => throw "shape_mismatch"
    | some st =>
      cur := st
      out := out ++ [obj [("padded", Json.bool (st.data.gm.mask.h != h || st.data.gm.mask.w != w)),
                          ("data", arrToJson st.data), ("noise", arrToJson st.noise)]]
  pure (Json.arr out.toArray)

def grid : Op := fun j => do
  let gm ← getGMask j
  pure (gridToJson (Impl.gridSlimViaMask gm.mask gm.geom))

def ops : List (String × Op) :=
  [("c14.resized_util", resizedUtil), ("c14.extracted_util", extractedUtil),
   ("c14.mask_chain", maskChain), ("c14.array_chain", arrayChain),
   ("c14.trimmed_array_from", trimmedArrayFrom), ("c14.zoom", zoom),
   ("c14.apply_mask", applyMask), ("c14.apply_mask_chain", applyMaskChain), ("c14.grid", grid)]

end Driver.C14

def main : IO Unit := Driver.runLoop Driver.C14.ops
