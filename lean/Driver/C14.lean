/- Driver ops for C14. -/
import Driver.Json

open Lean Model

namespace Driver.C14

def ops : List (String × Op) := []

end Driver.C14
