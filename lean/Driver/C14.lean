/- Driver ops for C14. -/
import Driver.Loop

open Lean Model

namespace Driver.C14

def ops : List (String × Op) := []

end Driver.C14

def main : IO Unit := Driver.runLoop Driver.C14.ops
