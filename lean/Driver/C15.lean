/- Driver ops for C15 (preload transparency).

One op, `c15.history`: runs `Model.Preload.Impl.history` at `α := Float` (IEEE doubles, so that the only
arithmetic the model does itself — `F += H`, `c[i,i] += v` — rounds exactly as numpy does).
Doubles travel as their 64-bit patterns (JSON integers), exact both ways.  The numerical kernels
(`Ext`) are given by the harness as finite tables sampled from reference runs of the real code; a
lookup outside a table yields the marker `[NaN]`, which the harness reports.
-/
import Driver.Loop
import Model.Preload

open Lean Model Model.Preload

namespace Driver.C15

abbrev Buf := List Float

def getF (j : Json) : Except String Float := do
  let n ← getNat j
  pure (Float.ofBits (UInt64.ofNat n))

def fToJson (x : Float) : Json := natToJson x.toBits.toNat

def getBuf (j : Json) : Except String Buf := getList getF j
def bufToJson (b : Buf) : Json := listToJson fToJson b

def eqBuf (a b : Buf) : Bool :=
  a.length == b.length && (a.zip b).all fun p => p.1.toBits == p.2.toBits

def nanBuf : Buf := [Float.ofBits 0x7ff8000000000000]
def nan : Float := Float.ofBits 0x7ff8000000000000

def optField (j : Json) (k : String) : Option Json :=
  match j.getObjVal? k with
  | .ok .null => none
  | .ok v => some v
  | .error _ => none

def getOpt (f : Json → Except String β) (j : Json) (k : String) : Except String (Option β) :=
  match optField j k with
  | none => pure none
  | some v => do pure (some (← f v))

def getWrites (j : Json) : Except String (List (Nat × Float)) :=
  getList (fun e => do
    let l ← getArr e
    match l with
    | [i, v] => pure ((← getNat i), (← getF v))
    | _ => throw "bad write") j

/-- table of a 1-argument kernel: [[key, value], …] -/
def table1 (val : Json → Except String β) (dflt : β) (j : Json) (k : String) :
    Except String (Buf → β) := do
  let rows ← getList (fun e => do
    let l ← getArr e
    match l with
    | [a, v] => pure ((← getBuf a), (← val v))
    | _ => throw s!"bad table row in {k}") (fieldD j k (Json.arr #[]))
  pure fun x => match rows.find? (fun r => eqBuf r.1 x) with
    | some r => r.2
    | none => dflt

/-- table of a 2-argument kernel: [[key1, key2, value], …] -/
def table2 (val : Json → Except String β) (dflt : β) (j : Json) (k : String) :
    Except String (Buf → Buf → β) := do
  let rows ← getList (fun e => do
    let l ← getArr e
    match l with
    | [a, b, v] => pure ((← getBuf a), (← getBuf b), (← val v))
    | _ => throw s!"bad table row in {k}") (fieldD j k (Json.arr #[]))
  pure fun x y => match rows.find? (fun r => eqBuf r.1 x && eqBuf r.2.1 y) with
    | some r => r.2.2
    | none => dflt

def constBuf (j : Json) (k : String) : Except String Buf :=
  match optField j k with
  | none => pure nanBuf
  | some v => getBuf v

def getExt (j : Json) : Except String (Ext Float) := do
  let nanW : List (Nat × Float) := [(0, nan)]
  pure {
    lfCompute := ← constBuf j "lf_compute"
    momdCompute := ← constBuf j "momd_compute"
    dlfOfLf := ← table1 getBuf nanBuf j "dlf_of_lf"
    ommPlain := ← constBuf j "omm_plain"
    ommOfLf := ← table1 getBuf nanBuf j "omm_of_lf"
    dvOfOmm := ← table1 getBuf nanBuf j "dv_of_omm"
    curvOfOmm := ← table1 getBuf nanBuf j "curv_of_omm"
    mappedMapping := ← table2 getBuf nanBuf j "mapped_mapping"
    dvmMapping := ← constBuf j "dvm_mapping"
    wtCompute := ← constBuf j "wt_compute"
    wtCheck := ← table1 getBool true j "wt_check"
    dvW := ← constBuf j "dv_w"
    dvFuncEntries := ← table1 getWrites nanW j "dv_func_entries"
    diagOfWT := ← table1 getBuf nanBuf j "diag_of_wt"
    offDiagWrites := ← table1 getWrites nanW j "off_diag_writes"
    funcOffViaDlf := ← table1 getWrites nanW j "func_off_via_dlf"
    funcOffViaMomd := ← table2 getWrites nanW j "func_off_via_momd"
    funcOffDefault := ← table1 getWrites nanW j "func_off_default"
    funcDiagWrites := ← table1 getWrites nanW j "func_diag_writes"
    mirror := ← table1 getBuf nanBuf j "mirror"
    mappedW := ← table2 getBuf nanBuf j "mapped_w"
    regCompute := ← constBuf j "reg_compute"
    reduce := ← table1 getBuf nanBuf j "reduce"
    reduceVec := ← table1 getBuf nanBuf j "reduce_vec"
    logDetReg := ← table1 getF nan j "log_det_reg"
    solve := ← table2 getBuf nanBuf j "solve"
    regTerm := ← table2 getF nan j "reg_term"
    logDetCurvReg := ← table1 getF nan j "log_det_curv_reg"
  }

def getCfg (j : Json) : Except String (Cfg Float) := do
  pure {
    settingsUseWTilde := ← getBool (← field j "settings_use_w_tilde")
    allFuncLists := ← getBool (← field j "all_func_lists")
    hasFuncList := ← getBool (← field j "has_func_list")
    nMappers := ← getNat (← field j "n_mappers")
    nObjs := ← getNat (← field j "n_objs")
    hasReg := ← getBool (← field j "has_reg")
    allReg := ← getBool (← field j "all_reg")
    funcOverride := ← getBool (← field j "func_override")
    noRegIdx := ← getNats (← field j "no_reg_idx")
    diagValue := ← getF (← field j "diag_value")
    dim := ← getNat (← field j "dim")
  }

def getPolicy (j : Json) : Except String Policy := do
  pure {
    copyCurvature := ← getBool (← field j "copy_curvature")
    copyDataVectorMapper := ← getBool (← field j "copy_dvm")
    copyMapperDiag := ← getBool (← field j "copy_diag")
    guardDataVectorMapper := ← getBool (← field j "guard_dvm")
  }

def getPreloads (j : Json) : Except String (Preloads Float) := do
  pure {
    wTilde := ← getOpt getNat j "w_tilde"
    useWTilde := ← getOpt getBool j "use_w_tilde"
    operatedMappingMatrix := ← getOpt getNat j "operated_mapping_matrix"
    linearFuncDict := ← getOpt getNat j "linear_func_operated_mapping_matrix_dict"
    dataLinearFuncDict := ← getOpt getNat j "data_linear_func_matrix_dict"
    mapperOperatedDict := ← getOpt getNat j "mapper_operated_mapping_matrix_dict"
    curvatureMatrix := ← getOpt getNat j "curvature_matrix"
    dataVectorMapper := ← getOpt getNat j "data_vector_mapper"
    curvatureMatrixMapperDiag := ← getOpt getNat j "curvature_matrix_mapper_diag"
    regularizationMatrix := ← getOpt getNat j "regularization_matrix"
    logDetRegularizationMatrixTerm := ← getOpt getF j "log_det_regularization_matrix_term"
  }

def getAccess (j : Json) : Except String Access := do
  match ← getStr j with
  | "operated_mapping_matrix" => pure .operatedMappingMatrix
  | "data_vector" => pure .dataVector
  | "curvature_matrix" => pure .curvatureMatrix
  | "regularization_matrix" => pure .regularizationMatrix
  | "curvature_reg_matrix" => pure .curvatureRegMatrix
  | "reconstruction" => pure .reconstruction
  | "mapped_reconstructed_data" => pure .mappedReconstructedData
  | "regularization_term" => pure .regularizationTerm
  | "log_det_curvature_reg_matrix_term" => pure .logDetCurvatureRegMatrixTerm
  | "log_det_regularization_matrix_term" => pure .logDetRegularizationMatrixTerm
  | s => throw s!"bad access {s}"

/-- `c15.history` -/
def historyOp : Op := fun j => do
  let cfg ← getCfg (← field j "cfg")
  let pol ← getPolicy (← field j "policy")
  let ext ← getExt (← field j "ext")
  let heap0 : Heap Float := ⟨← getList getBuf (← field j "heap")⟩
  let p ← getPreloads (← field j "preloads")
  if !decide (p.Below heap0.size) then throw "dangling_preload_ref"
  let hist ← getList (getList getAccess) (← field j "history")
  -- the cached_property machine is what is compared with the code; the uncached accessors must
  -- report the same (C15.cached_history_refines_spec) — cross-checked here on every request
  let res := Impl.historyCached cfg ext pol true p hist heap0
  let res' := Impl.history cfg ext pol p hist heap0
  let same := res.2.length == res'.2.length && (res.2.zip res'.2).all fun q =>
    match q.1, q.2 with
    | none, none => true
    | some a, some b => a.length == b.length && (a.zip b).all fun r => eqBuf r.1 r.2
    | _, _ => false
  let nanFree := res.2.all fun o => match o with
    | none => true
    | some l => l.all fun b => b.all fun x => !x.isNaN
  if !same && nanFree then throw "cached_uncached_disagree"
  let outs := res.2.map fun o => match o with
    | none => Json.str "inversion_exception"
    | some l => listToJson bufToJson l
  pure (obj [("outputs", Json.arr outs.toArray),
             ("heap_after", listToJson bufToJson (res.1.bufs.take heap0.size)),
             ("use_w_tilde", Json.bool (useWTilde cfg p.useWTilde)),
             ("heap_size", natToJson res.1.size)])

def ops : List (String × Op) := [("c15.history", historyOp)]

end Driver.C15

def main : IO Unit := Driver.runLoop Driver.C15.ops
