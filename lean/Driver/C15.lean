/- Driver ops for C15. -/
import Driver.Loop

open Lean Model

namespace Driver.C15

def ops : List (String × Op) := []

end Driver.C15

def main : IO Unit := Driver.runLoop Driver.C15.ops
