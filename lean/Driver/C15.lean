/- Driver ops for C15. -/
import Driver.Json

open Lean Model

namespace Driver.C15

def ops : List (String × Op) := []

end Driver.C15
