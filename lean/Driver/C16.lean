/- Driver ops for C16 (FITS round trips, filesystem histories). -/
import Driver.Loop
import Model.Fits

open Lean Model Model.Fits

namespace Driver.C16

def dataToJson : Data Rat → Json
  | .d1 v => ratsToJson v
  | .d2 rows => ratMatToJson rows

def headerToJson (h : List (String × Rat)) : Json :=
  listToJson (fun (c : String × Rat) => Json.arr #[Json.str c.1, ratToJson c.2]) h

def hduToJson (h : Hdu Rat) : Json := obj [("data", dataToJson h.data), ("header", headerToJson h.header)]

def getPair (j : Json) : Except String (Rat × Rat) := do
  let l ← getRats j
  match l with
  | [a, b] => pure (a, b)
  | _ => throw "expected pair"

def getBits (j : Json) : Except String (List Bool) := do
  pure ((← getStr j).toList.map (· == '1'))

def read2dToJson (r : Read2d Rat) : Except String Json := do
  match r.native 0 with
  | some v =>
    let slim := match Impl.viewSlim r.mask r.stored 0 with
      | some (.slim s) => s
      | _ => []
    pure (obj [("shape", natsToJson [r.mask.h, r.mask.w]), ("native", ratsToJson v),
      ("slim", ratsToJson slim), ("mask_bits", bitsToJson r.mask.bits),
      ("scales", ratsToJson [r.scales.1, r.scales.2])])
  | none => throw "view_failed"

/-- one 2-D array / kernel through both routes.
    {"mask","values"(slim),"scales":[sy,sx],"flip"} →
    {"hdu": written HDU, "from_hdu": read-back, "from_file": read-back via file (user scales), "file_headers"}
    optional (history cases, round 4): "flip_read" = the flag in force when the HDU / file is READ (default:
    the flag it was written under), "read_scales" = the pixel scales handed to `from_fits` (default: "scales") -/
def array2d : Op := fun j => do
  let m ← getMask (← field j "mask")
  let vals ← getRats (← field j "values")
  let sc ← getPair (← field j "scales")
  let flip ← getBool (← field j "flip")
  let flipR ← getBool (fieldD j "flip_read" (Json.bool flip))
  let scR ← match (j.getObjVal? "read_scales").toOption with
    | some sj => getPair sj
    | none => pure sc
  if vals.length ≠ Impl.totalPixels m then throw "shape_mismatch"
  -- optional: the array is held in native form with these (arbitrary under the mask) values
  let hdu ← match (j.getObjVal? "stored_native").toOption with
    | some sj => do
      let nat ← getRats sj
      match array2dHduStored flip m (.native nat) sc 0 with
      | some h => pure h
      | none => throw "shape_mismatch"
    | none => pure (array2dHdu flip m vals sc 0)
  let r1 ← match array2dFromHdu flipR hdu 0 with
    | some r => read2dToJson r
    | none => throw "read_failed"
  let file := fileOf hdu
  let r2 ← match array2dFromFits flipR file 0 scR 0 with
    | some r => read2dToJson r
    | none => throw "read_failed"
  let hs ← match headersFromFits file 0 with
    | some (a, b) => pure (obj [("sci", headerToJson a), ("hdu", headerToJson b)])
    | none => throw "read_failed"
  pure (obj [("hdu", hduToJson hdu), ("from_hdu", r1), ("from_file", r2), ("file_headers", hs)])

/-- a mask through both routes; file route optionally with `invert` -/
def mask2d : Op := fun j => do
  let m ← getMask (← field j "mask")
  let sc ← getPair (← field j "scales")
  let flip ← getBool (← field j "flip")
  let invert ← getBool (fieldD j "invert" (Json.bool false))
  let flipR ← getBool (fieldD j "flip_read" (Json.bool flip))
  let hdu := mask2dHdu flip m sc 0 1
  let r1 ← match mask2dFromHdu flipR hdu 0 with
    | some (mm, s) => pure (obj [("mask", maskToJson mm), ("scales", ratsToJson [s.1, s.2])])
    | none => throw "read_failed"
  let r2 ← match mask2dFromFits flipR (fileOf hdu) 0 invert 0 with
    | some mm => pure (maskToJson mm)
    | none => throw "read_failed"
  pure (obj [("hdu", hduToJson hdu), ("from_hdu", r1), ("from_file", r2)])

def array1d : Op := fun j => do
  let mask ← getBits (← field j "bits")
  let vals ← getRats (← field j "values")
  let s ← getRat (← field j "scale")
  let hdu ← match (j.getObjVal? "stored_native").toOption with
    | some sj => do pure (array1dHduNativeStored mask (← getRats sj) s 0)
    | none => pure (array1dHdu mask vals s 0)
  let r1 ← match array1dFromHdu hdu with
    | some (v, sc) => pure (obj [("native", ratsToJson v), ("scales", ratsToJson [sc])])
    | none => throw "read_failed"
  let r2 ← match array1dFromFits (fileOf hdu) 0 with
    | some v => pure (ratsToJson v)
    | none => throw "read_failed"
  pure (obj [("hdu", hduToJson hdu), ("from_hdu", r1), ("from_file", r2)])

def mask1d : Op := fun j => do
  let mask ← getBits (← field j "bits")
  let s ← getRat (← field j "scale")
  let hdu := mask1dHdu mask s 0 1
  let r1 ← match mask1dFromHdu hdu 0 with
    | some (v, sc) => pure (obj [("bits", bitsToJson v), ("scales", ratsToJson [sc])])
    | none => throw "read_failed"
  let r2 ← match mask1dFromFits (fileOf hdu) 0 0 with
    | some v => pure (bitsToJson v)
    | none => throw "read_failed"
  pure (obj [("hdu", hduToJson hdu), ("from_hdu", r1), ("from_file", r2)])

/-- a multi-HDU file assembled from the `hdu_for_output` of several arrays; read HDU `read`.
    {"flip","arrays":[{"mask","values","scales"}],"read":k,"scales":[sy,sx]} -/
def multiHdu : Op := fun j => do
  let flip ← getBool (← field j "flip")
  let k ← getNat (← field j "read")
  let sc ← getPair (← field j "scales")
  let arrs ← getArr (← field j "arrays")
  let file ← arrs.mapM fun a => do
    let m ← getMask (← field a "mask")
    let vals ← getRats (← field a "values")
    let s ← getPair (← field a "scales")
    if vals.length ≠ Impl.totalPixels m then throw "shape_mismatch"
    pure (array2dHdu flip m vals s 0)
  match array2dFromFits flip file k sc 0, headersFromFits file k with
  | some r, some (a, b) =>
    pure (obj [("read", ← read2dToJson r), ("sci", headerToJson a), ("hdu", headerToJson b)])
  | _, _ => throw "index_error"

def getPath (j : Json) : Except String Path := getList getStr j

def pathToJson (p : Path) : Json := listToJson Json.str p

/-- {"dirs":[path], "files":[[path,id]], "steps":[{"path","overwrite","content"}]} →
    {"results":[null|kind], "files":[[path,id]] sorted by the harness, "dirs":[path]} -/
def fsHistory : Op := fun j => do
  let dirs ← getList getPath (fieldD j "dirs" (Json.arr #[]))
  let files ← getList (fun e => do
      let l ← getArr e
      match l with
      | [p, c] => pure ((← getPath p), (← getNat c))
      | _ => throw "bad file entry") (fieldD j "files" (Json.arr #[]))
  let steps ← getList (fun s => do
      pure ((← getPath (← field s "path")), (← getBool (← field s "overwrite")),
            (← getNat (← field s "content")))) (← field j "steps")
  let fs0 : FS Nat := ⟨files, dirs⟩
  let (res, fs) := outputs fs0 steps
  pure (obj [
    ("results", listToJson (fun (r : Option String) => match r with
        | none => Json.null | some e => Json.str e) res),
    ("files", listToJson (fun (e : Path × Nat) => Json.arr #[pathToJson e.1, natToJson e.2]) fs.files),
    ("dirs", listToJson pathToJson fs.dirs)])

def ops : List (String × Op) :=
  [("c16.array2d", array2d), ("c16.mask2d", mask2d), ("c16.array1d", array1d),
   ("c16.mask1d", mask1d), ("c16.multi_hdu", multiHdu), ("c16.fs_history", fsHistory)]

end Driver.C16

def main : IO Unit := Driver.runLoop Driver.C16.ops
