/- Driver ops for C16. -/
import Driver.Loop

open Lean Model

namespace Driver.C16

def ops : List (String × Op) := []

end Driver.C16

def main : IO Unit := Driver.runLoop Driver.C16.ops
