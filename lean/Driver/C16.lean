/- Driver ops for C16. -/
import Driver.Json

open Lean Model

namespace Driver.C16

def ops : List (String × Op) := []

end Driver.C16
