/- Driver ops for C17. -/
import Driver.Loop

open Lean Model

namespace Driver.C17

def ops : List (String × Op) := []

end Driver.C17

def main : IO Unit := Driver.runLoop Driver.C17.ops
