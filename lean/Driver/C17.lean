/- Driver ops for C17 (structure decorators). -/
import Driver.Loop
import Model.Decorators
import Model.DecoratorsConfig

open Lean Model Model.Dec

namespace Driver.C17

/-- number bridge so that one op body serves exact (`Rat`) and floating (`Float`) execution -/
structure Num (α : Type) where
  get : Json → Except String α
  put : α → Json
  ofNat : Nat → α

def numRat : Num Rat := ⟨getRat, ratToJson, fun n => (n : Rat)⟩
def numFloat : Num Float := ⟨getFloat, floatToJson, fun n => Float.ofNat n⟩

def floatTrig : Trig Float :=
  ⟨Float.sqrt, Float.atan2, Float.sin, Float.cos, fun d => d * (3.141592653589793 / 180.0)⟩

def floatTrunc (x : Float) : Nat := x.toUInt64.toNat

section generic
variable {α : Type} [Add α] [Mul α] [OfNat α 0]

/-- c₀ + c₁·y + c₂·x + c₃·y² + c₄·y·x + c₅·x² -/
def phi (c : List α) (p : α × α) : α :=
  let g := fun k => c.getD k 0
  g 0 + g 1 * p.1 + g 2 * p.2 + g 3 * (p.1 * p.1) + g 4 * (p.1 * p.2) + g 5 * (p.2 * p.2)

/-- non-pointwise post-processing of the value list:
    "poly" = as is; "index": entry k multiplied by (k+1); "prefix": running sums -/
def applyMode (N : Num α) (mode : String) (vals : List α) : List α :=
  match mode with
  | "index" => vals.zipIdx.map fun (v, k) => v * N.ofNat (k + 1)
  | "prefix" => (vals.foldl (fun (acc : List α × α) v => (acc.1 ++ [acc.2 + v], acc.2 + v)) ([], 0)).1
  | _ => vals

structure Func (α : Type) where
  mode : String
  cy : List α
  cx : List α

def getFunc (N : Num α) (j : Json) : Except String (Func α) := do
  let mode ← getStr (← field j "mode")
  let cy ← getList N.get (← field j "cy")
  let cx ← getList N.get (fieldD j "cx" (Json.arr #[]))
  pure ⟨mode, cy, cx⟩

def scalarOf (N : Num α) (fn : Func α) (pts : List (α × α)) : List α :=
  applyMode N fn.mode (pts.map (phi fn.cy))

def pairOf (N : Num α) (fn : Func α) (pts : List (α × α)) : List (α × α) :=
  (applyMode N fn.mode (pts.map (phi fn.cy))).zip (applyMode N fn.mode (pts.map (phi fn.cx)))

def getPts (N : Num α) (j : Json) : Except String (List (α × α)) :=
  getList (fun p => do
    let l ← getList N.get p
    match l with
    | [a, b] => pure (a, b)
    | _ => throw "expected pair") j

def ptsToJson (N : Num α) (l : List (α × α)) : Json :=
  listToJson (fun (p : α × α) => Json.arr #[N.put p.1, N.put p.2]) l

def getGrid (N : Num α) (j : Json) : Except String (Grid α) := do
  match ← getStr (← field j "type") with
  | "uniform" => pure (.uniform (← getMask (← field j "mask")) (← getPts N (← field j "pts")))
  | "irregular" => pure (.irregular (← getPts N (← field j "pts")))
  | "oned" =>
    let bits ← getStr (← field j "bits")
    pure (.oned (bits.toList.map (· == '1')) (← getList N.get (← field j "xs")))
  | _ => throw "bad grid type"

def kindStr : Kind → String
  | .array => "array" | .grid => "grid" | .vector => "vector"

def containerToJson (put : β → Json) (zero : β) : Container β → Except String Json
  | .uniform kind m st =>
    match Impl.viewSlim m st zero, Impl.viewNative m st zero with
    | some (.slim s), some (.native n) =>
      pure (obj [("type", "uniform"), ("kind", Json.str (kindStr kind)), ("mask", maskToJson m),
        ("slim", listToJson put s), ("native", listToJson put n)])
    | _, _ => throw "view_failed"
  | .irregular kind v =>
    pure (obj [("type", "irregular"), ("kind", Json.str (kindStr kind)), ("values", listToJson put v)])
  | .oned mask v =>
    pure (obj [("type", "oned"), ("bits", bitsToJson mask), ("slim", listToJson put v),
      ("native", listToJson put (Impl.native1dFrom mask v zero))])

def resToJson (put : β → Json) (zero : β) : Res (Container β) → Except String Json
  | .one c => containerToJson put zero c
  | .many cs => do pure (Json.arr (← cs.mapM (containerToJson put zero)).toArray)

/-- the decorated call: returns what the function saw and the container(s) built -/
def decorateWith (N : Num α) (proj : List α → List (α × α)) (j : Json) : Except String Json := do
  let kind ← match ← getStr (← field j "kind") with
    | "array" => pure Kind.array | "grid" => pure Kind.grid | "vector" => pure Kind.vector
    | _ => throw "bad kind"
  let g ← getGrid N (← field j "grid")
  let funcs ← getList (getFunc N) (← field j "funcs")
  let isList ← getBool (fieldD j "list" (Json.bool false))
  let seen := match g with
    | .oned _ xs => proj xs
    | .uniform _ pts => pts
    | .irregular pts => pts
  let pairPut := fun (p : α × α) => Json.arr #[N.put p.1, N.put p.2]
  let out ← match kind with
    | .array =>
      let f : List (α × α) → Res (List α) := fun pts =>
        if isList then .many (funcs.map fun fn => scalarOf N fn pts)
        else .one (scalarOf N (funcs.headD ⟨"poly", [], []⟩) pts)
      match result kind f proj g (0 : α) with
      | some r => resToJson N.put 0 r
      | none => throw "constructor_raised"
    | _ =>
      let f : List (α × α) → Res (List (α × α)) := fun pts =>
        if isList then .many (funcs.map fun fn => pairOf N fn pts)
        else .one (pairOf N (funcs.headD ⟨"poly", [], []⟩) pts)
      match result kind f proj g ((0 : α), (0 : α)) with
      | some r => resToJson pairPut (0, 0) r
      | none => throw "constructor_raised"
  pure (obj [("seen", ptsToJson N seen), ("out", out)])

end generic

def decorate : Op := fun j => do
  match ← getStr (fieldD j "num" (Json.str "rat")) with
  | "float" => decorateWith numFloat (grid1dProjected floatTrig 0) j
  | _ =>
    -- exact execution: only meaningful when no trigonometry is involved (no Grid1D input)
    decorateWith numRat (fun xs => xs.map fun x => ((0 : Rat), x)) j

def getF4 (j : Json) : Except String (Float × Float × Float × Float) := do
  match ← getFloats j with
  | [a, b, c, d] => pure (a, b, c, d)
  | _ => throw "expected 4 numbers"

def getF2 (j : Json) : Except String (Float × Float) := do
  match ← getFloats j with
  | [a, b] => pure (a, b)
  | _ => throw "expected 2 numbers"

/-- `project_grid`: the grid handed to the function and the function's values on it -/
def project : Op := fun j => do
  let g ← getGrid numFloat (← field j "grid")
  let extent ← getF4 (fieldD j "extent" (Json.arr #[Json.str "0", Json.str "0", Json.str "0", Json.str "0"]))
  let scales ← getF2 (fieldD j "scales" (Json.arr #[Json.str "1", Json.str "1"]))
  let centre ← getF2 (← field j "centre")
  let angle ← getFloat (← field j "angle")
  let fn ← getFunc numFloat (← field j "func")
  -- the configuration value `general.grid.remove_projected_centre` in force at call time (default: the pinned false)
  let rc ← getBool (fieldD j "remove_centre" (Json.bool false))
  let seen := projectGridInputCfg floatTrig floatTrunc 90.0 extent scales centre angle rc g
  let vals : Json := if fn.cx.isEmpty then floatsToJson (scalarOf numFloat fn seen)
    else ptsToJson numFloat (pairOf numFloat fn seen)
  pure (obj [("seen", ptsToJson numFloat seen), ("values", vals)])

/-- `Grid2D.grid_2d_radial_projected_from(centre, angle, remove_projected_centre=explicit)` called directly:
    `explicit` = null (not given) / true / false, `config` = the configuration value in force -/
def projLine : Op := fun j => do
  let extent ← getF4 (← field j "extent")
  let scales ← getF2 (← field j "scales")
  let centre ← getF2 (← field j "centre")
  let angle ← getFloat (← field j "angle")
  let config ← getBool (← field j "config")
  let explicit : Option Bool ← match fieldD j "explicit" Json.null with
    | Json.null => pure none
    | b => do pure (some (← getBool b))
  pure (obj [("seen", ptsToJson numFloat
    (grid2dProjectedCfg floatTrig floatTrunc extent centre scales angle explicit config))])

/-- `relocate_to_radial_minimum` under `transform`: the mock profile subtracts its centre, then the
    decorator relocates; returns the grid handed to the function -/
def relocateOp : Op := fun j => do
  let pts ← getPts numFloat (← field j "pts")
  let centre ← getF2 (← field j "centre")
  let rmin ← getFloat (← field j "rmin")
  let shifted := pts.map fun p => (p.1 - centre.1, p.2 - centre.2)
  let moved := relocate Float.sqrt 0.5 rmin (radiiOf Float.sqrt) shifted
  pure (obj [("seen", ptsToJson numFloat moved)])

/-- `transform` nesting: `depth` decorated functions calling one another, outermost called with the
    given flag; the grid is a list of points and `tr` subtracts the centre -/
def transformOp : Op := fun j => do
  let pts ← getPts numRat (← field j "pts")
  let centre ← getPair (← field j "centre")
  let depth ← getNat (← field j "depth")
  let flag ← getBool (← field j "flag")
  let tr : List (Rat × Rat) → List (Rat × Rat) := fun l => l.map fun p => (p.1 - centre.1, p.2 - centre.2)
  -- innermost function reports the flag and the grid it received
  let base : Bool → List (Rat × Rat) → (Bool × List (Rat × Rat)) := fun b g => (b, g)
  let f := (List.range depth).foldl (fun f _ => transform tr f) base
  let (b, g) := f flag pts
  pure (obj [("flag", Json.bool b), ("seen", ptsToJson numRat g)])
where
  getPair (j : Json) : Except String (Rat × Rat) := do
    match ← getRats j with
    | [a, b] => pure (a, b)
    | _ => throw "expected pair"

def ops : List (String × Op) :=
  [("c17.decorate", decorate), ("c17.project", project), ("c17.relocate", relocateOp),
   ("c17.transform", transformOp), ("c17.projline", projLine)]

end Driver.C17

def main : IO Unit := Driver.runLoop Driver.C17.ops
