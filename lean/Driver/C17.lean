/- Driver ops for C17. -/
import Driver.Json

open Lean Model

namespace Driver.C17

def ops : List (String × Op) := []

end Driver.C17
