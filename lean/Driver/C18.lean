/- Driver ops for C18. -/
import Driver.Loop

open Lean Model

namespace Driver.C18

def ops : List (String × Op) := []

end Driver.C18

def main : IO Unit := Driver.runLoop Driver.C18.ops
