/- Driver ops for C18 (border relocation, sub-border indices). -/
import Driver.Loop
import Model.Slim
import Model.Border

open Lean Model

namespace Driver.C18

instance : NatCast Float := ⟨Float.ofNat⟩

def getPair (f : Json → Except String α) (j : Json) : Except String (α × α) := do
  match ← getArr j with
  | [a, b] => pure (← f a, ← f b)
  | _ => throw "expected pair"

def pairJson (f : α → Json) (p : α × α) : Json := Json.arr #[f p.1, f p.2]

def optNatToJson : Option Nat → Json
  | some n => natToJson n
  | none => Json.null

/-- sub-border slim indexes in exact arithmetic; per border pixel the code's answer (last maximiser)
    and the full set of exact maximisers (tie set). -/
def subBorder : Op := fun j => do
  let m ← getMask (← field j "mask")
  let sub ← getNats (← field j "sub")
  let border ← getNats (← field j "border")
  let total := Impl.totalPixels m
  if sub.length ≠ total then throw "shape_mismatch"
  let res : List (Option Nat) := Impl.subBorderSlim (α := Rat) m sub total border
  let tbl := Impl.subSlimIndexesForSlimIndex m sub total
  let g : List (Rat × Rat) := Impl.subGrid m (1, 1) (0, 0) sub
  let c := Impl.gridCentre g
  let ties := border.map fun b => Impl.furthestTies g (tbl.getD b []) c
  pure (obj [("idx", listToJson optNatToJson res), ("ties", listToJson natsToJson ties)])

def subGrid : Op := fun j => do
  let m ← getMask (← field j "mask")
  let sub ← getNats (← field j "sub")
  let ps ← getPair getRat (← field j "pixel_scales")
  let origin ← getPair getRat (← field j "origin")
  if sub.length ≠ Impl.totalPixels m then throw "shape_mismatch"
  pure (listToJson (pairJson ratToJson) (Impl.subGrid m ps origin sub))

/-- `BorderRelocator.relocated_grid_from(grid)` and, when `mesh` is present,
    `relocated_mesh_grid_from(grid, mesh)` and the chained form used by the triangulation meshes
    (`relocated_mesh_grid_from(grid = relocated grid, mesh)`), in IEEE doubles. -/
def relocate : Op := fun j => do
  let grid ← getList (getPair getFloat) (← field j "grid")
  let sb ← getNats (← field j "sub_border")
  if sb.any (fun k => k ≥ grid.length) then throw "index_error"
  let out := Impl.relocatedGridFrom Float.sqrt sb grid
  let moved := (grid.zip out).map fun (p, q) => !(p.1 == q.1 && p.2 == q.2)
  let base := [("grid", listToJson (pairJson floatToJson) out), ("moved", boolsToJson moved)]
  match (j.getObjVal? "mesh").toOption with
  | none => pure (obj base)
  | some mj =>
    let mesh ← getList (getPair getFloat) mj
    let outM := Impl.relocatedMeshGridFrom Float.sqrt sb grid mesh
    let outC := Impl.relocatedMeshGridFrom Float.sqrt sb out mesh
    pure (obj (base ++ [("mesh", listToJson (pairJson floatToJson) outM),
                        ("mesh_chained", listToJson (pairJson floatToJson) outC)]))

def ops : List (String × Op) :=
  [("c18.sub_border", subBorder), ("c18.sub_grid", subGrid), ("c18.relocate", relocate)]

end Driver.C18

def main : IO Unit := Driver.runLoop Driver.C18.ops
