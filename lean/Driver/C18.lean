/- Driver ops for C18. -/
import Driver.Json

open Lean Model

namespace Driver.C18

def ops : List (String × Op) := []

end Driver.C18
