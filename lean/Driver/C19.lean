/- Driver ops for C19. -/
import Driver.Loop

open Lean Model

namespace Driver.C19

def ops : List (String × Op) := []

end Driver.C19

def main : IO Unit := Driver.runLoop Driver.C19.ops
