/- Driver ops for C19 (layout regions). -/
import Driver.Loop
import Model.Layout

open Lean Model

namespace Driver.C19

def getR2 (j : Json) : Except String R2 := do
  match (← getInts j) with
  | [a, b, c, d] => pure ⟨a, b, c, d⟩
  | _ => throw "expected 4 ints"

def getR1 (j : Json) : Except String R1 := do
  match (← getInts j) with
  | [a, b] => pure ⟨a, b⟩
  | _ => throw "expected 2 ints"

def getIntPair (j : Json) : Except String (Int × Int) := do
  match (← getInts j) with
  | [a, b] => pure (a, b)
  | _ => throw "expected 2 ints"

def r2ToJson (r : R2) : Json := intsToJson [r.y0, r.y1, r.x0, r.x1]
def r1ToJson (r : R1) : Json := intsToJson [r.x0, r.x1]

def getCorner (j : Json) : Except String Corner := do
  match (← getInts j) with
  | [1, 0] => pure .c10
  | [0, 0] => pure .c00
  | [1, 1] => pure .c11
  | [0, 1] => pure .c01
  | _ => throw "bad_corner"

def optR2 (o : Option R2) : Except String Json :=
  match o with
  | some r => pure (r2ToJson r)
  | none => throw "bad_region"

def optR1 (o : Option R1) : Except String Json :=
  match o with
  | some r => pure (r1ToJson r)
  | none => throw "bad_region"

def regionNew : Op := fun j => do
  let dim ← getNat (← field j "dim")
  if dim = 1 then optR1 (Impl.region1dNew (← getR1 (← field j "region")))
  else optR2 (Impl.region2dNew (← getR2 (← field j "region")))

def rotateArray : Op := fun j => do
  let rows ← getRatMat (← field j "rows")
  let c ← getCorner (← field j "corner")
  pure (ratMatToJson (Impl.rotateArray c rows))

def rotateRegion : Op := fun j => do
  let r ← getR2 (← field j "region")
  let c ← getCorner (← field j "corner")
  let (h, w) ← match (← getNats (← field j "shape")) with
    | [h, w] => pure (h, w)
    | _ => throw "bad shape"
  optR2 (Impl.rotateRegion r h w c)

/-- everything clause (a) talks about, from the model: the rotated region, the slice it cuts from the
    rotated array, the rotated content of the original slice, and the double rotations. -/
def rotateSlice : Op := fun j => do
  let rows ← getRatMat (← field j "rows")
  let r ← getR2 (← field j "region")
  let c ← getCorner (← field j "corner")
  let h := rows.length
  let w := (rows.head?.getD []).length
  match Impl.region2dNew r with
  | none => throw "bad_region"
  | some r =>
  match Impl.rotateRegion r h w c with
  | none => throw "bad_region"
  | some r' =>
    let ra := Impl.rotateArray c rows
    let back ← match Impl.rotateRegion r' h w c with
      | some b => pure (r2ToJson b)
      | none => throw "bad_region"
    pure (obj [("rotated_region", r2ToJson r'), ("rotated_array", ratMatToJson ra),
               ("slice_of_rotated", ratMatToJson (Impl.slice2d r' ra)),
               ("slice", ratMatToJson (Impl.slice2d r rows)),
               ("twice_array", ratMatToJson (Impl.rotateArray c ra)),
               ("twice_region", back)])

def x0x1 : Op := fun j => do
  match (← getInts (← field j "args")) with
  | [a, b, c, d] =>
    match Impl.x0x1AfterExtraction a b c d with
    | some (p, q) => pure (intsToJson [p, q])
    | none => pure Json.null
  | _ => throw "expected 4 ints"

def afterExtraction : Op := fun j => do
  let o ← getR2 (← field j "orig")
  let e ← getR2 (← field j "window")
  match Impl.regionAfterExtraction o e with
  | .value r => pure (r2ToJson r)
  | .absent => pure Json.null
  | .raised => throw "bad_region"

/-- region after extraction together with what it addresses inside the extracted window -/
def extractSlice : Op := fun j => do
  let rows ← getRatMat (← field j "rows")
  let o ← getR2 (← field j "orig")
  let e ← getR2 (← field j "window")
  let win := Impl.slice2d e rows
  match Impl.regionAfterExtraction o e with
  | .value r => pure (obj [("region", r2ToJson r), ("content", ratMatToJson (Impl.slice2d r win))])
  | .absent => pure (obj [("region", Json.null), ("content", Json.null)])
  | .raised => throw "bad_region"

def getPixels (j : Json) (total : Int) : Except String (Int × Int) := do
  let px ← match fieldD j "pixels" Json.null with
    | Json.null => pure none
    | p => do pure (some (← getIntPair p))
  let fe ← match fieldD j "from_end" Json.null with
    | Json.null => pure none
    | p => do pure (some (← getInt p))
  match Impl.frontPixels total px fe with
  | some p => pure p
  | none => throw "TypeError"

def subRegion : Op := fun j => do
  let kind ← getStr (← field j "kind")
  match kind with
  | "front1d" =>
    let r ← getR1 (← field j "region")
    optR1 (Impl.front1d r (← getPixels j r.totalPixels))
  | "trailing1d" =>
    let r ← getR1 (← field j "region")
    optR1 (Impl.trailing1d r (← getIntPair (← field j "pixels")))
  | "parallel_front" =>
    let r ← getR2 (← field j "region")
    optR2 (Impl.parallelFront r (← getPixels j r.totalRows))
  | "parallel_trailing" =>
    let r ← getR2 (← field j "region")
    optR2 (Impl.parallelTrailing r (← getIntPair (← field j "pixels")))
  | "serial_front" =>
    let r ← getR2 (← field j "region")
    optR2 (Impl.serialFront r (← getPixels j r.totalColumns))
  | "serial_trailing" =>
    let r ← getR2 (← field j "region")
    optR2 (Impl.serialTrailing r (← getIntPair (← field j "pixels")))
  | "parallel_full" =>
    let r ← getR2 (← field j "region")
    let (_, w) ← getIntPair (← field j "shape")
    optR2 (Impl.parallelFull r w)
  | "serial_towards_roe_full" =>
    let r ← getR2 (← field j "region")
    let (h, _) ← getIntPair (← field j "shape")
    optR2 (Impl.serialTowardsRoeFull r h (← getIntPair (← field j "pixels")))
  | "serial_x_front_range" =>
    let r ← getR2 (← field j "region")
    let x := Impl.serialXFrontRange r (← getIntPair (← field j "pixels"))
    pure (intsToJson [x.1, x.2])
  | _ => throw "bad_kind"

def slice : Op := fun j => do
  let dim ← getNat (← field j "dim")
  if dim = 1 then
    let r ← getR1 (← field j "region")
    pure (ratsToJson (Impl.slice1d r (← getRats (← field j "values"))))
  else
    let r ← getR2 (← field j "region")
    pure (ratMatToJson (Impl.slice2d r (← getRatMat (← field j "rows"))))

def getOptR2 (j : Json) : Except String (Option R2) :=
  match j with
  | Json.null => pure none
  | _ => do pure (some (← getR2 j))

def optR2ToJson : Option R2 → Json
  | none => Json.null
  | some r => r2ToJson r

def cornerToJson : Corner → Json
  | .c10 => intsToJson [1, 0]
  | .c00 => intsToJson [0, 0]
  | .c11 => intsToJson [1, 1]
  | .c01 => intsToJson [0, 1]

def layoutRegions (l : Impl.Layout2D) : Json :=
  Json.arr #[optR2ToJson l.parallelOverscan, optR2ToJson l.serialPrescan, optR2ToJson l.serialOverscan]

def get3 (j : Json) : Except String (Option R2 × Option R2 × Option R2) := do
  match (← getArr j) with
  | [a, b, c] => pure (← getOptR2 a, ← getOptR2 b, ← getOptR2 c)
  | _ => throw "expected 3 regions"

/-- `Layout2D(...)` with tuple regions -/
def layoutNew : Op := fun j => do
  let (h, w) ← match (← getNats (← field j "shape")) with
    | [h, w] => pure (h, w)
    | _ => throw "bad shape"
  let c ← getCorner (← field j "corner")
  let (po, sp, so) ← get3 (← field j "regions")
  match Impl.layoutNew h w c po sp so with
  | none => throw "bad_region"
  | some l => pure (obj [("regions", layoutRegions l), ("roe", cornerToJson l.roe),
                         ("shape", natsToJson [l.h, l.w])])

/-- the whole Layout2D scenario of the harness, from the model: rotated_from_roe_corner,
    new_rotated_from, layout_extracted_from, original_orientation_from, the overscan extractions on
    the rotated array and Array2D.original_orientation. -/
def layout : Op := fun j => do
  let rows ← getRatMat (← field j "rows")
  let h := rows.length
  let w := (rows.head?.getD []).length
  let c ← getCorner (← field j "corner")
  let c2 ← getCorner (← field j "corner2")
  let e ← getR2 (← field j "window")
  let (po, sp, so) ← get3 (← field j "regions")
  match Impl.layoutRotatedFromRoeCorner c h w po sp so with
  | none => throw "bad_region"
  | some lay =>
  match lay.newRotatedFrom c2, lay.extractedFrom e with
  | some lay2, some ext =>
    let ra := lay.originalOrientationFrom rows
    let optMat : Option (List (List Rat)) → Json := fun o => match o with
      | none => Json.null
      | some m => ratMatToJson m
    pure (obj [("rotated", layoutRegions lay), ("roe", cornerToJson lay.roe),
               ("shape", natsToJson [lay.h, lay.w]),
               ("rotated2", layoutRegions lay2), ("roe2", cornerToJson lay2.roe),
               ("extracted", layoutRegions ext),
               ("orientation_from", ratMatToJson ra),
               ("parallel_overscan_array", optMat (lay.extractParallelOverscan ra)),
               ("serial_overscan_array", optMat (lay.extractSerialOverscan ra)),
               ("original_orientation", ratMatToJson (Impl.arrayOriginalOrientation c rows))])
  | _, _ => throw "bad_region"

def ops : List (String × Op) :=
  [("c19.region_new", regionNew), ("c19.rotate_array", rotateArray),
   ("c19.rotate_region", rotateRegion), ("c19.rotate_slice", rotateSlice),
   ("c19.x0x1", x0x1), ("c19.after_extraction", afterExtraction),
   ("c19.extract_slice", extractSlice), ("c19.sub_region", subRegion), ("c19.slice", slice),
   ("c19.layout", layout), ("c19.layout_new", layoutNew)]

end Driver.C19

def main : IO Unit := Driver.runLoop Driver.C19.ops
