/- Driver ops for C19. -/
import Driver.Json

open Lean Model

namespace Driver.C19

def ops : List (String × Op) := []

end Driver.C19
