/- Driver ops for C19 (layout regions). -/
import Driver.Loop
import Model.Layout

open Lean Model

namespace Driver.C19

def getR2 (j : Json) : Except String R2 := do
  match (← getInts j) with
  | [a, b, c, d] => pure ⟨a, b, c, d⟩
  | _ => throw "expected 4 ints"

def getR1 (j : Json) : Except String R1 := do
  match (← getInts j) with
  | [a, b] => pure ⟨a, b⟩
  | _ => throw "expected 2 ints"

def getIntPair (j : Json) : Except String (Int × Int) := do
  match (← getInts j) with
  | [a, b] => pure (a, b)
  | _ => throw "expected 2 ints"

def r2ToJson (r : R2) : Json := intsToJson [r.y0, r.y1, r.x0, r.x1]
def r1ToJson (r : R1) : Json := intsToJson [r.x0, r.x1]

def getCorner (j : Json) : Except String Corner := do
  match (← getInts j) with
  | [1, 0] => pure .c10
  | [0, 0] => pure .c00
  | [1, 1] => pure .c11
  | [0, 1] => pure .c01
  | _ => throw "bad_corner"

def optR2 (o : Option R2) : Except String Json :=
  match o with
  | some r => pure (r2ToJson r)
  | none => throw "bad_region"

def optR1 (o : Option R1) : Except String Json :=
  match o with
  | some r => pure (r1ToJson r)
  | none => throw "bad_region"

def regionNew : Op := fun j => do
  let dim ← getNat (← field j "dim")
  if dim = 1 then optR1 (Impl.region1dNew (← getR1 (← field j "region")))
  else optR2 (Impl.region2dNew (← getR2 (← field j "region")))

def rotateArray : Op := fun j => do
  let rows ← getRatMat (← field j "rows")
  let c ← getCorner (← field j "corner")
  pure (ratMatToJson (Impl.rotateArray c rows))

def rotateRegion : Op := fun j => do
  let r ← getR2 (← field j "region")
  let c ← getCorner (← field j "corner")
  let (h, w) ← match (← getNats (← field j "shape")) with
    | [h, w] => pure (h, w)
    | _ => throw "bad shape"
  optR2 (Impl.rotateRegion r h w c)

/-- everything clause (a) talks about, from the model: the rotated region, the slice it cuts from the
    rotated array, the rotated content of the original slice, and the double rotations. -/
def rotateSlice : Op := fun j => do
  let rows ← getRatMat (← field j "rows")
  let r ← getR2 (← field j "region")
  let c ← getCorner (← field j "corner")
  let h := rows.length
  let w := (rows.head?.getD []).length
  match Impl.region2dNew r with
  | none => throw "bad_region"
  | some r =>
  match Impl.rotateRegion r h w c with
  | none => throw "bad_region"
  | some r' =>
    let ra := Impl.rotateArray c rows
    let back ← match Impl.rotateRegion r' h w c with
      | some b => pure (r2ToJson b)
      | none => throw "bad_region"
    pure (obj [("rotated_region", r2ToJson r'), ("rotated_array", ratMatToJson ra),
               ("slice_of_rotated", ratMatToJson (Impl.slice2d r' ra)),
               ("slice", ratMatToJson (Impl.slice2d r rows)),
               ("twice_array", ratMatToJson (Impl.rotateArray c ra)),
               ("twice_region", back)])

def x0x1 : Op := fun j => do
  match (← getInts (← field j "args")) with
  | [a, b, c, d] =>
    match Impl.x0x1AfterExtraction a b c d with
    | some (p, q) => pure (intsToJson [p, q])
    | none => pure Json.null
  | _ => throw "expected 4 ints"

def afterExtraction : Op := fun j => do
  let o ← getR2 (← field j "orig")
  let e ← getR2 (← field j "window")
  match Impl.regionAfterExtraction o e with
  | .value r => pure (r2ToJson r)
  | .absent => pure Json.null
  | .raised => throw "bad_region"

/-- region after extraction together with what it addresses inside the extracted window -/
def extractSlice : Op := fun j => do
  let rows ← getRatMat (← field j "rows")
  let o ← getR2 (← field j "orig")
  let e ← getR2 (← field j "window")
  let win := Impl.slice2d e rows
  match Impl.regionAfterExtraction o e with
  | .value r => pure (obj [("region", r2ToJson r), ("content", ratMatToJson (Impl.slice2d r win))])
  | .absent => pure (obj [("region", Json.null), ("content", Json.null)])
  | .raised => throw "bad_region"

def getPixels (j : Json) (total : Int) : Except String (Int × Int) := do
  let px ← match fieldD j "pixels" Json.null with
    | Json.null => pure none
    | p => do pure (some (← getIntPair p))
  let fe ← match fieldD j "from_end" Json.null with
    | Json.null => pure none
    | p => do pure (some (← getInt p))
  match Impl.frontPixels total px fe with
  | some p => pure p
  | none => throw "TypeError"

def subRegion : Op := fun j => do
  let kind ← getStr (← field j "kind")
  match kind with
  | "front1d" =>
    let r ← getR1 (← field j "region")
    optR1 (Impl.front1d r (← getPixels j r.totalPixels))
  | "trailing1d" =>
    let r ← getR1 (← field j "region")
    optR1 (Impl.trailing1d r (← getIntPair (← field j "pixels")))
  | "parallel_front" =>
    let r ← getR2 (← field j "region")
    optR2 (Impl.parallelFront r (← getPixels j r.totalRows))
  | "parallel_trailing" =>
    let r ← getR2 (← field j "region")
    optR2 (Impl.parallelTrailing r (← getIntPair (← field j "pixels")))
  | "serial_front" =>
    let r ← getR2 (← field j "region")
    optR2 (Impl.serialFront r (← getPixels j r.totalColumns))
  | "serial_trailing" =>
    let r ← getR2 (← field j "region")
    optR2 (Impl.serialTrailing r (← getIntPair (← field j "pixels")))
  | "parallel_full" =>
    let r ← getR2 (← field j "region")
    let (_, w) ← getIntPair (← field j "shape")
    optR2 (Impl.parallelFull r w)
  | "serial_towards_roe_full" =>
    let r ← getR2 (← field j "region")
    let (h, _) ← getIntPair (← field j "shape")
    optR2 (Impl.serialTowardsRoeFull r h (← getIntPair (← field j "pixels")))
  | "serial_x_front_range" =>
    let r ← getR2 (← field j "region")
    let x := Impl.serialXFrontRange r (← getIntPair (← field j "pixels"))
    pure (intsToJson [x.1, x.2])
  | _ => throw "bad_kind"

def slice : Op := fun j => do
  let dim ← getNat (← field j "dim")
  if dim = 1 then
    let r ← getR1 (← field j "region")
    pure (ratsToJson (Impl.slice1d r (← getRats (← field j "values"))))
  else
    let r ← getR2 (← field j "region")
    pure (ratMatToJson (Impl.slice2d r (← getRatMat (← field j "rows"))))

def getOptR2 (j : Json) : Except String (Option R2) :=
  match j with
  | Json.null => pure none
  | _ => do pure (some (← getR2 j))

def optR2ToJson : Option R2 → Json
  | none => Json.null
  | some r => r2ToJson r

def cornerToJson : Corner → Json
  | .c10 => intsToJson [1, 0]
  | .c00 => intsToJson [0, 0]
  | .c11 => intsToJson [1, 1]
  | .c01 => intsToJson [0, 1]

def layoutRegions (l : Impl.Layout2D) : Json :=
  Json.arr #[optR2ToJson l.parallelOverscan, optR2ToJson l.serialPrescan, optR2ToJson l.serialOverscan]

def get3 (j : Json) : Except String (Option R2 × Option R2 × Option R2) := do
  match (← getArr j) with
  | [a, b, c] => pure (← getOptR2 a, ← getOptR2 b, ← getOptR2 c)
  | _ => throw "expected 3 regions"

/-- `Layout2D(...)` with tuple regions -/
def layoutNew : Op := fun j => do
  let (h, w) ← match (← getNats (← field j "shape")) with
    | [h, w] => pure (h, w)
    | _ => throw "bad shape"
  let c ← getCorner (← field j "corner")
  let (po, sp, so) ← get3 (← field j "regions")
  match Impl.layoutNew h w c po sp so with
  | none => throw "bad_region"
  | some l => pure (obj [("regions", layoutRegions l), ("roe", cornerToJson l.roe),
                         ("shape", natsToJson [l.h, l.w])])

/-- the whole Layout2D scenario of the harness, from the model: rotated_from_roe_corner,
    new_rotated_from, layout_extracted_from, original_orientation_from, the overscan extractions on
    the rotated array and Array2D.original_orientation. -/
def layout : Op := fun j => do
  let rows ← getRatMat (← field j "rows")
  let h := rows.length
  let w := (rows.head?.getD []).length
  let c ← getCorner (← field j "corner")
  let c2 ← getCorner (← field j "corner2")
  let e ← getR2 (← field j "window")
  let (po, sp, so) ← get3 (← field j "regions")
  match Impl.layoutRotatedFromRoeCorner c h w po sp so with
  | none => throw "bad_region"
  | some lay =>
  match lay.newRotatedFrom c2, lay.extractedFrom e with
  | some lay2, some ext =>
    let ra := lay.originalOrientationFrom rows
    let optMat : Option (List (List Rat)) → Json := fun o => match o with
      | none => Json.null
      | some m => ratMatToJson m
    pure (obj [("rotated", layoutRegions lay), ("roe", cornerToJson lay.roe),
               ("shape", natsToJson [lay.h, lay.w]),
               ("rotated2", layoutRegions lay2), ("roe2", cornerToJson lay2.roe),
               ("extracted", layoutRegions ext),
               ("orientation_from", ratMatToJson ra),
               ("parallel_overscan_array", optMat (lay.extractParallelOverscan ra)),
               ("serial_overscan_array", optMat (lay.extractSerialOverscan ra)),
               ("original_orientation", ratMatToJson (Impl.arrayOriginalOrientation c rows))])
  | _, _ => throw "bad_region"

/-! ### Histories (round-4 hardening): a short typed sequence of operations on a store of layouts,
    headers, arrays and regions.  The model is purely functional, so every step's answer is the answer of
    a FRESH object in the state the earlier steps produced. -/

structure HState where
  layouts : List (Nat × Option Impl.Layout2D) := []
  headers : List (Nat × Corner) := []
  arrays : List (Nat × (List (List Rat) × Nat)) := []
  regions : List (Nat × Option R2) := []

def errJ (s : String) : Json := obj [("err", Json.str s)]
def okJ : Json := Json.str "ok"

def viewJ (l : Impl.Layout2D) : Json :=
  obj [("regions", layoutRegions l), ("roe", cornerToJson l.roe), ("shape", natsToJson [l.h, l.w])]

def viewOptJ : Option Impl.Layout2D → Json
  | some l => viewJ l
  | none => errJ "bad_region"

def lookupNat {β : Type} (k : Nat) : List (Nat × β) → Option β
  | [] => none
  | (a, b) :: t => if a = k then some b else lookupNat k t

def putL (st : HState) (d : Nat) (v : Option Impl.Layout2D) : HState :=
  { st with layouts := (d, v) :: st.layouts }
def getL (st : HState) (i : Nat) : Option Impl.Layout2D := (lookupNat i st.layouts).join
def getR (st : HState) (i : Nat) : Option R2 := (lookupNat i st.regions).join

def getRegSpec (st : HState) (j : Json) : Except String (Option R2) :=
  match j with
  | Json.null => pure none
  | Json.arr _ => do pure (some (← getR2 j))
  | _ => do
    let k ← getNat (← field j "ref")
    match getR st k with
    | some r => pure (some r)
    | none => throw "bad_ref"

def get3Spec (st : HState) (j : Json) : Except String (Option R2 × Option R2 × Option R2) := do
  match (← getArr j) with
  | [a, b, c] => pure (← getRegSpec st a, ← getRegSpec st b, ← getRegSpec st c)
  | _ => throw "expected 3 regions"

def getShape (j : Json) : Except String (Nat × Nat) := do
  match (← getNats j) with
  | [h, w] => pure (h, w)
  | _ => throw "bad shape"

def optMatJ : Option (List (List Rat)) → Json
  | none => Json.null
  | some m => ratMatToJson m

def optR2J : Option R2 → Json
  | some r => r2ToJson r
  | none => errJ "bad_region"

def setAt (rows : List (List Rat)) (y x : Nat) (v : Rat) : List (List Rat) :=
  rows.zipIdx.map fun (r, i) => if i = y then r.set x v else r

def hstep (arrs : List (List (List Rat))) (st : HState) (j : Json) : Except String (HState × Json) := do
  let s ← getStr (← field j "s")
  match s with
  | "new" =>
    let d ← getNat (← field j "dst")
    let (h, w) ← getShape (← field j "shape")
    let c ← getCorner (← field j "corner")
    let (po, sp, so) ← get3Spec st (← field j "regions")
    let via ← getStr (← field j "via")
    let r := if via = "ctor" then Impl.layoutNew h w c po sp so
             else Impl.layoutRotatedFromRoeCorner c h w po sp so
    pure (putL st d r, viewOptJ r)
  | "rot" =>
    let d ← getNat (← field j "dst")
    let c ← getCorner (← field j "corner")
    match getL st (← getNat (← field j "src")) with
    | none => pure (putL st d none, errJ "no_object")
    | some l => let r := l.newRotatedFrom c; pure (putL st d r, viewOptJ r)
  | "ext" =>
    let d ← getNat (← field j "dst")
    let e ← getR2 (← field j "window")
    match getL st (← getNat (← field j "src")) with
    | none => pure (putL st d none, errJ "no_object")
    | some l => let r := l.extractedFrom e; pure (putL st d r, viewOptJ r)
  | "read" =>
    match getL st (← getNat (← field j "src")) with
    | none => pure (st, errJ "no_object")
    | some l => pure (st, viewJ l)
  | "set" =>
    let i ← getNat (← field j "src")
    let k ← getNat (← field j "name")
    let r ← getOptR2 (← field j "region")
    match getL st i with
    | none => pure (st, errJ "no_object")
    | some l =>
      let l' : Impl.Layout2D := if k = 0 then { l with parallelOverscan := r }
                else if k = 1 then { l with serialPrescan := r } else { l with serialOverscan := r }
      pure (putL st i (some l'), okJ)
  | "set_roe" =>
    let i ← getNat (← field j "src")
    let c ← getCorner (← field j "corner")
    match getL st i with
    | none => pure (st, errJ "no_object")
    | some l => pure (putL st i (some { l with roe := c }), okJ)
  | "copy" =>
    let d ← getNat (← field j "dst")
    match getL st (← getNat (← field j "src")) with
    | none => pure (putL st d none, errJ "no_object")
    | some l => pure (putL st d (some l), okJ)
  | "orient" =>
    let k ← getNat (← field j "arr")
    let ex ← getBool (← field j "extract")
    match getL st (← getNat (← field j "src")) with
    | none => pure (st, errJ "no_object")
    | some l =>
      let ra := l.originalOrientationFrom (arrs.getD k [])
      let po := if ex then l.extractParallelOverscan ra else none
      let so := if ex then l.extractSerialOverscan ra else none
      pure (st, obj [("rows", ratMatToJson ra), ("po", optMatJ po), ("so", optMatJ so)])
  | "decoy" => pure (st, okJ)
  | "fault" => pure (st, okJ)
  | "hnew" =>
    let d ← getNat (← field j "dst")
    let c ← getCorner (← field j "corner")
    pure ({ st with headers := (d, c) :: st.headers }, okJ)
  | "hset" =>
    let d ← getNat (← field j "src")
    let c ← getCorner (← field j "corner")
    pure ({ st with headers := (d, c) :: st.headers }, okJ)
  | "anew" =>
    let d ← getNat (← field j "dst")
    let k ← getNat (← field j "arr")
    let hd ← getNat (← field j "hdr")
    pure ({ st with arrays := (d, (arrs.getD k [], hd)) :: st.arrays }, okJ)
  | "aread" =>
    match lookupNat (← getNat (← field j "src")) st.arrays with
    | none => pure (st, errJ "no_object")
    | some (rows, hd) =>
      match lookupNat hd st.headers with
      | none => pure (st, errJ "no_object")
      | some c => pure (st, ratMatToJson (Impl.arrayOriginalOrientation c rows))
  | "aset" =>
    let d ← getNat (← field j "src")
    let y ← getNat (← field j "y")
    let x ← getNat (← field j "x")
    let v ← getRat (← field j "value")
    match lookupNat d st.arrays with
    | none => pure (st, errJ "no_object")
    | some (rows, hd) => pure ({ st with arrays := (d, (setAt rows y x v, hd)) :: st.arrays }, okJ)
  | "adecoy" => pure (st, okJ)
  | "afault" => pure (st, okJ)
  | "rnew" =>
    let d ← getNat (← field j "dst")
    let r := Impl.region2dNew (← getR2 (← field j "region"))
    pure ({ st with regions := (d, r) :: st.regions }, optR2J r)
  | "rset" =>
    let d ← getNat (← field j "src")
    let r ← getR2 (← field j "region")
    pure ({ st with regions := (d, some r) :: st.regions }, okJ)
  | "rdecoy" => pure (st, okJ)
  | "rread" =>
    match getR st (← getNat (← field j "src")) with
    | none => pure (st, errJ "no_object")
    | some r =>
      let (h, w) ← getShape (← field j "shape")
      let c ← getCorner (← field j "corner")
      let px ← getIntPair (← field j "pixels")
      let e ← getR2 (← field j "window")
      let ext := match Impl.regionAfterExtraction r e with
        | .value q => r2ToJson q
        | .absent => Json.null
        | .raised => errJ "bad_region"
      pure (st, obj [("region", r2ToJson r), ("rows", intToJson r.totalRows),
                     ("cols", intToJson r.totalColumns),
                     ("slice", r2ToJson r),
                     ("rot", optR2J (Impl.rotateRegion r h w c)),
                     ("pfront", optR2J (Impl.parallelFront r px)),
                     ("sfront", optR2J (Impl.serialFront r px)),
                     ("ptrail", optR2J (Impl.parallelTrailing r px)),
                     ("ext", ext)])
  | _ => throw "bad_step"

def history : Op := fun j => do
  let arrs ← getList getRatMat (← field j "arrays")
  let steps ← getArr (← field j "steps")
  let mut st : HState := {}
  let mut out : Array Json := #[]
  for sj in steps do
    let (st', o) ← hstep arrs st sj
    st := st'
    out := out.push o
  pure (Json.arr out)

def ops : List (String × Op) :=
  [("c19.region_new", regionNew), ("c19.rotate_array", rotateArray),
   ("c19.rotate_region", rotateRegion), ("c19.rotate_slice", rotateSlice),
   ("c19.x0x1", x0x1), ("c19.after_extraction", afterExtraction),
   ("c19.extract_slice", extractSlice), ("c19.sub_region", subRegion), ("c19.slice", slice),
   ("c19.layout", layout), ("c19.layout_new", layoutNew),
   ("c19.history", history)]

end Driver.C19

def main : IO Unit := Driver.runLoop Driver.C19.ops
