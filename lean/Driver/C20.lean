/- Driver ops for C20. -/
import Driver.Json

open Lean Model

namespace Driver.C20

def ops : List (String × Op) := []

end Driver.C20
