/- Driver ops for C20 (triangle sets), exact rational arithmetic; `h` = HEIGHT_FACTOR as a rational. -/
import Driver.Loop
import Model.Triangles

open Lean Model

namespace Driver.C20

def getPairR (j : Json) : Except String (Rat × Rat) := do
  match ← getArr j with
  | [a, b] => pure (← getRat a, ← getRat b)
  | _ => throw "expected pair"

def getPairI (j : Json) : Except String (Int × Int) := do
  match ← getArr j with
  | [a, b] => pure (← getInt a, ← getInt b)
  | _ => throw "expected int pair"

def getTripleN (j : Json) : Except String (Nat × Nat × Nat) := do
  match ← getArr j with
  | [a, b, c] => pure (← getNat a, ← getNat b, ← getNat c)
  | _ => throw "expected index triple"

def pairRJson (p : Rat × Rat) : Json := Json.arr #[ratToJson p.1, ratToJson p.2]
def pairIJson (p : Int × Int) : Json := Json.arr #[intToJson p.1, intToJson p.2]
def tripleJson (p : Nat × Nat × Nat) : Json := Json.arr #[natToJson p.1, natToJson p.2.1, natToJson p.2.2]
def triJson (t : Tri Rat) : Json := Json.arr #[pairRJson t.v0, pairRJson t.v1, pairRJson t.v2]

def getTri (j : Json) : Except String (Tri Rat) := do
  match ← getArr j with
  | [a, b, c] => pure ⟨← getPairR a, ← getPairR b, ← getPairR c⟩
  | _ => throw "expected triangle"

def getArrTris (j : Json) : Except String (Impl.ArrTris Rat) := do
  let vs ← getList getPairR (← field j "vertices")
  let idx ← getList getTripleN (← field j "indices")
  if idx.any (fun i => i.1 ≥ vs.length || i.2.1 ≥ vs.length || i.2.2 ≥ vs.length) then
    throw "index_error"
  pure { indices := idx, vertices := vs }

def getCoordTris (j : Json) : Except String (Impl.CoordTris Rat) := do
  pure { coords := ← getList getPairI (← field j "coords"),
         side := ← getRat (← field j "side"),
         xOff := ← getRat (← field j "x_offset"),
         yOff := ← getRat (← field j "y_offset"),
         flipped := ← getBool (← field j "flipped") }

inductive ChainOp where
  | up | nb | idx (l : List Nat)

def getChainOp (j : Json) : Except String ChainOp :=
  match j with
  | .str "up" => pure .up
  | .str "nb" => pure .nb
  | _ => do pure (.idx (← getNats (← field j "idx")))

def arrChain : Op := fun j => do
  let a0 ← getArrTris (← field j "arr")
  let ops ← getList getChainOp (← field j "ops")
  let a ← ops.foldlM (fun (a : Impl.ArrTris Rat) op =>
    match op with
    | .up => pure a.upSample
    | .nb => pure a.neighborhood
    | .idx l => if l.any (· ≥ a.indices.length) then throw "index_error" else pure (a.forIndexes l)) a0
  pure (obj [("triangles", listToJson triJson a.triangles), ("n", natToJson a.triangles.length),
             ("area", ratToJson (Impl.area a.triangles)),
             ("vertices", listToJson pairRJson a.vertices),
             ("indices", listToJson tripleJson a.indices)])

def coordChain : Op := fun j => do
  let c0 ← getCoordTris (← field j "coord")
  let h ← getRat (← field j "h")
  let ops ← getList getChainOp (← field j "ops")
  let c ← ops.foldlM (fun (c : Impl.CoordTris Rat) op =>
    match op with
    | .up => pure (c.upSample h)
    | .nb => pure c.neighborhood
    | .idx l => if l.any (· ≥ c.coords.length) then throw "index_error" else pure (c.forIndexes l)) c0
  let view := c.arrayView h
  pure (obj [("coords", listToJson pairIJson c.coords), ("side", ratToJson c.side),
             ("x_offset", ratToJson c.xOff), ("y_offset", ratToJson c.yOff),
             ("flipped", Json.bool c.flipped),
             ("triangles", listToJson triJson (c.triangles h)),
             ("flip_mask", boolsToJson (c.coords.map (Impl.flipMask1 c.flipped))),
             ("area", ratToJson (c.area h)), ("n", natToJson c.coords.length),
             ("view_triangles", listToJson triJson view.triangles),
             ("view_vertices", listToJson pairRJson view.vertices)])

def coordLimits : Op := fun j => do
  let g (k : String) : Except String Rat := do getRat (← field j k)
  let scale ← g "scale"
  let h ← g "h"
  if scale == 0 || h == 0 then throw "zero_division"
  pure (listToJson pairIJson
    (Impl.coordsForLimits truncRat h (← g "x_min") (← g "x_max") (← g "y_min") (← g "y_max") scale))

def getShape (j : Json) : Except String (Impl.Shape Rat) := do
  let kind ← getStr (← field j "kind")
  let g (k : String) : Except String Rat := do getRat (← field j k)
  match kind with
  | "point" => pure (.point (← g "x") (← g "y"))
  | "circle" => pure (.circle (← g "x") (← g "y") (← g "radius"))
  | "square" => pure (.square (← g "top") (← g "bottom") (← g "left") (← g "right"))
  | "polygon" =>
    let vs ← getList getPairR (← field j "vertices")
    if vs.length < 3 then throw "bad_polygon" else pure (.polygon vs)
  | _ => throw "bad shape"

def shapeMask : Op := fun j => do
  let ts ← getList getTri (← field j "triangles")
  let s ← getShape (← field j "shape")
  pure (obj [("indices", natsToJson (Impl.containingIndices s ts)),
             ("ref", pairRJson s.ref)])

def ops : List (String × Op) :=
  [("c20.arr_chain", arrChain), ("c20.coord_chain", coordChain), ("c20.coord_limits", coordLimits),
   ("c20.shape_mask", shapeMask)]

end Driver.C20

def main : IO Unit := Driver.runLoop Driver.C20.ops
