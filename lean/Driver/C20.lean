/- Driver ops for C20. -/
import Driver.Loop

open Lean Model

namespace Driver.C20

def ops : List (String × Op) := []

end Driver.C20

def main : IO Unit := Driver.runLoop Driver.C20.ops
