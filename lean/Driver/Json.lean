/-
Driver/Json.lean — JSON helpers for the line protocol (DESIGN.md Appendix A).

Reals travel as strings "p/q" (or "p"), exact; integers as JSON ints; masks as
{"h":H,"w":W,"bits":"0110…"} row-major with '1' = masked.
-/
import Lean.Data.Json
import Model.Core

open Lean

namespace Driver

abbrev Op := Json → Except String Json

def parseInt? (s : String) : Option Int := s.toInt?

/-- parse "p/q" | "p" | "-p/q" -/
def parseRat (s : String) : Except String Rat :=
  match s.splitOn "/" with
  | [p] => match p.trimAscii.toString.toInt? with
    | some n => pure (n : Rat)
    | none => throw s!"bad rational {s}"
  | [p, q] => match p.trimAscii.toString.toInt?, q.trimAscii.toString.toNat? with
    | some n, some d => if d = 0 then throw s!"zero denominator {s}" else pure (mkRat n d)
    | _, _ => throw s!"bad rational {s}"
  | _ => throw s!"bad rational {s}"

def ratToJson (q : Rat) : Json :=
  if q.den = 1 then Json.str (toString q.num) else Json.str s!"{q.num}/{q.den}"

def getRat (j : Json) : Except String Rat :=
  match j with
  | .str s => parseRat s
  | .num n => if n.exponent = 0 then pure (n.mantissa : Rat)
              else pure (mkRat n.mantissa (10 ^ n.exponent))
  | _ => throw "expected rational"

def getInt (j : Json) : Except String Int := j.getInt?
def getNat (j : Json) : Except String Nat := j.getNat?
def getBool (j : Json) : Except String Bool := j.getBool?
def getStr (j : Json) : Except String String := j.getStr?
def getArr (j : Json) : Except String (List Json) := do pure (← j.getArr?).toList

def field (j : Json) (k : String) : Except String Json := j.getObjVal? k
def fieldD (j : Json) (k : String) (d : Json) : Json := (j.getObjVal? k).toOption.getD d

def getList (f : Json → Except String α) (j : Json) : Except String (List α) := do
  (← getArr j).mapM f

def getRats := getList getRat
def getNats := getList getNat
def getInts := getList getInt
def getRatMat := getList getRats

def ratsToJson (l : List Rat) : Json := Json.arr (l.map ratToJson).toArray
def natToJson (n : Nat) : Json := Json.num (JsonNumber.fromNat n)
def intToJson (n : Int) : Json := Json.num (JsonNumber.fromInt n)
def natsToJson (l : List Nat) : Json := Json.arr (l.map natToJson).toArray
def intsToJson (l : List Int) : Json := Json.arr (l.map intToJson).toArray
def boolsToJson (l : List Bool) : Json := Json.arr (l.map Json.bool).toArray
def listToJson (f : α → Json) (l : List α) : Json := Json.arr (l.map f).toArray
def ratMatToJson (m : List (List Rat)) : Json := listToJson ratsToJson m
def pairToJson (p : Nat × Nat) : Json := Json.arr #[natToJson p.1, natToJson p.2]
def optToJson (f : α → Json) : Option α → Json
  | some a => f a
  | none => Json.null

def getMask (j : Json) : Except String Model.Mask := do
  let h ← getNat (← field j "h")
  let w ← getNat (← field j "w")
  let s ← getStr (← field j "bits")
  let bits := s.toList.map (· == '1')
  if bits.length ≠ h * w then throw "mask bits length mismatch"
  pure { h := h, w := w, bits := bits }

def maskToJson (m : Model.Mask) : Json :=
  Json.mkObj [("h", natToJson m.h), ("w", natToJson m.w),
    ("bits", Json.str (String.ofList (m.bits.map fun b => if b then '1' else '0')))]

def bitsToJson (bits : List Bool) : Json :=
  Json.str (String.ofList (bits.map fun b => if b then '1' else '0'))

/-! ### Float bridge: exact both ways (no decimal printing). -/

def ratToFloat (q : Rat) : Float := Float.ofInt q.num / Float.ofNat q.den

/-- exact value of a finite double as a rational; non-finite → none. -/
def floatToRat? (x : Float) : Option Rat :=
  if x.isNaN || x.isInf then none
  else if x == 0 then some 0
  else
    let (m, e) := x.frExp            -- x = m * 2^e, 0.5 ≤ |m| < 1
    let mi : Int := (m * 9007199254740992.0).toInt64.toInt   -- m * 2^53, exact
    let e' : Int := e - 53
    if e' ≥ 0 then some ((mi * (2 : Int) ^ e'.toNat : Int) : Rat)
    else some (mkRat mi (2 ^ (-e').toNat))

def floatToJson (x : Float) : Json :=
  match floatToRat? x with
  | some q => ratToJson q
  | none => if x.isNaN then Json.str "nan" else if x > 0 then Json.str "inf" else Json.str "-inf"

def getFloat (j : Json) : Except String Float := do pure (ratToFloat (← getRat j))
def getFloats := getList getFloat
def floatsToJson (l : List Float) : Json := listToJson floatToJson l

def ok (j : Json) : Except String Json := pure (Json.mkObj [("ok", j)])
def obj (kvs : List (String × Json)) : Json := Json.mkObj kvs

end Driver
