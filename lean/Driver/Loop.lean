/-
Driver/Loop.lean — generic JSON-lines server loop. One request object per stdin line
  {"op": "<name>", ...args}  →  {"ok": <result>} | {"err": "<kind>"}
Each property has its own executable `driver_cXX` (root Driver/CXX.lean) so that properties build and
fail independently.  Imports only Model.* and Lean.Data.Json ⇒ links natively.
-/
import Driver.Json

open Lean

namespace Driver

def handle (ops : List (String × Op)) (line : String) : String :=
  match Json.parse line with
  | .error e => (Json.mkObj [("err", Json.str s!"bad_json: {e}")]).compress
  | .ok j =>
    match j.getObjValAs? String "op" with
    | .error _ => (Json.mkObj [("err", "bad_op")]).compress
    | .ok name =>
      match ops.lookup name with
      | none => (Json.mkObj [("err", "bad_op")]).compress
      | some f =>
        match f j with
        | .ok r => (Json.mkObj [("ok", r)]).compress
        | .error e => (Json.mkObj [("err", Json.str e)]).compress

partial def loop (ops : List (String × Op)) (hin hout : IO.FS.Stream) : IO Unit := do
  let line ← hin.getLine
  if line.isEmpty then return ()
  let t := line.trimAscii.toString
  if !t.isEmpty then
    hout.putStrLn (handle ops t)
  loop ops hin hout

def runLoop (ops : List (String × Op)) : IO Unit := do
  let hin ← IO.getStdin
  let hout ← IO.getStdout
  loop ops hin hout
  hout.flush

end Driver
