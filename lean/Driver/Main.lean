/-
Driver/Main.lean — JSON-lines server. One request object per stdin line
  {"op": "<name>", ...args}  →  {"ok": <result>} | {"err": "<kind>"}
Imports only Model.* and Lean.Data.Json, so it links as a native executable.
-/
import Driver.Json
import Driver.C01
import Driver.C02
import Driver.C03
import Driver.C04
import Driver.C05
import Driver.C06
import Driver.C07
import Driver.C08
import Driver.C09
import Driver.C10
import Driver.C11
import Driver.C12
import Driver.C13
import Driver.C14
import Driver.C15
import Driver.C16
import Driver.C17
import Driver.C18
import Driver.C19
import Driver.C20

open Lean Driver

def allOps : List (String × Op) :=
  C01.ops ++ C02.ops ++ C03.ops ++ C04.ops ++ C05.ops ++ C06.ops ++ C07.ops ++ C08.ops ++
  C09.ops ++ C10.ops ++ C11.ops ++ C12.ops ++ C13.ops ++ C14.ops ++ C15.ops ++ C16.ops ++
  C17.ops ++ C18.ops ++ C19.ops ++ C20.ops

def handle (line : String) : String :=
  match Json.parse line with
  | .error e => (Json.mkObj [("err", Json.str s!"bad_json: {e}")]).compress
  | .ok j =>
    match j.getObjValAs? String "op" with
    | .error _ => (Json.mkObj [("err", "bad_op")]).compress
    | .ok name =>
      match allOps.lookup name with
      | none => (Json.mkObj [("err", "bad_op")]).compress
      | some f =>
        match f j with
        | .ok r => (Json.mkObj [("ok", r)]).compress
        | .error e => (Json.mkObj [("err", Json.str e)]).compress

partial def loop (hin hout : IO.FS.Stream) : IO Unit := do
  let line ← hin.getLine
  if line.isEmpty then return ()
  let t := line.trimAscii.toString
  if !t.isEmpty then
    hout.putStrLn (handle t)
  loop hin hout

def main : IO Unit := do
  let hin ← IO.getStdin
  let hout ← IO.getStdout
  loop hin hout
  hout.flush
