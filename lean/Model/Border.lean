/-
Model/Border.lean — border relocation and sub-border indices (property C18).

Python sources transliterated here:
  autoarray/structures/grids/grid_2d_util.py
        relocated_grid_via_jit_from, furthest_grid_2d_slim_index_from, grid_2d_centre_from
  autoarray/inversion/pixelization/border_relocator.py
        sub_slim_indexes_for_slim_index_via_mask_2d_from, sub_border_pixel_slim_indexes_from,
        BorderRelocator.relocated_grid_from / relocated_mesh_grid_from / sub_grid / sub_border_grid
  autoarray/operators/over_sampling/over_sample_util.py
        slim_index_for_sub_slim_index_via_mask_2d_from, grid_2d_slim_over_sampled_via_mask_from
  autoarray/geometry/geometry_util.py
        central_pixel_coordinates_2d_from, central_scaled_coordinate_2d_from

A coordinate is a pair `(y, x)` as in PyAutoArray.  `sqrt` is a parameter (libm); the number type is
generic over the core operator classes so the same definitions run on `Float` / `Rat` in the driver and
are reasoned about over an ordered field in `Proofs/Border*.lean`.

The list of border pixels (`mask_2d_util.border_slim_indexes_from`) is property C10's subject; here it
is an input (`borderPixels`, slim indexes).
-/
import Model.Core

namespace Model

namespace Impl
section
variable {α : Type} [Add α] [Sub α] [Mul α] [Div α] [Neg α] [OfNat α 0] [OfNat α 1] [OfNat α 2]
  [NatCast α] [LT α] [DecidableLT α]

/-- `np.sum` of a 1-D array, left to right. -/
def sumList (l : List α) : α := l.foldl (· + ·) 0

/-- `np.mean` of a 1-D array: sum / count. -/
def mean (l : List α) : α := sumList l / (l.length : α)

/-- `np.min`: running minimum, the first element initialises it (`0` for the empty list, where numpy
    raises; callers guard non-emptiness). -/
def minList : List α → α
  | [] => 0
  | x :: xs => xs.foldl (fun acc v => if v < acc then v else acc) x

/-- `np.max`. -/
def maxList : List α → α
  | [] => 0
  | x :: xs => xs.foldl (fun acc v => if acc < v then v else acc) x

/-- `np.argmin`: index of the FIRST minimal entry (strict `<` replaces the incumbent). -/
def argminGo : List α → Nat → Nat → α → Nat
  | [], _, bi, _ => bi
  | x :: xs, i, bi, bv => if x < bv then argminGo xs (i + 1) i x else argminGo xs (i + 1) bi bv

def argmin : List α → Nat
  | [] => 0
  | x :: xs => argminGo xs 1 0 x

/-- `np.square(a0 - b0) + np.square(a1 - b1)`. -/
def sqDist (p q : α × α) : α := (p.1 - q.1) * (p.1 - q.1) + (p.2 - q.2) * (p.2 - q.2)

/-- `border_origin`: the means of the two columns of `border_grid`. -/
def borderOrigin (border : List (α × α)) : α × α :=
  (mean (border.map Prod.fst), mean (border.map Prod.snd))

/-- `border_grid_radii`. -/
def borderRadii (sqrt : α → α) (border : List (α × α)) : List α :=
  border.map fun b => sqrt (sqDist b (borderOrigin border))

/-- body of the `for pixel_index` loop of `relocated_grid_via_jit_from` for one coordinate `p`:
    `o` = border origin, `radii` = border radii, `rmin` = their minimum. -/
def relocatePoint (sqrt : α → α) (o : α × α) (radii : List α) (rmin : α) (border : List (α × α))
    (p : α × α) : α × α :=
  let rp := sqrt (sqDist p o)
  if rmin < rp then
    let k := argmin (border.map fun b => sqDist p b)
    let mf := radii.getD k 0 / rp
    if mf < 1 then (mf * (p.1 - o.1) + o.1, mf * (p.2 - o.2) + o.2) else p
  else p

/-- `relocated_grid_via_jit_from(grid, border_grid)`: copy of `grid`, then one row write per index. -/
def relocatedGrid (sqrt : α → α) (grid border : List (α × α)) : List (α × α) :=
  let o := borderOrigin border
  let radii := borderRadii sqrt border
  let rmin := minList radii
  (List.range grid.length).foldl
    (fun out i => out.set i (relocatePoint sqrt o radii rmin border (grid.getD i (0, 0)))) grid

/-- `grid[self.sub_border_slim]` (fancy indexing; out-of-range raises in numpy, callers guard). -/
def gather (grid : List (α × α)) (idx : List Nat) : List (α × α) :=
  idx.map fun k => grid.getD k (0, 0)

/-- `BorderRelocator.relocated_grid_from`. -/
def relocatedGridFrom (sqrt : α → α) (subBorder : List Nat) (grid : List (α × α)) : List (α × α) :=
  if subBorder.isEmpty then grid else relocatedGrid sqrt grid (gather grid subBorder)

/-- `BorderRelocator.relocated_mesh_grid_from(grid, mesh_grid)`. -/
def relocatedMeshGridFrom (sqrt : α → α) (subBorder : List Nat) (grid mesh : List (α × α)) :
    List (α × α) :=
  if subBorder.isEmpty then mesh else relocatedGrid sqrt mesh (gather grid subBorder)

/-! ### over-sampled grid and sub-pixel bookkeeping -/

/-- `slim_index_for_sub_slim_index_via_mask_2d_from`: for every unmasked pixel (row-major) `sub²`
    copies of its slim index; state = (array so far, slim_index). -/
def slimIndexForSubSlimIndex (m : Mask) (sub : List Nat) : List Nat :=
  (forYX m.h m.w
    (fun (st : List Nat × Nat) y x =>
      if !m.get y x then
        let s := sub.getD st.2 0
        (forYX s s (fun acc _ _ => acc ++ [st.2]) st.1, st.2 + 1)
      else st) ([], 0)).1

/-- `sub_slim_indexes_for_slim_index_via_mask_2d_from`: `total` empty lists, then
    `out[slim_index].append(sub_slim_index)` in enumeration order. -/
def subSlimIndexesForSlimIndex (m : Mask) (sub : List Nat) (total : Nat) : List (List Nat) :=
  let tbl := slimIndexForSubSlimIndex m sub
  (List.range tbl.length).foldl
    (fun out k => let s := tbl.getD k 0; out.set s (out.getD s [] ++ [k]))
    (List.replicate total [])

/-- `grid_2d_slim_over_sampled_via_mask_from(mask, pixel_scales, sub_size, origin)`. -/
def subGrid (m : Mask) (ps origin : α × α) (sub : List Nat) : List (α × α) :=
  -- central_scaled_coordinate_2d_from
  let cy : α := ((m.h : α) - 1) / 2 + origin.1 / ps.1
  let cx : α := ((m.w : α) - 1) / 2 - origin.2 / ps.2
  (forYX m.h m.w
    (fun (st : List (α × α) × Nat) y x =>
      if !m.get y x then
        let s := sub.getD st.2 0
        let ySubHalf := ps.1 / 2
        let ySubStep := ps.1 / (s : α)
        let xSubHalf := ps.2 / 2
        let xSubStep := ps.2 / (s : α)
        let yScaled := ((y : α) - cy) * ps.1
        let xScaled := ((x : α) - cx) * ps.2
        (forYX s s
          (fun acc y1 x1 =>
            acc ++ [(-(yScaled - ySubHalf + (y1 : α) * ySubStep + ySubStep / 2),
                     xScaled - xSubHalf + (x1 : α) * xSubStep + xSubStep / 2)]) st.1, st.2 + 1)
      else st) ([], 0)).1

/-- `grid_2d_centre_from`: centre of the bounding box of the coordinates. -/
def gridCentre (g : List (α × α)) : α × α :=
  ((maxList (g.map Prod.fst) + minList (g.map Prod.fst)) / 2,
   (maxList (g.map Prod.snd) + minList (g.map Prod.snd)) / 2)

/-- squared distance exactly as written in `furthest_grid_2d_slim_index_from`:
    `(x - coordinate[1]) ** 2 + (y - coordinate[0]) ** 2`. -/
def furthestDist (g : List (α × α)) (c : α × α) (k : Nat) : α :=
  let y := (g.getD k (0, 0)).1
  let x := (g.getD k (0, 0)).2
  (x - c.2) * (x - c.2) + (y - c.1) * (y - c.1)

/-- `furthest_grid_2d_slim_index_from`: running maximum starting at `0.0`, replaced on `>=`
    (so the LAST maximiser wins); `none` models the unbound local when `slim_indexes` is empty. -/
def furthest (g : List (α × α)) (idxs : List Nat) (c : α × α) : Option Nat :=
  (idxs.foldl
    (fun (st : α × Option Nat) k =>
      let d := furthestDist g c k
      if d < st.1 then st else (d, some k)) (0, none)).2

/-- `sub_border_pixel_slim_indexes_from(mask_2d, sub_size)` with the border pixel list supplied:
    unit pixel scales, zero origin (distances "in pixel units"), centre of the over-sampled grid. -/
def subBorderSlim (m : Mask) (sub : List Nat) (total : Nat) (borderPixels : List Nat) :
    List (Option Nat) :=
  let tbl := subSlimIndexesForSlimIndex m sub total
  let g : List (α × α) := subGrid m (1, 1) (0, 0) sub
  let c := gridCentre g
  borderPixels.map fun b => furthest g (tbl.getD b []) c

/-- all maximisers (for the correspondence's tie handling; not part of the Python). -/
def furthestTies (g : List (α × α)) (idxs : List Nat) (c : α × α) : List Nat :=
  idxs.filter fun k => idxs.all fun j => !(furthestDist g c k < furthestDist g c j)

end
end Impl

end Model
