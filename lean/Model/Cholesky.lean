/-
Model/Cholesky.lean — property C05, the Cholesky bookkeeping of `fnnls_cholesky`.

Impl layer = transliterations (loop for loop, slices as explicit index ranges, in-place updates as
functional updates; Mathlib-free, generic over the number type `α`; `sqrt` is an explicit parameter) of
autoarray/util/cholesky_funcs.py:
  * `Impl.cholupdate`          `_cholupdate(U, x)`            (rank-one update, in place on a view)
  * `Impl.cholinsertlast`      `cholinsertlast(U, x)`         (border the factor with one more index)
  * `Impl.cholDelete1`         one pass of the loop of `choldeleteindexes`
  * `Impl.choldeleteindexes`   `choldeleteindexes(U, indexes)` (`sorted(reverse=True)`, `np.delete`, `_cholupdate`)
and of the two LAPACK calls the fnnls path makes on the factor, by their mathematical content:
  * `Impl.solveUT`             `scipy.linalg.solve_triangular(U, b, trans=1, lower=False)`: forward substitution
  * `Impl.solveU`              back substitution
  * `Impl.choSolve`            `scipy.linalg.cho_solve((U, False), b)` = `solveU U (solveUT U b)`
  * `Impl.cholFactor`          the factor `fnnls_cholesky` carries for an ordered passive list when the indices
                               were inserted one by one (`slg.cholesky` on the first pass, then `cholinsertlast`)
  * `Impl.cholSolve`           factor + `cho_solve`: the passive-set solve of `fnnls_cholesky`

NOT modelled: `_choldowndate` and the general `cholinsert` (index in the middle of the factor).  They are
not on the fnnls path: `fnnls.py` imports only `cholinsertlast` and `choldeleteindexes`, and
`choldeleteindexes` calls only `_cholupdate`.

Spec layer: `Spec.SqrtContract`, `Spec.IsUpper`, `Spec.PosDiag`, `Spec.gram` (`(UᵀU)[i,j]`),
`Spec.IsCholFactor n U M` ("U is upper triangular n×n with positive diagonal and UᵀU = M").

Matrices are `List (List α)` (rows), as in Model/NNLS.lean; `mget`/`vget`/`dot` are reused from there.
-/
import Model.NNLS

namespace Model

namespace Impl

section Chol
variable {α : Type} [Add α] [Sub α] [Mul α] [Div α] [OfNat α 0]

/-- `Σ_{k<m} f k`, accumulated in index order -/
def sumTo (m : Nat) (f : Nat → α) : α := (List.range m).foldl (fun acc k => acc + f k) 0

/-! ### `_cholupdate` -/

/-- one pass `k` of the `for k in range(n - 1)` loop of `_cholupdate` on the pair `(U, x)` (both are
    updated in place by the Python):
    ```
    Ukk = U[k, k]; xk = x[k]
    r = np.sqrt(Ukk**2 + xk**2); c = r / Ukk; s = xk / Ukk
    U[k, k] = r
    U[k, k + 1 :] = (U[k, (k + 1) :] + s * x[k + 1 :]) / c
    x[k + 1 :] = c * x[k + 1 :] - s * U[k, k + 1 :]
    ``` -/
def cholupdateStep (sqrt : α → α) (n : Nat) (st : List (List α) × List α) (k : Nat) :
    List (List α) × List α :=
  let U := st.1
  let x := st.2
  let Ukk := mget U k k
  let xk := vget x k
  let r := sqrt (Ukk * Ukk + xk * xk)
  let c := r / Ukk
  let s := xk / Ukk
  -- row k: columns < k untouched, column k := r, columns k+1.. := (U[k, j] + s x[j]) / c
  let rowk := (List.range n).map fun j =>
    if j < k then mget U k j else if j = k then r else (mget U k j + s * vget x j) / c
  -- x: entries ≤ k untouched, entries k+1.. := c x[j] − s U[k, j]   (the NEW row k)
  let x' := (List.range n).map fun j => if j ≤ k then vget x j else c * vget x j - s * vget rowk j
  (U.set k rowk, x')

/-- `_cholupdate(U, x)` (cholesky_funcs.py:26-45): `n = x.size`, the loop over `k < n − 1`, then
    `k = n − 1; U[k, k] = np.sqrt(U[k, k]**2 + x[k]**2)`; returns `U`.
    (`n = 0` would index `x[-1]` of an empty array in Python; `choldeleteindexes` never calls it so.) -/
def cholupdate (sqrt : α → α) (U : List (List α)) (x : List α) : List (List α) :=
  let n := x.length
  let st := (List.range (n - 1)).foldl (cholupdateStep sqrt n) (U, x)
  let k := n - 1
  let Ukk := mget st.1 k k
  let xk := vget st.2 k
  st.1.set k ((st.1.getD k []).set k (sqrt (Ukk * Ukk + xk * xk)))

/-! ### triangular solves and `cho_solve` -/

/-- `scipy.linalg.solve_triangular(U, b, trans=1, lower=False)`: solves `Uᵀ y = b` (`Uᵀ` is lower
    triangular) by forward substitution, in place on a copy of `b` (LAPACK `trtrs`):
    `y[i] = (b[i] − Σ_{k<i} U[k,i] y[k]) / U[i,i]` for `i = 0, …, n−1`. Only `U[:n, :n]` is read. -/
def solveUT (U : List (List α)) (b : List α) : List α :=
  (List.range b.length).foldl (fun y i =>
    y.set i ((vget y i - sumTo i (fun k => mget U k i * vget y k)) / mget U i i)) b

/-- solves `U x = y` (`U` upper triangular) by back substitution, in place on a copy of `y`:
    `x[i] = (y[i] − Σ_{i<k<n} U[i,k] x[k]) / U[i,i]` for `i = n−1, …, 0` (pass `t` handles `i = n−1−t`). -/
def solveU (U : List (List α)) (y : List α) : List α :=
  let n := y.length
  (List.range n).foldl (fun x t =>
    let i := n - 1 - t
    x.set i ((vget x i - sumTo (n - 1 - i) (fun k => mget U i (i + 1 + k) * vget x (i + 1 + k)))
      / mget U i i)) y

/-- `scipy.linalg.cho_solve((U, False), b)` (LAPACK `potrs`, upper factor): `Uᵀ y = b`, then `U x = y`. -/
def choSolve (U : List (List α)) (b : List α) : List α := solveU U (solveUT U b)

/-! ### `np.delete`, views -/

/-- `np.delete(np.delete(U, index, axis=0), index, axis=1)` -/
def deleteRowCol (U : List (List α)) (index : Nat) : List (List α) :=
  (U.eraseIdx index).map fun r => r.eraseIdx index

/-- `np.delete(l, dels)` for a 1-D array: the entries whose POSITION is not in `dels`, in order
    (`P_inorder = np.delete(P_inorder, id_delete)` in `fix_constraint_cholesky`) -/
def npDelete {β : Type} (l : List β) (dels : List Nat) : List β :=
  (l.zipIdx.filter fun p => !dels.contains p.2).map fun p => p.1

/-- `np.where(mask)[0]`: the positions of the True entries, ascending -/
def npWhere (mask : List Bool) : List Nat := (mask.zipIdx.filter fun p => p.1).map fun p => p.2

/-- `sorted(indexes, reverse=True)` on integers (insertion sort; the result of a sort does not depend on the
    algorithm) -/
def insertDesc (a : Nat) : List Nat → List Nat
  | [] => [a]
  | b :: bs => if b ≤ a then a :: b :: bs else b :: insertDesc a bs

def sortDesc (l : List Nat) : List Nat := l.foldr insertDesc []

/-- the view `L[d:, d:]` -/
def viewBlock (L : List (List α)) (d : Nat) : List (List α) := (L.drop d).map fun r => r.drop d

/-- the matrix `L` after the view `L[d:, d:]` was overwritten with `B` -/
def writeBlock (L : List (List α)) (d : Nat) (B : List (List α)) : List (List α) :=
  L.take d ++ List.zipWith (fun row brow => row.take d ++ brow) (L.drop d) B

end Chol

section CholOrd
variable {α : Type} [Add α] [Sub α] [Mul α] [Div α] [OfNat α 0] [LT α] [DecidableLT α]

/-! ### `cholinsertlast` -/

/-- `cholinsertlast(U, x)` (cholesky_funcs.py:65-83):
    ```
    index = U.shape[0]
    S = np.insert(np.insert(U, index, 0, axis=0), index, 0, axis=1)
    S[:index, index] = S12 = linalg.solve_triangular(U[:index, :index], x[:index], trans=1, lower=False)
    S[index, index] = s22 = math.sqrt(x[index] - S12.dot(S12))
    ```
    `none`: `math.sqrt` of a negative number raises `ValueError` (math domain error), which `fnnls`'s
    callers turn into an `InversionException`. -/
def cholinsertlast (sqrt : α → α) (U : List (List α)) (x : List α) : Option (List (List α)) :=
  let index := U.length
  let S12 := solveUT U (x.take index)
  let t := vget x index - dot S12 S12
  if t < 0 then none
  else
    let s22 := sqrt t
    some (List.zipWith (fun row v => row ++ [v]) U S12 ++ [List.replicate index 0 ++ [s22]])

/-! ### `choldeleteindexes` -/

/-- one pass of the loop of `choldeleteindexes` (cholesky_funcs.py:89-98):
    ```
    L = np.delete(np.delete(U, index, axis=0), index, axis=1)
    if index == L.shape[0]: U = L
    else: _cholupdate(L[index:, index:], U[index, index + 1 :]); U = L
    ```
    (`_cholupdate` works in place on the view of `L`; its second argument is a view of the OLD `U`, which is
    dropped afterwards.) -/
def cholDelete1 (sqrt : α → α) (U : List (List α)) (index : Nat) : List (List α) :=
  let L := deleteRowCol U index
  if index = L.length then L
  else writeBlock L index (cholupdate sqrt (viewBlock L index) ((U.getD index []).drop (index + 1)))

/-- `choldeleteindexes(U, indexes)`: `indexes = sorted(indexes, reverse=True)`, then one pass per index. -/
def choldeleteindexes (sqrt : α → α) (U : List (List α)) (indexes : List Nat) : List (List α) :=
  (sortDesc indexes).foldl (cholDelete1 sqrt) U

/-! ### the factor carried by `fnnls_cholesky`, and its passive-set solve -/

/-- `id_delete = np.where(d[P_inorder] <= tolerance)[0]` (`fix_constraint_cholesky`): the POSITIONS in
    `P_inorder` that `choldeleteindexes(U, id_delete)` and `np.delete(P_inorder, id_delete)` remove -/
def fcIdDelete [LE α] [DecidableLE α] (tol : α) (Pin : List Nat) (d : List α) : List Nat :=
  npWhere (Pin.map fun i => decide (vget d i ≤ tol))

/-- the factor of `M = ZTZ[P_inorder][:, P_inorder]` obtained by inserting the indices one at a time, as
    `fnnls_cholesky` does from a cold start: pass `i` calls `cholinsertlast(U, ZTZ[idmax][P_inorder])`, and
    `ZTZ[idmax][P_inorder]` is row `i` of `M` up to and including the diagonal.  (The first pass of the code
    calls `scipy.linalg.cholesky` on the current `M` instead — for a cold start the 1×1 matrix
    `[[sqrt(M[0,0])]]`, which is what `cholinsertlast([], [M[0,0]])` returns; for a warm start LAPACK
    `potrf` on a k×k matrix, whose mathematical content is this same bordering recursion.) -/
def cholFactor (sqrt : α → α) (M : List (List α)) : Option (List (List α)) :=
  (List.range M.length).foldl (fun acc i =>
    match acc with
    | none => none
    | some U => cholinsertlast sqrt U ((M.getD i []).take (i + 1))) (some [])

/-- the passive-set solve of `fnnls_cholesky` / `fix_constraint_cholesky`:
    `cho_solve((U, False), ZTx[P_inorder])` with the carried factor.  `none`: the factorisation raised
    (`math.sqrt` domain error), or a pivot is not positive (a zero pivot makes LAPACK's substitution divide
    by zero and return inf/nan; both are failures of the solve — `Err.singular`). -/
def cholSolve (sqrt : α → α) (M : List (List α)) (r : List α) : Option (List α) :=
  match cholFactor sqrt M with
  | none => none
  | some U =>
    if (List.range U.length).all (fun i => decide (0 < mget U i i)) then some (choSolve U r) else none

end CholOrd

end Impl

/-! ### Spec -/

namespace Spec

section
variable {α : Type} [Add α] [Mul α] [OfNat α 0] [LT α] [LE α]

/-- the contract of the libm square root: on non-negative arguments it is the non-negative root -/
def SqrtContract (sqrt : α → α) : Prop := ∀ x, 0 ≤ x → 0 ≤ sqrt x ∧ sqrt x * sqrt x = x

/-- `U` is an n×n array -/
def IsSquare (n : Nat) (U : List (List α)) : Prop := U.length = n ∧ ∀ r, r ∈ U → r.length = n

/-- n×n and zero below the diagonal -/
def IsUpper (n : Nat) (U : List (List α)) : Prop :=
  IsSquare n U ∧ ∀ i j, j < i → i < n → mget U i j = 0

def PosDiag (n : Nat) (U : List (List α)) : Prop := ∀ i, i < n → 0 < mget U i i

/-- column `i` of `U` -/
def col (U : List (List α)) (i : Nat) : List α := U.map fun r => vget r i

/-- `(Uᵀ U)[i, j]` -/
def gram (U : List (List α)) (i j : Nat) : α := dot (col U i) (col U j)

/-- `U` is THE Cholesky factor of the n×n matrix `M`: upper triangular, positive diagonal, `UᵀU = M` -/
def IsCholFactor (n : Nat) (U M : List (List α)) : Prop :=
  IsUpper n U ∧ PosDiag n U ∧ ∀ i j, i < n → j < n → gram U i j = mget M i j

end

end Spec

end Model
