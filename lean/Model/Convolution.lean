/-
Model/Convolution.lean — masked PSF convolution (property C03).

Python sources transliterated here (the tree WITH repair D1, fixes/D1-convolve-matrix-negative.patch):
  autoarray/operators/convolver.py    Convolver.__init__ (mask_index_array, image / blurring frame
                                      tables), frame_at_coordinates_jit, convolve_jit,
                                      convolve_no_blurring_jit, convolve_matrix_jit
  autoarray/structures/arrays/kernel_2d.py   convolved_array_from / convolved_array_with_mask_from
                                      (odd check + scipy.signal.convolve2d(mode="same") — the scipy
                                      call is NOT modelled, `Spec.convSame` is its assumed contract)
The number type `α` is generic (core operator classes only): `Rat` in the driver, any commutative
ring in Proofs/Convolution.lean.
-/
import Model.Core
import Model.Slim
import Model.MaskSets

namespace Model

/-- a 2-D kernel, row-major (`kernel.native`). -/
structure Kernel (α : Type) where
  h : Nat
  w : Nat
  vals : List α
deriving Repr

namespace Kernel
/-- `kernel_2d[i, j]` -/
def get [OfNat α 0] (K : Kernel α) (i j : Nat) : α := K.vals.getD (i * K.w + j) 0
end Kernel

namespace Impl

/-- `mask_index_array`: `-1` (here `none`) at masked pixels, the running count at unmasked ones;
    row-major.  (Python names the loop variables x,y but walks rows then columns.) -/
def maskIndexArray (m : Mask) : List (Option Nat) :=
  (forYX m.h m.w
    (fun (st : List (Option Nat) × Nat) y x =>
      if !m.get y x then (st.1 ++ [some st.2], st.2 + 1) else (st.1 ++ [none], st.2))
    ([], 0)).1

/-- `frame_at_coordinates_jit`: for `i in range(kh): for j in range(kw)`: target
    `(c0 - half0 + i, c1 - half1 + j)`; kept when inside the array, `mask_index_array >= 0` and not
    masked; the entry is `(slim index of the target, kernel[i,j])`.  The fixed-length arrays padded
    with `-1` plus the `lengths` table are represented by the list of the filled entries. -/
def frameAt [OfNat α 0] (m : Mask) (mia : List (Option Nat)) (K : Kernel α) (c : Nat × Nat) :
    List (Nat × α) :=
  forYX K.h K.w
    (fun acc i j =>
      let x : Int := (c.1 : Int) - ((K.h / 2 : Nat) : Int) + (i : Int)
      let y : Int := (c.2 : Int) - ((K.w / 2 : Nat) : Int) + (j : Int)
      if 0 ≤ x ∧ x < (m.h : Int) ∧ 0 ≤ y ∧ y < (m.w : Int) then
        match mia.getD (x.toNat * m.w + y.toNat) none with
        | some v => if !m.get x.toNat y.toNat then acc ++ [(v, K.get i j)] else acc
        | none => acc
      else acc) []

/-- the tables a `Convolver` holds. -/
structure Convolver (α : Type) where
  pixelsInMask : Nat
  imageFrames : List (List (Nat × α))       -- one frame per unmasked pixel, row-major
  blurringMask : Mask
  blurringFrames : List (List (Nat × α))    -- one frame per blurring-mask pixel, row-major
deriving Repr

inductive ConvErr where
  | evenKernel          -- KernelException("PSF kernel must be odd")
  | footprintOutside    -- MaskException from blurring_mask_2d_from
deriving Repr, DecidableEq

/-- `Convolver.__init__`. -/
def convolver [OfNat α 0] (m : Mask) (K : Kernel α) : Except ConvErr (Convolver α) :=
  if K.h % 2 == 0 || K.w % 2 == 0 then .error .evenKernel
  else
    let mia := maskIndexArray m
    let imageFrames : List (List (Nat × α)) :=
      forYX m.h m.w (fun acc y x => if !m.get y x then acc ++ [frameAt m mia K (y, x)] else acc) []
    match blurringBits m K.h K.w with
    | none => .error .footprintOutside
    | some bb =>
      let bm : Mask := { h := m.h, w := m.w, bits := bb }
      let blurringFrames : List (List (Nat × α)) :=
        forYX m.h m.w
          (fun acc y x => if m.get y x && !bm.get y x then acc ++ [frameAt m mia K (y, x)] else acc) []
      .ok { pixelsInMask := totalPixels m, imageFrames := imageFrames, blurringMask := bm,
            blurringFrames := blurringFrames }

/-- the double loop shared by `convolve_jit` (twice) and `convolve_no_blurring_jit`:
    `for s in range(len(vals)): for k in range(length[s]): out[index[s,k]] += vals[s] * kernel[s,k]` -/
def scatterFrames [Add α] [Mul α] [OfNat α 0] (frames : List (List (Nat × α))) (vals : List α)
    (out : List α) : List α :=
  (List.range vals.length).foldl
    (fun out s =>
      let fr := frames.getD s []
      let v := vals.getD s 0
      (List.range fr.length).foldl
        (fun out k =>
          let e := fr.getD k (0, 0)
          out.set e.1 (out.getD e.1 0 + v * e.2)) out) out

/-- `convolve_jit`: zeros of the image's length, image frames, then blurring frames. -/
def convolve [Add α] [Mul α] [OfNat α 0] (cv : Convolver α) (img blur : List α) : List α :=
  scatterFrames cv.blurringFrames blur
    (scatterFrames cv.imageFrames img (List.replicate img.length 0))

/-- `convolve_no_blurring_jit`. -/
def convolveNoBlurring [Add α] [Mul α] [OfNat α 0] (cv : Convolver α) (img : List α) : List α :=
  scatterFrames cv.imageFrames img (List.replicate img.length 0)

/-- `blurred[t, c] += value * kernel_value` on a matrix stored as a list of rows. -/
def matAdd [Add α] [OfNat α 0] (M : List (List α)) (t c : Nat) (v : α) : List (List α) :=
  M.set t ((M.getD t []).set c ((M.getD t []).getD c 0 + v))

/-- `convolve_matrix_jit` with the sparsity test as a parameter:
    `for c in range(ncols): for s in range(nrows): value = M[s,c]; if keep value: for k …` -/
def convolveMatrixWith [Add α] [Mul α] [OfNat α 0] (keep : α → Bool) (cv : Convolver α)
    (nrows ncols : Nat) (M : List (List α)) : List (List α) :=
  (List.range ncols).foldl
    (fun out c =>
      (List.range nrows).foldl
        (fun out s =>
          let value := (M.getD s []).getD c 0
          if keep value then
            let fr := cv.imageFrames.getD s []
            (List.range fr.length).foldl
              (fun out k =>
                let e := fr.getD k (0, 0)
                matAdd out e.1 c (value * e.2)) out
          else out) out)
    (List.replicate nrows (List.replicate ncols 0))

/-- `convolve_matrix_jit` as repaired (D1): `if value != 0`. -/
def convolveMatrix [Add α] [Mul α] [OfNat α 0] [DecidableEq α] (cv : Convolver α)
    (nrows ncols : Nat) (M : List (List α)) : List (List α) :=
  convolveMatrixWith (fun v => v != 0) cv nrows ncols M

/-- `convolve_matrix_jit` before the repair: `if value > 0`. -/
def convolveMatrixAsIs [Add α] [Mul α] [OfNat α 0] [LT α] [DecidableLT α] (cv : Convolver α)
    (nrows ncols : Nat) (M : List (List α)) : List (List α) :=
  convolveMatrixWith (fun v => decide (0 < v)) cv nrows ncols M

end Impl

/-! ## Spec layer -/
namespace Spec

/-- read a native (row-major, `h×w`) array at integer coordinates, zero outside the frame. -/
def readZ [OfNat α 0] (h w : Nat) (a : List α) (y x : Int) : α :=
  if 0 ≤ y ∧ y < (h : Int) ∧ 0 ≤ x ∧ x < (w : Int) then a.getD (y.toNat * w + x.toNat) 0 else 0

/-- sum of a list (kept here so that `Model/*` stays Mathlib-free; `Proofs` shows it is `List.sum`). -/
def lsum [Add α] [OfNat α 0] (l : List α) : α := l.foldr (· + ·) 0

/-- true 2-D convolution (flipped, centred kernel, zero outside the frame) at pixel `p`:
    `Σ_{i<kh} Σ_{j<kw} a[p + half − (i,j)] · K[i,j]`. -/
def conv2 [Add α] [Mul α] [OfNat α 0] (h w : Nat) (K : Kernel α) (a : List α) (p : Nat × Nat) : α :=
  lsum ((pixels K.h K.w).map fun ij =>
    readZ h w a ((p.1 : Int) + ((K.h / 2 : Nat) : Int) - (ij.1 : Int))
      ((p.2 : Int) + ((K.w / 2 : Nat) : Int) - (ij.2 : Int)) * K.get ij.1 ij.2)

/-- contract assumed of `scipy.signal.convolve2d(a, K, mode="same")` for odd kernels: the true
    convolution at every pixel of the frame (also the model of `convolved_array_from`; `none` = the
    `KernelException` for an even side). -/
def convSame [Add α] [Mul α] [OfNat α 0] (h w : Nat) (K : Kernel α) (a : List α) : Option (List α) :=
  if K.h % 2 == 0 || K.w % 2 == 0 then none
  else some ((pixels h w).map fun p => conv2 h w K a p)

/-- entry-wise sum of two native arrays ("the combined native image"). -/
def addNative [Add α] (a b : List α) : List α := List.zipWith (· + ·) a b

end Spec
end Model
