/-
Model/ConvolutionPipeline.lean — the simulate → mask → fit pipeline of property C03's last clause.

Python sources transliterated here (the tree WITH repair D153,
fixes/D153-simulator-psf-normalisation-flag.patch):
  autoarray/structures/arrays/kernel_2d.py   Kernel2D.__init__ (normalize), Kernel2D.normalized,
                                             Kernel2D.no_mask(..., normalize=...),
                                             convolved_array_from, convolved_array_with_mask_from
  autoarray/dataset/imaging/simulator.py     SimulatorImaging.__init__, via_image_from with
                                             add_poisson_noise_to_data=False and
                                             include_poisson_noise_in_noise_map=False
  autoarray/dataset/imaging/dataset.py       Imaging.__init__ (pad_for_convolver probe,
                                             use_normalized_psf), Imaging.apply_mask (branch
                                             `self.data.mask.is_all_false`), Imaging.convolver
`scipy.signal.convolve2d(a, k, mode="same")` is a PARAMETER (`Conv2dSame`); theorems carry its
contract as a hypothesis, discharged for `Spec.convSameFn`, which the driver uses.
Not modelled: the Poisson draw `data_eps_with_poisson_noise_added` (computed by the code even with
the noise switches off, then discarded; it only requires non-negative counts), noise covariance,
over-sampling, `.grids`, logging; the automatic padding branch of `Imaging.__init__` is reported as
the outcome `padded` (it belongs to C14).
-/
import Model.Convolution

namespace Model

/-- `Mask2D.all_false(shape_native)` -/
def Mask.allFalse (h w : Nat) : Mask := { h := h, w := w, bits := List.replicate (h * w) false }

/-- the type of `scipy.signal.convolve2d(·, ·, mode="same")` on row-major `h×w` arrays -/
abbrev Conv2dSame (α : Type) := Nat → Nat → Kernel α → List α → List α

namespace Spec

/-- the instance of `Conv2dSame` that satisfies the contract by definition (used by the driver) -/
def convSameFn [Add α] [Mul α] [OfNat α 0] : Conv2dSame α :=
  fun h w K a => (pixels h w).map fun p => conv2 h w K a p

end Spec

namespace Impl

/-- `np.sum(self._array)` -/
def kernelSum [Add α] [OfNat α 0] (K : Kernel α) : α := Spec.lsum K.vals

/-- `Kernel2D.__init__(values, mask, normalize)`:
    `if normalize: self._array[:] = np.divide(self._array, np.sum(self._array))`.
    Also `Kernel2D.no_mask(values=psf.native, ..., normalize=...)` and `Kernel2D.normalized`. -/
def kernel2d [Add α] [Div α] [OfNat α 0] (K : Kernel α) (normalize : Bool) : Kernel α :=
  if normalize then { K with vals := K.vals.map fun v => v / kernelSum K } else K

/-- `Kernel2D.convolved_array_from(array)` for an `Array2D` on mask `m` whose `.native` is `a`:
    odd check (`none` = KernelException), `convolve2d(array.native, self.native, mode="same")`,
    `array_2d_slim_from(mask_2d=array.mask, …)`; the result is an `Array2D` on `m` (slim values). -/
def convolvedArrayFrom [OfNat α 0] (scipy : Conv2dSame α) (K : Kernel α) (m : Mask) (a : List α) :
    Option (List α) :=
  if K.h % 2 == 0 || K.w % 2 == 0 then none
  else some (slimFrom m (scipy m.h m.w K a) 0)

/-- `Kernel2D.convolved_array_with_mask_from(array, mask)`: the same with the gather mask supplied. -/
def convolvedArrayWithMaskFrom [OfNat α 0] (scipy : Conv2dSame α) (K : Kernel α) (a : List α)
    (mask : Mask) : Option (List α) :=
  if K.h % 2 == 0 || K.w % 2 == 0 then none
  else some (slimFrom mask (scipy mask.h mask.w K a) 0)

/-- the attributes of a `SimulatorImaging` that matter with the noise features off -/
structure Simulator (α : Type) where
  exposureTime : α
  backgroundSkyLevel : α
  subtractBackgroundSky : Bool
  psf : Kernel α
  normalizePsf : Bool
  noiseIfAddNoiseFalse : α

/-- `SimulatorImaging.__init__`: `if psf is not None and normalize_psf: psf = psf.normalized`. -/
def simulatorInit [Add α] [Div α] [OfNat α 0] (exposureTime backgroundSkyLevel : α)
    (subtractBackgroundSky : Bool) (psf : Kernel α) (normalizePsf : Bool) (noiseIfAddNoiseFalse : α) :
    Simulator α :=
  { exposureTime, backgroundSkyLevel, subtractBackgroundSky,
    psf := if normalizePsf then kernel2d psf true else psf,
    normalizePsf, noiseIfAddNoiseFalse }

/-- an `Imaging` dataset: mask, slim data and noise map on that mask, PSF -/
structure Imaging (α : Type) where
  mask : Mask
  data : List α
  noiseMap : List α
  psf : Kernel α
  useNormalizedPsf : Bool

inductive PipeErr where
  | evenKernel          -- KernelException
  | padded              -- Imaging.__init__ took its automatic-padding branch (C14's subject)
  | footprintOutside    -- MaskException from the Convolver
deriving Repr, DecidableEq

/-- `Imaging.__init__(data, noise_map, psf, pad_for_convolver, use_normalized_psf)`:
    with `pad_for_convolver` the blurring mask is probed and ANY `MaskException` (footprint outside,
    even side) sends the code into the padding branch; then
    `if use_normalized_psf: psf = Kernel2D.no_mask(values=psf.native, normalize=True)`. -/
def imagingInit [Add α] [Div α] [OfNat α 0] (mask : Mask) (data noiseMap : List α) (psf : Kernel α)
    (padForConvolver useNormalizedPsf : Bool) : Except PipeErr (Imaging α) :=
  let probeFails : Bool :=
    match blurringFrom mask psf.h psf.w with
    | .ok _ => false
    | _ => true
  if padForConvolver && probeFails then .error .padded
  else .ok { mask, data, noiseMap,
             psf := if useNormalizedPsf then kernel2d psf true else psf, useNormalizedPsf }

/-- `SimulatorImaging.via_image_from(image)` for an unmasked `h×w` image (`Array2D.no_mask`), noise
    switches off.  `forwardFlag = true` is the repaired code (`use_normalized_psf=self.normalize_psf`);
    `false` is the pre-repair call (default `use_normalized_psf=True`). -/
def viaImageFromWith [Add α] [Sub α] [Div α] [OfNat α 0] (forwardFlag : Bool) (scipy : Conv2dSame α)
    (sim : Simulator α) (h w : Nat) (image : List α) : Except PipeErr (Imaging α) :=
  let m0 := Mask.allFalse h w
  -- exposure_time_map = Array2D.full(exposure_time): enters only the (discarded) Poisson draw
  let backgroundSkyMap := List.replicate (h * w) sim.backgroundSkyLevel
  match convolvedArrayFrom scipy sim.psf m0 image with
  | none => .error .evenKernel
  | some blurred =>
    let image1 := List.zipWith (· + ·) blurred backgroundSkyMap          -- image + background_sky_map
    let noiseMap := List.replicate (h * w) sim.noiseIfAddNoiseFalse       -- Array2D.full(noise_if_add_noise_false)
    let image2 := if sim.subtractBackgroundSky then List.zipWith (· - ·) image1 backgroundSkyMap
                  else image1
    imagingInit m0 image2 noiseMap sim.psf false (if forwardFlag then sim.normalizePsf else true)

def viaImageFrom [Add α] [Sub α] [Div α] [OfNat α 0] (scipy : Conv2dSame α) (sim : Simulator α)
    (h w : Nat) (image : List α) : Except PipeErr (Imaging α) :=
  viaImageFromWith true scipy sim h w image

/-- `Array2D(values=native, mask=mask).slim` (`convert_array_2d`: native input is multiplied by
    `¬mask`, then gathered — see Model/Slim.lean). -/
def array2dSlim [OfNat α 0] (mask : Mask) (native : List α) : List α :=
  slimFrom mask (applyMask mask native 0) 0

/-- `Imaging.apply_mask(mask)` on an unmasked dataset (`self.data.mask.is_all_false`):
    data and noise map are re-masked from their native forms, the dataset is rebuilt with
    `pad_for_convolver=True`.  `forwardFlag = true` is the repaired code
    (`use_normalized_psf=self.use_normalized_psf`), `false` the pre-repair default `True`. -/
def applyMaskWith [Add α] [Div α] [OfNat α 0] (forwardFlag : Bool) (ds : Imaging α) (mask : Mask) :
    Except PipeErr (Imaging α) :=
  let data := array2dSlim mask (nativeFrom ds.mask ds.data 0)
  let noiseMap := array2dSlim mask (nativeFrom ds.mask ds.noiseMap 0)
  imagingInit mask data noiseMap ds.psf true (if forwardFlag then ds.useNormalizedPsf else true)

def applyMaskDs [Add α] [Div α] [OfNat α 0] (ds : Imaging α) (mask : Mask) :
    Except PipeErr (Imaging α) :=
  applyMaskWith true ds mask

/-- what the fit observes -/
structure FitObs (α : Type) where
  simulated : List α      -- the unmasked simulated data (native = slim on the all-False mask)
  data : List α           -- masked dataset data (slim)
  psf : Kernel α          -- PSF held by the masked dataset
  model : List α          -- convolver.convolve_image(image on the mask, image on the blurring mask)
  residual : List α       -- data − model
deriving Repr

/-- the composed pipeline: simulator (noise off) → `apply_mask` → `.convolver` →
    `convolve_image(Array2D(image, mask), Array2D(image, blurring_mask))` → residual. -/
def simulateAndFitWith [Add α] [Sub α] [Mul α] [Div α] [OfNat α 0] (forwardFlag : Bool)
    (scipy : Conv2dSame α) (exposureTime backgroundSkyLevel : α) (subtractBackgroundSky : Bool)
    (psf : Kernel α) (normalizePsf : Bool) (noiseIfAddNoiseFalse : α) (mask : Mask) (image : List α) :
    Except PipeErr (FitObs α) :=
  let sim := simulatorInit exposureTime backgroundSkyLevel subtractBackgroundSky psf normalizePsf
    noiseIfAddNoiseFalse
  match viaImageFromWith forwardFlag scipy sim mask.h mask.w image with
  | .error e => .error e
  | .ok ds =>
    match applyMaskWith forwardFlag ds mask with
    | .error e => .error e
    | .ok masked =>
      match convolver masked.mask masked.psf with
      | .error .evenKernel => .error .evenKernel
      | .error .footprintOutside => .error .footprintOutside
      | .ok cv =>
        let model := convolve cv (array2dSlim masked.mask image) (array2dSlim cv.blurringMask image)
        .ok { simulated := ds.data, data := masked.data, psf := masked.psf, model,
              residual := List.zipWith (· - ·) masked.data model }

def simulateAndFit [Add α] [Sub α] [Mul α] [Div α] [OfNat α 0] (scipy : Conv2dSame α)
    (exposureTime backgroundSkyLevel : α) (subtractBackgroundSky : Bool) (psf : Kernel α)
    (normalizePsf : Bool) (noiseIfAddNoiseFalse : α) (mask : Mask) (image : List α) :
    Except PipeErr (FitObs α) :=
  simulateAndFitWith true scipy exposureTime backgroundSkyLevel subtractBackgroundSky psf normalizePsf
    noiseIfAddNoiseFalse mask image

end Impl
end Model
