/-
Model/Core.lean — shared, Mathlib-free foundations of the executable model.

Conventions (see DESIGN.md §2.1):
* a 2-D mask is `Mask` = shape + row-major `List Bool`, `true` = masked (as in PyAutoArray);
* a native (H×W) array is its row-major flattening `List α` of length `H*W` (what numpy stores);
* `Impl.*` definitions transliterate the Python loops (`for` → `foldl` over `List.range`);
* `Spec.*` definitions are the mathematical content; `Proofs/*` relate the two.
-/

namespace Model

/-- A 2-D boolean mask, row-major, `true` = masked. -/
structure Mask where
  h : Nat
  w : Nat
  bits : List Bool
deriving Repr, DecidableEq

namespace Mask

/-- `mask_2d[y, x]`; out-of-range reads as masked (the Python would raise; callers guard). -/
def get (m : Mask) (y x : Nat) : Bool := m.bits.getD (y * m.w + x) true

/-- well-formedness: the bit list has exactly `h*w` entries. -/
def WF (m : Mask) : Prop := m.bits.length = m.h * m.w

instance (m : Mask) : Decidable m.WF := by unfold WF; infer_instance

end Mask

/-- flattened (row-major) index of pixel `(y,x)` in a frame of width `w`. -/
def flat (w : Nat) (p : Nat × Nat) : Nat := p.1 * w + p.2

/-- all pixels of an `h×w` frame in row-major order. -/
def pixels (h w : Nat) : List (Nat × Nat) :=
  (List.range h).flatMap fun y => (List.range w).map fun x => (y, x)

/-- The shape of every doubly nested `for y in range(h): for x in range(w):` loop in the code:
    thread an accumulator through the pixels in row-major order. -/
def forYX (h w : Nat) (f : β → Nat → Nat → β) (init : β) : β :=
  (List.range h).foldl (fun acc y => (List.range w).foldl (fun acc x => f acc y x) acc) init

/-- `int(x)` for non-negative and negative rationals alike: truncation toward zero. -/
def truncRat (q : Rat) : Int := if 0 ≤ q then q.floor else - (-q).floor

end Model
