/-
Model/DFT.lean — direct Fourier transform, preloaded variant, adjoint, interferometer normal
equations (property C13).

Python sources transliterated here:
  autoarray/operators/transformer_util.py   preload_real_transforms, preload_imag_transforms,
                                            visibilities_via_preload_jit_from, visibilities_jit,
                                            image_via_jit_from,
                                            transformed_mapping_matrix_via_preload_jit_from,
                                            transformed_mapping_matrix_jit
  autoarray/operators/transformer.py        TransformerDFT.__init__ / visibilities_from / image_from /
                                            transform_mapping_matrix
  autoarray/structures/grids/grid_2d_util.py  grid_2d_slim_via_mask_from   (pixel centres)
  autoarray/geometry/geometry_util.py       central_scaled_coordinate_2d_from
  autoarray/structures/grids/uniform_2d.py  Grid2D.in_radians
  autoarray/inversion/inversion/interferometer/inversion_interferometer_util.py
                                            data_vector_via_transformed_mapping_matrix_from
  autoarray/inversion/inversion/interferometer/mapping.py   InversionInterferometerMapping.curvature_matrix
  autoarray/inversion/inversion/inversion_util.py  curvature_matrix_via_mapping_matrix_from,
                                            curvature_matrix_with_added_to_diag_from

`cos`, `sin` and `π` are parameters.  Complex numbers are pairs `Cx`.  The numpy arrays the loops
write into are modelled as total maps from indices (`Nat → β`, `Nat → Nat → β`) with a point update,
read out over the array's index range at the end; inputs are lists read with `getD`.
-/
import Model.Core

namespace Model
namespace Impl
namespace DFT

/-- a complex number as (real, imaginary). -/
structure Cx (α : Type) where
  re : α
  im : α
deriving Repr, DecidableEq

/-- complex addition (`visibilities[k] += vis_real + 1j * vis_imag`). -/
def Cx.add {α : Type} [Add α] (a b : Cx α) : Cx α := ⟨a.re + b.re, a.im + b.im⟩

/-- a 1-D numpy array: its allocated length and its contents as a total map from indices (reads
    outside the length are never made by the loops below). -/
structure Arr (β : Type) where
  n : Nat
  get : Nat → β

/-- a 2-D numpy array: shape `(rows, cols)` and contents as a total map from index pairs. -/
structure Arr2 (β : Type) where
  rows : Nat
  cols : Nat
  get : Nat → Nat → β

/-- `np.zeros(shape=(n,))` (or `0 + 0j * np.zeros(...)`): constant contents. -/
def Arr.full {β : Type} (n : Nat) (v : β) : Arr β := ⟨n, fun _ => v⟩

/-- `np.zeros(shape=(rows, cols))`. -/
def Arr2.full {β : Type} (rows cols : Nat) (v : β) : Arr2 β := ⟨rows, cols, fun _ _ => v⟩

/-- `a[k] = v`. -/
def pointSet {β : Type} (a : Arr β) (k : Nat) (v : β) : Arr β :=
  ⟨a.n, fun j => if j = k then v else a.get j⟩

/-- `a[k, c] = v`. -/
def pointSet2 {β : Type} (a : Arr2 β) (k c : Nat) (v : β) : Arr2 β :=
  ⟨a.rows, a.cols, fun i j => if i = k ∧ j = c then v else a.get i j⟩

/-- the array's entries as a list. -/
def Arr.toList {β : Type} (a : Arr β) : List β := (List.range a.n).map a.get

/-- the array's entries as a list of rows. -/
def Arr2.toLists {β : Type} (a : Arr2 β) : List (List β) :=
  (List.range a.rows).map fun i => (List.range a.cols).map fun j => a.get i j

variable {α : Type}

section grid
variable [Add α] [Sub α] [Mul α] [Div α] [Neg α] [NatCast α] [OfNat α 2]

/-- geometry_util.central_scaled_coordinate_2d_from:
    `(float(H - 1) / 2 + origin[0] / s_y,  float(W - 1) / 2 - origin[1] / s_x)`. -/
def centralScaled (h w : Nat) (sy sx oy ox : α) : α × α :=
  ((((h - 1 : Nat) : α)) / 2 + oy / sy, (((w - 1 : Nat) : α)) / 2 - ox / sx)

/-- grid_2d_util.grid_2d_slim_via_mask_from: the (y,x) centre of every unmasked pixel, row-major:
    `(-(y - c_y) * s_y, (x - c_x) * s_x)`. -/
def gridSlimViaMask (m : Mask) (sy sx oy ox : α) : List (α × α) :=
  let c := centralScaled m.h m.w sy sx oy ox
  forYX m.h m.w
    (fun acc y x =>
      if !m.get y x then acc ++ [((-((y : α) - c.1)) * sy, ((x : α) - c.2) * sx)] else acc) []

/-- Grid2D.in_radians: `(grid * np.pi) / 648000.0`. -/
def inRadians (pi : α) (g : List (α × α)) : List (α × α) :=
  g.map fun p => ((p.1 * pi) / ((648000 : Nat) : α), (p.2 * pi) / ((648000 : Nat) : α))

/-- TransformerDFT.__init__: `self.grid = real_space_mask.derive_grid.unmasked.in_radians`. -/
def transformerGrid (pi : α) (m : Mask) (sy sx oy ox : α) : List (α × α) :=
  inRadians pi (gridSlimViaMask m sy sx oy ox)

end grid

section dft
variable [Add α] [Sub α] [Mul α] [Neg α] [OfNat α 0] [OfNat α 2]

/-- the argument of every forward cos/sin:
    `-2.0 * np.pi * (grid[p, 1] * uv[k, 0] + grid[p, 0] * uv[k, 1])`. -/
def phase (pi : α) (g uv : α × α) : α := (-(2 : α)) * pi * (g.2 * uv.1 + g.1 * uv.2)

/-- the argument of the cos/sin of the adjoint: `2.0 * np.pi * (…)`. -/
def phasePos (pi : α) (g uv : α × α) : α := (2 : α) * pi * (g.2 * uv.1 + g.1 * uv.2)

/-- `grid_radians[p]` / `uv_wavelengths[k]` read with a default (never reached in range). -/
def at2 (l : List (α × α)) (i : Nat) : α × α := l.getD i (0, 0)

/-- transformer_util.preload_real_transforms: zeros, then `t[p, k] += cos(phase)` in the p,k nest. -/
def preloadReal (cos : α → α) (pi : α) (grid uv : List (α × α)) : Arr2 α :=
  forYX grid.length uv.length
    (fun t p k => pointSet2 t p k (t.get p k + cos (phase pi (at2 grid p) (at2 uv k))))
    (Arr2.full grid.length uv.length 0)

/-- transformer_util.preload_imag_transforms -/
def preloadImag (sin : α → α) (pi : α) (grid uv : List (α × α)) : Arr2 α :=
  forYX grid.length uv.length
    (fun t p k => pointSet2 t p k (t.get p k + sin (phase pi (at2 grid p) (at2 uv k))))
    (Arr2.full grid.length uv.length 0)

/-- transformer_util.visibilities_via_preload_jit_from (`nVis = preloaded_reals.shape[1]`). -/
def visibilitiesViaPreload (image : List α) (nVis : Nat) (reals imags : Arr2 α) : Arr (Cx α) :=
  forYX image.length nVis
    (fun vis p k =>
      pointSet vis k
        (Cx.add (vis.get k) ⟨image.getD p 0 * reals.get p k, image.getD p 0 * imags.get p k⟩))
    (Arr.full nVis ⟨0, 0⟩)

/-- transformer_util.visibilities_jit -/
def visibilitiesJit (cos sin : α → α) (pi : α) (image : List α) (grid uv : List (α × α)) :
    Arr (Cx α) :=
  forYX image.length uv.length
    (fun vis p k =>
      pointSet vis k (Cx.add (vis.get k)
        ⟨image.getD p 0 * cos (phase pi (at2 grid p) (at2 uv k)),
         image.getD p 0 * sin (phase pi (at2 grid p) (at2 uv k))⟩))
    (Arr.full uv.length ⟨0, 0⟩)

/-- transformer_util.image_via_jit_from: for every pixel p and visibility k
    `img[p] += V[k,0] * cos(+phase); img[p] -= V[k,1] * sin(+phase)`. -/
def imageViaJit (cos sin : α → α) (pi : α) (nPixels : Nat) (grid uv : List (α × α))
    (vis : List (Cx α)) : Arr α :=
  forYX nPixels uv.length
    (fun img p k =>
      let v := vis.getD k ⟨0, 0⟩
      let img1 := pointSet img p (img.get p + v.re * cos (phasePos pi (at2 grid p) (at2 uv k)))
      pointSet img1 p (img1.get p - v.im * sin (phasePos pi (at2 grid p) (at2 uv k))))
    (Arr.full nPixels 0)

/-- entry `[p, c]` of a mapping matrix given as a list of rows. -/
def matAt (M : List (List α)) (p c : Nat) : α := (M.getD p []).getD c 0

/-- transformer_util.transformed_mapping_matrix_via_preload_jit_from.  `keep value` is the code's
    sparsity test on the entry (`value != 0` after the D11 repair, `value > 0` before);
    `nRows × nCols` is `mapping_matrix.shape`. -/
def transformedMappingMatrixViaPreload (keep : α → Bool) (M : List (List α)) (nRows nCols nVis : Nat)
    (reals imags : Arr2 α) : Arr2 (Cx α) :=
  (List.range nCols).foldl
    (fun T c =>
      (List.range nRows).foldl
        (fun T p =>
          let value := matAt M p c
          if keep value then
            (List.range nVis).foldl
              (fun T k =>
                pointSet2 T k c (Cx.add (T.get k c) ⟨value * reals.get p k, value * imags.get p k⟩)) T
          else T) T)
    (Arr2.full nVis nCols ⟨0, 0⟩)

/-- transformer_util.transformed_mapping_matrix_jit -/
def transformedMappingMatrixJit (keep : α → Bool) (cos sin : α → α) (pi : α) (M : List (List α))
    (nRows nCols : Nat) (grid uv : List (α × α)) : Arr2 (Cx α) :=
  (List.range nCols).foldl
    (fun T c =>
      (List.range nRows).foldl
        (fun T p =>
          let value := matAt M p c
          if keep value then
            (List.range uv.length).foldl
              (fun T k => pointSet2 T k c (Cx.add (T.get k c)
                ⟨value * cos (phase pi (at2 grid p) (at2 uv k)),
                 value * sin (phase pi (at2 grid p) (at2 uv k))⟩)) T
          else T) T)
    (Arr2.full uv.length nCols ⟨0, 0⟩)

end dft

/-- the repaired sparsity test `value != 0`. -/
def keepNonzero [BEq α] [OfNat α 0] (v : α) : Bool := v != 0

/-- the sparsity test before the D11 repair, `value > 0`. -/
def keepPositive [LT α] [DecidableLT α] [OfNat α 0] (v : α) : Bool := decide ((0 : α) < v)

/-! ### TransformerDFT methods -/
section transformer
variable [Add α] [Sub α] [Mul α] [Neg α] [OfNat α 0] [OfNat α 2]

/-- TransformerDFT.visibilities_from (image slim-stored); `preload` = `preload_transform`. -/
def visibilitiesFrom (cos sin : α → α) (pi : α) (preload : Bool) (image : List α)
    (grid uv : List (α × α)) : List (Cx α) :=
  if preload then
    (visibilitiesViaPreload image uv.length (preloadReal cos pi grid uv)
      (preloadImag sin pi grid uv)).toList
  else (visibilitiesJit cos sin pi image grid uv).toList

/-- TransformerDFT.image_from: the slim image (then scattered to native by C01's `nativeFrom`). -/
def imageFrom (cos sin : α → α) (pi : α) (grid uv : List (α × α)) (vis : List (Cx α)) : List α :=
  (imageViaJit cos sin pi grid.length grid uv vis).toList

/-- TransformerDFT.transform_mapping_matrix (`nCols = mapping_matrix.shape[1]`). -/
def transformMappingMatrix (keep : α → Bool) (cos sin : α → α) (pi : α) (preload : Bool)
    (M : List (List α)) (nCols : Nat) (grid uv : List (α × α)) : List (List (Cx α)) :=
  if preload then
    (transformedMappingMatrixViaPreload keep M M.length nCols uv.length
      (preloadReal cos pi grid uv) (preloadImag sin pi grid uv)).toLists
  else (transformedMappingMatrixJit keep cos sin pi M M.length nCols grid uv).toLists

end transformer

/-! ### interferometer normal equations (mapping formalism) -/
section normal
variable [Add α] [Mul α] [Div α] [OfNat α 0]

/-- entry `[k, c]` of a transformed mapping matrix given as a list of rows. -/
def cxAt (T : List (List (Cx α))) (k c : Nat) : Cx α := (T.getD k []).getD c ⟨0, 0⟩

/-- `np.hstack` of matrices with equally many rows (`nRows`). -/
def hstack {β : Type} (nRows : Nat) (Ms : List (List (List β))) : List (List β) :=
  (List.range nRows).map fun k => Ms.flatMap fun M => M.getD k []

/-- inversion_interferometer_util.data_vector_via_transformed_mapping_matrix_from:
    `D[c] += V_re[k] * T_re[k,c] / σ_re[k]**2 + V_im[k] * T_im[k,c] / σ_im[k]**2` in the k,c nest. -/
def dataVector (T : List (List (Cx α))) (nVis nCols : Nat) (vis noise : List (Cx α)) : Arr α :=
  forYX nVis nCols
    (fun D k c =>
      let v := vis.getD k ⟨0, 0⟩
      let n := noise.getD k ⟨0, 0⟩
      let t := cxAt T k c
      pointSet D c (D.get c + (v.re * t.re / (n.re * n.re) + v.im * t.im / (n.im * n.im))))
    (Arr.full nCols 0)

/-- inversion_util.curvature_matrix_via_mapping_matrix_from:
    `array = M / noise[:, None]; np.dot(array.T, array)` — entry `[i, j]`. -/
def gram (M : Nat → Nat → α) (noise : Nat → α) (nVis : Nat) (i j : Nat) : α :=
  ((List.range nVis).map fun k => (M k i / noise k) * (M k j / noise k)).foldl (· + ·) 0

/-- InversionInterferometerMapping.curvature_matrix: real Gram + imaginary Gram, then
    `curvature_matrix[i, i] += value` for every index of an object without regularization. -/
def curvatureMatrix (T : List (List (Cx α))) (nVis nCols : Nat) (noise : List (Cx α))
    (noRegIdx : List Nat) (diagValue : α) : Arr2 α :=
  let re := gram (fun k c => (cxAt T k c).re) (fun k => (noise.getD k ⟨0, 0⟩).re) nVis
  let im := gram (fun k c => (cxAt T k c).im) (fun k => (noise.getD k ⟨0, 0⟩).im) nVis
  noRegIdx.foldl (fun F i => pointSet2 F i i (F.get i i + diagValue)) ⟨nCols, nCols, fun i j => re i j + im i j⟩

end normal

end DFT
end Impl
end Model
