/-
Model/DFTRecon.lean — the reconstructed visibilities of the interferometer mapping formalism
(property C13, loop-tie sweep A).

Python source transliterated here:
  autoarray/inversion/inversion/interferometer/inversion_interferometer_util.py
      mapped_reconstructed_visibilities_from

It is the complex matrix–vector product `V = T · r` of the transformed mapping matrix `T`
(`nVis × nCols`, complex) with the real reconstruction `r`, accumulated from `0 + 0j` left to right.
-/
import Model.DFT

namespace Model

namespace Impl
namespace DFT
variable {α : Type} [Add α] [Mul α] [OfNat α 0]

/-- `mapped_reconstructed_visibilities_from`: `V = (0.0 + 0j) * np.zeros(nVis)`, then in the `i, j` nest
    `V[i] += r[j] * T_re[i, j] + 1j * (r[j] * T_im[i, j])` (`j` runs over `reconstruction.shape[0]`). -/
def mappedReconVis (T : List (List (Cx α))) (nVis : Nat) (recon : List α) : Arr (Cx α) :=
  forYX nVis recon.length
    (fun V i j =>
      pointSet V i (Cx.add (V.get i)
        ⟨recon.getD j 0 * (cxAt T i j).re, recon.getD j 0 * (cxAt T i j).im⟩))
    (Arr.full nVis ⟨0, 0⟩)

end DFT
end Impl

namespace Spec
namespace DFTRecon
open Impl.DFT
variable {α : Type} [Add α] [Mul α] [OfNat α 0]

/-- row `i` of the complex matrix–vector product: `Σ_j r_j · T[i, j]`, real and imaginary part, summed
    from `0` in the order `j = 0, 1, …` (the order the code uses, so no algebraic law is needed). -/
def row (T : List (List (Cx α))) (recon : List α) (i : Nat) : Cx α :=
  ⟨((List.range recon.length).map fun j => recon.getD j 0 * (cxAt T i j).re).foldl (· + ·) 0,
   ((List.range recon.length).map fun j => recon.getD j 0 * (cxAt T i j).im).foldl (· + ·) 0⟩

/-- the reconstructed visibilities: one row product per visibility. -/
def mappedReconVis (T : List (List (Cx α))) (nVis : Nat) (recon : List α) : List (Cx α) :=
  (List.range nVis).map (row T recon)

end DFTRecon
end Spec

end Model
