/-
Model/Decorators.lean — the structure decorators (property C17).

Python sources transliterated here (tree with repair D14 applied):
  autoarray/structures/decorators/abstract.py        AbstractMaker.evaluate_func, .result
  autoarray/structures/decorators/to_array.py        ArrayMaker.via_grid_2d / via_grid_2d_irr / via_grid_1d
  autoarray/structures/decorators/to_grid.py         GridMaker.*
  autoarray/structures/decorators/to_vector_yx.py    VectorYXMaker.*
  autoarray/structures/decorators/project_grid.py    project_grid
  autoarray/structures/decorators/relocate_radial.py relocate_to_radial_minimum
  autoarray/structures/decorators/transform.py       transform
  autoarray/structures/grids/uniform_1d.py           Grid1D.grid_2d_radial_projected_from
  autoarray/structures/grids/uniform_2d.py           Grid2D.grid_2d_radial_projected_from
  autoarray/structures/grids/grid_2d_util.py         grid_scaled_2d_slim_radial_projected_from
  autoarray/geometry/geometry_util.py                transform_grid_2d_to_reference_frame / _from_reference_frame
  autoarray/mask/derive/mask_1d.py                   to_mask_2d

The user function is a parameter `f` (the theorems quantify over every `f`); a grid is handed to it as
the list of its (y,x) coordinates in slim order.  libm functions are the parameters collected in
`Trig`.  Containers are built with the constructors of Model/Slim.lean (`convertArray2d`), i.e. the
same code path `Array2D(values=…, mask=…)` takes.
-/
import Model.Slim

namespace Model
namespace Dec

/-- which decorator: `to_array`, `to_grid`, `to_vector_yx` -/
inductive Kind where
  | array | grid | vector
deriving Repr, DecidableEq

/-- the grid-like input: its kind and its coordinates in slim order -/
inductive Grid (α : Type) where
  /-- `Grid2D` on mask `m` (slim (y,x) coordinates of the unmasked pixels) -/
  | uniform (m : Mask) (pts : List (α × α))
  /-- `Grid2DIrregular` -/
  | irregular (pts : List (α × α))
  /-- `Grid1D` on a 1-D mask (slim x coordinates of the unmasked pixels) -/
  | oned (mask : List Bool) (xs : List α)
deriving Repr

/-- what the user function returns: one ndarray, or a Python list of ndarrays -/
inductive Res (β : Type) where
  | one (v : β)
  | many (vs : List β)
deriving Repr, DecidableEq

/-- the returned container(s) -/
inductive Container (β : Type) where
  /-- `Array2D` / `Grid2D` / `VectorYX2D` on mask `m` -/
  | uniform (kind : Kind) (m : Mask) (st : Impl.Stored β)
  /-- `ArrayIrregular` / `Grid2DIrregular` / `VectorYX2DIrregular` -/
  | irregular (kind : Kind) (v : List β)
  /-- `Array1D` on the 1-D mask (slim storage) -/
  | oned (mask : List Bool) (v : List β)
deriving Repr, DecidableEq

/-- number of unmasked entries of a 1-D mask (`mask.pixels_in_mask`) -/
def unmasked1d (mask : List Bool) : Nat := (mask.filter (!·)).length

/-- `DeriveMask1D.to_mask_2d`: `Mask2D([mask])`, a 1×n frame -/
def toMask2d (mask : List Bool) : Mask := ⟨1, mask.length, mask⟩

/-- one `via_grid_*` call on one ndarray `v` (`none` = the constructor raises, or
    `NotImplementedError` for `to_vector_yx` on a `Grid1D`):
      Grid2D          → `Array2D / Grid2D / VectorYX2D (values=v, mask=grid.mask)`
      Grid2DIrregular → `ArrayIrregular / Grid2DIrregular / VectorYX2DIrregular (values=v)`
      Grid1D          → `Array1D(values=v, mask=grid.mask)`;  `to_grid`: `Grid2D(values=v, mask=to_mask_2d)` -/
def wrapOne (kind : Kind) (g : Grid α) (v : List β) (zero : β) : Option (Container β) :=
  match g with
  | .uniform m _ => (Impl.convertArray2d m (.slim v) false false zero).map (.uniform kind m)
  | .irregular _ => some (.irregular kind v)
  | .oned mask _ =>
    match kind with
    | .array => if v.length = unmasked1d mask then some (.oned mask v) else none
    | .grid =>
      (Impl.convertArray2d (toMask2d mask) (.slim v) false false zero).map
        (.uniform .grid (toMask2d mask))
    | .vector => none

/-- `AbstractMaker.evaluate_func`: a `Grid1D` is first projected to 2-D (`proj`), every other grid is
    handed over as it is -/
def evaluateFunc (f : List (α × α) → Res (List β)) (proj : List α → List (α × α)) : Grid α → Res (List β)
  | .oned _ xs => f (proj xs)
  | .uniform _ pts => f pts
  | .irregular pts => f pts

/-- `AbstractMaker.result`: evaluate, then wrap the result — element by element if it is a list -/
def result (kind : Kind) (f : List (α × α) → Res (List β)) (proj : List α → List (α × α)) (g : Grid α)
    (zero : β) : Option (Res (Container β)) :=
  match kind, g with
  | .vector, .oned _ _ => none   -- `VectorYXMaker` has no `via_grid_1d`: NotImplementedError, whatever f returned
  | _, _ =>
    match evaluateFunc f proj g with
    | .one v => (wrapOne kind g v zero).map .one
    | .many vs => (vs.mapM fun v => wrapOne kind g v zero).map .many

/-! ## radial projection -/

/-- the libm / numpy functions the projection code calls -/
structure Trig (α : Type) where
  sqrt : α → α
  arctan2 : α → α → α
  sin : α → α
  cos : α → α
  radians : α → α

variable [Add α] [Sub α] [Mul α] [Div α] [Neg α] [OfNat α 0] [OfNat α 1] [LT α] [DecidableLT α]

/-- `transform_grid_2d_to_reference_frame(grid, centre, angle)` -/
def toReferenceFrame (T : Trig α) (centre : α × α) (angle : α) (pts : List (α × α)) : List (α × α) :=
  pts.map fun p =>
    let sy := p.1 - centre.1
    let sx := p.2 - centre.2
    let radius := T.sqrt (sy * sy + sx * sx)
    let theta := T.arctan2 sy sx - T.radians angle
    (radius * T.sin theta, radius * T.cos theta)

/-- `transform_grid_2d_from_reference_frame(grid, centre, angle)` -/
def fromReferenceFrame (T : Trig α) (centre : α × α) (angle : α) (pts : List (α × α)) : List (α × α) :=
  let c := T.cos (T.radians angle)
  let s := T.sin (T.radians angle)
  pts.map fun p => (p.2 * s + p.1 * c + centre.1, p.2 * c - p.1 * s + centre.2)

/-- `Grid1D.grid_2d_radial_projected_from(angle)`: `(0, x)` for every slim x, rotated -/
def grid1dProjected (T : Trig α) (angle : α) (xs : List α) : List (α × α) :=
  toReferenceFrame T (0, 0) angle (xs.map fun x => (0, x))

/-- maximum of the four distances as Python's `max([...])` computes it (first maximal element) -/
def max4 (a b c d : α) : α :=
  let m := if a < b then b else a
  let m := if m < c then c else m
  if m < d then d else m

/-- `grid_scaled_2d_slim_radial_projected_from`, first part: the longest of the four axis distances
    from the centre to the edge of `extent = (x_min, x_max, y_min, y_max)` -/
def radialDist (extent : α × α × α × α) (centre : α × α) : α :=
  let (xmin, xmax, ymin, ymax) := extent
  max4 (xmax - centre.2) (ymax - centre.1) (centre.2 - xmin) (centre.1 - ymin)

/-- … second part: the pixel scale of the axis that distance lies along (y wins ties, as the `or`) -/
def radialStep [BEq α] (extent : α × α × α × α) (centre : α × α) (scales : α × α) : α :=
  let (_, _, ymin, ymax) := extent
  let dist := radialDist extent centre
  if dist == ymax - centre.1 || dist == centre.1 - ymin then scales.1 else scales.2

/-- … third part: `shape_slim = int(scaled_distance / pixel_scale) + 1` (`trunc` = Python's `int()`) -/
def radialCount [BEq α] (trunc : α → Nat) (extent : α × α × α × α) (centre : α × α) (scales : α × α) :
    Nat :=
  trunc (radialDist extent centre / radialStep extent centre scales) + 1

/-- … the loop: `(centre_y, radii)` with `radii` starting at `centre_x` and `radii += pixel_scale` -/
def radialLine [BEq α] (trunc : α → Nat) (extent : α × α × α × α) (centre : α × α)
    (scales : α × α) : List (α × α) :=
  let ps := radialStep extent centre scales
  ((List.range (radialCount trunc extent centre scales)).foldl
    (fun (acc : List (α × α) × α) _ => (acc.1 ++ [(centre.1, acc.2)], acc.2 + ps))
    ([], centre.2)).1

/-- `Grid2D.grid_2d_radial_projected_from(centre, angle)` (config `remove_projected_centre: false`) -/
def grid2dProjected [BEq α] (T : Trig α) (trunc : α → Nat) (extent : α × α × α × α)
    (centre : α × α) (scales : α × α) (angle : α) : List (α × α) :=
  fromReferenceFrame T centre 0 (toReferenceFrame T centre angle (radialLine trunc extent centre scales))

/-- the grid `project_grid` hands to the function.  `centre` / `angle` are the attributes of the
    profile object (`(0,0)` / `0` when absent); `ninety` is the literal `90.0`. -/
def projectGridInput [BEq α] (T : Trig α) (trunc : α → Nat) (ninety : α)
    (extent : α × α × α × α) (scales : α × α) (centre : α × α) (angle : α) :
    Grid α → List (α × α)
  | .uniform _ _ => grid2dProjected T trunc extent centre scales (angle + ninety)
  | .irregular pts => pts
  | .oned _ xs => grid1dProjected T (angle + ninety) xs

/-! ## radial minimum -/

/-- one coordinate of `relocate_to_radial_minimum` (after repair D14); `r` is the radius the profile's
    `radial_grid_from` reports for `p`:
      scale = where(r < r_min, r_min / r, 1.0);  moved = p * scale
      moved[isnan(moved)] = r_min * sqrt(0.5)     -- only r = 0 produces nan (0 * inf)            -/
def relocatePoint (sqrt : α → α) (half : α) (rmin : α) (p : α × α) (r : α) : α × α :=
  if r < rmin then
    if 0 < r then (p.1 * (rmin / r), p.2 * (rmin / r))
    else (rmin * sqrt half, rmin * sqrt half)
  else (p.1 * 1, p.2 * 1)

/-- the grid handed to the function by `relocate_to_radial_minimum`; `radii` = `obj.radial_grid_from` -/
def relocate (sqrt : α → α) (half : α) (rmin : α) (radii : List (α × α) → List α) (pts : List (α × α)) :
    List (α × α) :=
  (pts.zip (radii pts)).map fun pr => relocatePoint sqrt half rmin pr.1 pr.2

/-- the radius function of a profile-style object in its own frame: `sqrt(y² + x²)` -/
def radiiOf (sqrt : α → α) (pts : List (α × α)) : List α :=
  pts.map fun p => sqrt (p.1 * p.1 + p.2 * p.2)

omit [Add α] [Sub α] [Mul α] [Div α] [Neg α] [OfNat α 0] [OfNat α 1] [LT α] [DecidableLT α] in
/-- `transform`: the decorated function receives the keyword `is_transformed`; when it is not set the
    grid is transformed by the object's `transformed_to_reference_frame_grid_from` (`tr`) and the
    function is called with `is_transformed=True`, otherwise the grid passes through. -/
def transform (tr : γ → γ) (f : Bool → γ → δ) (isTransformed : Bool) (grid : γ) : δ :=
  if !isTransformed then f true (tr grid) else f isTransformed grid

end Dec
end Model
