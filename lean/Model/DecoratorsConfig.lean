/-
Model/DecoratorsConfig.lean — the configuration value read by the radial projection of a `Grid2D`
(property C17, round 5/6 hardening: configuration histories).

Python source transliterated here:
  autoarray/structures/grids/uniform_2d.py   Grid2D.grid_2d_radial_projected_from, last part:

      if remove_projected_centre is None:
          remove_projected_centre = conf.instance["general"]["grid"]["remove_projected_centre"]
      if remove_projected_centre:
          grid_radial_projected_2d = grid_radial_projected_2d[1:, :]

`explicit` is the keyword argument (`none` = not given / `None`), `config` the configuration value in
force AT CALL TIME.  `project_grid` never passes the keyword, so the decorator follows the
configuration; a `Grid1D` / `Grid2DIrregular` input never reads it.
-/
import Model.Decorators

namespace Model
namespace Dec

/-- `grid[1:, :]` when the flag is set -/
def dropCentre (remove : Bool) (l : List β) : List β :=
  if remove then l.drop 1 else l

/-- the flag in force: the explicit argument when given, else the configuration value -/
def removeFlag (explicit : Option Bool) (config : Bool) : Bool :=
  match explicit with
  | some b => b
  | none => config

variable [Add α] [Sub α] [Mul α] [Div α] [Neg α] [OfNat α 0] [OfNat α 1] [LT α] [DecidableLT α]

/-- `Grid2D.grid_2d_radial_projected_from(centre, angle, remove_projected_centre=explicit)` -/
def grid2dProjectedCfg [BEq α] (T : Trig α) (trunc : α → Nat) (extent : α × α × α × α)
    (centre : α × α) (scales : α × α) (angle : α) (explicit : Option Bool) (config : Bool) :
    List (α × α) :=
  dropCentre (removeFlag explicit config) (grid2dProjected T trunc extent centre scales angle)

/-- the grid `project_grid` hands to the function under the configuration value `config` -/
def projectGridInputCfg [BEq α] (T : Trig α) (trunc : α → Nat) (ninety : α)
    (extent : α × α × α × α) (scales : α × α) (centre : α × α) (angle : α) (config : Bool) :
    Grid α → List (α × α)
  | .uniform _ _ => grid2dProjectedCfg T trunc extent centre scales (angle + ninety) none config
  | .irregular pts => pts
  | .oned _ xs => grid1dProjected T (angle + ninety) xs

end Dec
end Model
