/-
Model/EntryPoints.lean — property C12: the public coordinate-producing and index-producing entry
points, as compositions of the geometry model with the origin plumbed exactly as the code plumbs it.

Every geometric object of PyAutoArray (mask, array, grid, dataset member) carries a *geometry record*
`(shape_native, pixel_scales, origin)`; an entry point either (i) derives a new record from the old
one (padding, zooming, resizing, dataset operations …) or (ii) evaluates a coordinate / index formula
on a record.  The Python sources transliterated here:

  structures/grids/uniform_2d.py      Grid2D.from_mask, padded_grid_from, blurring_grid_from
  mask/derive/grid_2d.py              all_false / unmasked / edge / border grids (gathers of the mask grid)
  mask/mask_2d.py                     mask_centre, zoom_centre, zoom_offset_pixels, zoom_offset_scaled,
                                      zoom_mask_unmasked, resized_from
  structures/grids/grid_2d_util.py    grid_2d_centre_from
  structures/arrays/uniform_2d.py     zoomed_around_mask
  operators/over_sampling/over_sample_util.py   grid_2d_slim_over_sampled_via_mask_from (uniform sub size)
  structures/mesh/rectangular_2d.py   Mesh2DRectangular.overlay_grid (mesh geometry from grid extremes)
  dataset/imaging/dataset.py, simulator.py, preprocess.py   (record plumbing of the returned arrays)
  geometry/geometry_2d.py             extent, pixel_coordinates_2d_from, grid_pixel_*_2d_from
-/
import Model.Core
import Model.Geometry

namespace Model

section
variable {α : Type} [Add α] [Sub α] [Mul α] [Div α] [Neg α] [NatCast α]

/-- the geometry record carried by every mask / structure -/
structure Geom (α : Type) where
  shape : Nat × Nat
  s : α × α
  o : α × α

/-- translate the coordinate origin of a record by `d` -/
def Geom.shift (g : Geom α) (d : α × α) : Geom α := { g with o := (g.o.1 + d.1, g.o.2 + d.2) }

/-- translate a coordinate -/
def shiftPt (d : α × α) (p : α × α) : α × α := (p.1 + d.1, p.2 + d.2)

namespace Impl

/-! ### coordinate grids -/

/-- `Grid2D.from_mask(mask)` : pixel centres of the unmasked pixels -/
def gridFromMask (g : Geom α) (bits : List Bool) : List (α × α) :=
  grid2dSlimViaMask ⟨g.shape.1, g.shape.2, bits⟩ g.s g.o

/-- `mask.derive_grid.all_false` : pixel centres of every pixel of the frame -/
def gridAllFalse (g : Geom α) : List (α × α) := grid2dSlimViaShape g.shape g.s g.o

/-- edge / border / sub-border grids: `grid[indexes]` with an index list that depends on the mask only -/
def gather (grid : List (α × α)) (idx : List Nat) : List (α × α) :=
  idx.map fun k => grid.getD k (((0 : Nat) : α), ((0 : Nat) : α))

/-- `Grid2D.padded_grid_from(kernel_shape)`: all-false mask of the padded shape, same scales, and
    (after repair D10a) the origin of the grid's mask. -/
def paddedGeom (g : Geom α) (k : Nat × Nat) : Geom α :=
  { g with shape := (g.shape.1 + k.1 - 1, g.shape.2 + k.2 - 1) }

def paddedGrid (g : Geom α) (k : Nat × Nat) : List (α × α) := gridAllFalse (paddedGeom g k)

/-- `Mask2D.resized_from(new_shape)` keeps pixel scales and origin -/
def resizedGeom (g : Geom α) (newShape : Nat × Nat) : Geom α := { g with shape := newShape }

/-- one sub-pixel centre of `grid_2d_slim_over_sampled_via_mask_from` for pixel `(y,x)`, sub-index
    `(y1,x1)`, sub size `sub` -/
def subPixelCentre (g : Geom α) (sub : Nat) (p : Nat × Nat) (q : Nat × Nat) : α × α :=
  let c : α × α := centralScaled2 g.shape g.s g.o
  let two : α := ((2 : Nat) : α)
  let ys : α := ((p.1 : α) - c.1) * g.s.1
  let xs : α := ((p.2 : α) - c.2) * g.s.2
  let ystep : α := g.s.1 / (sub : α)
  let xstep : α := g.s.2 / (sub : α)
  (-(ys - g.s.1 / two + (q.1 : α) * ystep + ystep / two),
   xs - g.s.2 / two + (q.2 : α) * xstep + xstep / two)

/-- `OverSamplerUniform(mask, sub).over_sampled_grid` (uniform sub size): slim pixel, then y1, then x1 -/
def overSampledGrid (g : Geom α) (bits : List Bool) (sub : Nat) : List (α × α) :=
  let m : Mask := ⟨g.shape.1, g.shape.2, bits⟩
  forYX m.h m.w
    (fun acc y x =>
      if !m.get y x then
        acc ++ (pixels sub sub).map (fun q => subPixelCentre g sub (y, x) q)
      else acc) []

/-! ### scalars derived from grids -/

variable [Max α] [Min α]

/-- `np.max` / `np.min` of a non-empty column (the code raises on an empty grid; `none` here) -/
def colMax : List α → Option α
  | [] => none
  | a :: l => some (l.foldl max a)

def colMin : List α → Option α
  | [] => none
  | a :: l => some (l.foldl min a)

/-- `grid_2d_centre_from`: `((max y + min y)/2, (max x + min x)/2)` -/
def gridCentre (grid : List (α × α)) : Option (α × α) :=
  match colMax (grid.map (·.1)), colMin (grid.map (·.1)),
        colMax (grid.map (·.2)), colMin (grid.map (·.2)) with
  | some yM, some ym, some xM, some xm =>
    some ((yM + ym) / ((2 : Nat) : α), (xM + xm) / ((2 : Nat) : α))
  | _, _, _, _ => none

/-- `Mask2D.mask_centre` -/
def maskCentre (g : Geom α) (bits : List Bool) : Option (α × α) := gridCentre (gridFromMask g bits)

/-- `Mask2D.zoom_centre`: the mask's own grid converted to continuous pixel coordinates, then
    `((max + min - 1)/2)` per axis -/
def zoomCentre (g : Geom α) (bits : List Bool) : Option (α × α) :=
  let pix := (gridFromMask g bits).map (pixelsOfScaled g.shape g.s g.o)
  match colMax (pix.map (·.1)), colMin (pix.map (·.1)),
        colMax (pix.map (·.2)), colMin (pix.map (·.2)) with
  | some yM, some ym, some xM, some xm =>
    some ((yM + ym - ((1 : Nat) : α)) / ((2 : Nat) : α), (xM + xm - ((1 : Nat) : α)) / ((2 : Nat) : α))
  | _, _, _, _ => none

/-- `Mask2D.zoom_offset_scaled` = `(-s_y · (zc_y - c_y), s_x · (zc_x - c_x))`, `c` the central pixel -/
def zoomOffsetScaled (g : Geom α) (bits : List Bool) : Option (α × α) :=
  match zoomCentre g bits with
  | some zc =>
    let c : α × α := centralPixel2 g.shape
    some (-(g.s.1) * (zc.1 - c.1), g.s.2 * (zc.2 - c.2))
  | none => none

/-- `Mask2D.zoom_mask_unmasked` (after repair D10b): all-false mask of the zoom shape whose origin is
    the mask origin plus the zoom offset.  The zoom shape is integer arithmetic on the mask only and is
    supplied by the caller. -/
def zoomMaskGeom (g : Geom α) (bits : List Bool) (zoomShape : Nat × Nat) : Option (Geom α) :=
  match zoomOffsetScaled g bits with
  | some off => some { shape := zoomShape, s := g.s, o := (g.o.1 + off.1, g.o.2 + off.2) }
  | none => none

/-- `Array2D.zoomed_around_mask(buffer)`: all-false mask of the extracted shape, origin = mask centre -/
def zoomedAroundMaskGeom (g : Geom α) (bits : List Bool) (extractedShape : Nat × Nat) : Option (Geom α) :=
  match maskCentre g bits with
  | some c => some { shape := extractedShape, s := g.s, o := c }
  | none => none

/-- `Mesh2DRectangular.overlay_grid(grid, shape_native, buffer)`: mesh record from the extremes of a
    (source-plane) grid -/
def overlayMeshGeom (grid : List (α × α)) (meshShape : Nat × Nat) (buffer : α) : Option (Geom α) :=
  match colMax (grid.map (·.1)), colMin (grid.map (·.1)),
        colMax (grid.map (·.2)), colMin (grid.map (·.2)) with
  | some yM, some ym, some xM, some xm =>
    let yMax := yM + buffer; let yMin := ym - buffer
    let xMax := xM + buffer; let xMin := xm - buffer
    some { shape := meshShape,
           s := ((yMax - yMin) / (meshShape.1 : α), (xMax - xMin) / (meshShape.2 : α)),
           o := ((yMax + yMin) / ((2 : Nat) : α), (xMax + xMin) / ((2 : Nat) : α)) }
  | _, _, _, _ => none

/-- rectangular-mapper table: flattened mesh cell of every source-plane point -/
def rectangularPixIndexes (trunc : α → Int) (mesh : Geom α) (grid : List (α × α)) : List Int :=
  grid.map fun p =>
    let c := pixelCentreOfScaled trunc mesh.shape mesh.s mesh.o p
    c.1 * (mesh.shape.2 : Int) + c.2

/-! ### radial projection (`Grid2D.grid_2d_radial_projected_from`) -/

/-- `grid_scaled_2d_slim_radial_projected_from` followed by the two reference-frame transforms:
    the un-rotated line `(c_y, c_x + k·ps)`, `k < n`, built with the running `radii += pixel_scale`,
    then `centre + rot (p − centre)`; `rot` is the rotation by the profile angle
    (`transform_grid_2d_to_reference_frame`, libm `sqrt/arctan2/sin/cos` → a parameter). -/
def radialProjected [DecidableEq α] (trunc : α → Int) (rot : α × α → α × α)
    (ext : α × α × α × α) (s c : α × α) (shapeSlim : Nat) : List (α × α) :=
  let dpx := ext.2.1 - c.2
  let dpy := ext.2.2.2 - c.1
  let dnx := c.2 - ext.1
  let dny := c.1 - ext.2.2.1
  let sd := max (max (max dpx dpy) dnx) dny
  let ps := if sd = dpy ∨ sd = dny then s.1 else s.2
  let n := if shapeSlim = 0 then (trunc (sd / ps)).toNat + 1 else shapeSlim
  let line := ((List.range n).foldl
    (fun (st : List (α × α) × α) _ => (st.1 ++ [(c.1, st.2)], st.2 + ps)) ([], c.2)).1
  line.map fun p =>
    let r := rot (p.1 - c.1, p.2 - c.2)
    (r.1 + c.1, r.2 + c.2)

/-! ### dataset operations: the record of the returned data / noise map
    (`Imaging.apply_mask` pads, the others keep the shape; all keep scales and — after repairs
    D10c, D10d, D10e — the origin) -/

def datasetKeepGeom (g : Geom α) : Geom α := g
def datasetTrimmedGeom (g : Geom α) (k : Nat × Nat) : Geom α :=
  { g with shape := (g.shape.1 - (k.1 - 1), g.shape.2 - (k.2 - 1)) }

end Impl
end

end Model
