/-
Model/EntryPoints2.lean — hand models (Impl transliteration + Spec) of three jit functions around the C12
entry points that had no counterpart in Model/EntryPoints.lean.  Mathlib-free.

  inversion/pixelization/image_mesh/overlay.py   mask_for_overlay_from
  structures/grids/grid_2d_util.py               grid_2d_slim_upscaled_from
  structures/grids/grid_2d_util.py               grid_pixels_in_mask_pixels_from

Refinement lemmas (Impl = Spec, all sizes): Proofs/EntryPoints2.lean.
Loop ties (Generated.LoopsEntry2.* = Impl.*): Proofs/TieEntry2.lean.
-/
import Model.Core
import Model.Geometry
import Model.EntryPoints

namespace Model

/-! ## Impl layer -/
namespace Impl

/-- one pass of the loop of `overlay.mask_for_overlay_from` (state: the entries written so far, the
    running `pixel_index`):
    ```
    mask_for_overlay[k] = pixel_index
    if not mask[y, x]:
        if pixel_index < total_pixels - 1:
            pixel_index += 1
    ```
    (`pixel_index < total_pixels - 1` over the integers is `pixel_index + 1 < total_pixels`) -/
def maskForOverlayStep (m : Mask) (total : Nat) (st : List Nat × Nat) (p : Nat × Nat) : List Nat × Nat :=
  (st.1 ++ [st.2],
   if !m.get p.1 p.2 then (if st.2 + 1 < total then st.2 + 1 else st.2) else st.2)

/-- `overlay.py : mask_for_overlay_from(mask, overlaid_centres, total_pixels)`: for every overlaid centre
    (a pixel `(y, x)` of the mask, the `.astype("int")` table) the index of the "next" centre that falls
    on an unmasked pixel, saturating at `total_pixels - 1`.  Writing entry `k` of `np.zeros(n)` in the
    `k`-th pass is an append (proved by the tie). -/
def maskForOverlay (m : Mask) (cs : List (Nat × Nat)) (total : Nat) : List Nat :=
  (cs.foldl (maskForOverlayStep m total) ([], 0)).1

section
variable {α : Type} [Add α] [Sub α] [Mul α] [Div α] [Neg α] [NatCast α]

/-- the coordinate written by `grid_2d_slim_upscaled_from` for grid point `p` and sub-cell `(y, x)`:
    ```
    y_grid + y_upscale_half - y * y_upscale_step - (y_upscale_step / 2.0)
    x_grid - x_upscale_half + x * x_upscale_step + (x_upscale_step / 2.0)
    ```
    with `half = pixel_scales / 2`, `step = pixel_scales / upscale_factor` -/
def upscaledPoint (f : Nat) (s : α × α) (p : α × α) (y x : Nat) : α × α :=
  let two : α := ((2 : Nat) : α)
  let yhalf : α := s.1 / two
  let ystep : α := s.1 / (f : α)
  let xhalf : α := s.2 / two
  let xstep : α := s.2 / (f : α)
  (p.1 + yhalf - (y : α) * ystep - ystep / two,
   p.2 - xhalf + (x : α) * xstep + xstep / two)

/-- `grid_2d_util.py : grid_2d_slim_upscaled_from(grid_slim, upscale_factor, pixel_scales)`: for every
    grid point, in order, the `f × f` sub-cell centres in row-major order (written at a running counter
    into `np.zeros((n * f**2, 2))`: an append — proved by the tie). -/
def gridUpscaled (grid : List (α × α)) (f : Nat) (s : α × α) : List (α × α) :=
  grid.foldl (fun acc p => forYX f f (fun acc y x => acc ++ [upscaledPoint f s p y x]) acc) []

/-- `mesh_pixels_per_image_pixel[y, x] += 1` on the flattened native array (`IndexError` — here: no
    change — when the pixel is outside the frame; the tie assumes all centres inside) -/
def bumpAt (one : α) (w : Nat) (a : List α) (c : Int × Int) : List α :=
  let k := c.1.toNat * w + c.2.toNat
  a.set k (a.getD k ((0 : Nat) : α) + one)

/-- `grid_2d_util.py : grid_pixels_in_mask_pixels_from(grid, shape_native, pixel_scales, origin)`:
    the pixel centres of the grid (`geometry_util.grid_pixel_centres_2d_slim_from(..).astype("int")` =
    `Impl.gridPixelCentres2`), then a scatter-count into `np.zeros(shape_native)` (flattened, row-major). -/
def pixelsInMaskPixels (trunc : α → Int) (g : Geom α) (grid : List (α × α)) : List α :=
  (gridPixelCentres2 trunc g.shape g.s g.o grid).foldl (bumpAt ((1 : Nat) : α) g.shape.2)
    (List.replicate (g.shape.1 * g.shape.2) ((0 : Nat) : α))

end
end Impl

/-! ## Spec layer -/
namespace Spec

/-- documented meaning of `mask_for_overlay`: entry `k` is the number of overlaid centres before `k` that
    fall on unmasked pixels, capped at `total_pixels - 1` (truncated subtraction: `0` when
    `total_pixels = 0`) -/
def maskForOverlay (m : Mask) (cs : List (Nat × Nat)) (total : Nat) : List Nat :=
  (List.range cs.length).map fun k =>
    min ((cs.take k).filter fun p => !m.get p.1 p.2).length (total - 1)

section
variable {α : Type} [Add α] [Sub α] [Mul α] [Div α] [Neg α] [NatCast α]

/-- the upscaled grid: every grid point replaced by its `f × f` block of sub-cell centres -/
def gridUpscaled (grid : List (α × α)) (f : Nat) (s : α × α) : List (α × α) :=
  grid.flatMap fun p => (pixels f f).map fun q => Impl.upscaledPoint f s p q.1 q.2

/-- `n` as a sum of ones (`0 + 1 + … + 1`, the value a float counter takes after `n` increments) -/
def countAs (one : α) : Nat → α
  | 0 => ((0 : Nat) : α)
  | n + 1 => countAs one n + one

/-- the number of grid points whose pixel centre is pixel `(y, x)`, for every pixel of the frame -/
def pixelsInMaskPixels (trunc : α → Int) (g : Geom α) (grid : List (α × α)) : List α :=
  (pixels g.shape.1 g.shape.2).map fun p =>
    countAs ((1 : Nat) : α)
      ((Impl.gridPixelCentres2 trunc g.shape g.s g.o grid).filter fun c =>
        c.1.toNat * g.shape.2 + c.2.toNat == p.1 * g.shape.2 + p.2).length

end
end Spec

end Model
