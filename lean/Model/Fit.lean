/-
Model/Fit.lean — fit statistics and evidence (property C08).

Python sources transliterated here:
  autoarray/fit/fit_util.py        residual_map_from, normalized_residual_map_from, chi_squared_map_from,
                                   chi_squared_from, noise_normalization_from, the `*_with_mask_from`
                                   twins, log_likelihood_from, log_likelihood_with_regularization_from,
                                   log_evidence_from, residual_flux_fraction_map(_with_mask)_from
  autoarray/fit/fit_dataset.py     AbstractFit / FitDataset properties (dispatch on `use_mask_in_fit`),
                                   signal_to_noise_map, reduced_chi_squared, log_evidence, figure_of_merit
  autoarray/fit/fit_imaging.py     FitImaging.data (background-sky offset of the dataset model)
  autoarray/inversion/inversion/abstract.py
                                   param_range_list_from, no_regularization_index_list, has / all_linear_obj_
                                   have_regularization, regularization_matrix(_reduced),
                                   curvature_reg_matrix(_reduced), reconstruction_reduced,
                                   regularization_term, log_det_curvature_reg_matrix_term,
                                   log_det_regularization_matrix_term

Numbers are a generic `α` with core operator classes only (runs on `Rat` and `Float`, reasoned about
over an ordered field).  `log`, `2π` and the log-determinant (numpy Cholesky / SuperLU) are parameters.
numpy library semantics that are *modelled, not verified*: boolean-mask indexing `a[mask == 0]`
(`selectUnmasked`), `np.delete` (`deleteIdx`), `scipy.linalg.block_diag` (`blockDiag`), `np.matmul`
(`dot`/`matVec`), `ufunc(..., out=zeros, where=mask==0)` (`maskedZipWith`).
-/
import Model.Core

namespace Model
namespace Impl
namespace Fit

variable {α : Type}

section arith
variable [Add α] [Sub α] [Mul α] [Div α] [Neg α] [OfNat α 0] [OfNat α 1] [OfNat α 2]

/-- `np.sum` of a 1-D float array (left-to-right accumulation from 0). -/
def sum (l : List α) : α := l.foldl (· + ·) 0

/-- fit_util.residual_map_from: `data - model_data` (numpy element-wise). -/
def residualMap (data model : List α) : List α := List.zipWith (· - ·) data model

/-- fit_util.normalized_residual_map_from: `residual_map / noise_map`. -/
def normalizedResidualMap (res noise : List α) : List α := List.zipWith (· / ·) res noise

/-- fit_util.chi_squared_map_from: `(residual_map / noise_map) ** 2.0`. -/
def chiSquaredMap (res noise : List α) : List α :=
  List.zipWith (fun r n => (r / n) * (r / n)) res noise

/-- fit_util.chi_squared_from: `float(np.sum(chi_squared_map))`. -/
def chiSquared (csm : List α) : α := sum csm

/-- fit_util.noise_normalization_from: `sum(log(2 * pi * noise_map ** 2.0))`. -/
def noiseNormalization (log : α → α) (twoPi : α) (noise : List α) : α :=
  sum (noise.map fun n => log (twoPi * (n * n)))

/-- `ufunc(a, b, out=np.zeros_like(a), where=np.asarray(mask) == 0)` on equally shaped arrays:
    masked entries keep the zero of `out`, unmasked entries hold `f a b`. -/
def maskedZipWith (f : α → α → α) (bits : List Bool) (a b : List α) : List α :=
  List.zipWith (fun (m : Bool) (p : α × α) => if m then 0 else f p.1 p.2) bits (List.zip a b)

/-- fit_util.residual_map_with_mask_from -/
def residualMapWithMask (bits : List Bool) (data model : List α) : List α :=
  maskedZipWith (· - ·) bits data model

/-- fit_util.normalized_residual_map_with_mask_from -/
def normalizedResidualMapWithMask (bits : List Bool) (res noise : List α) : List α :=
  maskedZipWith (· / ·) bits res noise

/-- fit_util.chi_squared_map_with_mask_from: `np.square(np.divide(..., where=mask == 0))`. -/
def chiSquaredMapWithMask (bits : List Bool) (res noise : List α) : List α :=
  (maskedZipWith (· / ·) bits res noise).map fun x => x * x

/-- numpy boolean indexing `a[np.asarray(mask) == 0]`: the entries at unmasked positions, in
    row-major order. -/
def selectUnmasked (bits : List Bool) (a : List α) : List α :=
  (List.zip bits a).filterMap fun p => if p.1 then none else some p.2

/-- fit_util.chi_squared_with_mask_from: `float(np.sum(chi_squared_map[mask == 0]))`. -/
def chiSquaredWithMask (csm : List α) (bits : List Bool) : α := sum (selectUnmasked bits csm)

/-- fit_util.noise_normalization_with_mask_from:
    `float(np.sum(np.log(2 * np.pi * noise_map[mask == 0] ** 2.0)))`. -/
def noiseNormalizationWithMask (log : α → α) (twoPi : α) (noise : List α) (bits : List Bool) : α :=
  sum ((selectUnmasked bits noise).map fun n => log (twoPi * (n * n)))

/-- fit_util.residual_flux_fraction_map_from: `np.divide(residual_map, data, out=zeros)`. -/
def residualFluxFractionMap (res data : List α) : List α := List.zipWith (· / ·) res data

/-- fit_util.residual_flux_fraction_map_with_mask_from -/
def residualFluxFractionMapWithMask (bits : List Bool) (res data : List α) : List α :=
  maskedZipWith (· / ·) bits res data

/-- the constant `-0.5` of the three likelihood formulas. -/
def negHalf : α := -((1 : α) / 2)

/-- fit_util.log_likelihood_from: `-0.5 * (chi_squared + noise_normalization)`. -/
def logLikelihood (chi norm : α) : α := negHalf * (chi + norm)

/-- fit_util.log_likelihood_with_regularization_from -/
def logLikelihoodWithRegularization (chi reg norm : α) : α := negHalf * (chi + reg + norm)

/-- fit_util.log_evidence_from:
    `-0.5 * (chi_squared + regularization_term + log_curvature_regularization_term
             - log_regularization_term + noise_normalization)`. -/
def logEvidence (chi reg logCurvReg logReg norm : α) : α :=
  negHalf * (chi + reg + logCurvReg - logReg + norm)

end arith

/-- AbstractFit.signal_to_noise_map: `s = data / noise_map; s[s < 0] = 0`. -/
def signalToNoiseMap [Div α] [OfNat α 0] [LT α] [DecidableLT α] (data noise : List α) : List α :=
  (List.zipWith (· / ·) data noise).map fun x => if x < 0 then 0 else x

/-! ### `FitDataset` / `FitImaging`: dispatch on `use_mask_in_fit` -/

/-- what a fit object is built from.  With `useMask` the three arrays are native-stored (row-major,
    one entry per pixel of the frame, arbitrary values in masked cells); without it they are slim
    (one entry per unmasked pixel). -/
structure FitInput (α : Type) where
  useMask : Bool
  isImaging : Bool        -- FitImaging applies the background-sky offset, plain FitDataset does not
  bits : List Bool        -- the dataset's mask, flattened row-major, `true` = masked
  data : List α
  noise : List α
  model : List α
  background : α          -- dataset_model.background_sky_level

section fit
variable [Add α] [Sub α] [Mul α] [Div α] [Neg α] [OfNat α 0] [OfNat α 1] [OfNat α 2] [BEq α]

/-- FitImaging.data: `dataset.data - background_sky_level` when that level `!= 0.0`;
    FitDataset.data: `dataset.data`. -/
def fitData (f : FitInput α) : List α :=
  if f.isImaging && f.background != 0 then f.data.map (· - f.background) else f.data

/-- FitDataset.residual_map -/
def fitResidualMap (f : FitInput α) : List α :=
  if f.useMask then residualMapWithMask f.bits (fitData f) f.model
  else residualMap (fitData f) f.model

/-- FitDataset.normalized_residual_map -/
def fitNormalizedResidualMap (f : FitInput α) : List α :=
  if f.useMask then normalizedResidualMapWithMask f.bits (fitResidualMap f) f.noise
  else normalizedResidualMap (fitResidualMap f) f.noise

/-- FitDataset.chi_squared_map -/
def fitChiSquaredMap (f : FitInput α) : List α :=
  if f.useMask then chiSquaredMapWithMask f.bits (fitResidualMap f) f.noise
  else chiSquaredMap (fitResidualMap f) f.noise

/-- FitDataset.chi_squared (no noise covariance matrix) -/
def fitChiSquared (f : FitInput α) : α :=
  if f.useMask then chiSquaredWithMask (fitChiSquaredMap f) f.bits
  else chiSquared (fitChiSquaredMap f)

/-- FitDataset.noise_normalization -/
def fitNoiseNormalization (log : α → α) (twoPi : α) (f : FitInput α) : α :=
  if f.useMask then noiseNormalizationWithMask log twoPi f.noise f.bits
  else noiseNormalization log twoPi f.noise

/-- AbstractFit.log_likelihood -/
def fitLogLikelihood (log : α → α) (twoPi : α) (f : FitInput α) : α :=
  logLikelihood (fitChiSquared f) (fitNoiseNormalization log twoPi f)

/-- FitDataset.residual_flux_fraction_map (after the D5 repair: residual / data). -/
def fitResidualFluxFractionMap (f : FitInput α) : List α :=
  if f.useMask then residualFluxFractionMapWithMask f.bits (fitResidualMap f) (fitData f)
  else residualFluxFractionMap (fitResidualMap f) (fitData f)

/-- FitDataset.reduced_chi_squared: `chi_squared / int(np.size(mask) - np.sum(mask))`. -/
def fitReducedChiSquared [NatCast α] (f : FitInput α) : α :=
  fitChiSquared f / ((f.bits.length - (f.bits.filter id).length : Nat) : α)

/-- the three scalars a fit reads off its inversion. -/
structure InvTerms (α : Type) where
  regularizationTerm : α
  logDetCurvatureReg : α
  logDetRegularization : α

/-- FitDataset.log_likelihood_with_regularization (`None` without an inversion). -/
def fitLogLikelihoodWithRegularization (log : α → α) (twoPi : α) (f : FitInput α)
    (inv : Option (InvTerms α)) : Option α :=
  inv.map fun t =>
    logLikelihoodWithRegularization (fitChiSquared f) t.regularizationTerm
      (fitNoiseNormalization log twoPi f)

/-- FitDataset.log_evidence (`None` without an inversion). -/
def fitLogEvidence (log : α → α) (twoPi : α) (f : FitInput α) (inv : Option (InvTerms α)) :
    Option α :=
  inv.map fun t =>
    logEvidence (fitChiSquared f) t.regularizationTerm t.logDetCurvatureReg t.logDetRegularization
      (fitNoiseNormalization log twoPi f)

/-- FitDataset.figure_of_merit: the evidence when an inversion is present, else the likelihood. -/
def fitFigureOfMerit (log : α → α) (twoPi : α) (f : FitInput α) (inv : Option (InvTerms α)) : α :=
  match fitLogEvidence log twoPi f inv with
  | some e => e
  | none => fitLogLikelihood log twoPi f

end fit

/-- AbstractFit.signal_to_noise_map on the fit's own `data` (so after the background offset). -/
def fitSignalToNoiseMap [Sub α] [Div α] [OfNat α 0] [LT α] [DecidableLT α] [BEq α]
    (f : FitInput α) : List α :=
  signalToNoiseMap (fitData f) f.noise

/-! ### the inversion's evidence terms (AbstractInversion) -/

/-- one linear object: its parameter count and, when it has a regularization scheme, the
    regularization matrix that scheme produces for it (`params × params`). -/
structure LinObj (α : Type) where
  params : Nat
  reg : Option (List (List α))

/-- AbstractInversion.param_range_list_from(cls=LinearObj): running `pixel_count`. -/
def paramRangeList (objs : List (LinObj α)) : List (Nat × Nat) :=
  (objs.foldl (fun (st : List (Nat × Nat) × Nat) o => (st.1 ++ [(st.2, st.2 + o.params)], st.2 + o.params))
    ([], 0)).1

/-- AbstractInversion.no_regularization_index_list:
    `for obj, reg, rng in zip(...): if reg is None: lst += range(rng[0], rng[1])`. -/
def noRegularizationIndexList (objs : List (LinObj α)) : List Nat :=
  (List.zip objs (paramRangeList objs)).foldl
    (fun acc (p : LinObj α × (Nat × Nat)) =>
      if p.1.reg.isNone then acc ++ (List.range (p.2.2 - p.2.1)).map (· + p.2.1) else acc) []

/-- AbstractInversion.has(cls=AbstractRegularization) -/
def hasRegularization (objs : List (LinObj α)) : Bool := objs.any fun o => o.reg.isSome

/-- AbstractInversion.all_linear_obj_have_regularization:
    `len(linear_obj_list) == len(list(filter(None, regularization_list)))`. -/
def allHaveRegularization (objs : List (LinObj α)) : Bool :=
  objs.length == (objs.filter fun o => o.reg.isSome).length

/-- AbstractInversion.total_params -/
def totalParams (objs : List (LinObj α)) : Nat := (objs.map (·.params)).foldl (· + ·) 0

section inv
variable [Add α] [Mul α] [OfNat α 0]

/-- LinearObj.regularization_matrix: the scheme's matrix, or `np.zeros((params, params))`. -/
def objRegularizationMatrix (o : LinObj α) : List (List α) :=
  match o.reg with
  | some m => m
  | none => List.replicate o.params (List.replicate o.params 0)

/-- `scipy.linalg.block_diag(*blocks)` for square blocks given with their sizes. -/
def blockDiag : List (Nat × List (List α)) → List (List α)
  | [] => []
  | (n, b) :: rest =>
    let m := (rest.map (·.1)).foldl (· + ·) 0
    (b.map fun row => row ++ List.replicate m 0)
      ++ ((blockDiag rest).map fun row => List.replicate n 0 ++ row)

/-- AbstractInversion.regularization_matrix (no preload) -/
def regularizationMatrix (objs : List (LinObj α)) : List (List α) :=
  blockDiag (objs.map fun o => (o.params, objRegularizationMatrix o))

/-- `np.delete(a, idx, axis)` along the leading axis of a list. -/
def deleteIdx {β : Type} (l : List β) (idx : List Nat) : List β :=
  (List.range l.length).filterMap fun i => if idx.contains i then none else l[i]?

/-- `np.delete(np.delete(M, idx, 0), idx, 1)` -/
def matDelete (M : List (List α)) (idx : List Nat) : List (List α) :=
  (deleteIdx M idx).map fun row => deleteIdx row idx

/-- AbstractInversion.regularization_matrix_reduced -/
def regularizationMatrixReduced (objs : List (LinObj α)) : List (List α) :=
  if allHaveRegularization objs then regularizationMatrix objs
  else matDelete (regularizationMatrix objs) (noRegularizationIndexList objs)

/-- `np.add(F, H)` -/
def matAdd (A B : List (List α)) : List (List α) :=
  List.zipWith (fun ra rb => List.zipWith (· + ·) ra rb) A B

/-- AbstractInversion.curvature_reg_matrix (both the in-place single-regularization path and the
    `np.add` path hold the same values). -/
def curvatureRegMatrix (F : List (List α)) (objs : List (LinObj α)) : List (List α) :=
  if !hasRegularization objs then F else matAdd F (regularizationMatrix objs)

/-- AbstractInversion.curvature_reg_matrix_reduced -/
def curvatureRegMatrixReduced (F : List (List α)) (objs : List (LinObj α)) : List (List α) :=
  if allHaveRegularization objs then curvatureRegMatrix F objs
  else matDelete (curvatureRegMatrix F objs) (noRegularizationIndexList objs)

/-- AbstractInversion.reconstruction_reduced -/
def reconstructionReduced (s : List α) (objs : List (LinObj α)) : List α :=
  if allHaveRegularization objs then s else deleteIdx s (noRegularizationIndexList objs)

/-- 1-D `np.matmul(a, b)` -/
def dot (a b : List α) : α := (List.zipWith (· * ·) a b).foldl (· + ·) 0

/-- `np.matmul(M, v)` -/
def matVec (M : List (List α)) (v : List α) : List α := M.map fun row => dot row v

/-- AbstractInversion.regularization_term:
    `matmul(s_reduced.T, matmul(H_reduced, s_reduced))`, or `0.0` without any regularization. -/
def regularizationTerm (s : List α) (objs : List (LinObj α)) : α :=
  if !hasRegularization objs then 0
  else dot (reconstructionReduced s objs)
        (matVec (regularizationMatrixReduced objs) (reconstructionReduced s objs))

/-- AbstractInversion.log_det_curvature_reg_matrix_term; `logDet` stands for
    `2 * sum(log(diag(cholesky(A))))`. -/
def logDetCurvatureRegTerm (logDet : List (List α) → α) (F : List (List α))
    (objs : List (LinObj α)) : α :=
  if !hasRegularization objs then 0 else logDet (curvatureRegMatrixReduced F objs)

/-- AbstractInversion.log_det_regularization_matrix_term; `logDet` stands for the SuperLU
    `sum(log(diag L)) + sum(log(diag U))` (Cholesky fallback). -/
def logDetRegularizationTerm (logDet : List (List α) → α) (objs : List (LinObj α)) : α :=
  if !hasRegularization objs then 0 else logDet (regularizationMatrixReduced objs)

/-- `np.diag(M)` of a square matrix given as a list of rows. -/
def diag (M : List (List α)) : List α :=
  (List.range M.length).map fun i => (M.getD i []).getD i 0

/-- how `log_det_curvature_reg_matrix_term` (and the fallback of `log_det_regularization_matrix_term`)
    obtains its value: `2.0 * np.sum(np.log(np.diag(np.linalg.cholesky(A))))`.  The factorisation
    `chol` is a parameter (contract: lower-triangular `L` with positive diagonal and `L·Lᵀ = A`). -/
def logDetViaCholesky [OfNat α 2] (log : α → α) (chol : List (List α) → List (List α))
    (A : List (List α)) : α :=
  2 * ((diag (chol A)).map log).foldl (· + ·) 0

/-- how `log_det_regularization_matrix_term` obtains its value on the SuperLU path:
    `lu = splu(csc_matrix(A)); np.real(np.log(lu.L.diagonal().astype(complex)).sum()
                                       + np.log(lu.U.diagonal().astype(complex)).sum())`
    — the real part of a complex logarithm is the logarithm of the modulus.  The factorisation `lu`
    (returning `(L, U)`) is a parameter (contract: `P_r·A·P_c = L·U`, `L` lower- and `U` upper-triangular). -/
def logDetViaLU (log abs : α → α) (lu : List (List α) → List (List α) × List (List α))
    (A : List (List α)) : α :=
  ((diag (lu A).1).map fun x => log (abs x)).foldl (· + ·) 0
    + ((diag (lu A).2).map fun x => log (abs x)).foldl (· + ·) 0

/-- the three scalars handed to the fit. -/
def invTerms (logDet : List (List α) → α) (F : List (List α)) (s : List α)
    (objs : List (LinObj α)) : InvTerms α :=
  { regularizationTerm := regularizationTerm s objs
    logDetCurvatureReg := logDetCurvatureRegTerm logDet F objs
    logDetRegularization := logDetRegularizationTerm logDet objs }

/-- the three scalars as the code computes them: Cholesky for `F + H`, SuperLU for `H`. -/
def invTermsViaFactorisations [OfNat α 2] (log abs : α → α)
    (chol : List (List α) → List (List α))
    (lu : List (List α) → List (List α) × List (List α))
    (F : List (List α)) (s : List α) (objs : List (LinObj α)) : InvTerms α :=
  { regularizationTerm := regularizationTerm s objs
    logDetCurvatureReg := logDetCurvatureRegTerm (logDetViaCholesky log chol) F objs
    logDetRegularization := logDetRegularizationTerm (logDetViaLU log abs lu) objs }

end inv

end Fit
end Impl

namespace Spec
namespace Fit

/-- the regularized parameter indices, ascending: what survives `np.delete(·, no_reg_indexes)`. -/
def keepIdx (n : Nat) (idx : List Nat) : List Nat :=
  (List.range n).filter fun i => !idx.contains i

/-- the parameter ranges `[start, stop)` of consecutive linear objects starting at `off`. -/
def rangesFrom {α : Type} (off : Nat) : List (Impl.Fit.LinObj α) → List (Nat × Nat)
  | [] => []
  | o :: os => (off, off + o.params) :: rangesFrom (off + o.params) os

/-- the parameter indices belonging to linear objects without a regularization scheme, the first
    object's parameters starting at `off`. -/
def noRegFrom {α : Type} (off : Nat) : List (Impl.Fit.LinObj α) → List Nat
  | [] => []
  | o :: os => (if o.reg.isNone then List.range' off o.params else []) ++ noRegFrom (off + o.params) os

/-- flat positions of the unmasked pixels, ascending. -/
def unmaskedIdx (bits : List Bool) : List Nat :=
  (List.range bits.length).filter fun k => !bits.getD k true

end Fit
end Spec
end Model
