/-
Model/Fits.lean — FITS output / input (property C16).

Python sources transliterated here (tree with the repairs D12, D13, D30, D31 applied):
  autoarray/structures/arrays/array_2d_util.py   hdu_for_output_from, numpy_array_2d_to_fits,
                                                 numpy_array_2d_via_fits_from, header_obj_from
  autoarray/structures/arrays/array_1d_util.py   hdu_for_output_from, numpy_array_1d_to_fits,
                                                 numpy_array_1d_via_fits_from
  autoarray/abstract_ndarray.py                  flip_hdu_for_ds9, pixel_scales_from_header
  autoarray/mask/abstract_mask.py                pixel_scale_header
  autoarray/structures/arrays/uniform_2d.py      hdu_for_output, output_to_fits, from_fits, from_primary_hdu
  autoarray/structures/arrays/kernel_2d.py       from_fits, from_primary_hdu
  autoarray/structures/arrays/uniform_1d.py      hdu_for_output, output_to_fits, from_fits, from_primary_hdu
  autoarray/mask/mask_2d.py, mask_1d.py          hdu_for_output, output_to_fits, from_fits, from_primary_hdu

Modelled, not verified (DESIGN §4): astropy (`PrimaryHDU`, `HDUList`, `writeto`, `open`) is the
contract "image data and header cards are stored and returned unchanged"; the operating system's
filesystem is the state machine `FS` below (`os.path.exists`, `os.makedirs`, `os.remove`).
-/
import Model.Slim

namespace Model
namespace Fits

/-! ## HDUs -/

/-- image data of an HDU: a 1-D vector or a list of rows -/
inductive Data (α : Type) where
  | d1 (v : List α)
  | d2 (rows : List (List α))
deriving Repr, DecidableEq

/-- header-data unit: data + header cards in order -/
structure Hdu (α : Type) where
  data : Data α
  header : List (String × α)
deriving Repr, DecidableEq

/-- `np.flipud`: reverse along the first axis (rows of a 2-D array, entries of a 1-D array) -/
def flipud : Data α → Data α
  | .d1 v => .d1 v.reverse
  | .d2 rows => .d2 rows.reverse

/-- `if conf…["flip_for_ds9"]: np.flipud(x) else x` — the same expression is used by
    `array_2d_util.hdu_for_output_from`, `numpy_array_2d_via_fits_from` and
    `AbstractNDArray.flip_hdu_for_ds9`. -/
def flipIf (flip : Bool) (d : Data α) : Data α := if flip then flipud d else d

/-- view of a row-major flat (h·w) list as its `h` rows (what numpy's 2-D indexing does) -/
def toRows : Nat → Nat → List α → List (List α)
  | 0, _, _ => []
  | h + 1, w, a => a.take w :: toRows h w (a.drop w)

/-! ## header cards for the pixel scale -/

/-- `Mask.pixel_scale_header` (after repair D13): one `PIXSCALE` card when all scales are equal, else
    `PIXSCALEY`, `PIXSCALEX`.  `scales` has one entry (1-D) or two (2-D). -/
def pixelScaleHeader [DecidableEq α] (scales : List α) (zero : α) : List (String × α) :=
  if scales.all (fun s => decide (s = scales.headD zero)) then [("PIXSCALE", scales.headD zero)]
  else [("PIXSCALEY", scales.getD 0 zero), ("PIXSCALEX", scales.getD 1 zero)]

/-- `AbstractNDArray.pixel_scales_from_header` followed by `convert_pixel_scales_2d` (a single float
    becomes `(v, v)`); `none` = `KeyError`. -/
def scales2dFromHeader (hdr : List (String × α)) : Option (α × α) :=
  match hdr.lookup "PIXSCALE" with
  | some v => some (v, v)
  | none =>
    match hdr.lookup "PIXSCALEY", hdr.lookup "PIXSCALEX" with
    | some y, some x => some (y, x)
    | _, _ => none

/-- `primary_hdu.header["PIXSCALE"]` as read by `Array1D/Mask1D.from_primary_hdu` -/
def scales1dFromHeader (hdr : List (String × α)) : Option α := hdr.lookup "PIXSCALE"

/-! ## writers -/

/-- `array_2d_util.hdu_for_output_from(array_2d, header_dict)` -/
def hduForOutput2d (flip : Bool) (rows : List (List α)) (hdr : List (String × α)) : Hdu α :=
  ⟨flipIf flip (.d2 rows), hdr⟩

/-- `array_1d_util.hdu_for_output_from(array_1d, header_dict)`: 1-D data are never flipped -/
def hduForOutput1d (v : List α) (hdr : List (String × α)) : Hdu α := ⟨.d1 v, hdr⟩

/-- `np.array(self.native)` of a (slim-stored) `Array2D` on mask `m`, as rows -/
def nativeRows (m : Mask) (slim : List α) (zero : α) : List (List α) :=
  toRows m.h m.w (Impl.nativeFrom m slim zero)

/-- `Array2D.hdu_for_output` (also `Kernel2D`): native values, zeros at masked pixels -/
def array2dHdu [DecidableEq α] (flip : Bool) (m : Mask) (slim : List α) (scales : α × α) (zero : α) :
    Hdu α :=
  hduForOutput2d flip (nativeRows m slim zero) (pixelScaleHeader [scales.1, scales.2] zero)

/-- `np.array(self.native)` of an `Array2D` in whatever form it holds its values: `.native` re-runs the
    constructor on the stored array, so a native-stored array with arbitrary values under the mask
    (after arithmetic, or built with `skip_mask=True`) is zero-filled again (`none` = ArrayException) -/
def storedNativeRows (m : Mask) (st : Impl.Stored α) (zero : α) : Option (List (List α)) :=
  match Impl.viewNative m st zero with
  | some (.native v) => some (toRows m.h m.w v)
  | _ => none

/-- `Array2D.hdu_for_output` for any storage form -/
def array2dHduStored [DecidableEq α] (flip : Bool) (m : Mask) (st : Impl.Stored α) (scales : α × α)
    (zero : α) : Option (Hdu α) :=
  (storedNativeRows m st zero).map fun rows =>
    hduForOutput2d flip rows (pixelScaleHeader [scales.1, scales.2] zero)

/-- `Array1D.hdu_for_output` of a NATIVE-stored 1-D array holding `v`: `.native` is
    `Array1D(values=self, mask, store_native=True)` and `convert_array_1d` (after repair D31) multiplies a
    native input by the inverted mask, so whatever `v` holds under the mask is written as zero — the
    1-D twin of `array2dHduStored`. -/
def array1dHduNativeStored [DecidableEq α] (mask : List Bool) (v : List α) (scale : α) (zero : α) : Hdu α :=
  hduForOutput1d (Impl.applyMask1d mask v zero) (pixelScaleHeader [scale] zero)

/-- `self.astype("float")` of a boolean mask -/
def boolToNum (zero one : α) (b : Bool) : α := if b then one else zero

/-- `Mask2D.hdu_for_output` -/
def mask2dHdu [DecidableEq α] (flip : Bool) (m : Mask) (scales : α × α) (zero one : α) : Hdu α :=
  hduForOutput2d flip (toRows m.h m.w (m.bits.map (boolToNum zero one)))
    (pixelScaleHeader [scales.1, scales.2] zero)

/-- `Array1D.hdu_for_output` (after repair D30): `np.array(self.native)` of a 1-D array on a 1-D mask -/
def array1dHdu [DecidableEq α] (mask : List Bool) (slim : List α) (scale : α) (zero : α) : Hdu α :=
  hduForOutput1d (Impl.native1dFrom mask slim zero) (pixelScaleHeader [scale] zero)

/-- `Mask1D.hdu_for_output` -/
def mask1dHdu [DecidableEq α] (mask : List Bool) (scale : α) (zero one : α) : Hdu α :=
  hduForOutput1d (mask.map (boolToNum zero one)) (pixelScaleHeader [scale] zero)

/-! ## readers -/

/-- the all-`False` mask `Array2D.no_mask` builds from the shape of its values -/
def allFalse (h w : Nat) : Mask := ⟨h, w, List.replicate (h * w) false⟩

/-- what a 2-D reader returns: mask (all False), stored values, pixel scales -/
structure Read2d (α : Type) where
  mask : Mask
  stored : Impl.Stored α
  scales : α × α
deriving Repr

/-- `Array2D.no_mask(values=<2-D ndarray>, pixel_scales=…)`: the mask has the values' shape, then the
    `Array2D` constructor runs (`convert_array_2d` on a native input, slim storage). -/
def noMask (rows : List (List α)) (scales : α × α) (zero : α) : Option (Read2d α) :=
  let m := allFalse rows.length (rows.headD []).length
  (Impl.convertArray2d m (.native rows.flatten) false false zero).map fun st => ⟨m, st, scales⟩

/-- `.native` of a read-back array, flat row-major -/
def Read2d.native (r : Read2d α) (zero : α) : Option (List α) :=
  match Impl.viewNative r.mask r.stored zero with
  | some (.native v) => some v
  | _ => none

/-- `Array2D.from_primary_hdu` / `Kernel2D.from_primary_hdu`:
    `no_mask(values=flip_hdu_for_ds9(hdu.data), pixel_scales=pixel_scales_from_header(hdu.header))` -/
def array2dFromHdu (flip : Bool) (hdu : Hdu α) (zero : α) : Option (Read2d α) :=
  match flipIf flip hdu.data, scales2dFromHeader hdu.header with
  | .d2 rows, some sc => noMask rows sc zero
  | _, _ => none

/-- `x.astype("bool")` -/
def numToBool [DecidableEq α] (zero : α) (x : α) : Bool := decide (x ≠ zero)

/-- `Mask2D.from_primary_hdu`: `Mask2D(mask=flip_hdu_for_ds9(data), pixel_scales=…)`, the constructor
    converting to bool -/
def mask2dFromHdu [DecidableEq α] (flip : Bool) (hdu : Hdu α) (zero : α) : Option (Mask × (α × α)) :=
  match flipIf flip hdu.data, scales2dFromHeader hdu.header with
  | .d2 rows, some sc =>
    some (⟨rows.length, (rows.headD []).length, rows.flatten.map (numToBool zero)⟩, sc)
  | _, _ => none

/-- `Array1D.from_primary_hdu`: `no_mask(values=data, pixel_scales=header["PIXSCALE"])` (no flip) -/
def array1dFromHdu (hdu : Hdu α) : Option (List α × α) :=
  match hdu.data, scales1dFromHeader hdu.header with
  | .d1 v, some s => some (v, s)
  | _, _ => none

/-- `Mask1D.from_primary_hdu` -/
def mask1dFromHdu [DecidableEq α] (hdu : Hdu α) (zero : α) : Option (List Bool × α) :=
  match hdu.data, scales1dFromHeader hdu.header with
  | .d1 v, some s => some (v.map (numToBool zero), s)
  | _, _ => none

/-! ## files: a FITS file is a list of HDUs (astropy contract: stored and returned unchanged) -/

abbrev File (α : Type) := List (Hdu α)

/-- `hdu.writeto(path)` of a single primary HDU produces a one-HDU file -/
def fileOf (hdu : Hdu α) : File α := [hdu]

/-- `Array2D.from_fits(file_path, pixel_scales, hdu)`:
    `numpy_array_2d_via_fits_from` (data of HDU `k`, flipped back) then `no_mask`; `none` = IndexError -/
def array2dFromFits (flip : Bool) (file : File α) (k : Nat) (scales : α × α) (zero : α) :
    Option (Read2d α) :=
  match file[k]? with
  | some hdu =>
    match flipIf flip hdu.data with
    | .d2 rows => noMask rows scales zero
    | .d1 _ => none
  | none => none

/-- the two header objects `from_fits` attaches: cards of HDU 0 and of HDU `k` -/
def headersFromFits (file : File α) (k : Nat) : Option (List (String × α) × List (String × α)) :=
  match file[0]?, file[k]? with
  | some h0, some hk => some (h0.header, hk.header)
  | _, _ => none

/-- `Mask2D.from_fits(file_path, pixel_scales, hdu, invert=…)` before the optional resize:
    data of HDU `k` flipped back; `np.invert(mask.astype("bool"))` if requested; `Mask2D(...)` -/
def mask2dFromFits [DecidableEq α] (flip : Bool) (file : File α) (k : Nat) (invert : Bool) (zero : α) :
    Option Mask :=
  match file[k]? with
  | some hdu =>
    match flipIf flip hdu.data with
    | .d2 rows =>
      let bits := rows.flatten.map (numToBool zero)
      some ⟨rows.length, (rows.headD []).length, if invert then bits.map (!·) else bits⟩
    | .d1 _ => none
  | none => none

/-- `Array1D.from_fits`: `numpy_array_1d_via_fits_from` (no flip) then `no_mask` -/
def array1dFromFits (file : File α) (k : Nat) : Option (List α) :=
  match file[k]? with
  | some ⟨.d1 v, _⟩ => some v
  | _ => none

/-- `Mask1D.from_fits` -/
def mask1dFromFits [DecidableEq α] (file : File α) (k : Nat) (zero : α) : Option (List Bool) :=
  (array1dFromFits file k).map fun v => v.map (numToBool zero)

/-! ## the filesystem state machine -/

/-- a path = its components relative to the working directory; `[]` is the working directory itself
    (what `os.path.split("name.fits")[0] == ""` denotes) -/
abbrev Path := List String

structure FS (γ : Type) where
  files : List (Path × γ)
  dirs : List Path
deriving Repr

namespace FS

def isFile (fs : FS γ) (p : Path) : Bool := (fs.files.lookup p).isSome
def isDir (fs : FS γ) (p : Path) : Bool := p == [] || fs.dirs.contains p
/-- `os.path.exists` -/
def pathExists (fs : FS γ) (p : Path) : Bool := fs.isDir p || fs.isFile p
def read (fs : FS γ) (p : Path) : Option γ := fs.files.lookup p

/-- the non-empty initial segments of `p`, shortest first (the directories `os.makedirs(p)` visits) -/
def prefixes (p : Path) : List Path := (List.range p.length).map fun k => p.take (k + 1)

/-- `os.makedirs(p)`: create every missing ancestor, then `p`; a regular file on the way is an error
    (`FileExistsError` / `NotADirectoryError`). -/
def makedirs (fs : FS γ) (p : Path) : Except String (FS γ) :=
  if (prefixes p).any fs.isFile then throw "not_a_directory"
  else pure { fs with dirs := fs.dirs ++ (prefixes p).filter fun q => !fs.isDir q }

/-- `os.remove(p)` -/
def remove (fs : FS γ) (p : Path) : Except String (FS γ) :=
  if fs.isFile p then pure { fs with files := fs.files.filter fun e => e.1 != p }
  else if fs.isDir p then throw "is_a_directory"
  else throw "not_found"

/-- `hdu.writeto(p)` (astropy, `overwrite=False`): refuses an existing path, needs the directory -/
def writeto (fs : FS γ) (p : Path) (c : γ) : Except String (FS γ) :=
  if fs.pathExists p then throw "exists_no_overwrite"
  else if !fs.isDir p.dropLast then throw "not_a_directory"
  else pure { fs with files := (p, c) :: fs.files }

end FS

/-- first statement pair of `numpy_array_*_to_fits` (after repair D12):
      file_dir = os.path.split(file_path)[0]
      if file_dir and not os.path.exists(file_dir): os.makedirs(file_dir)                     -/
def ensureDir (fs : FS γ) (p : Path) : Except String (FS γ) :=
  if p.dropLast != [] && !fs.pathExists p.dropLast then fs.makedirs p.dropLast else pure fs

/--   if overwrite and os.path.exists(file_path): os.remove(file_path)                        -/
def clearTarget (fs : FS γ) (p : Path) (overwrite : Bool) : Except String (FS γ) :=
  if overwrite && fs.pathExists p then fs.remove p else pure fs

/-- `numpy_array_2d_to_fits` / `numpy_array_1d_to_fits`, `c` = the HDU file written:
      <ensureDir>; <clearTarget>; hdu.writeto(file_path)                                      -/
def output (fs : FS γ) (p : Path) (overwrite : Bool) (c : γ) : Except String (FS γ) := do
  let fs1 ← ensureDir fs p
  let fs2 ← clearTarget fs1 p overwrite
  fs2.writeto p c

/-- a history of `output_to_fits` calls: the outcome of each call (`none` = success, `some kind` =
    the exception) and the final state.  A failing call changes nothing: `makedirs` fails before it
    creates anything, and once it succeeded the target cannot exist, so `writeto` succeeds. -/
def outputStep (acc : List (Option String) × FS γ) (s : Path × Bool × γ) :
    List (Option String) × FS γ :=
  match output acc.2 s.1 s.2.1 s.2.2 with
  | .ok fs' => (acc.1 ++ [none], fs')
  | .error e => (acc.1 ++ [some e], acc.2)

def outputs (fs : FS γ) (steps : List (Path × Bool × γ)) : List (Option String) × FS γ :=
  steps.foldl outputStep ([], fs)

end Fits
end Model
