/-
Model/Geometry.lean — pixel ↔ scaled coordinate maps (property C02; imported by C12).

Python sources transliterated here (all under /repo/autoarray):
  geometry/geometry_util.py   central_pixel_coordinates_{1d,2d}_from, central_scaled_coordinate_{1d,2d}_from,
                              pixel_coordinates_{1d,2d}_from, scaled_coordinates_{1d,2d}_from,
                              grid_pixels_2d_slim_from, grid_pixel_centres_2d_slim_from,
                              grid_pixel_indexes_2d_slim_from, grid_scaled_2d_slim_from
  geometry/geometry_2d.py     Geometry2D.shape_native_scaled / scaled_maxima / scaled_minima / extent
  geometry/geometry_1d.py     Geometry1D.shape_slim_scaled / scaled_maxima / scaled_minima / extent
  structures/grids/grid_2d_util.py   grid_2d_slim_via_mask_from, grid_2d_slim_via_shape_native_from
  structures/grids/grid_1d_util.py   grid_1d_slim_via_mask_from, grid_1d_slim_via_shape_slim_from

Conventions
* the number type `α` is generic over the core operator classes (runs on `Rat` in the driver, is reasoned
  about over an ordered field in Proofs/Geometry.lean);  numerals enter only through `NatCast`
  (`0.5` is `1/2`, `float(n-1)/2` is `(n-1)/2`);
* `shape = (H, W)`, `s = (s_y, s_x)` pixel scales, `o = (o_y, o_x)` origin — the origin is ALWAYS an
  explicit argument, never defaulted;
* `int()` is the explicit parameter `trunc : α → Int` (truncation toward zero; `Model.truncRat` on `Rat`);
* pairs are `(y, x)` as in the Python.
-/
import Model.Core

namespace Model

section
variable {α : Type} [Add α] [Sub α] [Mul α] [Div α] [Neg α] [NatCast α]

/-! ## Impl layer -/
namespace Impl

/-- the literal `0.5` -/
def half : α := ((1 : Nat) : α) / ((2 : Nat) : α)

/-- `central_pixel_coordinates_1d_from`: `float(n - 1) / 2` -/
def centralPixel1 (n : Nat) : α := ((n : α) - ((1 : Nat) : α)) / ((2 : Nat) : α)

/-- `central_pixel_coordinates_2d_from` -/
def centralPixel2 (shape : Nat × Nat) : α × α := (centralPixel1 shape.1, centralPixel1 shape.2)

/-- `central_scaled_coordinate_2d_from`: `+ origin_y / s_y`, `- origin_x / s_x` -/
def centralScaled2 (shape : Nat × Nat) (s o : α × α) : α × α :=
  let c : α × α := centralPixel2 shape
  (c.1 + o.1 / s.1, c.2 - o.2 / s.2)

/-- `central_scaled_coordinate_1d_from`: `- origin / s` -/
def centralScaled1 (n : Nat) (s o : α) : α := centralPixel1 n - o / s

/-- `pixel_coordinates_2d_from` (code variant A: origin subtracted from the coordinate first). -/
def pixelCoordinates2 (trunc : α → Int) (shape : Nat × Nat) (s o : α × α) (p : α × α) : Int × Int :=
  let c : α × α := centralPixel2 shape
  (trunc ((-p.1 + o.1) / s.1 + c.1 + half), trunc ((p.2 - o.2) / s.2 + c.2 + half))

/-- `pixel_coordinates_1d_from` -/
def pixelCoordinates1 (trunc : α → Int) (n : Nat) (s o : α) (p : α) : Int :=
  trunc ((p - o) / s + centralPixel1 n + half)

/-- `scaled_coordinates_2d_from`: `s_y * -(i - c_y)`, `s_x * (j - c_x)` with `c = central_scaled`. -/
def scaledCoordinates2 (shape : Nat × Nat) (s o : α × α) (pix : α × α) : α × α :=
  let c : α × α := centralScaled2 shape s o
  (s.1 * -(pix.1 - c.1), s.2 * (pix.2 - c.2))

/-- `scaled_coordinates_1d_from` -/
def scaledCoordinates1 (n : Nat) (s o : α) (pix : α) : α := s * (pix - centralScaled1 n s o)

/-- one row of `grid_pixels_2d_slim_from` (continuous pixel coordinates, code variant B: origin folded
    into `centres_scaled`). -/
def pixelsOfScaled (shape : Nat × Nat) (s o : α × α) (p : α × α) : α × α :=
  let c : α × α := centralScaled2 shape s o
  ((-p.1 / s.1) + c.1 + half, (p.2 / s.2) + c.2 + half)

/-- one row of `grid_pixel_centres_2d_slim_from` (code variant B + `int()`). -/
def pixelCentreOfScaled (trunc : α → Int) (shape : Nat × Nat) (s o : α × α) (p : α × α) : Int × Int :=
  let q : α × α := pixelsOfScaled shape s o p
  (trunc q.1, trunc q.2)

/-- one row of `grid_scaled_2d_slim_from` -/
def scaledOfPixels (shape : Nat × Nat) (s o : α × α) (pix : α × α) : α × α :=
  let c : α × α := centralScaled2 shape s o
  (-(pix.1 - c.1 - half) * s.1, (pix.2 - c.2 - half) * s.2)

/-- the loop `out = zeros(n); for k in range(n): out[k] = f(inp[k])` shared by the four grid routines. -/
def rowLoop {β γ : Type} (zero : γ) (dflt : β) (f : β → γ) (inp : List β) : List γ :=
  (List.range inp.length).foldl (fun out k => out.set k (f (inp.getD k dflt)))
    (List.replicate inp.length zero)

/-- `grid_pixels_2d_slim_from` -/
def gridPixels2 (shape : Nat × Nat) (s o : α × α) (grid : List (α × α)) : List (α × α) :=
  let z : α := ((0 : Nat) : α)
  rowLoop (z, z) (z, z) (pixelsOfScaled shape s o) grid

/-- `grid_pixel_centres_2d_slim_from` followed by `.astype("int")` -/
def gridPixelCentres2 (trunc : α → Int) (shape : Nat × Nat) (s o : α × α) (grid : List (α × α)) :
    List (Int × Int) :=
  let z : α := ((0 : Nat) : α)
  rowLoop (0, 0) (z, z) (pixelCentreOfScaled trunc shape s o) grid

/-- `grid_pixel_indexes_2d_slim_from`: first the centres, then `int(py * W + px)`. -/
def gridPixelIndexes2 (trunc : α → Int) (shape : Nat × Nat) (s o : α × α) (grid : List (α × α)) :
    List Int :=
  let centres := gridPixelCentres2 trunc shape s o grid
  rowLoop 0 (0, 0) (fun (c : Int × Int) => c.1 * (shape.2 : Int) + c.2) centres

/-- `grid_scaled_2d_slim_from` -/
def gridScaled2 (shape : Nat × Nat) (s o : α × α) (grid : List (α × α)) : List (α × α) :=
  let z : α := ((0 : Nat) : α)
  rowLoop (z, z) (z, z) (scaledOfPixels shape s o) grid

/-- the value written by `grid_2d_slim_via_mask_from` for pixel `(y,x)`:
    `-(y - c_y) * s_y`, `(x - c_x) * s_x` with `c = central_scaled`. -/
def pixelCentreScaled (shape : Nat × Nat) (s o : α × α) (p : Nat × Nat) : α × α :=
  let c : α × α := centralScaled2 shape s o
  (-((p.1 : α) - c.1) * s.1, ((p.2 : α) - c.2) * s.2)

/-- `grid_2d_slim_via_mask_from`: double loop over the mask, running `index` = append. -/
def grid2dSlimViaMask (m : Mask) (s o : α × α) : List (α × α) :=
  forYX m.h m.w
    (fun acc y x => if !m.get y x then acc ++ [pixelCentreScaled (m.h, m.w) s o (y, x)] else acc) []

/-- `grid_2d_slim_via_shape_native_from`: the same with `np.full(False, shape)`. -/
def grid2dSlimViaShape (shape : Nat × Nat) (s o : α × α) : List (α × α) :=
  grid2dSlimViaMask ⟨shape.1, shape.2, List.replicate (shape.1 * shape.2) false⟩ s o

/-- value written by `grid_1d_slim_via_mask_from`: `(x - c) * s` -/
def pixelCentreScaled1 (n : Nat) (s o : α) (x : Nat) : α := ((x : α) - centralScaled1 n s o) * s

/-- `grid_1d_slim_via_mask_from` -/
def grid1dSlimViaMask (mask : List Bool) (s o : α) : List α :=
  (List.range mask.length).foldl
    (fun acc x => if !mask.getD x true then acc ++ [pixelCentreScaled1 mask.length s o x] else acc) []

/-- `grid_1d_slim_via_shape_slim_from` -/
def grid1dSlimViaShape (n : Nat) (s o : α) : List α :=
  grid1dSlimViaMask (List.replicate n false) s o

/-- `Geometry2D.shape_native_scaled` -/
def shapeNativeScaled (shape : Nat × Nat) (s : α × α) : α × α :=
  (s.1 * (shape.1 : α), s.2 * (shape.2 : α))

/-- `Geometry2D.scaled_maxima` -/
def scaledMaxima (shape : Nat × Nat) (s o : α × α) : α × α :=
  let t : α × α := shapeNativeScaled shape s
  (t.1 / ((2 : Nat) : α) + o.1, t.2 / ((2 : Nat) : α) + o.2)

/-- `Geometry2D.scaled_minima` -/
def scaledMinima (shape : Nat × Nat) (s o : α × α) : α × α :=
  let t : α × α := shapeNativeScaled shape s
  (-(t.1 / ((2 : Nat) : α)) + o.1, -(t.2 / ((2 : Nat) : α)) + o.2)

/-- `Geometry2D.extent` = `(x_min, x_max, y_min, y_max)` -/
def extent (shape : Nat × Nat) (s o : α × α) : α × α × α × α :=
  ((scaledMinima shape s o).2, (scaledMaxima shape s o).2,
   (scaledMinima shape s o).1, (scaledMaxima shape s o).1)

/-- `Geometry1D.extent` = `(-(s*n/2) + o, s*n/2 + o)` -/
def extent1 (n : Nat) (s o : α) : α × α :=
  (-(s * (n : α) / ((2 : Nat) : α)) + o, s * (n : α) / ((2 : Nat) : α) + o)

end Impl

/-! ## Spec layer -/
namespace Spec

/-- the documented centre of pixel `(i, j)`:
    `(o_y + ((H-1)/2 - i)·s_y, o_x + (j - (W-1)/2)·s_x)` -/
def pixelCentre (shape : Nat × Nat) (s o : α × α) (p : Nat × Nat) : α × α :=
  (o.1 + (((shape.1 : α) - ((1 : Nat) : α)) / ((2 : Nat) : α) - (p.1 : α)) * s.1,
   o.2 + ((p.2 : α) - ((shape.2 : α) - ((1 : Nat) : α)) / ((2 : Nat) : α)) * s.2)

/-- 1-D: `o + (x - (n-1)/2)·s` -/
def pixelCentre1 (n : Nat) (s o : α) (x : Nat) : α :=
  o + ((x : α) - ((n : α) - ((1 : Nat) : α)) / ((2 : Nat) : α)) * s

end Spec
end

end Model
