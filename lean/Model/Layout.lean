/-
Model/Layout.lean — layout regions (property C19).

Python sources transliterated here (all under /repo/autoarray/layout):
  layout_util.py   rotate_array_via_roe_corner_from, rotate_region_via_roe_corner_from,
                   region_after_extraction, x0x1_after_extraction
  region.py        Region1D, Region2D (constructors, slice, *_front_region_from,
                   *_trailing_region_from, *_full_region_from, serial_x_front_range_from)
  layout.py        Layout2D (regions held as three optional Region2D; all methods are the utilities
                   above applied per region)

Conventions: the code here has no loops — it is integer arithmetic on region corners plus numpy
basic slicing / `[::-1]` flips.  A 2-D array is its list of rows (`List (List α)`); `a[::-1, :]` is
`List.reverse` of the rows, `a[:, ::-1]` reverses every row; `a[y0:y1, x0:x1]` for non-negative
bounds is `take`/`drop`.  Region corners are Python ints that may be negative ⇒ `Int`.
A raised `RegionException` is `none`.
Mathlib-free.
-/
import Model.Core

namespace Model

/-- `(y0, y1, x0, x1)` -/
structure R2 where
  y0 : Int
  y1 : Int
  x0 : Int
  x1 : Int
deriving Repr, DecidableEq

/-- `(x0, x1)` -/
structure R1 where
  x0 : Int
  x1 : Int
deriving Repr, DecidableEq

/-- the four read-out-electronics corners the code distinguishes: `(1,0) (0,0) (1,1) (0,1)` -/
inductive Corner where
  | c10 | c00 | c11 | c01
deriving Repr, DecidableEq

/-- `Region1D.total_pixels`, `Region2D.total_rows`, `Region2D.total_columns` -/
def R1.totalPixels (r : R1) : Int := r.x1 - r.x0
def R2.totalRows (r : R2) : Int := r.y1 - r.y0
def R2.totalColumns (r : R2) : Int := r.x1 - r.x0

namespace Impl

/-! ### constructors (validation) -/

/-- `Region1D.__init__`: negative coordinate or `x0 >= x1` raise. -/
def region1dNew (r : R1) : Option R1 :=
  if r.x0 < 0 ∨ r.x1 < 0 then none
  else if r.x0 ≥ r.x1 then none
  else some r

/-- `Region2D.__init__`: negative coordinate, `y0 >= y1` or `x0 >= x1` raise. -/
def region2dNew (r : R2) : Option R2 :=
  if r.y0 < 0 ∨ r.y1 < 0 ∨ r.x0 < 0 ∨ r.x1 < 0 then none
  else if r.y0 ≥ r.y1 then none
  else if r.x0 ≥ r.x1 then none
  else some r

/-! ### slicing -/

/-- `array[x0:x1]` for non-negative bounds -/
def slice1d (r : R1) (a : List α) : List α := (a.take r.x1.toNat).drop r.x0.toNat

/-- `array[y0:y1, x0:x1]` for non-negative bounds -/
def slice2d (r : R2) (a : List (List α)) : List (List α) :=
  ((a.take r.y1.toNat).drop r.y0.toNat).map fun row => (row.take r.x1.toNat).drop r.x0.toNat

/-! ### rotations -/

/-- `rotate_array_via_roe_corner_from` -/
def rotateArray (c : Corner) (a : List (List α)) : List (List α) :=
  match c with
  | .c10 => a
  | .c00 => a.reverse
  | .c11 => a.map List.reverse
  | .c01 => (a.reverse).map List.reverse

/-- `rotate_region_via_roe_corner_from(region, shape_native, roe_corner)` (region not `None`) -/
def rotateRegion (r : R2) (h w : Nat) (c : Corner) : Option R2 :=
  match c with
  | .c10 => region2dNew r
  | .c00 => region2dNew ⟨(h : Int) - r.y1, (h : Int) - r.y0, r.x0, r.x1⟩
  | .c11 => region2dNew ⟨r.y0, r.y1, (w : Int) - r.x1, (w : Int) - r.x0⟩
  | .c01 => region2dNew ⟨(h : Int) - r.y1, (h : Int) - r.y0, (w : Int) - r.x1, (w : Int) - r.x0⟩

/-! ### extraction -/

/-- `x0x1_after_extraction(x0o, x1o, x0e, x1e)`; the two `if/elif` ladders may leave `x0` / `x1`
    unbound (`none` here), which the `try … except UnboundLocalError` turns into `(None, None)`;
    the final test also returns `(None, None)`.  `none` = `(None, None)`. -/
def x0x1AfterExtraction (x0o x1o x0e x1e : Int) : Option (Int × Int) :=
  let x0 : Option Int :=
    if x0e ≥ x0o ∧ x0e ≤ x1o then some 0
    else if x0e ≤ x0o then some (x0o - x0e)
    else if x0e ≥ x0o then some 0
    else none
  let x1 : Option Int :=
    if x1e ≥ x0o ∧ x1e ≤ x1o then some (x1e - x0e)
    else if x1e > x1o then some (x1o - x0e)
    else none
  match x0, x1 with
  | some a, some b => if a < 0 ∨ b < 0 ∨ a = b then none else some (a, b)
  | _, _ => none

/-- outcome of a function that may return `None`, return a region, or raise `RegionException` -/
inductive Outcome (β : Type) where
  | value (b : β)
  | absent
  | raised
deriving Repr, DecidableEq

/-- `region_after_extraction(original_region, extraction_region)` (original not `None`) -/
def regionAfterExtraction (o e : R2) : Outcome R2 :=
  match x0x1AfterExtraction o.y0 o.y1 e.y0 e.y1, x0x1AfterExtraction o.x0 o.x1 e.x0 e.x1 with
  | some (y0, y1), some (x0, x1) =>
    match region2dNew ⟨y0, y1, x0, x1⟩ with
    | some r => .value r
    | none => .raised
  | _, _ => .absent

/-! ### front / trailing sub-regions -/

/-- the `pixels` / `pixels_from_end` argument handling shared by the `*_front_region_from` methods:
    `pixels_from_end = k` overrides `pixels` with `(total − k, total)`.  `none` = both absent (the
    Python then fails with a `TypeError`). -/
def frontPixels (total : Int) (pixels : Option (Int × Int)) (fromEnd : Option Int) :
    Option (Int × Int) :=
  match fromEnd with
  | some k => some (total - k, total)
  | none => pixels

/-- `Region1D.front_region_from` -/
def front1d (r : R1) (pixels : Int × Int) : Option R1 :=
  region1dNew ⟨r.x0 + pixels.1, r.x0 + pixels.2⟩

/-- `Region1D.trailing_region_from` -/
def trailing1d (r : R1) (pixels : Int × Int) : Option R1 :=
  region1dNew ⟨r.x1 + pixels.1, r.x1 + pixels.2⟩

/-- `Region2D.parallel_front_region_from` -/
def parallelFront (r : R2) (pixels : Int × Int) : Option R2 :=
  region2dNew ⟨r.y0 + pixels.1, r.y0 + pixels.2, r.x0, r.x1⟩

/-- `Region2D.parallel_trailing_region_from` -/
def parallelTrailing (r : R2) (pixels : Int × Int) : Option R2 :=
  region2dNew ⟨r.y1 + pixels.1, r.y1 + pixels.2, r.x0, r.x1⟩

/-- `Region2D.parallel_full_region_from(shape_2d)` -/
def parallelFull (r : R2) (shapeW : Int) : Option R2 :=
  region2dNew ⟨r.y0, r.y1, 0, shapeW⟩

/-- `Region2D.serial_x_front_range_from` -/
def serialXFrontRange (r : R2) (pixels : Int × Int) : Int × Int :=
  (r.x0 + pixels.1, r.x0 + pixels.2)

/-- `Region2D.serial_front_region_from` -/
def serialFront (r : R2) (pixels : Int × Int) : Option R2 :=
  let x := serialXFrontRange r pixels
  region2dNew ⟨r.y0, r.y1, x.1, x.2⟩

/-- `Region2D.serial_trailing_region_from` -/
def serialTrailing (r : R2) (pixels : Int × Int) : Option R2 :=
  region2dNew ⟨r.y0, r.y1, r.x1 + pixels.1, r.x1 + pixels.2⟩

/-- `Region2D.serial_towards_roe_full_region_from(shape_2d, pixels)` -/
def serialTowardsRoeFull (r : R2) (shapeH : Int) (pixels : Int × Int) : Option R2 :=
  let x := serialXFrontRange r pixels
  region2dNew ⟨0, shapeH, x.1, x.2⟩

/-! ### Layout2D (autoarray/layout/layout.py): three optional regions + shape + roe corner -/

/-- `Layout2D`: `shape_2d`, `original_roe_corner`, and the three optional `Region2D`s -/
structure Layout2D where
  h : Nat
  w : Nat
  roe : Corner
  parallelOverscan : Option R2
  serialPrescan : Option R2
  serialOverscan : Option R2
deriving Repr, DecidableEq

/-- a region argument that may be `None`: `None` stays `None`, a tuple goes through `f`
    (`none` = `f` raised) -/
def optRegion (f : R2 → Option R2) : Option R2 → Option (Option R2)
  | none => some none
  | some r => (f r).map some

/-- `Layout2D.__init__` with tuple (or `None`) regions: each tuple is validated by `Region2D`. -/
def layoutNew (h w : Nat) (roe : Corner) (po sp so : Option R2) : Option Layout2D :=
  (optRegion region2dNew po).bind fun po' =>
  (optRegion region2dNew sp).bind fun sp' =>
  (optRegion region2dNew so).bind fun so' =>
  some ⟨h, w, roe, po', sp', so'⟩

/-- `Layout2D.rotated_from_roe_corner(roe_corner, shape_native, …)`: every region is rotated with
    `shape_native` and `roe_corner`; the layout records `roe_corner` and `shape_native`. -/
def layoutRotatedFromRoeCorner (c : Corner) (h w : Nat) (po sp so : Option R2) : Option Layout2D :=
  (optRegion (fun r => rotateRegion r h w c) po).bind fun po' =>
  (optRegion (fun r => rotateRegion r h w c) sp).bind fun sp' =>
  (optRegion (fun r => rotateRegion r h w c) so).bind fun so' =>
  some ⟨h, w, c, po', sp', so'⟩

/-- `Layout2D.new_rotated_from(roe_corner)`: every region rotated with `self.shape_2d`; the new
    layout records `roe_corner` and keeps `shape_2d`. -/
def Layout2D.newRotatedFrom (l : Layout2D) (c : Corner) : Option Layout2D :=
  layoutRotatedFromRoeCorner c l.h l.w l.parallelOverscan l.serialPrescan l.serialOverscan

/-- `region_after_extraction` on a possibly-`None` region: `None` → `None`; outer `none` = raised -/
def optAfterExtraction (e : R2) : Option R2 → Option (Option R2)
  | none => some none
  | some o =>
    match regionAfterExtraction o e with
    | .value r => some (some r)
    | .absent => some none
    | .raised => none

/-- `Layout2D.layout_extracted_from(extraction_region)`: every region goes through
    `region_after_extraction`; `original_roe_corner` and `shape_2d` are kept as they are. -/
def Layout2D.extractedFrom (l : Layout2D) (e : R2) : Option Layout2D :=
  (optAfterExtraction e l.parallelOverscan).bind fun po' =>
  (optAfterExtraction e l.serialPrescan).bind fun sp' =>
  (optAfterExtraction e l.serialOverscan).bind fun so' =>
  some ⟨l.h, l.w, l.roe, po', sp', so'⟩

/-- `Layout2D.original_orientation_from(array)` -/
def Layout2D.originalOrientationFrom (l : Layout2D) (a : List (List α)) : List (List α) :=
  rotateArray l.roe a

/-- `Array2D.original_orientation` (header corner `c`): the native array rotated for `c` -/
def arrayOriginalOrientation (c : Corner) (native : List (List α)) : List (List α) :=
  rotateArray c native

/-- `Layout2D.extract_parallel_overscan_array_2d_from(array)` = `array.native[parallel_overscan.slice]`
    (`none`: the region is `None`, the Python fails with `AttributeError`) -/
def Layout2D.extractParallelOverscan (l : Layout2D) (a : List (List α)) : Option (List (List α)) :=
  l.parallelOverscan.map fun r => slice2d r a

/-- `Layout2D.extract_serial_overscan_array_from(array)` -/
def Layout2D.extractSerialOverscan (l : Layout2D) (a : List (List α)) : Option (List (List α)) :=
  l.serialOverscan.map fun r => slice2d r a

end Impl

/-! ## Spec layer -/
namespace Spec

/-- a region that is valid and lies inside an `h×w` frame -/
def R2.Inside (r : R2) (h w : Nat) : Prop :=
  0 ≤ r.y0 ∧ r.y0 < r.y1 ∧ r.y1 ≤ (h : Int) ∧ 0 ≤ r.x0 ∧ r.x0 < r.x1 ∧ r.x1 ≤ (w : Int)

/-- a valid region (what the constructor accepts) -/
def R2.Valid (r : R2) : Prop := 0 ≤ r.y0 ∧ r.y0 < r.y1 ∧ 0 ≤ r.x0 ∧ r.x0 < r.x1

def R1.Valid (r : R1) : Prop := 0 ≤ r.x0 ∧ r.x0 < r.x1

/-- overlap of two half-open intervals, expressed in the coordinates of the second one -/
def overlap1d (x0o x1o x0e x1e : Int) : Option (Int × Int) :=
  let lo := max x0o x0e
  let hi := min x1o x1e
  if lo < hi then some (lo - x0e, hi - x0e) else none

/-- the overlap of region and window in array coordinates (meaningful when both 1-D overlaps exist) -/
def overlapRegion (o e : R2) : R2 :=
  ⟨max o.y0 e.y0, min o.y1 e.y1, max o.x0 e.x0, min o.x1 e.x1⟩

/-- relation between a (possibly absent) region of a layout and its image in the rotated layout,
    seen on an `h×w` array `a`: absent stays absent; a present region becomes a valid region inside
    the array that slices from the rotated array the rotated content of the original region. -/
def RegionRotated (c : Corner) (h w : Nat) (a : List (List α)) : Option R2 → Option R2 → Prop
  | none, none => True
  | some r, some r' =>
    R2.Inside r' h w ∧ Impl.slice2d r' (Impl.rotateArray c a) = Impl.rotateArray c (Impl.slice2d r a)
  | _, _ => False

/-- relation between a (possibly absent) region of a layout and its image in the layout extracted
    for window `e`: absent stays absent; a present region is absent afterwards iff it does not
    overlap the window, and otherwise is the overlap in window coordinates, addressing inside the
    extracted window exactly the overlap's content (for every array). -/
def RegionExtracted (e : R2) : Option R2 → Option R2 → Prop
  | none, none => True
  | some o, none => ¬(max o.y0 e.y0 < min o.y1 e.y1 ∧ max o.x0 e.x0 < min o.x1 e.x1)
  | some o, some r' =>
    (max o.y0 e.y0 < min o.y1 e.y1 ∧ max o.x0 e.x0 < min o.x1 e.x1)
    ∧ r' = ⟨max o.y0 e.y0 - e.y0, min o.y1 e.y1 - e.y0, max o.x0 e.x0 - e.x0, min o.x1 e.x1 - e.x0⟩
    ∧ ∀ (β : Type) (a : List (List β)),
        Impl.slice2d r' (Impl.slice2d e a) = Impl.slice2d (overlapRegion o e) a
  | none, some _ => False

/-- every present region of a layout lies inside its `h×w` frame -/
def OptInside (h w : Nat) : Option R2 → Prop
  | none => True
  | some r => R2.Inside r h w

def OptValid : Option R2 → Prop
  | none => True
  | some r => R2.Valid r

end Spec
end Model
