/-
Model/Mapper.lean — mappers: mapping matrices, unique mappings, interpolation weights, neighbours
(property C06).  Mathlib-free; every real-valued definition is generic in the number type `α` (core
operator classes only) so that the driver runs it on exact `Rat` and `Proofs/Mapper*.lean` reason
about it over any ordered field.

Python sources transliterated here (commit pinned in /repo):
  autoarray/inversion/pixelization/mappers/mapper_util.py
        mapping_matrix_from, data_slim_to_pixelization_unique_from,
        pix_indexes_for_sub_slim_index_delaunay_from, pixel_weights_delaunay_from
  autoarray/inversion/pixelization/mappers/rectangular.py   MapperRectangular.pix_sub_weights
  autoarray/inversion/pixelization/mappers/delaunay.py      MapperDelaunay.pix_sub_weights
  autoarray/inversion/pixelization/mesh/mesh_util.py
        rectangular_neighbors_from (+ the six phase functions), delaunay_triangle_area_from
  autoarray/structures/mesh/rectangular_2d.py               Mesh2DRectangular.overlay_grid, .neighbors
  autoarray/structures/mesh/delaunay_2d.py                  Mesh2DDelaunay.neighbors
  autoarray/geometry/geometry_util.py
        central_pixel_coordinates_2d_from, central_scaled_coordinate_2d_from,
        grid_pixel_centres_2d_slim_from, grid_pixel_indexes_2d_slim_from
  autoarray/operators/over_sampling/over_sample_util.py
        slim_index_for_sub_slim_index_via_mask_2d_from;  uniform.py OverSamplerUniform.sub_fraction

Conventions.  Index tables are numpy integer arrays padded with `-1`: `List (List Int)`.  A table entry
that is *used* as an array position is read with `Int.toNat`; the driver refuses (error
`index_out_of_range`) inputs whose used entries are not in range, and the theorems carry that range
hypothesis, so numpy's negative-index wrap-around / IndexError is outside the modelled domain.
A loop whose iteration `i` only writes row `i` of a pre-allocated output and reads nothing written by
other iterations is rendered as `map` over `List.range`; all accumulating loops are `foldl`s in the
code's order.

Not modelled (inputs of the model, contract checked by the harness on every case): Qhull —
`Delaunay.simplices`, `Delaunay.find_simplex`, `Delaunay.vertex_neighbor_vertices`.
-/
import Model.Core

namespace Model

/-- `np.sum` of a 1-D array (right fold; the order is immaterial in a commutative monoid). -/
def sumList [Add α] [OfNat α 0] (l : List α) : α := l.foldr (· + ·) 0

/-- `np.abs` on an ordered number type. -/
def absG [LT α] [DecidableLT α] [Neg α] [OfNat α 0] (x : α) : α := if x < 0 then -x else x

/-- `int(np.max(a))` of a non-negative integer array. -/
def maxNat (l : List Nat) : Nat := l.foldl max 0

/-- the three tables of `PixSubWeights` (abstract.py): mappings (padded with -1), sizes, weights. -/
structure PixSubWeights (α : Type) where
  mappings : List (List Int)
  sizes : List Nat
  weights : List (List α)
deriving Repr

/-! ## Impl layer -/
namespace Impl

/-! ### over-sampling bookkeeping used by the mapper -/

/-- `over_sample_util.slim_index_for_sub_slim_index_via_mask_2d_from(mask_2d, sub_size)`:
    state = (output so far, slim_index); the running `sub_slim_index` is the output length. -/
def slimForSubSlim (m : Mask) (sub : List Nat) : List Nat :=
  (forYX m.h m.w
    (fun (st : List Nat × Nat) y x =>
      if !m.get y x then
        let s := sub.getD st.2 0
        (forYX s s (fun a _ _ => a ++ [st.2]) st.1, st.2 + 1)
      else st) ([], 0)).1

/-- `OverSamplerUniform.sub_fraction[i] = 1.0 / sub_size[i] ** 2` (the square is taken on ints). -/
def subFraction [NatCast α] [Div α] [OfNat α 1] (s : Nat) : α := 1 / ((s * s : Nat) : α)

/-! ### dense accumulation: `mapper_util.mapping_matrix_from` -/

/-- `arr[i] += v` -/
def addAt [Add α] [OfNat α 0] (l : List α) (i : Nat) (v : α) : List α := l.set i (l.getD i 0 + v)

/-- `M[i][p] += v` -/
def addAt2 [Add α] [OfNat α 0] (M : List (List α)) (i p : Nat) (v : α) : List (List α) :=
  M.set i (addAt (M.getD i []) p v)

/-- `mapping_matrix_from`: zeros (total_mask_pixels × pixels), then for every sub-pixel and every one of
    its `pix_size` mappings `M[slim][pix] += sub_fraction[slim] * weight`. -/
def mappingMatrix [Add α] [Mul α] [OfNat α 0]
    (idx : List (List Int)) (sizes : List Nat) (wts : List (List α)) (pixels total : Nat)
    (slimFor : List Nat) (frac : List α) : List (List α) :=
  (List.range slimFor.length).foldl
    (fun M sub =>
      let slim := slimFor.getD sub 0
      (List.range (sizes.getD sub 0)).foldl
        (fun M c =>
          let pix := ((idx.getD sub []).getD c 0).toNat
          let w := (wts.getD sub []).getD c 0
          addAt2 M slim pix (frac.getD slim 0 * w))
        M)
    (List.replicate total (List.replicate pixels 0))

/-! ### sparse unique mappings: `mapper_util.data_slim_to_pixelization_unique_from` -/

/-- per-data-pixel loop state: `pix_check` (position of a source pixel in the row, or -1), `pix_size`,
    and row `ip` of `data_to_pix_unique` / `data_weights`. -/
structure UniqueState (α : Type) where
  pixCheck : List Int
  pixSize : Nat
  d2p : List Int
  dw : List α
deriving Repr

/-- body of the innermost loop.  `pix_check` holds integers stored as floats; the code's test
    `pix_check[pix] > -0.5` is `0 ≤ pix_check[pix]` on integers. -/
def uniqueStep [Add α] [Mul α] [OfNat α 0] (frac : α) (st : UniqueState α) (pix : Nat) (w : α) :
    UniqueState α :=
  let chk := st.pixCheck.getD pix (-1)
  if 0 ≤ chk then
    { st with dw := addAt st.dw chk.toNat (frac * w) }
  else
    { pixCheck := st.pixCheck.set pix (Int.ofNat st.pixSize)
      pixSize := st.pixSize + 1
      d2p := st.d2p.set st.pixSize (Int.ofNat pix)
      dw := addAt st.dw st.pixSize (frac * w) }

/-- rows `ip` of the three outputs: the sub-pixels of data pixel `ip` are the contiguous block
    `start … start + s²`. -/
def uniqueRow [Add α] [Mul α] [OfNat α 0]
    (idx : List (List Int)) (sizes : List Nat) (wts : List (List α)) (pixPixels width : Nat)
    (frac : α) (start count : Nat) : UniqueState α :=
  (List.range' start count).foldl
    (fun st ipSub =>
      (List.range (sizes.getD ipSub 0)).foldl
        (fun st c =>
          uniqueStep frac st ((idx.getD ipSub []).getD c 0).toNat ((wts.getD ipSub []).getD c 0))
        st)
    { pixCheck := List.replicate pixPixels (-1), pixSize := 0,
      d2p := List.replicate width (-1), dw := List.replicate width 0 }

/-- `data_slim_to_pixelization_unique_from` → (data_to_pix_unique, data_weights, pix_lengths).
    The arrays have `max_pix_mappings * max(sub_size)**2` columns; state carries `ip_sub_start`. -/
def uniqueFrom [Add α] [Mul α] [Div α] [NatCast α] [OfNat α 0] [OfNat α 1]
    (dataPixels : Nat) (idx : List (List Int)) (sizes : List Nat) (wts : List (List α))
    (pixPixels : Nat) (subSize : List Nat) : List (List Int) × List (List α) × List Nat :=
  let width := maxNat sizes * (maxNat subSize * maxNat subSize)
  ((List.range dataPixels).foldl
    (fun (acc : (List (List Int) × List (List α) × List Nat) × Nat) ip =>
      let s := subSize.getD ip 0
      let st := uniqueRow idx sizes wts pixPixels width (subFraction s : α) acc.2 (s * s)
      ((acc.1.1 ++ [st.d2p], acc.1.2.1 ++ [st.dw], acc.1.2.2 ++ [st.pixSize]), acc.2 + s * s))
    (([], [], []), 0)).1

/-! ### Delaunay interpolation -/

/-- `mesh_util.delaunay_triangle_area_from` -/
def triangleArea [Add α] [Sub α] [Mul α] [Div α] [Neg α] [LT α] [DecidableLT α]
    [OfNat α 0] [OfNat α 1] [OfNat α 2] (c0 c1 c2 : α × α) : α :=
  let x1 := c0.1; let y1 := c0.2
  let x2 := c1.1; let y2 := c1.2
  let x3 := c2.1; let y3 := c2.2
  (1 / 2) * absG (x1 * y2 + x2 * y3 + x3 * y1 - x2 * y1 - x3 * y2 - x1 * y3)

/-- `np.argmin` of a 1-D array: index of the first occurrence of the minimum.
    state = (best index, best value, next index). -/
def argminFirst [LT α] [DecidableLT α] : List α → Nat
  | [] => 0
  | a :: t =>
    (t.foldl (fun (st : Nat × α × Nat) v =>
        if v < st.2.1 then (st.2.2, v, st.2.2 + 1) else (st.1, st.2.1, st.2.2 + 1)) (0, a, 1)).1

/-- one entry of `np.sum((delaunay_points - p) ** 2.0, axis=1)` -/
def sqDist [Add α] [Sub α] [Mul α] (p q : α × α) : α :=
  (q.1 - p.1) * (q.1 - p.1) + (q.2 - p.2) * (q.2 - p.2)

/-- `pix_indexes_for_sub_slim_index_delaunay_from` → (mappings, sizes):
    row i = the vertex triple of the simplex Qhull located the point in, or
    `[argmin squared distance, -1, -1]` when `find_simplex` returned -1;
    sizes = number of entries ≥ 0 per row. -/
def pixIndexesDelaunay [Add α] [Sub α] [Mul α] [LT α] [DecidableLT α] [OfNat α 0]
    (grid : List (α × α)) (simplexFor : List Int) (simplices : List (List Int))
    (points : List (α × α)) : List (List Int) × List Nat :=
  let rows := (List.range grid.length).map fun i =>
    let s := simplexFor.getD i (-1)
    if s != -1 then simplices.getD s.toNat [-1, -1, -1]
    else [Int.ofNat (argminFirst (points.map (sqDist (grid.getD i (0, 0))))), -1, -1]
  (rows, rows.map fun r => (r.filter (0 ≤ ·)).length)

/-- the three area-ratio weights of one point `p` w.r.t. the triangle `(v0, v1, v2)` -/
def baryWeights [Add α] [Sub α] [Mul α] [Div α] [Neg α] [LT α] [DecidableLT α]
    [OfNat α 0] [OfNat α 1] [OfNat α 2] (v0 v1 v2 p : α × α) : List α :=
  let a0 := triangleArea v1 v2 p
  let a1 := triangleArea v0 v2 p
  let a2 := triangleArea v0 v1 p
  let norm := a0 + a1 + a2
  [a0 / norm, a1 / norm, a2 / norm]

/-- `pixel_weights_delaunay_from`: rows of three weights; branch on `pix_indexes[1] != -1`. -/
def pixelWeightsDelaunay [Add α] [Sub α] [Mul α] [Div α] [Neg α] [LT α] [DecidableLT α]
    [OfNat α 0] [OfNat α 1] [OfNat α 2]
    (grid mesh : List (α × α)) (nSub : Nat) (idx : List (List Int)) : List (List α) :=
  (List.range nSub).map fun sub =>
    let pix := idx.getD sub []
    if pix.getD 1 (-1) != -1 then
      let v := fun k => mesh.getD (pix.getD k 0).toNat (0, 0)
      baryWeights (v 0) (v 1) (v 2) (grid.getD sub (0, 0))
    else [1, 0, 0]

/-- `MapperDelaunay.pix_sub_weights` given Qhull's answers. -/
def delaunayPixSubWeights [Add α] [Sub α] [Mul α] [Div α] [Neg α] [LT α] [DecidableLT α]
    [OfNat α 0] [OfNat α 1] [OfNat α 2]
    (grid mesh : List (α × α)) (simplexFor : List Int) (simplices : List (List Int)) :
    PixSubWeights α :=
  let ms := pixIndexesDelaunay grid simplexFor simplices mesh
  { mappings := ms.1, sizes := ms.2,
    weights := pixelWeightsDelaunay grid mesh grid.length ms.1 }

/-- `Mesh2DDelaunay.neighbors` from the CSR pair `vertex_neighbor_vertices = (indptr, indices)`:
    `sizes = indptr[1:] - indptr[:-1]`; row k = `indices[indptr[k]:indptr[k+1]]` padded with -1 to
    `max(sizes)` columns. -/
def delaunayNeighbors (indptr indices : List Nat) (n : Nat) : List (List Int) × List Nat :=
  let sizes := (List.range n).map fun k => indptr.getD (k + 1) 0 - indptr.getD k 0
  let width := maxNat sizes
  let rows := (List.range n).map fun k =>
    let sl := (indices.drop (indptr.getD k 0)).take (sizes.getD k 0)
    sl.map Int.ofNat ++ List.replicate (width - sl.length) (-1)
  (rows, sizes)

/-! ### rectangular mesh: geometry, cell index -/

/-- `np.min` / `np.max` of a 1-D array (first element as start value). -/
def listMin [LT α] [DecidableLT α] [OfNat α 0] : List α → α
  | [] => 0
  | a :: t => t.foldl (fun m v => if v < m then v else m) a

def listMax [LT α] [DecidableLT α] [OfNat α 0] : List α → α
  | [] => 0
  | a :: t => t.foldl (fun m v => if m < v then v else m) a

/-- geometry of a uniform mesh: shape, pixel scales (y,x), origin (y,x). -/
structure RectGeom (α : Type) where
  h : Nat
  w : Nat
  sy : α
  sx : α
  oy : α
  ox : α
deriving Repr

/-- `Mesh2DRectangular.overlay_grid(shape_native, grid, buffer)` → pixel scales and origin. -/
def overlayGrid [Add α] [Sub α] [Div α] [NatCast α] [LT α] [DecidableLT α] [OfNat α 0] [OfNat α 2]
    (h w : Nat) (grid : List (α × α)) (buffer : α) : RectGeom α :=
  let yMin := listMin (grid.map (·.1)) - buffer
  let yMax := listMax (grid.map (·.1)) + buffer
  let xMin := listMin (grid.map (·.2)) - buffer
  let xMax := listMax (grid.map (·.2)) + buffer
  { h := h, w := w
    sy := (yMax - yMin) / (h : α), sx := (xMax - xMin) / (w : α)
    oy := (yMax + yMin) / 2, ox := (xMax + xMin) / 2 }

/-- `central_scaled_coordinate_2d_from` on top of `central_pixel_coordinates_2d_from`
    (`float(shape[0] - 1) / 2`: the subtraction is on ints). -/
def centralScaled [Add α] [Sub α] [Div α] [NatCast α] [OfNat α 2] (g : RectGeom α) : α × α :=
  (((g.h - 1 : Nat) : α) / 2 + g.oy / g.sy, ((g.w - 1 : Nat) : α) / 2 - g.ox / g.sx)

/-- the real-valued pixel coordinate whose `int()` is the cell:
    `(-y / sy) + centre_y + 0.5`, `(x / sx) + centre_x + 0.5`. -/
def pixelCoord [Add α] [Sub α] [Div α] [Neg α] [NatCast α] [OfNat α 1] [OfNat α 2]
    (g : RectGeom α) (p : α × α) : α × α :=
  let c := centralScaled g
  ((-p.1 / g.sy) + c.1 + 1 / 2, (p.2 / g.sx) + c.2 + 1 / 2)

/-- `grid_pixel_centres_2d_slim_from`; `trunc` is Python's `int()` (truncation toward zero). -/
def gridPixelCentres [Add α] [Sub α] [Div α] [Neg α] [NatCast α] [OfNat α 1] [OfNat α 2]
    (trunc : α → Int) (g : RectGeom α) (grid : List (α × α)) : List (Int × Int) :=
  grid.map fun p => let c := pixelCoord g p; (trunc c.1, trunc c.2)

/-- `grid_pixel_indexes_2d_slim_from`: `int(y_pix * shape[1] + x_pix)`. -/
def gridPixelIndexes [Add α] [Sub α] [Div α] [Neg α] [NatCast α] [OfNat α 1] [OfNat α 2]
    (trunc : α → Int) (g : RectGeom α) (grid : List (α × α)) : List Int :=
  (gridPixelCentres trunc g grid).map fun c => c.1 * (g.w : Int) + c.2

/-- `MapperRectangular.pix_sub_weights`: one mapping per sub-pixel with weight 1. -/
def rectPixSubWeights [Add α] [Sub α] [Div α] [Neg α] [NatCast α] [OfNat α 1] [OfNat α 2]
    (trunc : α → Int) (g : RectGeom α) (grid : List (α × α)) : PixSubWeights α :=
  { mappings := (gridPixelIndexes trunc g grid).map fun k => [k]
    sizes := grid.map fun _ => 1
    weights := grid.map fun _ => [1] }

/-! ### rectangular neighbours: `mesh_util.rectangular_neighbors_from`, phase by phase -/

abbrev NbTable := List (List Int) × List Nat

/-- `neighbors[k, 0:len(vals)] = vals; neighbors_sizes[k] = len(vals)` -/
def setRow (nb : NbTable) (k : Nat) (vals : List Int) : NbTable :=
  (nb.1.set k (vals ++ (nb.1.getD k []).drop vals.length), nb.2.set k vals.length)

/-- `rectangular_corner_neighbors` -/
def rectCorner (H W : Nat) (nb : NbTable) : NbTable :=
  let pixels := H * W
  let w : Int := W
  let px : Int := pixels
  let nb := setRow nb 0 [1, w]
  let nb := setRow nb (W - 1) [w - 2, w + w - 1]
  let nb := setRow nb (pixels - W) [px - w * 2, px - w + 1]
  setRow nb (pixels - 1) [px - w - 1, px - 2]

/-- `rectangular_top_edge_neighbors`: `for pix in range(1, W - 1)` -/
def rectTop (_H W : Nat) (nb : NbTable) : NbTable :=
  (List.range' 1 (W - 2)).foldl
    (fun nb (pix : Nat) => let k : Int := pix; setRow nb pix [k - 1, k + 1, k + W]) nb

/-- `rectangular_left_edge_neighbors`: `for pix in range(1, H - 1)`, `pixel_index = pix * W` -/
def rectLeft (H W : Nat) (nb : NbTable) : NbTable :=
  (List.range' 1 (H - 2)).foldl
    (fun nb (pix : Nat) => let k : Int := (pix * W : Nat); setRow nb (pix * W) [k - W, k + 1, k + W]) nb

/-- `rectangular_right_edge_neighbors`: `pixel_index = pix * W + W - 1` -/
def rectRight (H W : Nat) (nb : NbTable) : NbTable :=
  (List.range' 1 (H - 2)).foldl
    (fun nb (pix : Nat) =>
      let k : Int := (pix * W + W - 1 : Nat); setRow nb (pix * W + W - 1) [k - W, k - 1, k + W]) nb

/-- `rectangular_bottom_edge_neighbors`: `for pix in range(1, W - 1)`, `pixel_index = pixels - pix - 1` -/
def rectBottom (H W : Nat) (nb : NbTable) : NbTable :=
  (List.range' 1 (W - 2)).foldl
    (fun nb (pix : Nat) =>
      let k : Int := (H * W - pix - 1 : Nat); setRow nb (H * W - pix - 1) [k - W, k - 1, k + 1]) nb

/-- `rectangular_central_neighbors`: `for x in range(1, H-1): for y in range(1, W-1)` -/
def rectCentral (H W : Nat) (nb : NbTable) : NbTable :=
  (List.range' 1 (H - 2)).foldl
    (fun nb (x : Nat) =>
      (List.range' 1 (W - 2)).foldl
        (fun nb (y : Nat) =>
          let k : Int := (x * W + y : Nat); setRow nb (x * W + y) [k - W, k - 1, k + 1, k + W]) nb)
    nb

/-- `rectangular_neighbors_from(shape_native=(H, W))` → (neighbors (pixels×4, -1 padded), sizes). -/
def rectNeighbors (H W : Nat) : NbTable :=
  let nb : NbTable := (List.replicate (H * W) [-1, -1, -1, -1], List.replicate (H * W) 0)
  rectCentral H W (rectBottom H W (rectRight H W (rectLeft H W (rectTop H W (rectCorner H W nb)))))

end Impl

/-! ## Spec layer -/
namespace Spec

/-- the slim index of every sub-pixel: pixel `i` repeated `s_i²` times, in slim order. -/
def slimForSubSlim (sub : List Nat) : List Nat :=
  (List.range sub.length).flatMap fun i => List.replicate (sub.getD i 0 * sub.getD i 0) i

/-- (row, column, value) contributions of a mapper: one per (sub-pixel, mapping slot). -/
def triples [Mul α] [OfNat α 0]
    (idx : List (List Int)) (sizes : List Nat) (wts : List (List α)) (slimFor : List Nat)
    (frac : List α) : List (Nat × Nat × α) :=
  (List.range slimFor.length).flatMap fun sub =>
    (List.range (sizes.getD sub 0)).map fun c =>
      (slimFor.getD sub 0, ((idx.getD sub []).getD c 0).toNat,
        frac.getD (slimFor.getD sub 0) 0 * (wts.getD sub []).getD c 0)

/-- entry (i,p) of the matrix a list of contributions denotes: the sum of the matching values. -/
def entryOf [Add α] [OfNat α 0] (ts : List (Nat × Nat × α)) (i p : Nat) : α :=
  sumList ((ts.filter fun t => t.1 == i && t.2.1 == p).map (·.2.2))

/-- the (source pixel, weight) mappings of data pixel block `start … start+count`, in loop order. -/
def entries [OfNat α 0]
    (idx : List (List Int)) (sizes : List Nat) (wts : List (List α)) (start count : Nat) :
    List (Nat × α) :=
  (List.range' start count).flatMap fun sub =>
    (List.range (sizes.getD sub 0)).map fun c =>
      (((idx.getD sub []).getD c 0).toNat, (wts.getD sub []).getD c 0)

/-- dense row denoted by one row of the unique tables, as the w-tilde routines read it:
    `for k in range(pix_lengths[ip]): out[data_to_pix_unique[ip,k]] += data_weights[ip,k]`. -/
def denseRowOfUnique [Add α] [OfNat α 0] (d2p : List Int) (dw : List α) (len : Nat) (p : Nat) : α :=
  sumList (((List.range len).filter fun k => d2p.getD k (-1) == Int.ofNat p).map fun k => dw.getD k 0)

/-- Delaunay adjacency derived from a simplex list: the vertices `j ≠ k` sharing a simplex with `k`,
    ascending.  (Two vertices of a triangle always span one of its edges.) -/
def neighborsFromSimplices (n : Nat) (simplices : List (List Nat)) : List (List Nat) :=
  (List.range n).map fun k =>
    (List.range n).filter fun j => j != k && simplices.any fun s => s.contains k && s.contains j

/-- 4-connectivity of pixel `k = y*W + x` in an `H×W` frame, ascending (up, left, right, down). -/
def fourNeighbors (H W k : Nat) : List Int :=
  let y := k / W
  let x := k % W
  (if 0 < y then [(k : Int) - W] else []) ++ (if 0 < x then [(k : Int) - 1] else [])
    ++ (if x + 1 < W then [(k : Int) + 1] else []) ++ (if y + 1 < H then [(k : Int) + W] else [])

/-- the table `rectangular_neighbors_from` should produce. -/
def rectNeighbors (H W : Nat) : List (List Int) × List Nat :=
  ((List.range (H * W)).map fun k =>
      fourNeighbors H W k ++ List.replicate (4 - (fourNeighbors H W k).length) (-1),
   (List.range (H * W)).map fun k => (fourNeighbors H W k).length)

end Spec

end Model
