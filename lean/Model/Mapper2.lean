/-
Model/Mapper2.lean — hand model (Mathlib-free) for property C06, part 2:
`autoarray/inversion/pixelization/mappers/mapper_util.py : mapped_to_source_via_mapping_matrix_from` and
`autoarray/inversion/pixelization/mesh/mesh_util.py : voronoi_neighbors_from` (second half of this file).

* `Impl.mappedToSource` is the loop-for-loop transliteration of the Python that exists today (two
  accumulators filled by the `for i: for j:` nest, then the normalisation loop);
* `Spec.mappedToSource` is the per-source-pixel statement: entry `j` is the left-to-right sum over the rows
  `i` with `M[i, j] > 0` of `v[i] * M[i, j]`, divided by the number of such rows when there is one.

The refinement lemma `Impl = Spec` (all sizes, no algebraic assumption on `α`, so it holds for floats with
their evaluation order) is `Proofs.Mapper2.mappedToSource_eq`; the loop tie
`Generated.LoopsMapper2.mapped_to_source_via_mapping_matrix_from = Impl.mappedToSource` is
`TieMapper2.mapped_to_source_via_mapping_matrix_from_tie`.

The mapping matrix is given by its shape `n × p` and its row-major data `M` (entry `(i, j)` at `i * p + j`).
-/
import Model.Core
import Model.Mapper

namespace Model

namespace Impl

/-- `mapper_util.mapped_to_source_via_mapping_matrix_from(mapping_matrix, array_slim)`:
    ```
    mapped_to_source = np.zeros(p); source_pixel_count = np.zeros(p)
    for i in range(n):
        for j in range(p):
            if mapping_matrix[i, j] > 0:
                mapped_to_source[j] += array_slim[i] * mapping_matrix[i, j]
                source_pixel_count[j] += 1
    for j in range(p):
        if source_pixel_count[j] > 0:
            mapped_to_source[j] /= source_pixel_count[j]
    ``` -/
def mappedToSource {α : Type} [Add α] [Mul α] [Div α] [OfNat α 0] [OfNat α 1] [LT α] [DecidableLT α]
    (n p : Nat) (M : List α) (v : List α) : List α :=
  let st := forYX n p (fun (st : List α × List α) i j =>
      if M.getD (i * p + j) 0 > 0 then
        (st.1.set j (st.1.getD j 0 + v.getD i 0 * M.getD (i * p + j) 0),
         st.2.set j (st.2.getD j 0 + 1))
      else st) (List.replicate p (0 : α), List.replicate p (0 : α))
  (List.range p).foldl (fun (acc : List α) j =>
      if st.2.getD j 0 > 0 then acc.set j (acc.getD j 0 / st.2.getD j 0) else acc) st.1

/-- point write `a[i, j] = x` into a table given by its rows (out of range: no-op, IndexError in Python) -/
def setAt2 (M : List (List Int)) (i j : Nat) (x : Int) : List (List Int) :=
  M.set i ((M.getD i []).set j x)

/-- first pass of `mesh_util.voronoi_neighbors_from`:
    ```
    neighbors_sizes = np.zeros(shape=(pixels))
    for ridge_index in range(ridge_points.shape[0]):
        pair0 = ridge_points[ridge_index, 0]; pair1 = ridge_points[ridge_index, 1]
        neighbors_sizes[pair0] += 1
        neighbors_sizes[pair1] += 1
    ```
    (the counters are floats holding natural numbers; modelled as `Nat`) -/
def voronoiSizes (pixels : Nat) (ridges : List (Nat × Nat)) : List Nat :=
  ridges.foldl (fun s r =>
    let s := s.set r.1 (s.getD r.1 0 + 1)
    s.set r.2 (s.getD r.2 0 + 1)) (List.replicate pixels 0)

/-- `mesh_util.voronoi_neighbors_from(pixels, ridge_points)`, second pass and result:
    ```
    neighbors_index = np.zeros(shape=(pixels))
    neighbors = -1 * np.ones(shape=(pixels, int(np.max(neighbors_sizes))))
    for ridge_index in range(ridge_points.shape[0]):
        pair0 = ridge_points[ridge_index, 0]; pair1 = ridge_points[ridge_index, 1]
        neighbors[pair0, int(neighbors_index[pair0])] = pair1
        neighbors[pair1, int(neighbors_index[pair1])] = pair0
        neighbors_index[pair0] += 1
        neighbors_index[pair1] += 1
    return neighbors, neighbors_sizes
    ```
    The table is returned by its rows (each of length `maxNat sizes`). -/
def voronoiNeighbors (pixels : Nat) (ridges : List (Nat × Nat)) : List (List Int) × List Nat :=
  let sizes := voronoiSizes pixels ridges
  let st := ridges.foldl (fun (st : List Nat × List (List Int)) r =>
      let nb := setAt2 st.2 r.1 (st.1.getD r.1 0) (r.2 : Int)
      let nb := setAt2 nb r.2 (st.1.getD r.2 0) (r.1 : Int)
      let idx := st.1.set r.1 (st.1.getD r.1 0 + 1)
      let idx := idx.set r.2 (idx.getD r.2 0 + 1)
      (idx, nb))
    (List.replicate pixels 0, List.replicate pixels (List.replicate (maxNat sizes) (-1 : Int)))
  (st.2, sizes)

end Impl

namespace Spec

/-- the sum `Σ_{i < n, M[i,j] > 0} v[i] * M[i,j]`, accumulated from `0` in increasing `i` -/
def colSum {α : Type} [Add α] [Mul α] [OfNat α 0] [LT α] [DecidableLT α]
    (n p : Nat) (M : List α) (v : List α) (j : Nat) : α :=
  (List.range n).foldl (fun s i =>
    if M.getD (i * p + j) 0 > 0 then s + v.getD i 0 * M.getD (i * p + j) 0 else s) 0

/-- the number of rows `i < n` with `M[i,j] > 0`, as the code accumulates it (`0 + 1 + … + 1` in `α`) -/
def colCount {α : Type} [Add α] [OfNat α 0] [OfNat α 1] [LT α] [DecidableLT α]
    (n p : Nat) (M : List α) (j : Nat) : α :=
  (List.range n).foldl (fun s i => if M.getD (i * p + j) 0 > 0 then s + 1 else s) 0

/-- entry `j` of the result: the column sum, divided by the column count when that is positive -/
def mappedToSource {α : Type} [Add α] [Mul α] [Div α] [OfNat α 0] [OfNat α 1] [LT α] [DecidableLT α]
    (n p : Nat) (M : List α) (v : List α) : List α :=
  (List.range p).map fun j =>
    if colCount n p M j > 0 then colSum n p M v j / colCount n p M j else colSum n p M v j

/-- the neighbours of pixel `p` in ridge order: the other end of every ridge one of whose ends is `p` -/
def voronoiAdj (ridges : List (Nat × Nat)) (p : Nat) : List Nat :=
  ridges.flatMap fun r => (if r.1 = p then [r.2] else []) ++ (if r.2 = p then [r.1] else [])

/-- `voronoi_neighbors_from`: row `p` of the table lists the neighbours of `p` in ridge order, padded with
    `-1` to the largest neighbour count; `neighbors_sizes[p]` is the number of neighbours of `p`. -/
def voronoiNeighbors (pixels : Nat) (ridges : List (Nat × Nat)) : List (List Int) × List Nat :=
  let sizes := (List.range pixels).map fun p => (voronoiAdj ridges p).length
  ((List.range pixels).map fun p =>
      (voronoiAdj ridges p).map (fun (k : Nat) => (k : Int))
        ++ List.replicate (maxNat sizes - (voronoiAdj ridges p).length) (-1 : Int),
   sizes)

end Spec

end Model
