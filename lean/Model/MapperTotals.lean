/-
Model/MapperTotals.lean — `mapper_util.data_weight_total_for_pix_from` (property C06, mappers): the total
interpolation weight every source pixel receives from the data sub-pixels.

  autoarray/inversion/pixelization/mappers/mapper_util.py   data_weight_total_for_pix_from

Impl = the loop as written (`np.zeros(pixels)`, then for every sub-pixel row the `zip` of its index row and its
weight row, `pix_weight_total[int(pix_index)] += weight`); the index table is the numpy table AS STORED (the `-1`
padding included), read with numpy's negative-index wrap `pyIdx` — a padded entry adds its (zero) weight to the
last pixel, exactly as the code does.  Spec = the double sum.  Refinement: Proofs/MapperTotals.lean; loop tie:
Proofs/TieDelaunay.lean.  Mathlib-free.
-/
import Model.Core
import Model.Regularization

namespace Model

namespace Impl

/-- the inner loop `for pix_index, weight in zip(pix_indexes, weights): total[int(pix_index)] += weight` -/
def addRowWeights {α : Type} [Add α] [Zero α] (pixels : Nat) (tot : List α) (row : List Int) (ws : List α) : List α :=
  (List.zip (row.map (pyIdx pixels)) ws).foldl (fun t p => t.set p.1 (t.getD p.1 0 + p.2)) tot

/-- `mapper_util.data_weight_total_for_pix_from` -/
def dataWeightTotal {α : Type} [Add α] [Zero α] (pixels : Nat) (idx : List (List Int)) (wts : List (List α)) :
    List α :=
  (List.range idx.length).foldl
    (fun tot sub => addRowWeights pixels tot (idx.getD sub []) (wts.getD sub []))
    (List.replicate pixels 0)

end Impl

namespace Spec

/-- what row `sub` contributes to source pixel `q`: the weights of the slots whose index (read the numpy way)
    is `q` -/
def rowWeightOf {α : Type} [Add α] [Zero α] (pixels : Nat) (row : List Int) (ws : List α) (q : Nat) : α :=
  ((List.zip (row.map (pyIdx pixels)) ws).map fun p => if p.1 = q then p.2 else 0).sum

/-- `pix_weight_total[q]` = the sum over all sub-pixels of the weights mapped to `q` -/
def dataWeightTotal {α : Type} [Add α] [Zero α] (pixels : Nat) (idx : List (List Int)) (wts : List (List α))
    (q : Nat) : α :=
  ((List.range idx.length).map fun sub => rowWeightOf pixels (idx.getD sub []) (wts.getD sub []) q).sum

end Spec

end Model
