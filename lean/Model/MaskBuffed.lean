/-
Model/MaskBuffed.lean — the buffed mask (property C10, loop tie `LoopsMaskSets2`).

Python source transliterated here:
  autoarray/mask/mask_2d_util.py      buffed_mask_2d_from(mask_2d, buffer)

`Impl.buffedBits` is the loop-for-loop transliteration (copy of the mask, then for every unmasked pixel
`(y, x)` the window `range(y - buffer, y + 1 + buffer) × range(x - buffer, x + 1 + buffer)` is scanned and
every target inside the frame is set to `False`).  `Spec.buffedBits` is the set characterisation: a pixel
is masked in the result iff it is masked in the input and no unmasked pixel of the input lies within the
buffer window around it.  Mathlib-free.
-/
import Model.Core
import Model.MaskSets

namespace Model

namespace Impl

/-- the body of the innermost loop of `buffed_mask_2d_from` for the target `(y0, x0)`:
    `if y0 >= 0 and x0 >= 0 and y0 <= shape[0] - 1 and x0 <= shape[1] - 1: buffed[y0, x0] = False` -/
def buffStep (m : Mask) (y0 x0 : Int) (b : List Bool) : List Bool :=
  if 0 ≤ y0 ∧ 0 ≤ x0 ∧ y0 ≤ (m.h : Int) - 1 ∧ x0 ≤ (m.w : Int) - 1 then
    b.set (y0.toNat * m.w + x0.toNat) false
  else b

/-- `buffed_mask_2d_from(mask_2d, buffer)`: `mask_2d.copy()`, then for every unmasked pixel the
    `(2·buffer + 1)²` window around it, clipped to the frame, is unmasked.  (A negative `buffer`
    gives empty `range`s: the result is the copy.) -/
def buffedBits (m : Mask) (buffer : Int) : List Bool :=
  forYX m.h m.w
    (fun acc y x =>
      if !m.get y x then
        (intRange ((y : Int) - buffer) ((y : Int) + 1 + buffer)).foldl
          (fun acc y0 =>
            (intRange ((x : Int) - buffer) ((x : Int) + 1 + buffer)).foldl
              (fun acc x0 => buffStep m y0 x0 acc) acc)
          acc
      else acc)
    m.bits

/-- the buffed mask as a `Mask` of the same shape -/
def buffedMask (m : Mask) (buffer : Int) : Mask := { h := m.h, w := m.w, bits := buffedBits m buffer }

end Impl

namespace Spec

/-- pixel `q` lies in the buffer window of pixel `p`: `p.y - buffer ≤ q.y ≤ p.y + buffer`, same in `x` -/
def inWindow (buffer : Int) (p q : Nat × Nat) : Bool :=
  decide ((p.1 : Int) - buffer ≤ (q.1 : Int)) && decide ((q.1 : Int) < (p.1 : Int) + 1 + buffer)
    && decide ((p.2 : Int) - buffer ≤ (q.2 : Int)) && decide ((q.2 : Int) < (p.2 : Int) + 1 + buffer)

/-- some unmasked pixel of `m` has `q` in its buffer window -/
def nearUnmasked (m : Mask) (buffer : Int) (q : Nat × Nat) : Bool :=
  (pixels m.h m.w).any fun p => !m.get p.1 p.2 && inWindow buffer p q

/-- the buffed mask, pixel by pixel: masked iff masked in the input and no unmasked pixel of the input
    lies within the buffer window.  (For `buffer ≥ 0` an unmasked pixel is in its own window, so this is
    "unmasked iff some unmasked pixel is within the window": `Proofs.MaskBuffed.buffed_unmasked_iff`.) -/
def buffedBits (m : Mask) (buffer : Int) : List Bool :=
  (pixels m.h m.w).map fun q => m.get q.1 q.2 && !nearUnmasked m buffer q

end Spec

end Model
