/-
Model/MaskSets.lean — blurring, edge and border pixel sets and their views (property C10).

Python sources transliterated here (the tree WITH repair D6, fixes/D6-edge-pixels-outer-ring.patch):
  autoarray/mask/mask_2d_util.py      blurring_mask_2d_from, check_if_edge_pixel,
                                      total_edge_pixels_from, edge_1d_indexes_from,
                                      check_if_border_pixel, total_border_pixels_from,
                                      border_slim_indexes_from
  autoarray/mask/derive/mask_2d.py    blurring_from (odd-kernel check), edge, border
  autoarray/mask/derive/indexes_2d.py edge_slim, edge_native, border_slim, border_native
  autoarray/mask/derive/grid_2d.py    edge, border (pixel centres gathered at the slim indices)
  autoarray/structures/grids/grid_2d_util.py   grid_2d_slim_via_mask_from
  autoarray/geometry/geometry_util.py central_pixel_coordinates_2d_from,
                                      central_scaled_coordinate_2d_from
`Impl.edgeSlimAsIs` keeps the pre-repair loops (interior scan, interior-only counter) so that the
defect D6 stays exhibited by a machine-checked witness in Props/C10.lean.
-/
import Model.Core
import Model.Slim

namespace Model

/-- `range(lo, hi)` over the integers. -/
def intRange (lo hi : Int) : List Int :=
  (List.range (hi - lo).toNat).map fun (i : Nat) => lo + (i : Int)

namespace Impl

/-! ## blurring mask -/

/-- the body of the innermost loop of `blurring_mask_2d_from` for source pixel `(y,x)` and offset
    `(y1,x1)`.  `none` = the `MaskException` ("extends beyond the edge") has been raised. -/
def blurStep (m : Mask) (y x : Nat) (y1 x1 : Int) (acc : Option (List Bool)) : Option (List Bool) :=
  match acc with
  | none => none
  | some b =>
    let ty : Int := (y : Int) + y1
    let tx : Int := (x : Int) + x1
    if 0 ≤ tx ∧ tx ≤ (m.w : Int) - 1 ∧ 0 ≤ ty ∧ ty ≤ (m.h : Int) - 1 then
      if m.get ty.toNat tx.toNat then some (b.set (ty.toNat * m.w + tx.toNat) false) else some b
    else none

/-- `blurring_mask_2d_from(mask_2d, kernel_shape_native)`: all `True`, then for every unmasked
    pixel the offsets `range((-k0+1)//2, (k0+1)//2) × range((-k1+1)//2, (k1+1)//2)`; a target in
    the frame is unmasked in the result when it is masked in `mask_2d`; a target outside raises.
    (Lean's `/` on `Int` with a positive divisor is floor division, as Python's `//`.) -/
def blurringBits (m : Mask) (kh kw : Nat) : Option (List Bool) :=
  forYX m.h m.w
    (fun acc y x =>
      if !m.get y x then
        (intRange ((-(kh : Int) + 1) / 2) (((kh : Int) + 1) / 2)).foldl
          (fun acc y1 =>
            (intRange ((-(kw : Int) + 1) / 2) (((kw : Int) + 1) / 2)).foldl
              (fun acc x1 => blurStep m y x y1 x1 acc) acc)
          acc
      else acc)
    (some (List.replicate (m.h * m.w) true))

/-- outcome of `DeriveMask2D.blurring_from`. -/
inductive BlurResult where
  | evenKernel                -- MaskException("psf_size of exterior region must be odd")
  | footprintOutside          -- MaskException("... extends beyond the edge of the mask ...")
  | ok (blurring : Mask)
deriving Repr, DecidableEq

/-- `DeriveMask2D.blurring_from(kernel_shape_native)`: odd check first, then the util function. -/
def blurringFrom (m : Mask) (kh kw : Nat) : BlurResult :=
  if kh % 2 == 0 || kw % 2 == 0 then .evenKernel
  else match blurringBits m kh kw with
    | none => .footprintOutside
    | some b => .ok { h := m.h, w := m.w, bits := b }

/-! ## edge pixels -/

/-- the eight-neighbour disjunction of `check_if_edge_pixel` (only reached for interior pixels). -/
def anyNeighbourMasked (m : Mask) (y x : Nat) : Bool :=
  m.get (y + 1) x || m.get (y - 1) x || m.get y (x + 1) || m.get y (x - 1)
    || m.get (y + 1) (x + 1) || m.get (y + 1) (x - 1) || m.get (y - 1) (x + 1)
    || m.get (y - 1) (x - 1)

/-- `check_if_edge_pixel` (repaired): a pixel on the outer row/column is an edge pixel (neighbours
    beyond the array count as masked); otherwise the eight-neighbour disjunction. -/
def checkIfEdgePixel (m : Mask) (y x : Nat) : Bool :=
  if y == 0 || x == 0 || y + 1 == m.h || x + 1 == m.w then true
  else anyNeighbourMasked m y x

/-- `edge_1d_indexes_from` (repaired): whole-frame scan, `regular_index` counts every unmasked
    pixel, recorded where `check_if_edge_pixel`.  (The pre-allocation by `total_edge_pixels_from`
    followed by writes at a running index is an append.) -/
def edgeSlim (m : Mask) : List Nat :=
  (forYX m.h m.w
    (fun (st : List Nat × Nat) y x =>
      if !m.get y x then
        (if checkIfEdgePixel m y x then st.1 ++ [st.2] else st.1, st.2 + 1)
      else st) ([], 0)).1

/-- `total_edge_pixels_from` (repaired). -/
def totalEdgePixels (m : Mask) : Nat :=
  forYX m.h m.w
    (fun acc y x => if !m.get y x then (if checkIfEdgePixel m y x then acc + 1 else acc) else acc) 0

/-- the pre-repair `edge_1d_indexes_from`: `for y in range(1, H-1): for x in range(1, W-1)` and the
    counter advanced only inside that scan (defect D6). -/
def edgeSlimAsIs (m : Mask) : List Nat :=
  ((List.range (m.h - 2)).foldl
    (fun st y0 => (List.range (m.w - 2)).foldl
      (fun (st : List Nat × Nat) x0 =>
        if !m.get (y0 + 1) (x0 + 1) then
          (if anyNeighbourMasked m (y0 + 1) (x0 + 1) then st.1 ++ [st.2] else st.1, st.2 + 1)
        else st) st) ([], 0)).1

/-! ## border pixels -/

/-- `np.sum` of a boolean slice -/
def countTrue (l : List Bool) : Nat := l.foldl (fun n b => if b then n + 1 else n) 0

/-- `check_if_border_pixel` for the pixel `(y,x)` that the slim index denotes: the four sums
    `sum(mask[0:y, x]) == y`, `sum(mask[y, x:W]) == W-x-1`, `sum(mask[y:H, x]) == H-y-1`,
    `sum(mask[y, 0:x]) == x`  (the second and third slice start AT the pixel, which is unmasked). -/
def checkIfBorderPixelAt (m : Mask) (y x : Nat) : Bool :=
  countTrue ((List.range y).map fun r => m.get r x) == y
    || (countTrue ((List.range (m.w - x)).map fun c => m.get y (x + c)) : Int) == (m.w : Int) - x - 1
    || (countTrue ((List.range (m.h - y)).map fun r => m.get (y + r) x) : Int) == (m.h : Int) - y - 1
    || countTrue ((List.range x).map fun c => m.get y c) == x

/-- `check_if_border_pixel(mask_2d, edge_pixel_slim, native_to_slim)` -/
def checkIfBorderPixel (m : Mask) (nfs : List (Nat × Nat)) (e : Nat) : Bool :=
  let p := nfs.getD e (0, 0)
  checkIfBorderPixelAt m p.1 p.2

/-- `border_slim_indexes_from`: the edge list filtered by `check_if_border_pixel` (count pass, then
    fill at a running index = append). -/
def borderSlim (m : Mask) : List Nat :=
  let edge := edgeSlim m
  let nfs := nativeForSlim m
  (List.range edge.length).foldl
    (fun acc i => if checkIfBorderPixel m nfs (edge.getD i 0) then acc ++ [edge.getD i 0] else acc) []

/-! ## views -/

/-- `native_for_slim[idx]` (numpy fancy indexing) -/
def nativeOfSlim (m : Mask) (idx : List Nat) : List (Nat × Nat) :=
  let nfs := nativeForSlim m
  idx.map fun k => nfs.getD k (0, 0)

def edgeNative (m : Mask) : List (Nat × Nat) := nativeOfSlim m (edgeSlim m)
def borderNative (m : Mask) : List (Nat × Nat) := nativeOfSlim m (borderSlim m)

/-- `mask = np.full(True); mask[native[:,0], native[:,1]] = False` -/
def maskFromNative (h w : Nat) (native : List (Nat × Nat)) : Mask :=
  { h := h, w := w,
    bits := native.foldl (fun b p => b.set (p.1 * w + p.2) false) (List.replicate (h * w) true) }

def edgeMask (m : Mask) : Mask := maskFromNative m.h m.w (edgeNative m)
def borderMask (m : Mask) : Mask := maskFromNative m.h m.w (borderNative m)

/-- geometry of a mask: pixel scales and origin -/
structure Geom (α : Type) where
  sy : α
  sx : α
  oy : α
  ox : α

/-- `central_pixel_coordinates_2d_from`: `float(n - 1) / 2`; `central_scaled_coordinate_2d_from`:
    `(c_y + o_y / s_y, c_x - o_x / s_x)`. -/
def centralScaled [Add α] [Sub α] [Div α] [NatCast α] [OfNat α 2] (h w : Nat) (g : Geom α) : α × α :=
  (((h - 1 : Nat) : α) / 2 + g.oy / g.sy, ((w - 1 : Nat) : α) / 2 - g.ox / g.sx)

/-- the coordinate assigned to pixel `(y,x)` by `grid_2d_slim_via_mask_from`:
    `(-(y - c_y) * s_y, (x - c_x) * s_x)` with `c = central_scaled_coordinate_2d_from`. -/
def pixelCentre [Add α] [Sub α] [Mul α] [Div α] [Neg α] [NatCast α] [OfNat α 2]
    (h w : Nat) (g : Geom α) (p : Nat × Nat) : α × α :=
  let c := centralScaled h w g
  (-((p.1 : α) - c.1) * g.sy, ((p.2 : α) - c.2) * g.sx)

/-- `grid_2d_slim_via_mask_from`: the centre of every unmasked pixel in row-major order. -/
def gridSlimViaMask [Add α] [Sub α] [Mul α] [Div α] [Neg α] [NatCast α] [OfNat α 2]
    (m : Mask) (g : Geom α) : List (α × α) :=
  forYX m.h m.w
    (fun acc y x => if !m.get y x then acc ++ [pixelCentre m.h m.w g (y, x)] else acc) []

/-- `DeriveGrid2D.edge` / `.border`: `self.unmasked[slim_indexes]` -/
def gridAt [Add α] [Sub α] [Mul α] [Div α] [Neg α] [NatCast α] [OfNat α 2] [OfNat α 0]
    (m : Mask) (g : Geom α) (idx : List Nat) : List (α × α) :=
  let grid := gridSlimViaMask m g
  idx.map fun k => grid.getD k (0, 0)

end Impl

/-! ## Spec layer -/
namespace Spec

/-- half-widths of an odd kernel -/
def half (k : Nat) : Nat := k / 2

/-- `q` lies in the kernel footprint centred on `p` (odd `kh × kw` window). -/
def inFootprint (kh kw : Nat) (p q : Nat × Nat) : Prop :=
  ((q.1 : Int) - p.1).natAbs ≤ half kh ∧ ((q.2 : Int) - p.2).natAbs ≤ half kw

instance (kh kw : Nat) (p q : Nat × Nat) : Decidable (inFootprint kh kw p q) := by
  unfold inFootprint; infer_instance

/-- the whole footprint of `p` lies inside an `h × w` frame. -/
def footprintInside (h w kh kw : Nat) (p : Nat × Nat) : Prop :=
  half kh ≤ p.1 ∧ p.1 + half kh < h ∧ half kw ≤ p.2 ∧ p.2 + half kw < w

instance (h w kh kw : Nat) (p : Nat × Nat) : Decidable (footprintInside h w kh kw p) := by
  unfold footprintInside; infer_instance

/-- a neighbour position counts as masked when it lies beyond the array or holds `True`. -/
def maskedZ (m : Mask) (y x : Int) : Prop :=
  ¬ (0 ≤ y ∧ y < (m.h : Int) ∧ 0 ≤ x ∧ x < (m.w : Int)) ∨ m.get y.toNat x.toNat = true

/-- edge pixel (repaired code): one of the eight neighbour positions counts as masked. -/
def isEdge (m : Mask) (p : Nat × Nat) : Prop :=
  ∃ dy dx : Int, -1 ≤ dy ∧ dy ≤ 1 ∧ -1 ≤ dx ∧ dx ≤ 1 ∧ (dy ≠ 0 ∨ dx ≠ 0)
    ∧ maskedZ m ((p.1 : Int) + dy) ((p.2 : Int) + dx)

/-- a straight walk from `p` to the array boundary in one of the four axis directions meets only
    masked pixels (vacuous when `p` lies on that boundary). -/
def clearWalk (m : Mask) (p : Nat × Nat) : Prop :=
  (∀ r, r < p.1 → m.get r p.2 = true) ∨ (∀ c, p.2 < c → c < m.w → m.get p.1 c = true)
    ∨ (∀ r, p.1 < r → r < m.h → m.get r p.2 = true) ∨ (∀ c, c < p.2 → m.get p.1 c = true)

end Spec
end Model
