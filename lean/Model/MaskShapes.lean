/-
Model/MaskShapes.lean — the five shape-based mask constructors (property C02, clause g).

Python sources transliterated here (/repo/autoarray/mask/mask_2d_util.py):
  mask_2d_centres_from, mask_2d_circular_from, mask_2d_circular_annular_from,
  mask_2d_circular_anti_annular_from, elliptical_radius_from, mask_2d_elliptical_from,
  mask_2d_elliptical_annular_from
(the `Mask2D.circular / …` classmethods in mask/mask_2d.py pass `centre` to these and attach
`pixel_scales` and `origin` to the result without using the origin: the pixel centres are measured
relative to the mask origin.)

Two forms of every radial test:
* `Impl.*Code` — the code's own operations; `sqrt`, `arctan2`, `sin`, `cos`, `radians` are explicit
  parameters (libm / numpy, modelled not verified);
* `Impl.*Poly` — the polynomial form (`x²+y² ≤ r²`, rotation by a supplied `(cos φ, sin φ)`), which is what
  the driver executes on `Rat`.  Proofs/MaskShapes*.lean prove the two forms equivalent over ℝ.
-/
import Model.Core
import Model.Geometry

namespace Model

section
variable {α : Type} [Add α] [Sub α] [Mul α] [Div α] [Neg α] [NatCast α] [LE α] [DecidableLE α]

namespace Impl

/-- `mask_2d_centres_from`: `(H-1)/2 - c_y/s_y`, `(W-1)/2 + c_x/s_x`. -/
def maskCentres (shape : Nat × Nat) (s centre : α × α) : α × α :=
  (centralPixel1 shape.1 - centre.1 / s.1, centralPixel1 shape.2 + centre.2 / s.2)

/-- the `(y_scaled, x_scaled)` computed at the top of every constructor loop body:
    `(y - c_y) * s_y`, `(x - c_x) * s_x`. -/
def shapeOffsets (shape : Nat × Nat) (s centre : α × α) (p : Nat × Nat) : α × α :=
  let c : α × α := maskCentres shape s centre
  (((p.1 : α) - c.1) * s.1, ((p.2 : α) - c.2) * s.2)

/-- the common loop of the five constructors:
    `mask = np.full(shape, True); for y: for x: if test(y_scaled, x_scaled): mask[y, x] = False`. -/
def shapeMask (shape : Nat × Nat) (s centre : α × α) (test : α → α → Bool) : Mask :=
  { h := shape.1, w := shape.2,
    bits := forYX shape.1 shape.2
      (fun bits y x =>
        let yx : α × α := shapeOffsets shape s centre (y, x)
        if test yx.1 yx.2 then bits.set (y * shape.2 + x) false else bits)
      (List.replicate (shape.1 * shape.2) true) }

/-! ### the code's radial quantities (libm functions as parameters) -/

/-- `r_scaled = np.sqrt(x_scaled**2 + y_scaled**2)` -/
def rCode (sqrt : α → α) (ys xs : α) : α := sqrt (xs * xs + ys * ys)

/-- `elliptical_radius_from(y_scaled, x_scaled, angle, axis_ratio)` -/
def ellRadiusCode (sqrt : α → α) (arctan2 : α → α → α) (sin cos radians : α → α)
    (ys xs angle q : α) : α :=
  let r := sqrt (xs * xs + ys * ys)
  let theta := arctan2 ys xs + radians angle
  let ye := r * sin theta
  let xe := r * cos theta
  sqrt (xe * xe + (ye / q) * (ye / q))

/-- `if r_scaled <= radius` -/
def circularCode (sqrt : α → α) (radius : α) (ys xs : α) : Bool :=
  decide (rCode sqrt ys xs ≤ radius)

/-- `if outer_radius >= r_scaled >= inner_radius` -/
def annularCode (sqrt : α → α) (inner outer : α) (ys xs : α) : Bool :=
  decide (rCode sqrt ys xs ≤ outer) && decide (inner ≤ rCode sqrt ys xs)

/-- `if inner_radius >= r_scaled or outer_radius_2_scaled >= r_scaled >= outer_radius` -/
def antiAnnularCode (sqrt : α → α) (inner outer outer2 : α) (ys xs : α) : Bool :=
  decide (rCode sqrt ys xs ≤ inner)
    || (decide (rCode sqrt ys xs ≤ outer2) && decide (outer ≤ rCode sqrt ys xs))

/-- `if r_scaled_elliptical <= major_axis_radius` -/
def ellipticalCode (sqrt : α → α) (arctan2 : α → α → α) (sin cos radians : α → α)
    (major q angle : α) (ys xs : α) : Bool :=
  decide (ellRadiusCode sqrt arctan2 sin cos radians ys xs angle q ≤ major)

/-- `if inner_r >= inner_major and outer_r <= outer_major` -/
def ellipticalAnnularCode (sqrt : α → α) (arctan2 : α → α → α) (sin cos radians : α → α)
    (innerMajor innerQ innerPhi outerMajor outerQ outerPhi : α) (ys xs : α) : Bool :=
  decide (innerMajor ≤ ellRadiusCode sqrt arctan2 sin cos radians ys xs innerPhi innerQ)
    && decide (ellRadiusCode sqrt arctan2 sin cos radians ys xs outerPhi outerQ ≤ outerMajor)

/-! ### polynomial forms -/

/-- `√d ≤ a` for `d ≥ 0`, without the square root: `0 ≤ a ∧ d ≤ a²`. -/
def sqrtLe (d a : α) : Bool := decide (((0 : Nat) : α) ≤ a) && decide (d ≤ a * a)

/-- `a ≤ √d` for `d ≥ 0`, without the square root: `a ≤ 0 ∨ a² ≤ d`. -/
def leSqrt (a d : α) : Bool := decide (a ≤ ((0 : Nat) : α)) || decide (a * a ≤ d)

/-- squared distance `x² + y²` -/
def r2 (ys xs : α) : α := xs * xs + ys * ys

/-- squared elliptical radius with the rotation given by `cs = (cos φ, sin φ)`:
    `x_e = x·c − y·s`, `y_e = y·c + x·s` (angle addition applied to `arctan2(y,x) + φ`),
    `x_e² + (y_e/q)²`. -/
def ellR2 (cs : α × α) (q : α) (ys xs : α) : α :=
  let xe := xs * cs.1 - ys * cs.2
  let ye := ys * cs.1 + xs * cs.2
  xe * xe + (ye / q) * (ye / q)

def circularPoly (radius : α) (ys xs : α) : Bool := sqrtLe (r2 ys xs) radius

def annularPoly (inner outer : α) (ys xs : α) : Bool :=
  sqrtLe (r2 ys xs) outer && leSqrt inner (r2 ys xs)

def antiAnnularPoly (inner outer outer2 : α) (ys xs : α) : Bool :=
  sqrtLe (r2 ys xs) inner || (sqrtLe (r2 ys xs) outer2 && leSqrt outer (r2 ys xs))

def ellipticalPoly (major q : α) (cs : α × α) (ys xs : α) : Bool :=
  sqrtLe (ellR2 cs q ys xs) major

def ellipticalAnnularPoly (innerMajor innerQ : α) (innerCS : α × α)
    (outerMajor outerQ : α) (outerCS : α × α) (ys xs : α) : Bool :=
  leSqrt innerMajor (ellR2 innerCS innerQ ys xs) && sqrtLe (ellR2 outerCS outerQ ys xs) outerMajor

/-! ### the five constructors (polynomial form; the `Code` forms are obtained by passing the `*Code`
    test to `shapeMask` in the same way) -/

def maskCircular (shape : Nat × Nat) (s centre : α × α) (radius : α) : Mask :=
  shapeMask shape s centre (circularPoly radius)

def maskAnnular (shape : Nat × Nat) (s centre : α × α) (inner outer : α) : Mask :=
  shapeMask shape s centre (annularPoly inner outer)

def maskAntiAnnular (shape : Nat × Nat) (s centre : α × α) (inner outer outer2 : α) : Mask :=
  shapeMask shape s centre (antiAnnularPoly inner outer outer2)

def maskElliptical (shape : Nat × Nat) (s centre : α × α) (major q : α) (cs : α × α) : Mask :=
  shapeMask shape s centre (ellipticalPoly major q cs)

def maskEllipticalAnnular (shape : Nat × Nat) (s centre : α × α) (innerMajor innerQ : α)
    (innerCS : α × α) (outerMajor outerQ : α) (outerCS : α × α) : Mask :=
  shapeMask shape s centre (ellipticalAnnularPoly innerMajor innerQ innerCS outerMajor outerQ outerCS)

/-- per-pixel radial quantities (row-major), for the harness' tie-band bookkeeping. -/
def shapeQuantities (shape : Nat × Nat) (s centre : α × α) (f : α → α → α) : List α :=
  (pixels shape.1 shape.2).map fun p =>
    let yx : α × α := shapeOffsets shape s centre p
    f yx.1 yx.2

end Impl

/-! ## Spec layer -/
namespace Spec

/-- offset `(dy, dx)` of the centre of pixel `p`, measured from the mask origin (i.e. with origin 0),
    from the requested `centre`:  `dy = ((H-1)/2 − i)·s_y − c_y`, `dx = (j − (W-1)/2)·s_x − c_x`. -/
def centreOffset (shape : Nat × Nat) (s centre : α × α) (p : Nat × Nat) : α × α :=
  ((((shape.1 : α) - ((1 : Nat) : α)) / ((2 : Nat) : α) - (p.1 : α)) * s.1 - centre.1,
   ((p.2 : α) - ((shape.2 : α) - ((1 : Nat) : α)) / ((2 : Nat) : α)) * s.2 - centre.2)

/-- a mask given by a per-pixel predicate "is unmasked" -/
def maskOf (shape : Nat × Nat) (unmasked : Nat × Nat → Bool) : Mask :=
  { h := shape.1, w := shape.2, bits := (pixels shape.1 shape.2).map fun p => !unmasked p }

end Spec
end

end Model
