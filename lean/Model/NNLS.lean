/-
Model/NNLS.lean — property C05: the (non-negative) least-squares reconstruction.

Impl layer (transliterations, Mathlib-free, generic over the number type `α`):
  * `Impl.fnnls`               autoarray/util/fnnls.py `fnnls_cholesky` + `fix_constraint_cholesky`
                               (with the REPAIRED warm-start prologue, fixes/D4-fnnls-warm-start.patch, and the
                               0/0 guard of fixes/D4b-fnnls-zero-step-nan.patch)
  * `Impl.reconPosNeg`         inversion_util.reconstruction_positive_negative_from
  * `Impl.reconPosOnly`        inversion_util.reconstruction_positive_only_from
  * `Impl.reconstruction`      AbstractInversion.reconstruction (abstract.py:461-535, zeroed indices)
  * `Impl.mappedViaMatrix`     inversion_util.mapped_reconstructed_data_via_mapping_matrix_from
  * `Impl.mappedDataDict/…`    InversionImagingMapping.mapped_reconstructed_data_dict, `.mapped_reconstructed_data`
Spec layer: `Spec.qform`, `Spec.IsKKT` (+ the executable `Spec.isKKTb`).

The linear solves enter `Impl.fnnls` as the parameter `solve` (numpy.linalg.solve and
scipy.linalg.solve(assume_a="pos") of the unconstrained path stay contracts).  Since session 3 the
positive-only path's own solver — `cholinsertlast` / `choldeleteindexes` / `_cholupdate` of
cholesky_funcs.py and `cho_solve` as forward + back substitution — IS modelled (Model/Cholesky.lean) and
proved to satisfy that contract given only `sqrt` (Props/C05.lean `chol_*`).  The contract is "`solve M r = some x` ⇒ `M x = r`" (`Spec.SolveContract`).  The driver
instantiates it with `checkedSolve`: exact Gauss–Jordan elimination whose result is re-checked against
the system before it is returned, so the contract holds of the instance by construction
(Proofs/NNLS.lean `checkedSolve_contract`).

Vectors are `List α` (numpy 1-D arrays), matrices `List (List α)` (rows).  Vectorised numpy statements
(`s_chol[P_inorder] = x`, `P[d <= tol] = False`, `d + alpha*(s_chol - d)`) are written as the
corresponding whole-array list operations.
-/

namespace Model

/-! ### vectors and matrices -/

section Algebra

variable {α : Type} [Add α] [Sub α] [Mul α] [OfNat α 0]

/-- `x @ y` for 1-D arrays -/
def dot : List α → List α → α
  | a :: as, b :: bs => a * b + dot as bs
  | _, _ => 0

/-- `A @ x` (rows of `A` dotted with `x`) -/
def matVec (A : List (List α)) (x : List α) : List α := A.map fun r => dot r x

/-- `v[i]` (0 outside; callers stay in range) -/
def vget (v : List α) (i : Nat) : α := v.getD i 0

/-- `A[i, j]` -/
def mget (A : List (List α)) (i j : Nat) : α := (A.getD i []).getD j 0

/-- `x - y` elementwise -/
def vsub (x y : List α) : List α := List.zipWith (· - ·) x y

/-- `x + y` elementwise -/
def vadd (x y : List α) : List α := List.zipWith (· + ·) x y

/-- `np.zeros(n)` -/
def zeros (n : Nat) : List α := List.replicate n 0

/-- `v[idx]` (fancy indexing, gather) -/
def gather (v : List α) (idx : List Nat) : List α := idx.map (vget v)

/-- `A[idx][:, idx]` -/
def subMat (A : List (List α)) (idx : List Nat) : List (List α) :=
  idx.map fun i => idx.map fun j => mget A i j

/-- `v[idx] = x` (fancy-index assignment: entries written in order, later writes win) -/
def scatter (v : List α) : List Nat → List α → List α
  | i :: is, x :: xs => scatter (v.set i x) is xs
  | _, _ => v

end Algebra

/-! ### exact linear solver used by the driver (Gauss–Jordan with result check) -/

section Gauss

variable {α : Type} [Add α] [Sub α] [Mul α] [Div α] [OfNat α 0] [DecidableEq α]

/-- one elimination step on the augmented matrix `M` (rows of length n+1) for column `c`:
    first row `r ≥ c` with a non-zero entry in column `c` becomes the pivot row. -/
def elimStep (M : List (List α)) (c : Nat) : Option (List (List α)) :=
  match (List.range M.length).find? (fun r => decide (c ≤ r) && !(decide (mget M r c = 0))) with
  | none => none
  | some r =>
    let prow := M.getD r []
    let piv := prow.getD c 0
    let prow' := prow.map (· / piv)
    let M1 := (M.set r (M.getD c [])).set c prow'
    some ((List.range M1.length).map fun i =>
      let row := M1.getD i []
      if i = c then row
      else
        let f := row.getD c 0
        List.zipWith (fun a p => a - f * p) row prow')

def gaussJordan (M : List (List α)) : Nat → Nat → Option (List (List α))
  | 0, _ => some M
  | k + 1, c =>
    match elimStep M c with
    | none => none
    | some M' => gaussJordan M' k (c + 1)

/-- candidate solution of `A x = b` by exact elimination (`none`: no pivot, singular) -/
def gaussSolve (A : List (List α)) (b : List α) : Option (List α) :=
  let n := b.length
  let M := List.zipWith (fun row bi => row ++ [bi]) A b
  match gaussJordan M n 0 with
  | none => none
  | some R => some (R.map fun row => row.getD n 0)

/-- the solver the driver passes as `solve`: the elimination result is returned only after it has been
    checked against the system, exactly. -/
def checkedSolve (A : List (List α)) (b : List α) : Option (List α) :=
  match gaussSolve A b with
  | none => none
  | some x => if x.length = b.length ∧ A.length = b.length ∧ matVec A x = b then some x else none

end Gauss

/-! ### Spec: objective and optimality certificate -/

namespace Spec

section
variable {α : Type} [Add α] [Sub α] [Mul α] [Div α] [OfNat α 0] [OfNat α 2] [LT α] [LE α]

/-- the objective `½ sᵀ A s − bᵀ s` -/
def qform (A : List (List α)) (b s : List α) : α := dot s (matVec A s) / 2 - dot b s

/-- gradient `A s − b` -/
def grad (A : List (List α)) (b s : List α) : List α := vsub (matVec A s) b

/-- KKT certificate with slack `tol` on the dual inequality (`tol = 0`: exact):
    s ≥ 0; gradient zero on positive entries; gradient ≥ −tol on zero entries. -/
def IsKKT (A : List (List α)) (b s : List α) (tol : α) : Prop :=
  ∀ i, i < b.length →
    0 ≤ vget s i ∧ (0 < vget s i → vget (matVec A s) i = vget b i)
      ∧ (vget s i = 0 → vget b i - vget (matVec A s) i ≤ tol)

/-- the contract of the external linear solvers -/
def SolveContract (solve : List (List α) → List α → Option (List α)) : Prop :=
  ∀ M r x, solve M r = some x → x.length = r.length ∧ matVec M x = r

/-- `x ≥ 0` componentwise -/
def Nonneg (x : List α) : Prop := ∀ i, 0 ≤ vget x i

/-- A is a symmetric n×n matrix -/
def IsSymm (n : Nat) (A : List (List α)) : Prop :=
  A.length = n ∧ (∀ r, r ∈ A → r.length = n) ∧ ∀ i j, i < n → j < n → mget A i j = mget A j i

/-- positive semi-definite / definite quadratic form on vectors of length n -/
def IsPSD (n : Nat) (A : List (List α)) : Prop := ∀ v : List α, v.length = n → 0 ≤ dot v (matVec A v)
def IsPD (n : Nat) (A : List (List α)) : Prop :=
  ∀ v : List α, v.length = n → (∃ i, vget v i ≠ 0) → 0 < dot v (matVec A v)

end

section
variable {α : Type} [Add α] [Sub α] [Mul α] [OfNat α 0] [LT α] [LE α] [DecidableLT α] [DecidableLE α]
  [DecidableEq α]

/-- executable KKT check (the driver evaluates it on the model's own result) -/
def isKKTb (A : List (List α)) (b s : List α) (tol : α) : Bool :=
  let As := matVec A s
  (List.range b.length).all fun i =>
    decide (0 ≤ vget s i)
      && (if 0 < vget s i then decide (vget As i = vget b i) else true)
      && (if vget s i = 0 then decide (vget b i - vget As i ≤ tol) else true)
end

end Spec

/-! ### Impl: the active-set solver -/

namespace Impl

/-- how the `while` loop of `fnnls_cholesky` ended -/
inductive Exit where
  | main      -- loop condition false: `all(P)` or `max(w[~P]) <= tolerance`
  | noUpdate  -- `no_update >= max_repetitions` → `break`
deriving Repr, DecidableEq

inductive Err where
  | singular  -- a linear solve failed (LinAlgError → InversionException)
  | runtime   -- `loop_count > 10000` / `loop_count2 > 10000` → RuntimeError → InversionException
  | fuel      -- model artefact: recursion budget exhausted (never observed; see Driver)
  | degenerate -- `check_reconstruction`: all values of a mapper equal → InversionException
  | empty     -- `len(data_vector) == 0` → InversionException
deriving Repr, DecidableEq

/-- the mutable locals of `fnnls_cholesky` -/
structure St (α : Type) where
  P : List Bool          -- passive-set mask
  Pin : List Nat         -- `P_inorder`
  s : List α             -- `s_chol`
  d : List α
  w : List α
  noUpdate : Nat
  loopCount : Nat
  loopCount2 : Nat

inductive Outcome (α : Type) where
  | ok : List α → Exit → Nat → Nat → Outcome α     -- d, exit kind, loop_count, loop_count2
  | err : Err → Outcome α

section
variable {α : Type} [Add α] [Sub α] [Mul α] [Div α] [OfNat α 0] [LT α] [LE α]
  [DecidableLT α] [DecidableLE α] [DecidableEq α]

/-- `(not np.all(P)) and np.max(w[~P]) > tolerance` — the maximum over the active set exceeds the
    tolerance iff some active entry does. -/
def anyActiveAbove (w : List α) (P : List Bool) (tol : α) : Bool :=
  (List.zip w P).any fun wp => !wp.2 && decide (tol < wp.1)

/-- `np.any(P) and np.min(s_chol[P]) <= tolerance` — the minimum over the passive set is ≤ tolerance
    iff some passive entry is. -/
def anyPassiveBelow (s : List α) (P : List Bool) (tol : α) : Bool :=
  (List.zip s P).any fun sp => sp.2 && decide (sp.1 ≤ tol)

/-- `np.argmax(v)`: first index of the maximum -/
def argmax (v : List α) : Nat :=
  match v with
  | [] => 0
  | x :: xs =>
    (xs.foldl (fun (st : Nat × α × Nat) y =>
        if st.2.1 < y then (st.2.2, y, st.2.2 + 1) else (st.1, st.2.1, st.2.2 + 1)) (0, x, 1)).1

/-- `w * ~P` -/
def maskActive (w : List α) (P : List Bool) : List α :=
  List.zipWith (fun wi p => if p then 0 else wi) w P

/-- `np.min(v)` of a non-empty list (0 for the empty list; callers guarantee non-empty) -/
def minimum (v : List α) : α :=
  match v with
  | [] => 0
  | x :: xs => xs.foldl (fun m y => if y < m then y else m) x

/-- the linear solve on the ordered passive list: `cho_solve((U, False), ZTx[P_inorder])` where `U` is
    (assumed to be) the Cholesky factor of `ZTZ[P_inorder][:, P_inorder]`. -/
def solveOn (solve : List (List α) → List α → Option (List α))
    (A : List (List α)) (b : List α) (idx : List Nat) : Option (List α) :=
  solve (subMat A idx) (gather b idx)

/-- `fix_constraint_cholesky`, first half: the step length
    `q = P * (s_chol <= tolerance)`; `step = d[q] - s_chol[q]`;
    `ratio = d[q] / step` where `step != 0`, else 0 (fixes/D4b); `alpha = np.min(ratio)` -/
def fcAlpha (tol : α) (st : St α) : α :=
  minimum ((List.zip (List.zip st.d st.s) st.P).filterMap fun x =>
    if x.2 && decide (x.1.2 ≤ tol) then
      some (if x.1.1 - x.1.2 = 0 then 0 else x.1.1 / (x.1.1 - x.1.2))
    else none)

/-- `d = d + alpha * (s_chol - d)` -/
def fcD (tol : α) (st : St α) : List α :=
  List.zipWith (fun di si => di + fcAlpha tol st * (si - di)) st.d st.s

/-- `id_delete = np.where(d[P_inorder] <= tolerance)[0]`; `P_inorder = np.delete(P_inorder, id_delete)` -/
def fcPin (tol : α) (Pin : List Nat) (d : List α) : List Nat :=
  Pin.filter fun i => !(decide (vget d i ≤ tol))

/-- `P[d <= tolerance] = False` -/
def fcP (tol : α) (P : List Bool) (d : List α) : List Bool :=
  List.zipWith (fun p di => if di ≤ tol then false else p) P d

/-- `s_chol[~P] = 0.0` -/
def fcS (s : List α) (P : List Bool) : List α :=
  List.zipWith (fun si p => if p then si else 0) s P

/-- `fix_constraint_cholesky`: step towards `s_chol` as far as feasibility allows, drop the entries that
    reached (≤ tolerance) zero from `P` / `P_inorder` (`choldeleteindexes` updates `U` accordingly), and
    re-solve on the remaining passive list (`if len(P_inorder): s_chol[P_inorder] = cho_solve(...)`). -/
def fixConstraint (solve : List (List α) → List α → Option (List α))
    (A : List (List α)) (b : List α) (tol : α) (st : St α) : Option (St α) :=
  let d := fcD tol st
  let Pin := fcPin tol st.Pin d
  let P := fcP tol st.P d
  if Pin.isEmpty then some { st with P := P, Pin := Pin, s := fcS st.s P, d := d }
  else match solveOn solve A b Pin with
    | none => none
    | some x => some { st with P := P, Pin := Pin, s := fcS (scatter st.s Pin x) P, d := d }

/-- the inner `while np.any(P) and np.min(s_chol[P]) <= tolerance:` loop -/
def innerLoop (solve : List (List α) → List α → Option (List α))
    (A : List (List α)) (b : List α) (tol : α) (maxIter : Nat) : Nat → St α → Except Err (St α)
  | 0, _ => .error .fuel
  | fuel + 1, st =>
    if anyPassiveBelow st.s st.P tol then
      match fixConstraint solve A b tol st with
      | none => .error .singular
      | some st' =>
        let lc2 := st'.loopCount2 + 1
        if lc2 > maxIter then .error .runtime
        else innerLoop solve A b tol maxIter fuel { st' with loopCount2 := lc2 }
    else .ok st

/-- the outer `while (not np.all(P)) and np.max(w[~P]) > tolerance:` loop -/
def outerLoop (solve : List (List α) → List α → Option (List α))
    (A : List (List α)) (b : List α) (tol : α) (maxIter : Nat) : Nat → St α → Outcome α
  | 0, _ => .err .fuel
  | fuel + 1, st =>
    if anyActiveAbove st.w st.P tol then
      let currentP := st.P
      let idmax := argmax (maskActive st.w st.P)
      let Pin := st.Pin ++ [idmax]
      -- U = cholesky(...) / cholinsertlast(...);  s_chol[P_inorder] = cho_solve((U, False), ZTx[P_inorder])
      match solveOn solve A b Pin with
      | none => .err .singular
      | some x =>
        let s := scatter st.s Pin x
        let P := st.P.set idmax true
        match innerLoop solve A b tol maxIter (maxIter + 2) { st with P := P, Pin := Pin, s := s } with
        | .error e => .err e
        | .ok st2 =>
          let d := st2.s
          let w := vsub b (matVec A d)
          let lc := st2.loopCount + 1
          if lc > maxIter then .err .runtime
          else
            let nu := if currentP == st2.P then st2.noUpdate + 1 else 0
            if nu ≥ 3 then .ok d .noUpdate lc st2.loopCount2
            else outerLoop solve A b tol maxIter fuel
                  { st2 with d := d, w := w, loopCount := lc, noUpdate := nu }
    else .ok st.d .main st.loopCount st.loopCount2

/-- indices where the mask is True, ascending (`np.arange(n)[mask]`) -/
def maskIndices (P : List Bool) : List Nat :=
  (List.range P.length).filter fun i => P.getD i false

/-- `P = zeros(n, bool); P[P_initial] = True` for an index list -/
def maskOfIndices (n : Nat) (idx : List Nat) : List Bool :=
  (List.range n).map fun i => idx.contains i

/-- The prologue of `fnnls_cholesky` (lines 47-59 + fixes/D4).  `pInit = none`: `P_initial.shape[0] == 0`
    (cold start); `some idx`: the entries of `P_number[P_initial]` (given order).
    Warm start: solve on the guessed passive set (mask order); accept it only if every passive entry
    is `> tolerance` (then `d = s_chol`, `w = ZTx − ZTZ d`), otherwise fall back to the cold start. -/
def initState (solve : List (List α) → List α → Option (List α))
    (A : List (List α)) (b : List α) (tol : α) (pInit : Option (List Nat)) : Option (St α) :=
  let n := A.length
  let cold : St α := { P := List.replicate n false, Pin := [], s := zeros n, d := zeros n,
                       w := vsub b (matVec A (zeros n)), noUpdate := 0, loopCount := 0, loopCount2 := 0 }
  match pInit with
  | none => some cold
  | some idx =>
    let P := maskOfIndices n idx
    let asc := maskIndices P
    match solveOn solve A b asc with
    | none => none
    | some x =>
      let s := scatter (zeros n) asc x
      if P.any id && !(anyPassiveBelow s P tol) then
        some { cold with P := P, Pin := idx, s := s, d := s, w := vsub b (matVec A s) }
      else some cold

/-- The prologue as it was BEFORE fixes/D4 (kept only to state the defect formally, Props/C05.lean
    `d4_legacy_warm_start_not_optimal`; the driver never runs it): the passive-set solution is clipped
    (`d = s_chol.clip(min=0)`) and `w` stays the gradient at `d = 0`. -/
def initStateLegacy (solve : List (List α) → List α → Option (List α))
    (A : List (List α)) (b : List α) (idx : List Nat) : Option (St α) :=
  let n := A.length
  let P := maskOfIndices n idx
  let asc := maskIndices P
  match solveOn solve A b asc with
  | none => none
  | some x =>
    let s := scatter (zeros n) asc x
    some { P := P, Pin := idx, s := s, d := s.map fun v => if v < 0 then 0 else v,
           w := vsub b (matVec A (zeros n)), noUpdate := 0, loopCount := 0, loopCount2 := 0 }

def fnnlsLegacy (solve : List (List α) → List α → Option (List α))
    (A : List (List α)) (b : List α) (tol : α) (maxIter : Nat) (idx : List Nat) : Outcome α :=
  match initStateLegacy solve A b idx with
  | none => .err .singular
  | some st => outerLoop solve A b tol maxIter (maxIter + 2) st

/-- `fnnls_cholesky(ZTZ, ZTx, P_initial)`; `tol` is `2.2204e-16 * n`. -/
def fnnls (solve : List (List α) → List α → Option (List α))
    (A : List (List α)) (b : List α) (tol : α) (maxIter : Nat) (pInit : Option (List Nat)) : Outcome α :=
  match initState solve A b tol pInit with
  | none => .err .singular
  | some st => outerLoop solve A b tol maxIter (maxIter + 2) st

end

/-! ### Impl: the reconstruction entry points -/

section
variable {α : Type} [Add α] [Sub α] [Mul α] [Div α] [Neg α] [OfNat α 0] [NatCast α] [LT α] [LE α]
  [DecidableLT α] [DecidableLE α] [DecidableEq α]

/-- |x| -/
def absv (x : α) : α := if x < 0 then -x else x

/-- `np.allclose(a=v, b=c)` with numpy's defaults: `|a - c| <= atol + rtol * |c|` for all entries -/
def allClose (atol rtol : α) (v : List α) (c : α) : Bool :=
  v.all fun a => decide (absv (a - c) ≤ atol + rtol * absv c)

/-- `reconstruction_positive_negative_from`: plain solve, then (config `check_reconstruction`) raise if
    all values of some mapper's slice agree with its first value. -/
def reconPosNeg (solve : List (List α) → List α → Option (List α)) (atol rtol : α)
    (check : Bool) (ranges : List (Nat × Nat)) (A : List (List α)) (b : List α) : Except Err (List α) :=
  match solve A b with
  | none => .error .singular
  | some x =>
    if check && ranges.any (fun r => allClose atol rtol ((x.drop r.1).take (r.2 - r.1)) (vget x r.1))
    then .error .degenerate
    else .ok x

/-- `reconstruction_positive_only_from` -/
def reconPosOnly (solve : List (List α) → List α → Option (List α)) (eps : α) (maxIter : Nat)
    (usePInit : Bool) (A : List (List α)) (b : List α) : Outcome α :=
  if b.length = 0 then .err .empty
  else
    let tol := eps * (A.length : α)
    if usePInit then
      -- P_initial = np.linalg.solve(curvature_reg_matrix, data_vector) > 0
      match solve A b with
      | none => .err .singular
      | some u =>
        let mask := u.map fun ui => decide (0 < ui)
        fnnls solve A b tol maxIter (some (maskIndices mask))
    else fnnls solve A b tol maxIter none

/-- `ids_zeros` of AbstractInversion.reconstruction -/
def idsZeros (forceEdgeImage : Bool) (edge zero : List Nat) : List Nat :=
  if forceEdgeImage then edge ++ zero else edge

/-- AbstractInversion.reconstruction (abstract.py:461-535).
    `edge`, `zero`: `mapper_edge_pixel_list`, concatenated `mapper_zero_pixel_list`. -/
def reconstruction (solve : List (List α) → List α → Option (List α)) (eps atol rtol : α) (maxIter : Nat)
    (usePositive usePInit forceEdge forceEdgeImage check : Bool) (edge zero : List Nat)
    (ranges : List (Nat × Nat)) (A : List (List α)) (b : List α) : Except Err (List α) :=
  if usePositive then
    if forceEdge then
      let n := A.length
      let ids := idsZeros forceEdgeImage edge zero
      -- values_to_solve = ones(n, bool); values_to_solve[ids_zeros] = False
      let keep := (List.range n).filter fun i => !(ids.contains i)
      match reconPosOnly solve eps maxIter usePInit (subMat A keep) (gather b keep) with
      | .err e => .error e
      | .ok y _ _ _ => .ok (scatter (zeros n) keep y)     -- solutions = zeros(n); solutions[values_to_solve] = …
    else
      match reconPosOnly solve eps maxIter usePInit A b with
      | .err e => .error e
      | .ok y _ _ _ => .ok y
  else reconPosNeg solve atol rtol check ranges A b

end

/-! ### Impl: mapped reconstructed data -/

section
variable {α : Type} [Add α] [Mul α] [OfNat α 0]

/-- `mapped_reconstructed_data_via_mapping_matrix_from`: the double loop
    `out[i] += reconstruction[j] * mapping_matrix[i, j]`. -/
def mappedViaMatrix (B : List (List α)) (s : List α) : List α :=
  (List.range B.length).map fun i =>
    (List.range s.length).foldl (fun acc j => acc + s.getD j 0 * (B.getD i []).getD j 0) 0

/-- `source_quantity_dict_from`: consecutive slices of length `params` -/
def sliceDict (params : List Nat) (s : List α) : List (List α) :=
  match params with
  | [] => []
  | p :: ps => s.take p :: sliceDict ps (s.drop p)

/-- `mapped_reconstructed_data_dict` of the mapping formalism: one image per linear object -/
def mappedDataDict (Bs : List (List (List α))) (s : List α) : List (List α) :=
  List.zipWith mappedViaMatrix Bs (sliceDict (Bs.map fun B => (B.headD []).length) s)

/-- the full blurred mapping matrix of `m` data points: the objects' matrices side by side (`np.hstack`) -/
def hstack (m : Nat) (Bs : List (List (List α))) : List (List α) :=
  (List.range m).map fun i => (Bs.map fun B => B.getD i []).flatten

/-- `mapped_reconstructed_data = sum(dict.values())` (Python `sum`: 0 + v₀ + v₁ + …) over `m` data points -/
def mappedData (m : Nat) (imgs : List (List α)) : List α :=
  imgs.foldl (fun acc v => List.zipWith (· + ·) acc v) (List.replicate m 0)

end

end Impl

end Model
