/-
Model/NoiseReplace.lean — noise-map replacement at negative image values (property C08, loop tie `LoopsFit2`).

Python source transliterated here:
  autoarray/structures/arrays/array_2d_util.py
      replace_noise_map_2d_values_where_image_2d_values_are_negative(image_2d, noise_map_2d, target_signal_to_noise)

`Impl.replaceNoise` is the loop-for-loop transliteration (in-place update of `noise_map_2d`, row-major scan);
`Spec.replaceNoise` is the pointwise statement: entry `k` of the result depends only on `image[k]` and on
the ORIGINAL `noise[k]`.  Native arrays are their row-major lists (Model/Core.lean).  Mathlib-free.
-/
import Model.Core

namespace Model

namespace Impl

/-- `np.abs(x)` on a scalar -/
def absR {α : Type} [LT α] [DecidableLT α] [Neg α] [OfNat α 0] (x : α) : α := if x < 0 then -x else x

/-- the loop body for the pixel with flattened index `k`:
    `if image[k] < 0.0: s = abs(image[k]) / noise[k]; if s >= target: noise[k] = abs(image[k]) / target` -/
def replaceNoiseAt {α : Type} [Div α] [Neg α] [OfNat α 0] [LT α] [DecidableLT α] [LE α] [DecidableLE α]
    [Inhabited α] (image : List α) (target : α) (noise : List α) (k : Nat) : List α :=
  if image.getD k default < 0 then
    let absoluteSignalToNoise := absR (image.getD k default) / noise.getD k default
    if absoluteSignalToNoise ≥ target then noise.set k (absR (image.getD k default) / target) else noise
  else noise

/-- `replace_noise_map_2d_values_where_image_2d_values_are_negative` on the row-major lists of two
    `h × w` arrays: `for y: for x:` scan with in-place update of the noise map, which is returned. -/
def replaceNoise {α : Type} [Div α] [Neg α] [OfNat α 0] [LT α] [DecidableLT α] [LE α] [DecidableLE α]
    [Inhabited α] (h w : Nat) (image noise : List α) (target : α) : List α :=
  forYX h w (fun acc y x => replaceNoiseAt image target acc (y * w + x)) noise

end Impl

namespace Spec

/-- the new noise value of one pixel with image value `i` and noise value `n`: where the image is negative
    and its absolute signal-to-noise `|i| / n` reaches the target, the noise is raised to `|i| / target`
    (so that the absolute signal-to-noise becomes the target); otherwise it is kept -/
def replacedValue {α : Type} [Div α] [Neg α] [OfNat α 0] [LT α] [DecidableLT α] [LE α] [DecidableLE α]
    (target i n : α) : α :=
  if i < 0 ∧ Impl.absR i / n ≥ target then Impl.absR i / target else n

/-- pointwise: entry `k` is `replacedValue target image[k] noise[k]` -/
def replaceNoise {α : Type} [Div α] [Neg α] [OfNat α 0] [LT α] [DecidableLT α] [LE α] [DecidableLE α]
    [Inhabited α] (h w : Nat) (image noise : List α) (target : α) : List α :=
  (List.range (h * w)).map fun k => replacedValue target (image.getD k default) (noise.getD k default)

end Spec

end Model
