/-
Model/NormalEq.lean — data vector and curvature matrix of an imaging inversion in both formalisms
(property C04).  Mathlib-free; generic in the number type `α` (runs on `Rat` in the driver, reasoned about
over a field in `Proofs/NormalEq*.lean`).

Python sources transliterated here (D1, D2, D3 of DESIGN §6 in their *repaired* form, see
fixes/D1-…, fixes/D2-…, fixes/D3-…):
  autoarray/operators/convolver.py
      Convolver.__init__ (image frames), frame_at_coordinates_jit, convolve_matrix_jit
  autoarray/inversion/pixelization/mappers/mapper_util.py
      mapping_matrix_from, data_slim_to_pixelization_unique_from
  autoarray/inversion/inversion/imaging/inversion_imaging_util.py
      w_tilde_data_imaging_from, w_tilde_curvature_value_from, w_tilde_curvature_preload_imaging_from,
      data_vector_via_w_tilde_data_imaging_from, data_vector_via_blurred_mapping_matrix_from,
      curvature_matrix_via_w_tilde_curvature_preload_imaging_from,
      curvature_matrix_off_diags_via_w_tilde_curvature_preload_imaging_from,
      curvature_matrix_off_diags_via_mapper_and_linear_func_curvature_vector_from
  autoarray/inversion/inversion/inversion_util.py
      curvature_matrix_via_mapping_matrix_from, curvature_matrix_with_added_to_diag_from,
      curvature_matrix_mirrored_from, mapped_reconstructed_data_via_mapping_matrix_from,
      mapped_reconstructed_data_via_image_to_pix_unique_from
  autoarray/inversion/inversion/abstract.py
      param_range_list_from, no_regularization_index_list, operated_mapping_matrix (hstack)
  autoarray/inversion/inversion/imaging/mapping.py     InversionImagingMapping.data_vector / curvature_matrix
  autoarray/inversion/inversion/imaging/w_tilde.py     InversionImagingWTilde.data_vector / curvature_matrix

Representation choices (each is an isomorphic re-packaging of what the code stores, see design_notes/C04.md):
* accumulators (`np.zeros` arrays updated in place) are `Vec`/`Mat`: flat `Array` + shape; a write outside
  the shape is dropped (Python would raise `IndexError`; theorems state entries inside the shape);
* padded 2-D tables with a length column (`data_to_pix_unique/data_weights/pix_lengths`,
  `image_frame_1d_indexes/kernels/lengths`, `curvature_preload/indexes/lengths`,
  `pix_indexes/pix_weights/pix_sizes_for_sub_slim_index`) are ragged lists of (index, value) pairs: row `k`
  is the first `lengths[k]` entries of padded row `k`, in the same order;
* `mask_index_array[t]` (the slim index of native pixel `t`) is `idx.idxOf t` for `idx =
  native_index_for_slim_index`.
-/
import Model.Core
import Model.Slim

namespace Model

/-! ## numbers, vectors, matrices -/

section Arrays
variable {α : Type} [Add α] [OfNat α 0]

/-- finite sum of a list (what `np.sum` / `np.dot` compute, in exact arithmetic) -/
def sum (l : List α) : α := l.foldr (fun x acc => x + acc) 0

/-- `Σ_{i<n} f i` -/
def sumRange (n : Nat) (f : Nat → α) : α := sum ((List.range n).map f)

/-- read of a 1-D input array -/
def vget (v : List α) (i : Nat) : α := v.getD i 0

/-- a 1-D accumulator (`np.zeros(n)`) -/
abbrev Vec (α : Type) := Array α

def Vec.zeros (n : Nat) : Vec α := Array.replicate n 0
def Vec.get (v : Vec α) (i : Nat) : α := v.getD i 0
/-- `v[i] += x` -/
def Vec.add (v : Vec α) (i : Nat) (x : α) : Vec α := v.setIfInBounds i (v.getD i 0 + x)
def Vec.toList (v : Vec α) : List α := Array.toList v

/-- a 2-D array of shape `r × c`, row-major -/
structure Mat (α : Type) where
  r : Nat
  c : Nat
  data : Array α
  h : data.size = r * c

namespace Mat

def zeros (r c : Nat) : Mat α := ⟨r, c, Array.replicate (r * c) 0, by simp⟩

/-- `M[i, j]` (0 outside the shape) -/
def get (M : Mat α) (i j : Nat) : α :=
  if i < M.r ∧ j < M.c then M.data.getD (i * M.c + j) 0 else 0

/-- `M[i, j] = x` -/
def put (M : Mat α) (i j : Nat) (x : α) : Mat α :=
  if i < M.r ∧ j < M.c then
    ⟨M.r, M.c, M.data.setIfInBounds (i * M.c + j) x, by simp [M.h]⟩
  else M

/-- `M[i, j] += x` -/
def add (M : Mat α) (i j : Nat) (x : α) : Mat α := M.put i j (M.get i j + x)

/-- the matrix with entries `f i j` -/
def ofFn (r c : Nat) (f : Nat → Nat → α) : Mat α :=
  ⟨r, c, Array.ofFn (n := r * c) (fun k => f (k.val / c) (k.val % c)), by simp⟩

def ofLists (r c : Nat) (rows : List (List α)) : Mat α :=
  ofFn r c fun i j => (rows.getD i []).getD j 0

def toLists (M : Mat α) : List (List α) :=
  (List.range M.r).map fun i => (List.range M.c).map fun j => M.get i j

/-- `M[r0:r0+B.r, c0:c0+B.c] = B` (slice assignment, one entry at a time in row-major order) -/
def setBlock (M : Mat α) (r0 c0 : Nat) (B : Mat α) : Mat α :=
  forYX B.r B.c (fun M i j => M.put (r0 + i) (c0 + j) (B.get i j)) M

def transpose (M : Mat α) : Mat α := ofFn M.c M.r fun i j => M.get j i

/-- `A + B` (elementwise, shapes of `A`) -/
def plus (A B : Mat α) : Mat α := ofFn A.r A.c fun i j => A.get i j + B.get i j

end Mat
end Arrays

/-- a PSF kernel of shape `kh × kw`, row-major values -/
structure Kernel (α : Type) where
  kh : Nat
  kw : Nat
  vals : List α

namespace Kernel
variable {α : Type} [OfNat α 0]
/-- `kernel[i, j]` -/
def get (K : Kernel α) (i j : Nat) : α := K.vals.getD (i * K.kw + j) 0
/-- `shape[0] // 2` -/
def hy (K : Kernel α) : Nat := K.kh / 2
/-- `shape[1] // 2` -/
def hx (K : Kernel α) : Nat := K.kw / 2
end Kernel

/-- ragged table of (index, value) pairs: row `k` = the valid prefix of the padded row `k` -/
abbrev Rows (α : Type) := List (List (Nat × α))

/-- the per-sub-pixel tables of a mapper (`pix_indexes/weights/sizes_for_sub_slim_index`,
    `slim_index_for_sub_slim_index`, `over_sampler.sub_fraction`, `over_sampler.sub_size`) -/
structure MapperTables (α : Type) where
  pixels : Nat
  subRows : Rows α              -- row `s` = [(pix_indexes[s,c], pix_weights[s,c]) | c < pix_sizes[s]]
  slimForSub : List Nat
  subFraction : List α          -- per slim index
  subSize : List Nat            -- per slim index

/-- a linear object of an inversion -/
inductive LinObj (α : Type) where
  | mapper (t : MapperTables α) (hasReg : Bool)
  | funcList (params : Nat) (mappingMatrix : List (List α)) (hasReg : Bool)

namespace LinObj
variable {α : Type}
/-- `linear_obj.params` -/
def params : LinObj α → Nat
  | mapper t _ => t.pixels
  | funcList p _ _ => p
def hasReg : LinObj α → Bool
  | mapper _ b => b
  | funcList _ _ b => b
def isMapper : LinObj α → Bool
  | mapper _ _ => true
  | funcList _ _ _ => false
end LinObj

/-- the masked imaging dataset as the inversion sees it -/
structure Dataset (α : Type) where
  mask : Mask
  kernel : Kernel α
  data : List α                  -- slim
  noise : List α                 -- slim, strictly positive

/-! ## Spec layer -/
namespace Spec
variable {α : Type} [Add α] [Mul α] [Div α] [OfNat α 0] [OfNat α 1]

/-- PSF matrix entry `P[d, a] = K[d − a + half]`: the weight with which source pixel `a` is blurred into
    target pixel `d` (native coordinates); `0` when `d` is outside the kernel window of `a`. -/
def pEntry (K : Kernel α) (d a : Nat × Nat) : α :=
  if a.1 ≤ d.1 + K.hy ∧ d.1 + K.hy - a.1 < K.kh ∧ a.2 ≤ d.2 + K.hx ∧ d.2 + K.hx - a.2 < K.kw then
    K.get (d.1 + K.hy - a.1) (d.2 + K.hx - a.2)
  else 0

/-- `P` over slim indices -/
def pMat (K : Kernel α) (idx : List (Nat × Nat)) (d a : Nat) : α :=
  pEntry K (idx.getD d (0, 0)) (idx.getD a (0, 0))

/-- the blurred mapping matrix `B = P · M` (only unmasked sources and targets) -/
def blurred (K : Kernel α) (idx : List (Nat × Nat)) (M : Nat → Nat → α) (d p : Nat) : α :=
  sumRange idx.length fun a => pMat K idx d a * M a p

/-- `D = Bᵀ N⁻¹ d` -/
def dataVector (B : Nat → Nat → α) (data noise : List α) (n : Nat) (p : Nat) : α :=
  sumRange n fun d => vget data d * B d p / (vget noise d * vget noise d)

/-- `F = Bᵀ N⁻¹ B` -/
def curvature (B : Nat → Nat → α) (noise : List α) (n : Nat) (i j : Nat) : α :=
  sumRange n fun d => B d i / vget noise d * (B d j / vget noise d)

/-- noise-weighted PSF overlap `W = Pᵀ N⁻¹ P` -/
def wTilde (K : Kernel α) (idx : List (Nat × Nat)) (noise : List α) (a b : Nat) : α :=
  sumRange idx.length fun d =>
    pMat K idx d a * pMat K idx d b * ((1 / vget noise d) * (1 / vget noise d))

/-- the mapping matrix a ragged unique-mapping table encodes: `M[d, p] = Σ {w | (p, w) ∈ U[d]}` -/
def rowsMat (U : Rows α) (d p : Nat) : α :=
  sum ((U.getD d []).map fun e => if e.1 = p then e.2 else 0)

end Spec

/-! ## Impl layer (loop transliterations) -/
namespace Impl
variable {α : Type} [Add α] [Mul α] [Div α] [OfNat α 0] [OfNat α 1] [LT α] [DecidableLT α]
  [DecidableEq α]

/-! ### mapper tables → mapping matrix and unique mappings -/

/-- `mapper_util.mapping_matrix_from` -/
def mappingMatrixFrom (t : MapperTables α) (nData : Nat) : Mat α :=
  (List.range t.slimForSub.length).foldl
    (fun M sub =>
      let slim := t.slimForSub.getD sub 0
      (t.subRows.getD sub []).foldl
        (fun M e => M.add slim e.1 (vget t.subFraction slim * e.2)) M)
    (Mat.zeros nData t.pixels)

/-- one step of the `pix_check` de-duplication in `data_slim_to_pixelization_unique_from`: a pixel seen
    before in this data pixel accumulates into its slot, a new one opens the next slot.
    (`pix_check[pix] > -0.5` ⇔ `pix` already has a slot in the current row.) -/
def uniqueInsert (row : List (Nat × α)) (pix : Nat) (w : α) : List (Nat × α) :=
  match row.findIdx? (fun e => e.1 == pix) with
  | some k => row.set k (pix, (row.getD k (pix, 0)).2 + w)
  | none => row ++ [(pix, w)]

/-- `mapper_util.data_slim_to_pixelization_unique_from` → ragged (data_to_pix_unique, data_weights) rows -/
def uniqueFrom (t : MapperTables α) (nData : Nat) : Rows α :=
  ((List.range nData).foldl
    (fun (st : Rows α × Nat) ip =>
      let ipSubStart := st.2
      let ipSubEnd := ipSubStart + t.subSize.getD ip 0 * t.subSize.getD ip 0
      let row := (List.range' ipSubStart (ipSubEnd - ipSubStart)).foldl
        (fun row ipSub =>
          (t.subRows.getD ipSub []).foldl
            (fun row e => uniqueInsert row e.1 (vget t.subFraction ip * e.2)) row) []
      (st.1 ++ [row], ipSubEnd))
    ([], 0)).1

/-! ### convolver -/

/-- `Convolver.frame_at_coordinates_jit`: the (slim target index, kernel value) pairs of the pixels that
    the source pixel `c` is blurred into (`x = c[0] - half_x + i`, `y = c[1] - half_y + j`, kept when
    inside the frame and unmasked). -/
def frameAt (m : Mask) (K : Kernel α) (idx : List (Nat × Nat)) (c : Nat × Nat) : List (Nat × α) :=
  forYX K.kh K.kw
    (fun acc i j =>
      if K.hy ≤ c.1 + i ∧ c.1 + i - K.hy < m.h ∧ K.hx ≤ c.2 + j ∧ c.2 + j - K.hx < m.w then
        let t := (c.1 + i - K.hy, c.2 + j - K.hx)
        if !m.get t.1 t.2 then acc ++ [(idx.idxOf t, K.get i j)] else acc
      else acc)
    []

/-- `Convolver.__init__`: `image_frame_1d_indexes / kernels / lengths`, one frame per unmasked pixel in
    row-major order. -/
def frames (m : Mask) (K : Kernel α) : Rows α :=
  let idx := nativeForSlim m
  idx.map fun c => frameAt m K idx c

/-- `Convolver.convolve_matrix_jit` (repaired D1: `value != 0`) -/
def convolveMatrix (fr : Rows α) (M : Mat α) : Mat α :=
  (List.range M.c).foldl
    (fun B p =>
      (List.range M.r).foldl
        (fun B a =>
          let value := M.get a p
          if value ≠ 0 then
            (fr.getD a []).foldl (fun B fe => B.add fe.1 p (value * fe.2)) B
          else B)
        B)
    (Mat.zeros M.r M.c)

/-! ### mapping formalism -/

/-- `data_vector_via_blurred_mapping_matrix_from` -/
def dataVectorMapping (B : Mat α) (image noise : List α) : Vec α :=
  (List.range B.r).foldl
    (fun dv d =>
      (List.range B.c).foldl
        (fun dv p => dv.add p (vget image d * B.get d p / (vget noise d * vget noise d))) dv)
    (Vec.zeros B.c)

/-- `curvature_matrix_with_added_to_diag_from` -/
def addToDiag (F : Mat α) (value : α) (noReg : List Nat) : Mat α :=
  noReg.foldl (fun F i => F.add i i value) F

/-- `curvature_matrix_via_mapping_matrix_from`: `array = B / noise[:, None]`, `np.dot(array.T, array)`,
    then the diagonal term. -/
def curvatureMapping (B : Mat α) (noise : List α) (addDiag : Bool) (noReg : List Nat) (value : α) :
    Mat α :=
  let A : Mat α := Mat.ofFn B.r B.c fun d p => B.get d p / vget noise d
  let F : Mat α := Mat.ofFn B.c B.c fun i j => sumRange B.r fun d => A.get d i * A.get d j
  if addDiag ∧ noReg.length > 0 then addToDiag F value noReg else F

/-! ### w-tilde formalism -/

/-- `w_tilde_data_imaging_from` (repaired D2).  `weight_map_native = image / noise**2` is NaN exactly at
    `0/0`, which is how masked native pixels are skipped. -/
def wTildeData (w : Nat) (imageNative noiseNative : List α) (K : Kernel α)
    (idx : List (Nat × Nat)) : List α :=
  idx.map fun ip0 =>
    forYX K.kh K.kw
      (fun value k0y k0x =>
        let y := ip0.1 + k0y - K.hy
        let x := ip0.2 + k0x - K.hx
        let im := vget imageNative (y * w + x)
        let nz := vget noiseNative (y * w + x)
        if im = 0 ∧ nz * nz = 0 then value
        else value + K.get k0y k0x * (im / (nz * nz)))
      0

/-- `w_tilde_curvature_value_from` (repaired D2; `renormalize=False`) -/
def wTildeCurvatureValue (w : Nat) (valueNative : List α) (K : Kernel α) (ip0 ip1 : Nat × Nat) : α :=
  let shiftY : Int := -(K.hy : Int)
  let shiftX : Int := -(K.hx : Int)
  let offY : Int := (ip0.1 : Int) - (ip1.1 : Int)
  let offX : Int := (ip0.2 : Int) - (ip1.2 : Int)
  if offY < 2 * shiftY ∨ offY > -2 * shiftY ∨ offX < 2 * shiftX ∨ offX > -2 * shiftX then 0
  else
    forYX K.kh K.kw
      (fun cv k0y k0x =>
        let value := vget valueNative ((ip0.1 + k0y - K.hy) * w + (ip0.2 + k0x - K.hx))
        if 0 < value then
          let k1y : Int := (k0y : Int) + offY
          let k1x : Int := (k0x : Int) + offX
          if 0 ≤ k1y ∧ 0 ≤ k1x ∧ k1y < (K.kh : Int) ∧ k1x < (K.kw : Int) then
            cv + K.get k0y k0x * K.get k1y.toNat k1x.toNat * ((1 / value) * (1 / value))
          else cv
        else cv)
      0

/-- `w_tilde_curvature_preload_imaging_from` (repaired D3: `noise_value != 0.0`) → ragged
    (curvature_indexes, curvature_preload) rows; row `ip0` lists the partners `ip1 ≥ ip0`. -/
def wTildePreload (w : Nat) (noiseNative : List α) (K : Kernel α) (idx : List (Nat × Nat)) : Rows α :=
  (List.range idx.length).map fun ip0 =>
    (List.range' ip0 (idx.length - ip0)).foldl
      (fun row ip1 =>
        let v := wTildeCurvatureValue w noiseNative K (idx.getD ip0 (0, 0)) (idx.getD ip1 (0, 0))
        let v := if ip0 = ip1 then v / (1 + 1) else v
        if v ≠ 0 then row ++ [(ip1, v)] else row)
      []

/-- `data_vector_via_w_tilde_data_imaging_from` -/
def dataVectorWTilde (wtd : List α) (U : Rows α) (pixPixels : Nat) : Vec α :=
  (List.range wtd.length).foldl
    (fun dv d0 => (U.getD d0 []).foldl (fun dv e => dv.add e.1 (e.2 * vget wtd d0)) dv)
    (Vec.zeros pixPixels)

/-- `curvature_matrix_off_diags_via_w_tilde_curvature_preload_imaging_from` (also the first loop nest of
    `curvature_matrix_via_w_tilde_curvature_preload_imaging_from`, with `U0 = U1`) -/
def offDiagPreload (pre : Rows α) (U0 : Rows α) (n0 : Nat) (U1 : Rows α) (n1 : Nat) : Mat α :=
  (List.range pre.length).foldl
    (fun F d0 =>
      (pre.getD d0 []).foldl
        (fun F pe =>          -- pe = (data_1, w_tilde_value)
          (U0.getD d0 []).foldl
            (fun F e0 =>
              (U1.getD pe.1 []).foldl (fun F e1 => F.add e0.1 e1.1 (e0.2 * e1.2 * pe.2)) F)
            F)
        F)
    (Mat.zeros n0 n1)

/-- the two closing loop nests of `curvature_matrix_via_w_tilde_curvature_preload_imaging_from`:
    `F[i,j] += F[j,i]` for `j ≥ i`, then `F[j,i] = F[i,j]` for `j ≥ i`. -/
def symmetrize (F : Mat α) (n : Nat) : Mat α :=
  let F1 := (List.range n).foldl
    (fun F i => (List.range' i (n - i)).foldl (fun F j => F.add i j (F.get j i)) F) F
  (List.range n).foldl
    (fun F i => (List.range' i (n - i)).foldl (fun F j => F.put j i (F.get i j)) F) F1

/-- `curvature_matrix_via_w_tilde_curvature_preload_imaging_from` -/
def curvatureFromPreload (pre : Rows α) (U : Rows α) (pixPixels : Nat) : Mat α :=
  symmetrize (offDiagPreload pre U pixPixels U pixPixels) pixPixels

/-- `curvature_matrix_off_diags_via_mapper_and_linear_func_curvature_vector_from`
    (`off_diag[pix_0, :] += data_0_weight * curvature_weights[data_index, :] * kernel_value`) -/
def offDiagMapperFunc (U : Rows α) (pixPixels : Nat) (cw : Mat α) (fr : Rows α) : Mat α :=
  (List.range U.length).foldl
    (fun F d0 =>
      (U.getD d0 []).foldl
        (fun F e0 =>
          (fr.getD d0 []).foldl
            (fun F fe =>
              (List.range cw.c).foldl
                (fun F l => F.add e0.1 l (e0.2 * cw.get fe.1 l * fe.2)) F)
            F)
        F)
    (Mat.zeros pixPixels cw.c)

/-- one iteration `(i, j)` of `curvature_matrix_mirrored_from`: `out[i,j] = out[j,i] = C[i,j]` when
    `C[i,j] != 0`, then `out[i,j] = out[j,i] = C[j,i]` when `C[j,i] != 0`. -/
def mirroredStep (C : Mat α) (M : Mat α) (i j : Nat) : Mat α :=
  let M := if C.get i j ≠ 0 then (M.put i j (C.get i j)).put j i (C.get i j) else M
  if C.get j i ≠ 0 then (M.put i j (C.get j i)).put j i (C.get j i) else M

/-- `curvature_matrix_mirrored_from`, loop for loop (for a square matrix both entries of the unordered pair
    {i, j} end as `C[min,max]` if that is non-zero, else `C[max,min]` — `mirrored_spec` in
    Proofs/NormalEqMirror.lean). -/
def mirrored (C : Mat α) : Mat α :=
  forYX C.r C.c (fun M i j => mirroredStep C M i j) (Mat.zeros C.r C.c)

/-! ### the inversion: object order, parameter ranges, assembly -/

/-- `param_range_list_from(cls=LinearObj)`: `[start, end)` of every object, in list order -/
def paramRanges (objs : List (LinObj α)) : List (Nat × Nat) :=
  (objs.foldl (fun (st : List (Nat × Nat) × Nat) o =>
    (st.1 ++ [(st.2, st.2 + o.params)], st.2 + o.params)) ([], 0)).1

/-- `total_params` -/
def totalParams (objs : List (LinObj α)) : Nat := (objs.map LinObj.params).foldl (· + ·) 0

/-- `no_regularization_index_list` -/
def noRegIndexList (objs : List (LinObj α)) : List Nat :=
  ((objs.zip (paramRanges objs)).foldl
    (fun acc (p : LinObj α × (Nat × Nat)) =>
      if p.1.hasReg then acc else acc ++ List.range' p.2.1 (p.2.2 - p.2.1)) [])

/-- `linear_obj.mapping_matrix` -/
def mappingMatrixOf (nData : Nat) : LinObj α → Mat α
  | .mapper t _ => mappingMatrixFrom t nData
  | .funcList p M _ => Mat.ofLists nData p M

/-- `linear_obj.unique_mappings` of a mapper -/
def uniqueOf (nData : Nat) : LinObj α → Rows α
  | .mapper t _ => uniqueFrom t nData
  | .funcList _ _ _ => []

/-- `np.hstack` of matrices with `n` rows -/
def hstack (n : Nat) (Bs : List (Mat α)) : Mat α :=
  Mat.ofLists n ((Bs.map Mat.c).foldl (· + ·) 0)
    ((List.range n).map fun d => (Bs.map fun B => (List.range B.c).map fun j => B.get d j).flatten)

/-- `operated_mapping_matrix_list`: every object's mapping matrix blurred by the convolver -/
def operatedList (ds : Dataset α) (objs : List (LinObj α)) : List (Mat α) :=
  let n := (nativeForSlim ds.mask).length
  let fr := frames ds.mask ds.kernel
  objs.map fun o => convolveMatrix fr (mappingMatrixOf n o)

/-- `InversionImagingMapping.operated_mapping_matrix` -/
def operatedMappingMatrix (ds : Dataset α) (objs : List (LinObj α)) : Mat α :=
  hstack (nativeForSlim ds.mask).length (operatedList ds objs)

/-- `InversionImagingMapping.data_vector` -/
def dataVectorMap (ds : Dataset α) (objs : List (LinObj α)) : Vec α :=
  dataVectorMapping (operatedMappingMatrix ds objs) ds.data ds.noise

/-- `InversionImagingMapping.curvature_matrix` -/
def curvatureMap (ds : Dataset α) (objs : List (LinObj α)) (value : α) : Mat α :=
  curvatureMapping (operatedMappingMatrix ds objs) ds.noise true (noRegIndexList objs) value

/-- `v[r0:r1] = block` -/
def Vec.setBlock (v : Vec α) (r0 : Nat) (blk : Vec α) : Vec α :=
  (List.range blk.size).foldl (fun v i => v.setIfInBounds (r0 + i) (blk.getD i 0)) v

/-- `InversionImagingWTilde.w_tilde_data` (native arrays rebuilt from the slim ones as `Array2D.native`) -/
def wTildeDataOf (ds : Dataset α) : List α :=
  wTildeData ds.mask.w (nativeFrom ds.mask ds.data 0) (nativeFrom ds.mask ds.noise 0) ds.kernel
    (nativeForSlim ds.mask)

/-- `Imaging.w_tilde` -/
def wTildePreloadOf (ds : Dataset α) : Rows α :=
  wTildePreload ds.mask.w (nativeFrom ds.mask ds.noise 0) ds.kernel (nativeForSlim ds.mask)

/-- `InversionImagingWTilde.data_vector` (`_data_vector_func_list_and_mapper`, which for inversions
    without function lists coincides with `_data_vector_x1_mapper` / `_data_vector_multi_mapper`:
    every object's vector written into its parameter range). -/
def dataVectorWT (ds : Dataset α) (objs : List (LinObj α)) : Vec α :=
  let n := (nativeForSlim ds.mask).length
  let wtd := wTildeDataOf ds
  let fr := frames ds.mask ds.kernel
  (objs.zip (paramRanges objs)).foldl
    (fun dv (p : LinObj α × (Nat × Nat)) =>
      match p.1 with
      | .mapper t _ => Vec.setBlock dv p.2.1 (dataVectorWTilde wtd (uniqueFrom t n) t.pixels)
      | .funcList _ _ _ =>
        Vec.setBlock dv p.2.1
          (dataVectorMapping (convolveMatrix fr (mappingMatrixOf n p.1)) ds.data ds.noise))
    (Vec.zeros (totalParams objs))

/-- one block of `InversionImagingWTilde.curvature_matrix` before mirroring, for the ordered pair of
    objects at list positions `(i, j)`; `none` = this block is not written (left zero). -/
def blockWT (ds : Dataset α) (pre fr : Rows α) (n : Nat) (i j : Nat) (oi oj : LinObj α) :
    Option (Mat α) :=
  match oi, oj with
  | .mapper ti _, .mapper tj _ =>
    if i = j then
      -- `_curvature_matrix_mapper_diag`
      some (curvatureFromPreload pre (uniqueFrom ti n) ti.pixels)
    else if i < j then
      -- `_curvature_matrix_off_diag_from`: off_diag_0 + off_diag_1.T
      let ui := uniqueFrom ti n
      let uj := uniqueFrom tj n
      some (Mat.plus (offDiagPreload pre ui ti.pixels uj tj.pixels)
        (Mat.transpose (offDiagPreload pre uj tj.pixels ui ti.pixels)))
    else none
  | .mapper ti _, .funcList _ _ _ =>
    -- mapper rows, function-list columns (wherever the two sit in the list)
    let Bf := convolveMatrix fr (mappingMatrixOf n oj)
    let cw : Mat α := Mat.ofFn Bf.r Bf.c fun d l => Bf.get d l / (vget ds.noise d * vget ds.noise d)
    some (offDiagMapperFunc (uniqueFrom ti n) ti.pixels cw fr)
  | .funcList _ _ _, .funcList _ _ _ =>
    -- `np.dot(weighted_vector_0.T, weighted_vector_1)` for every ordered pair, including i = j
    let B0 := convolveMatrix fr (mappingMatrixOf n oi)
    let B1 := convolveMatrix fr (mappingMatrixOf n oj)
    some (Mat.ofFn B0.c B1.c fun a b =>
      sumRange n fun d => B0.get d a / vget ds.noise d * (B1.get d b / vget ds.noise d))
  | .funcList _ _ _, .mapper _ _ => none

/-- `InversionImagingWTilde.curvature_matrix`: blocks written by object pair, then
    `curvature_matrix_mirrored_from`, then the diagonal term. -/
def curvatureWT (ds : Dataset α) (objs : List (LinObj α)) (value : α) : Mat α :=
  let n := (nativeForSlim ds.mask).length
  let pre := wTildePreloadOf ds
  let fr := frames ds.mask ds.kernel
  let rs := paramRanges objs
  let tot := totalParams objs
  let os := (objs.zip rs).zipIdx
  let C := os.foldl
    (fun C (pi : (LinObj α × (Nat × Nat)) × Nat) =>
      os.foldl
        (fun C (pj : (LinObj α × (Nat × Nat)) × Nat) =>
          match blockWT ds pre fr n pi.2 pj.2 pi.1.1 pj.1.1 with
          | some blk => Mat.setBlock C pi.1.2.1 pj.1.2.1 blk
          | none => C)
        C)
    (Mat.zeros tot tot)
  let Cm := mirrored C
  let noReg := noRegIndexList objs
  if noReg.length > 0 then addToDiag Cm value noReg else Cm

/-! ### `InversionImagingWTilde`: the branch structure of `data_vector` / `curvature_matrix`

The code does not run one uniform double loop: it dispatches on `has(AbstractLinearObjFuncList)` and on the
number of mappers, and fills the matrices in separate passes (`_data_vector_mapper`, `_data_vector_x1_mapper`,
`_data_vector_multi_mapper`, `_data_vector_func_list_and_mapper`, `_curvature_matrix_mapper_diag`,
`_curvature_matrix_x1_mapper`, `_curvature_matrix_multi_mapper`, `_curvature_matrix_func_list_and_mapper`).
The functions below mirror that structure; `none` = the Python raises (`_data_vector_mapper` /
`_curvature_matrix_mapper_diag` return `None` when there is no mapper and the caller then indexes it).
`Proofs/NormalEqDispatch.lean` proves the dispatchers equal `dataVectorWT` / `curvatureWT` above. -/

/-- `isinstance(obj, AbstractLinearObjFuncList)` -/
def LinObj.isFunc (o : LinObj α) : Bool := !o.isMapper

/-- `param_range_list_from(cls)`: the running `pixel_count` advances over every object, a range is recorded
    for the objects of the class -/
def paramRangesCls (sel : LinObj α → Bool) (objs : List (LinObj α)) : List (Nat × Nat) :=
  (objs.foldl (fun (st : List (Nat × Nat) × Nat) o =>
    (if sel o then st.1 ++ [(st.2, st.2 + o.params)] else st.1, st.2 + o.params)) ([], 0)).1

/-- `zip(cls_list_from(cls), param_range_list_from(cls))` (the code pairs them by `enumerate`) -/
def clsWithRanges (sel : LinObj α → Bool) (objs : List (LinObj α)) : List (LinObj α × (Nat × Nat)) :=
  (objs.filter sel).zip (paramRangesCls sel objs)

/-- `for i in range(len(l)): for j in range(i + 1, len(l)):` — the ordered pairs `(l[i], l[j])`, `i < j`,
    in loop order -/
def pairsAfter {β : Type} : List β → List (β × β)
  | [] => []
  | x :: l => l.map (fun y => (x, y)) ++ pairsAfter l

/-- diagonal block of a mapper (`curvature_matrix_via_w_tilde_curvature_preload_imaging_from`) -/
def blkDiag (pre : Rows α) (n : Nat) (t : MapperTables α) : Mat α :=
  curvatureFromPreload pre (uniqueFrom t n) t.pixels

/-- `_curvature_matrix_off_diag_from(mapper_0, mapper_1)` -/
def blkOff (pre : Rows α) (n : Nat) (ti tj : MapperTables α) : Mat α :=
  let ui := uniqueFrom ti n
  let uj := uniqueFrom tj n
  Mat.plus (offDiagPreload pre ui ti.pixels uj tj.pixels)
    (Mat.transpose (offDiagPreload pre uj tj.pixels ui ti.pixels))

/-- mapper × function-list block (default branch: no preloads) -/
def blkMF (ds : Dataset α) (fr : Rows α) (n : Nat) (ti : MapperTables α) (oj : LinObj α) : Mat α :=
  let Bf := convolveMatrix fr (mappingMatrixOf n oj)
  let cw : Mat α := Mat.ofFn Bf.r Bf.c fun d l => Bf.get d l / (vget ds.noise d * vget ds.noise d)
  offDiagMapperFunc (uniqueFrom ti n) ti.pixels cw fr

/-- function-list × function-list block: `np.dot(weighted_vector_0.T, weighted_vector_1)` -/
def blkFF (ds : Dataset α) (fr : Rows α) (n : Nat) (oi oj : LinObj α) : Mat α :=
  let B0 := convolveMatrix fr (mappingMatrixOf n oi)
  let B1 := convolveMatrix fr (mappingMatrixOf n oj)
  Mat.ofFn B0.c B1.c fun a b =>
    sumRange n fun d => B0.get d a / vget ds.noise d * (B1.get d b / vget ds.noise d)

/-- the data-vector entries of one mapper -/
def dvMapper (ds : Dataset α) (t : MapperTables α) : Vec α :=
  dataVectorWTilde (wTildeDataOf ds) (uniqueFrom t (nativeForSlim ds.mask).length) t.pixels

/-- the data-vector entries of one function list (`data_vector_via_blurred_mapping_matrix_from` on its
    operated mapping matrix) -/
def dvFunc (ds : Dataset α) (o : LinObj α) : Vec α :=
  dataVectorMapping (convolveMatrix (frames ds.mask ds.kernel)
    (mappingMatrixOf (nativeForSlim ds.mask).length o)) ds.data ds.noise

/-- `_data_vector_mapper` -/
def dataVectorMapperWT (ds : Dataset α) (objs : List (LinObj α)) : Option (Vec α) :=
  if !(objs.any LinObj.isMapper) then none
  else
    some ((clsWithRanges LinObj.isMapper objs).foldl
      (fun dv (p : LinObj α × (Nat × Nat)) =>
        match p.1 with
        | .mapper t _ => Vec.setBlock dv p.2.1 (dvMapper ds t)
        | .funcList _ _ _ => dv)
      (Vec.zeros (totalParams objs)))

/-- `_data_vector_x1_mapper`: `linear_obj = self.linear_obj_list[0]` -/
def dataVectorX1WT (ds : Dataset α) (objs : List (LinObj α)) : Option (Vec α) :=
  match objs.head? with
  | some (.mapper t _) => some (dvMapper ds t)
  | _ => none

/-- `_data_vector_multi_mapper`: `np.concatenate` over every object of the list (all mappers on this
    branch) -/
def dataVectorMultiWT (ds : Dataset α) (objs : List (LinObj α)) : Option (Vec α) :=
  some (objs.foldl
    (fun acc o =>
      match o with
      | .mapper t _ => acc ++ dvMapper ds t
      | .funcList _ _ _ => acc)
    #[])

/-- `_data_vector_func_list_and_mapper` -/
def dataVectorFuncListAndMapperWT (ds : Dataset α) (objs : List (LinObj α)) : Option (Vec α) :=
  (dataVectorMapperWT ds objs).map fun dv =>
    (clsWithRanges LinObj.isFunc objs).foldl
      (fun dv (p : LinObj α × (Nat × Nat)) => Vec.setBlock dv p.2.1 (dvFunc ds p.1)) dv

/-- `InversionImagingWTilde.data_vector` with the code's dispatch -/
def dataVectorWTDispatch (ds : Dataset α) (objs : List (LinObj α)) : Option (Vec α) :=
  if objs.any LinObj.isFunc then dataVectorFuncListAndMapperWT ds objs
  else if (objs.filter LinObj.isMapper).length = 1 then dataVectorX1WT ds objs
  else dataVectorMultiWT ds objs

/-- `_curvature_matrix_mapper_diag` (= `_curvature_matrix_x1_mapper`) -/
def curvMapperDiagWT (ds : Dataset α) (objs : List (LinObj α)) : Option (Mat α) :=
  if !(objs.any LinObj.isMapper) then none
  else
    let n := (nativeForSlim ds.mask).length
    let pre := wTildePreloadOf ds
    let tot := totalParams objs
    some ((clsWithRanges LinObj.isMapper objs).foldl
      (fun C (p : LinObj α × (Nat × Nat)) =>
        match p.1 with
        | .mapper t _ => Mat.setBlock C p.2.1 p.2.1 (blkDiag pre n t)
        | .funcList _ _ _ => C)
      (Mat.zeros tot tot))

/-- `_curvature_matrix_multi_mapper` -/
def curvMultiMapperWT (ds : Dataset α) (objs : List (LinObj α)) : Option (Mat α) :=
  (curvMapperDiagWT ds objs).map fun C =>
    if (objs.filter LinObj.isMapper).length = 1 then C
    else
      let n := (nativeForSlim ds.mask).length
      let pre := wTildePreloadOf ds
      (pairsAfter (clsWithRanges LinObj.isMapper objs)).foldl
        (fun C (pq : (LinObj α × (Nat × Nat)) × (LinObj α × (Nat × Nat))) =>
          match pq.1.1, pq.2.1 with
          | .mapper ti _, .mapper tj _ => Mat.setBlock C pq.1.2.1 pq.2.2.1 (blkOff pre n ti tj)
          | _, _ => C)
        C

/-- `_curvature_matrix_func_list_and_mapper` -/
def curvFuncListAndMapperWT (ds : Dataset α) (objs : List (LinObj α)) : Option (Mat α) :=
  (curvMultiMapperWT ds objs).map fun C =>
    let n := (nativeForSlim ds.mask).length
    let fr := frames ds.mask ds.kernel
    let ms := clsWithRanges LinObj.isMapper objs
    let fs := clsWithRanges LinObj.isFunc objs
    let C1 := ms.foldl
      (fun C (m : LinObj α × (Nat × Nat)) =>
        fs.foldl
          (fun C (f : LinObj α × (Nat × Nat)) =>
            match m.1 with
            | .mapper t _ => Mat.setBlock C m.2.1 f.2.1 (blkMF ds fr n t f.1)
            | .funcList _ _ _ => C)
          C)
      C
    fs.foldl
      (fun C (f0 : LinObj α × (Nat × Nat)) =>
        fs.foldl
          (fun C (f1 : LinObj α × (Nat × Nat)) => Mat.setBlock C f0.2.1 f1.2.1 (blkFF ds fr n f0.1 f1.1))
          C)
      C1

/-- `InversionImagingWTilde.curvature_matrix` with the code's dispatch, then
    `curvature_matrix_mirrored_from` and the diagonal term -/
def curvatureWTDispatch (ds : Dataset α) (objs : List (LinObj α)) (value : α) : Option (Mat α) :=
  let C? :=
    if objs.any LinObj.isFunc then curvFuncListAndMapperWT ds objs
    else if (objs.filter LinObj.isMapper).length = 1 then curvMapperDiagWT ds objs
    else curvMultiMapperWT ds objs
  C?.map fun C =>
    let Cm := mirrored C
    let noReg := noRegIndexList objs
    if noReg.length > 0 then addToDiag Cm value noReg else Cm

/-! ### the tables as the code stores them

`data_slim_to_pixelization_unique_from` returns three arrays: `data_to_pix_unique` (shape
`[data_pixels, max_pix_mappings * max(sub_size)**2]`, padded with `-1`), `data_weights` (same shape, padded
with `0`) and the length column `pix_lengths`; `w_tilde_curvature_preload_imaging_from` returns the flat
`curvature_preload`, `curvature_indexes` and the length column `curvature_lengths`, which the consumers walk
with a running `curvature_index`.  `Padded` / `PreloadFlat` are these stored forms; `toRows` reads them
through their length column; the `…P` functions are the consumers' loops over the stored forms
(`for k in range(pix_lengths[d])`, `curvature_index += 1`).  `Proofs/NormalEqPadded.lean` proves
`toRows (ofRows r) = r` and `consumerP stored = consumer (toRows stored)`. -/

/-- `(data_to_pix_unique, data_weights, pix_lengths)` -/
structure Padded (α : Type) where
  idx : List (List Int)
  val : List (List α)
  len : List Nat

namespace Padded
/-- `(data_to_pix_unique[d, k], data_weights[d, k])` -/
def entry (p : Padded α) (d k : Nat) : Nat × α :=
  (((p.idx.getD d []).getD k (-1)).toNat, (p.val.getD d []).getD k 0)
/-- the table read through its length column -/
def toRows (p : Padded α) : Rows α :=
  (List.range p.len.length).map fun d => (List.range (p.len.getD d 0)).map fun k => p.entry d k
/-- what the producer stores for given rows: `-1` / `0` padding up to `width` -/
def ofRows (width : Nat) (rows : Rows α) : Padded α :=
  { idx := rows.map fun r => r.map (fun e => (e.1 : Int)) ++ List.replicate (width - r.length) (-1)
    val := rows.map fun r => r.map (fun e => e.2) ++ List.replicate (width - r.length) 0
    len := rows.map List.length }
end Padded

/-- `(curvature_preload, curvature_indexes, curvature_lengths)` -/
structure PreloadFlat (α : Type) where
  preload : List α
  indexes : List Nat
  lengths : List Nat

namespace PreloadFlat
/-- value of the running `curvature_index` when row `d` starts -/
def offset (q : PreloadFlat α) (d : Nat) : Nat := (q.lengths.take d).foldl (· + ·) 0
def entry (q : PreloadFlat α) (d k : Nat) : Nat × α :=
  (q.indexes.getD (q.offset d + k) 0, q.preload.getD (q.offset d + k) 0)
def toRows (q : PreloadFlat α) : Rows α :=
  (List.range q.lengths.length).map fun d => (List.range (q.lengths.getD d 0)).map fun k => q.entry d k
/-- the flattening pass at the end of `w_tilde_curvature_preload_imaging_from` -/
def ofRows (rows : Rows α) : PreloadFlat α :=
  { preload := rows.flatten.map fun e => e.2
    indexes := rows.flatten.map fun e => e.1
    lengths := rows.map List.length }
end PreloadFlat

/-- second-axis size of the unique-mapping arrays: `int(np.max(pix_sizes)) * np.max(sub_size) ** 2` -/
def uniqueWidth (t : MapperTables α) : Nat :=
  (t.subRows.map List.length).foldl max 0 * ((t.subSize.foldl max 0) * (t.subSize.foldl max 0))

/-- `data_slim_to_pixelization_unique_from` as stored -/
def uniqueFromPadded (t : MapperTables α) (nData : Nat) : Padded α :=
  Padded.ofRows (uniqueWidth t) (uniqueFrom t nData)

/-- `w_tilde_curvature_preload_imaging_from` as stored -/
def wTildePreloadFlat (w : Nat) (noiseNative : List α) (K : Kernel α) (idx : List (Nat × Nat)) :
    PreloadFlat α :=
  PreloadFlat.ofRows (wTildePreload w noiseNative K idx)

/-- `data_vector_via_w_tilde_data_imaging_from` over the stored arrays -/
def dataVectorWTildeP (wtd : List α) (p : Padded α) (pixPixels : Nat) : Vec α :=
  (List.range wtd.length).foldl
    (fun dv d0 =>
      (List.range (p.len.getD d0 0)).foldl
        (fun dv k => dv.add (p.entry d0 k).1 ((p.entry d0 k).2 * vget wtd d0)) dv)
    (Vec.zeros pixPixels)

/-- `curvature_matrix_off_diags_via_w_tilde_curvature_preload_imaging_from` over the stored arrays, with
    the running `curvature_index` -/
def offDiagPreloadP (q : PreloadFlat α) (p0 : Padded α) (n0 : Nat) (p1 : Padded α) (n1 : Nat) : Mat α :=
  ((List.range q.lengths.length).foldl
    (fun (st : Mat α × Nat) d0 =>
      (List.range (q.lengths.getD d0 0)).foldl
        (fun (st : Mat α × Nat) _ =>
          let data1 := q.indexes.getD st.2 0
          let wv := q.preload.getD st.2 0
          ((List.range (p0.len.getD d0 0)).foldl
            (fun F k0 =>
              (List.range (p1.len.getD data1 0)).foldl
                (fun F k1 =>
                  F.add (p0.entry d0 k0).1 (p1.entry data1 k1).1
                    ((p0.entry d0 k0).2 * (p1.entry data1 k1).2 * wv))
                F)
            st.1,
           st.2 + 1))
        st)
    (Mat.zeros n0 n1, 0)).1

/-- `curvature_matrix_via_w_tilde_curvature_preload_imaging_from` over the stored arrays -/
def curvatureFromPreloadP (q : PreloadFlat α) (p : Padded α) (pixPixels : Nat) : Mat α :=
  symmetrize (offDiagPreloadP q p pixPixels p pixPixels) pixPixels

/-- `curvature_matrix_off_diags_via_mapper_and_linear_func_curvature_vector_from` over the stored unique
    mappings -/
def offDiagMapperFuncP (p : Padded α) (pixPixels : Nat) (cw : Mat α) (fr : Rows α) : Mat α :=
  (List.range p.len.length).foldl
    (fun F d0 =>
      (List.range (p.len.getD d0 0)).foldl
        (fun F k0 =>
          (fr.getD d0 []).foldl
            (fun F fe =>
              (List.range cw.c).foldl
                (fun F l => F.add (p.entry d0 k0).1 l ((p.entry d0 k0).2 * cw.get fe.1 l * fe.2)) F)
            F)
        F)
    (Mat.zeros pixPixels cw.c)

/-- `mapped_reconstructed_data_via_image_to_pix_unique_from` over the stored unique mappings -/
def mappedViaUniqueP (p : Padded α) (recon : List α) : Vec α :=
  (List.range p.len.length).foldl
    (fun v d0 =>
      (List.range (p.len.getD d0 0)).foldl
        (fun v k => v.add d0 ((p.entry d0 k).2 * vget recon (p.entry d0 k).1)) v)
    (Vec.zeros p.len.length)

/-! ### the dispatchers over the stored tables

The same branch structure, with every mapper quantity computed from the arrays as the code stores them
(`uniqueFromPadded`, `wTildePreloadFlat`) by the loops over the stored forms (`…P`).  These are what the
driver executes; `Proofs/NormalEqPadded.lean` proves them equal to the versions above. -/

/-- `Imaging.w_tilde` as stored -/
def wTildePreloadFlatOf (ds : Dataset α) : PreloadFlat α :=
  wTildePreloadFlat ds.mask.w (nativeFrom ds.mask ds.noise 0) ds.kernel (nativeForSlim ds.mask)

def dvMapperP (ds : Dataset α) (t : MapperTables α) : Vec α :=
  dataVectorWTildeP (wTildeDataOf ds) (uniqueFromPadded t (nativeForSlim ds.mask).length) t.pixels

def blkDiagP (q : PreloadFlat α) (n : Nat) (t : MapperTables α) : Mat α :=
  curvatureFromPreloadP q (uniqueFromPadded t n) t.pixels

def blkOffP (q : PreloadFlat α) (n : Nat) (ti tj : MapperTables α) : Mat α :=
  let ui := uniqueFromPadded ti n
  let uj := uniqueFromPadded tj n
  Mat.plus (offDiagPreloadP q ui ti.pixels uj tj.pixels)
    (Mat.transpose (offDiagPreloadP q uj tj.pixels ui ti.pixels))

def blkMFP (ds : Dataset α) (fr : Rows α) (n : Nat) (ti : MapperTables α) (oj : LinObj α) : Mat α :=
  let Bf := convolveMatrix fr (mappingMatrixOf n oj)
  let cw : Mat α := Mat.ofFn Bf.r Bf.c fun d l => Bf.get d l / (vget ds.noise d * vget ds.noise d)
  offDiagMapperFuncP (uniqueFromPadded ti n) ti.pixels cw fr

/-- (stored-table version) `_data_vector_mapper` -/
def dataVectorMapperWTP (ds : Dataset α) (objs : List (LinObj α)) : Option (Vec α) :=
  if !(objs.any LinObj.isMapper) then none
  else
    some ((clsWithRanges LinObj.isMapper objs).foldl
      (fun dv (p : LinObj α × (Nat × Nat)) =>
        match p.1 with
        | .mapper t _ => Vec.setBlock dv p.2.1 (dvMapperP ds t)
        | .funcList _ _ _ => dv)
      (Vec.zeros (totalParams objs)))

/-- (stored-table version) `_data_vector_x1_mapper`: `linear_obj = self.linear_obj_list[0]` -/
def dataVectorX1WTP (ds : Dataset α) (objs : List (LinObj α)) : Option (Vec α) :=
  match objs.head? with
  | some (.mapper t _) => some (dvMapperP ds t)
  | _ => none

/-- (stored-table version) `_data_vector_multi_mapper`: `np.concatenate` over every object of the list (all mappers on this
    branch) -/
def dataVectorMultiWTP (ds : Dataset α) (objs : List (LinObj α)) : Option (Vec α) :=
  some (objs.foldl
    (fun acc o =>
      match o with
      | .mapper t _ => acc ++ dvMapperP ds t
      | .funcList _ _ _ => acc)
    #[])

/-- (stored-table version) `_data_vector_func_list_and_mapper` -/
def dataVectorFuncListAndMapperWTP (ds : Dataset α) (objs : List (LinObj α)) : Option (Vec α) :=
  (dataVectorMapperWTP ds objs).map fun dv =>
    (clsWithRanges LinObj.isFunc objs).foldl
      (fun dv (p : LinObj α × (Nat × Nat)) => Vec.setBlock dv p.2.1 (dvFunc ds p.1)) dv

/-- (stored-table version) `InversionImagingWTilde.data_vector` with the code's dispatch -/
def dataVectorWTDispatchP (ds : Dataset α) (objs : List (LinObj α)) : Option (Vec α) :=
  if objs.any LinObj.isFunc then dataVectorFuncListAndMapperWTP ds objs
  else if (objs.filter LinObj.isMapper).length = 1 then dataVectorX1WTP ds objs
  else dataVectorMultiWTP ds objs

/-- (stored-table version) `_curvature_matrix_mapper_diag` (= `_curvature_matrix_x1_mapper`) -/
def curvMapperDiagWTP (ds : Dataset α) (objs : List (LinObj α)) : Option (Mat α) :=
  if !(objs.any LinObj.isMapper) then none
  else
    let n := (nativeForSlim ds.mask).length
    let pre := wTildePreloadFlatOf ds
    let tot := totalParams objs
    some ((clsWithRanges LinObj.isMapper objs).foldl
      (fun C (p : LinObj α × (Nat × Nat)) =>
        match p.1 with
        | .mapper t _ => Mat.setBlock C p.2.1 p.2.1 (blkDiagP pre n t)
        | .funcList _ _ _ => C)
      (Mat.zeros tot tot))

/-- (stored-table version) `_curvature_matrix_multi_mapper` -/
def curvMultiMapperWTP (ds : Dataset α) (objs : List (LinObj α)) : Option (Mat α) :=
  (curvMapperDiagWTP ds objs).map fun C =>
    if (objs.filter LinObj.isMapper).length = 1 then C
    else
      let n := (nativeForSlim ds.mask).length
      let pre := wTildePreloadFlatOf ds
      (pairsAfter (clsWithRanges LinObj.isMapper objs)).foldl
        (fun C (pq : (LinObj α × (Nat × Nat)) × (LinObj α × (Nat × Nat))) =>
          match pq.1.1, pq.2.1 with
          | .mapper ti _, .mapper tj _ => Mat.setBlock C pq.1.2.1 pq.2.2.1 (blkOffP pre n ti tj)
          | _, _ => C)
        C

/-- (stored-table version) `_curvature_matrix_func_list_and_mapper` -/
def curvFuncListAndMapperWTP (ds : Dataset α) (objs : List (LinObj α)) : Option (Mat α) :=
  (curvMultiMapperWTP ds objs).map fun C =>
    let n := (nativeForSlim ds.mask).length
    let fr := frames ds.mask ds.kernel
    let ms := clsWithRanges LinObj.isMapper objs
    let fs := clsWithRanges LinObj.isFunc objs
    let C1 := ms.foldl
      (fun C (m : LinObj α × (Nat × Nat)) =>
        fs.foldl
          (fun C (f : LinObj α × (Nat × Nat)) =>
            match m.1 with
            | .mapper t _ => Mat.setBlock C m.2.1 f.2.1 (blkMFP ds fr n t f.1)
            | .funcList _ _ _ => C)
          C)
      C
    fs.foldl
      (fun C (f0 : LinObj α × (Nat × Nat)) =>
        fs.foldl
          (fun C (f1 : LinObj α × (Nat × Nat)) => Mat.setBlock C f0.2.1 f1.2.1 (blkFF ds fr n f0.1 f1.1))
          C)
      C1

/-- (stored-table version) `InversionImagingWTilde.curvature_matrix` with the code's dispatch, then
    `curvature_matrix_mirrored_from` and the diagonal term -/
def curvatureWTDispatchP (ds : Dataset α) (objs : List (LinObj α)) (value : α) : Option (Mat α) :=
  let C? :=
    if objs.any LinObj.isFunc then curvFuncListAndMapperWTP ds objs
    else if (objs.filter LinObj.isMapper).length = 1 then curvMapperDiagWTP ds objs
    else curvMultiMapperWTP ds objs
  C?.map fun C =>
    let Cm := mirrored C
    let noReg := noRegIndexList objs
    if noReg.length > 0 then addToDiag Cm value noReg else Cm

/-! ### reconstruction → image plane -/

/-- `mapped_reconstructed_data_via_mapping_matrix_from` -/
def mappedViaMatrix (B : Mat α) (recon : List α) : Vec α :=
  (List.range B.r).foldl
    (fun v i => (List.range recon.length).foldl (fun v j => v.add i (vget recon j * B.get i j)) v)
    (Vec.zeros B.r)

/-- `mapped_reconstructed_data_via_image_to_pix_unique_from` -/
def mappedViaUnique (U : Rows α) (recon : List α) : Vec α :=
  (List.range U.length).foldl
    (fun v d0 => (U.getD d0 []).foldl (fun v e => v.add d0 (e.2 * vget recon e.1)) v)
    (Vec.zeros U.length)

/-- `Convolver.convolve_image_no_blurring` on a slim image: scatter through the frames -/
def convolveNoBlurring (fr : Rows α) (image : List α) : Vec α :=
  (List.range image.length).foldl
    (fun v a => (fr.getD a []).foldl (fun v fe => v.add fe.1 (vget image a * fe.2)) v)
    (Vec.zeros image.length)

end Impl
end Model
