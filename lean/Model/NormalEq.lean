/-
Model/NormalEq.lean — data vector and curvature matrix of an imaging inversion in both formalisms
(property C04).  Mathlib-free; generic in the number type `α` (runs on `Rat` in the driver, reasoned about
over a field in `Proofs/NormalEq*.lean`).

Python sources transliterated here (D1, D2, D3 of DESIGN §6 in their *repaired* form, see
fixes/D1-…, fixes/D2-…, fixes/D3-…):
  autoarray/operators/convolver.py
      Convolver.__init__ (image frames), frame_at_coordinates_jit, convolve_matrix_jit
  autoarray/inversion/pixelization/mappers/mapper_util.py
      mapping_matrix_from, data_slim_to_pixelization_unique_from
  autoarray/inversion/inversion/imaging/inversion_imaging_util.py
      w_tilde_data_imaging_from, w_tilde_curvature_value_from, w_tilde_curvature_preload_imaging_from,
      data_vector_via_w_tilde_data_imaging_from, data_vector_via_blurred_mapping_matrix_from,
      curvature_matrix_via_w_tilde_curvature_preload_imaging_from,
      curvature_matrix_off_diags_via_w_tilde_curvature_preload_imaging_from,
      curvature_matrix_off_diags_via_mapper_and_linear_func_curvature_vector_from
  autoarray/inversion/inversion/inversion_util.py
      curvature_matrix_via_mapping_matrix_from, curvature_matrix_with_added_to_diag_from,
      curvature_matrix_mirrored_from, mapped_reconstructed_data_via_mapping_matrix_from,
      mapped_reconstructed_data_via_image_to_pix_unique_from
  autoarray/inversion/inversion/abstract.py
      param_range_list_from, no_regularization_index_list, operated_mapping_matrix (hstack)
  autoarray/inversion/inversion/imaging/mapping.py     InversionImagingMapping.data_vector / curvature_matrix
  autoarray/inversion/inversion/imaging/w_tilde.py     InversionImagingWTilde.data_vector / curvature_matrix

Representation choices (each is an isomorphic re-packaging of what the code stores, see design_notes/C04.md):
* accumulators (`np.zeros` arrays updated in place) are `Vec`/`Mat`: flat `Array` + shape; a write outside
  the shape is dropped (Python would raise `IndexError`; theorems state entries inside the shape);
* padded 2-D tables with a length column (`data_to_pix_unique/data_weights/pix_lengths`,
  `image_frame_1d_indexes/kernels/lengths`, `curvature_preload/indexes/lengths`,
  `pix_indexes/pix_weights/pix_sizes_for_sub_slim_index`) are ragged lists of (index, value) pairs: row `k`
  is the first `lengths[k]` entries of padded row `k`, in the same order;
* `mask_index_array[t]` (the slim index of native pixel `t`) is `idx.idxOf t` for `idx =
  native_index_for_slim_index`.
-/
import Model.Core
import Model.Slim

namespace Model

/-! ## numbers, vectors, matrices -/

section Arrays
variable {α : Type} [Add α] [OfNat α 0]

/-- finite sum of a list (what `np.sum` / `np.dot` compute, in exact arithmetic) -/
def sum (l : List α) : α := l.foldr (fun x acc => x + acc) 0

/-- `Σ_{i<n} f i` -/
def sumRange (n : Nat) (f : Nat → α) : α := sum ((List.range n).map f)

/-- read of a 1-D input array -/
def vget (v : List α) (i : Nat) : α := v.getD i 0

/-- a 1-D accumulator (`np.zeros(n)`) -/
abbrev Vec (α : Type) := Array α

def Vec.zeros (n : Nat) : Vec α := Array.replicate n 0
def Vec.get (v : Vec α) (i : Nat) : α := v.getD i 0
/-- `v[i] += x` -/
def Vec.add (v : Vec α) (i : Nat) (x : α) : Vec α := v.setIfInBounds i (v.getD i 0 + x)
def Vec.toList (v : Vec α) : List α := Array.toList v

/-- a 2-D array of shape `r × c`, row-major -/
structure Mat (α : Type) where
  r : Nat
  c : Nat
  data : Array α
  h : data.size = r * c

namespace Mat

def zeros (r c : Nat) : Mat α := ⟨r, c, Array.replicate (r * c) 0, by simp⟩

/-- `M[i, j]` (0 outside the shape) -/
def get (M : Mat α) (i j : Nat) : α :=
  if i < M.r ∧ j < M.c then M.data.getD (i * M.c + j) 0 else 0

/-- `M[i, j] = x` -/
def put (M : Mat α) (i j : Nat) (x : α) : Mat α :=
  if i < M.r ∧ j < M.c then
    ⟨M.r, M.c, M.data.setIfInBounds (i * M.c + j) x, by simp [M.h]⟩
  else M

/-- `M[i, j] += x` -/
def add (M : Mat α) (i j : Nat) (x : α) : Mat α := M.put i j (M.get i j + x)

/-- the matrix with entries `f i j` -/
def ofFn (r c : Nat) (f : Nat → Nat → α) : Mat α :=
  ⟨r, c, Array.ofFn (n := r * c) (fun k => f (k.val / c) (k.val % c)), by simp⟩

def ofLists (r c : Nat) (rows : List (List α)) : Mat α :=
  ofFn r c fun i j => (rows.getD i []).getD j 0

def toLists (M : Mat α) : List (List α) :=
  (List.range M.r).map fun i => (List.range M.c).map fun j => M.get i j

/-- `M[r0:r0+B.r, c0:c0+B.c] = B` (slice assignment, one entry at a time in row-major order) -/
def setBlock (M : Mat α) (r0 c0 : Nat) (B : Mat α) : Mat α :=
  forYX B.r B.c (fun M i j => M.put (r0 + i) (c0 + j) (B.get i j)) M

def transpose (M : Mat α) : Mat α := ofFn M.c M.r fun i j => M.get j i

/-- `A + B` (elementwise, shapes of `A`) -/
def plus (A B : Mat α) : Mat α := ofFn A.r A.c fun i j => A.get i j + B.get i j

end Mat
end Arrays

/-- a PSF kernel of shape `kh × kw`, row-major values -/
structure Kernel (α : Type) where
  kh : Nat
  kw : Nat
  vals : List α

namespace Kernel
variable {α : Type} [OfNat α 0]
/-- `kernel[i, j]` -/
def get (K : Kernel α) (i j : Nat) : α := K.vals.getD (i * K.kw + j) 0
/-- `shape[0] // 2` -/
def hy (K : Kernel α) : Nat := K.kh / 2
/-- `shape[1] // 2` -/
def hx (K : Kernel α) : Nat := K.kw / 2
end Kernel

/-- ragged table of (index, value) pairs: row `k` = the valid prefix of the padded row `k` -/
abbrev Rows (α : Type) := List (List (Nat × α))

/-- the per-sub-pixel tables of a mapper (`pix_indexes/weights/sizes_for_sub_slim_index`,
    `slim_index_for_sub_slim_index`, `over_sampler.sub_fraction`, `over_sampler.sub_size`) -/
structure MapperTables (α : Type) where
  pixels : Nat
  subRows : Rows α              -- row `s` = [(pix_indexes[s,c], pix_weights[s,c]) | c < pix_sizes[s]]
  slimForSub : List Nat
  subFraction : List α          -- per slim index
  subSize : List Nat            -- per slim index

/-- a linear object of an inversion -/
inductive LinObj (α : Type) where
  | mapper (t : MapperTables α) (hasReg : Bool)
  | funcList (params : Nat) (mappingMatrix : List (List α)) (hasReg : Bool)

namespace LinObj
variable {α : Type}
/-- `linear_obj.params` -/
def params : LinObj α → Nat
  | mapper t _ => t.pixels
  | funcList p _ _ => p
def hasReg : LinObj α → Bool
  | mapper _ b => b
  | funcList _ _ b => b
def isMapper : LinObj α → Bool
  | mapper _ _ => true
  | funcList _ _ _ => false
end LinObj

/-- the masked imaging dataset as the inversion sees it -/
structure Dataset (α : Type) where
  mask : Mask
  kernel : Kernel α
  data : List α                  -- slim
  noise : List α                 -- slim, strictly positive

/-! ## Spec layer -/
namespace Spec
variable {α : Type} [Add α] [Mul α] [Div α] [OfNat α 0] [OfNat α 1]

/-- PSF matrix entry `P[d, a] = K[d − a + half]`: the weight with which source pixel `a` is blurred into
    target pixel `d` (native coordinates); `0` when `d` is outside the kernel window of `a`. -/
def pEntry (K : Kernel α) (d a : Nat × Nat) : α :=
  if a.1 ≤ d.1 + K.hy ∧ d.1 + K.hy - a.1 < K.kh ∧ a.2 ≤ d.2 + K.hx ∧ d.2 + K.hx - a.2 < K.kw then
    K.get (d.1 + K.hy - a.1) (d.2 + K.hx - a.2)
  else 0

/-- `P` over slim indices -/
def pMat (K : Kernel α) (idx : List (Nat × Nat)) (d a : Nat) : α :=
  pEntry K (idx.getD d (0, 0)) (idx.getD a (0, 0))

/-- the blurred mapping matrix `B = P · M` (only unmasked sources and targets) -/
def blurred (K : Kernel α) (idx : List (Nat × Nat)) (M : Nat → Nat → α) (d p : Nat) : α :=
  sumRange idx.length fun a => pMat K idx d a * M a p

/-- `D = Bᵀ N⁻¹ d` -/
def dataVector (B : Nat → Nat → α) (data noise : List α) (n : Nat) (p : Nat) : α :=
  sumRange n fun d => vget data d * B d p / (vget noise d * vget noise d)

/-- `F = Bᵀ N⁻¹ B` -/
def curvature (B : Nat → Nat → α) (noise : List α) (n : Nat) (i j : Nat) : α :=
  sumRange n fun d => B d i / vget noise d * (B d j / vget noise d)

/-- noise-weighted PSF overlap `W = Pᵀ N⁻¹ P` -/
def wTilde (K : Kernel α) (idx : List (Nat × Nat)) (noise : List α) (a b : Nat) : α :=
  sumRange idx.length fun d =>
    pMat K idx d a * pMat K idx d b * ((1 / vget noise d) * (1 / vget noise d))

/-- the mapping matrix a ragged unique-mapping table encodes: `M[d, p] = Σ {w | (p, w) ∈ U[d]}` -/
def rowsMat (U : Rows α) (d p : Nat) : α :=
  sum ((U.getD d []).map fun e => if e.1 = p then e.2 else 0)

end Spec

/-! ## Impl layer (loop transliterations) -/
namespace Impl
variable {α : Type} [Add α] [Mul α] [Div α] [OfNat α 0] [OfNat α 1] [LT α] [DecidableLT α]
  [DecidableEq α]

/-! ### mapper tables → mapping matrix and unique mappings -/

/-- `mapper_util.mapping_matrix_from` -/
def mappingMatrixFrom (t : MapperTables α) (nData : Nat) : Mat α :=
  (List.range t.slimForSub.length).foldl
    (fun M sub =>
      let slim := t.slimForSub.getD sub 0
      (t.subRows.getD sub []).foldl
        (fun M e => M.add slim e.1 (vget t.subFraction slim * e.2)) M)
    (Mat.zeros nData t.pixels)

/-- one step of the `pix_check` de-duplication in `data_slim_to_pixelization_unique_from`: a pixel seen
    before in this data pixel accumulates into its slot, a new one opens the next slot.
    (`pix_check[pix] > -0.5` ⇔ `pix` already has a slot in the current row.) -/
def uniqueInsert (row : List (Nat × α)) (pix : Nat) (w : α) : List (Nat × α) :=
  match row.findIdx? (fun e => e.1 == pix) with
  | some k => row.set k (pix, (row.getD k (pix, 0)).2 + w)
  | none => row ++ [(pix, w)]

/-- `mapper_util.data_slim_to_pixelization_unique_from` → ragged (data_to_pix_unique, data_weights) rows -/
def uniqueFrom (t : MapperTables α) (nData : Nat) : Rows α :=
  ((List.range nData).foldl
    (fun (st : Rows α × Nat) ip =>
      let ipSubStart := st.2
      let ipSubEnd := ipSubStart + t.subSize.getD ip 0 * t.subSize.getD ip 0
      let row := (List.range' ipSubStart (ipSubEnd - ipSubStart)).foldl
        (fun row ipSub =>
          (t.subRows.getD ipSub []).foldl
            (fun row e => uniqueInsert row e.1 (vget t.subFraction ip * e.2)) row) []
      (st.1 ++ [row], ipSubEnd))
    ([], 0)).1

/-! ### convolver -/

/-- `Convolver.frame_at_coordinates_jit`: the (slim target index, kernel value) pairs of the pixels that
    the source pixel `c` is blurred into (`x = c[0] - half_x + i`, `y = c[1] - half_y + j`, kept when
    inside the frame and unmasked). -/
def frameAt (m : Mask) (K : Kernel α) (idx : List (Nat × Nat)) (c : Nat × Nat) : List (Nat × α) :=
  forYX K.kh K.kw
    (fun acc i j =>
      if K.hy ≤ c.1 + i ∧ c.1 + i - K.hy < m.h ∧ K.hx ≤ c.2 + j ∧ c.2 + j - K.hx < m.w then
        let t := (c.1 + i - K.hy, c.2 + j - K.hx)
        if !m.get t.1 t.2 then acc ++ [(idx.idxOf t, K.get i j)] else acc
      else acc)
    []

/-- `Convolver.__init__`: `image_frame_1d_indexes / kernels / lengths`, one frame per unmasked pixel in
    row-major order. -/
def frames (m : Mask) (K : Kernel α) : Rows α :=
  let idx := nativeForSlim m
  idx.map fun c => frameAt m K idx c

/-- `Convolver.convolve_matrix_jit` (repaired D1: `value != 0`) -/
def convolveMatrix (fr : Rows α) (M : Mat α) : Mat α :=
  (List.range M.c).foldl
    (fun B p =>
      (List.range M.r).foldl
        (fun B a =>
          let value := M.get a p
          if value ≠ 0 then
            (fr.getD a []).foldl (fun B fe => B.add fe.1 p (value * fe.2)) B
          else B)
        B)
    (Mat.zeros M.r M.c)

/-! ### mapping formalism -/

/-- `data_vector_via_blurred_mapping_matrix_from` -/
def dataVectorMapping (B : Mat α) (image noise : List α) : Vec α :=
  (List.range B.r).foldl
    (fun dv d =>
      (List.range B.c).foldl
        (fun dv p => dv.add p (vget image d * B.get d p / (vget noise d * vget noise d))) dv)
    (Vec.zeros B.c)

/-- `curvature_matrix_with_added_to_diag_from` -/
def addToDiag (F : Mat α) (value : α) (noReg : List Nat) : Mat α :=
  noReg.foldl (fun F i => F.add i i value) F

/-- `curvature_matrix_via_mapping_matrix_from`: `array = B / noise[:, None]`, `np.dot(array.T, array)`,
    then the diagonal term. -/
def curvatureMapping (B : Mat α) (noise : List α) (addDiag : Bool) (noReg : List Nat) (value : α) :
    Mat α :=
  let A : Mat α := Mat.ofFn B.r B.c fun d p => B.get d p / vget noise d
  let F : Mat α := Mat.ofFn B.c B.c fun i j => sumRange B.r fun d => A.get d i * A.get d j
  if addDiag ∧ noReg.length > 0 then addToDiag F value noReg else F

/-! ### w-tilde formalism -/

/-- `w_tilde_data_imaging_from` (repaired D2).  `weight_map_native = image / noise**2` is NaN exactly at
    `0/0`, which is how masked native pixels are skipped. -/
def wTildeData (w : Nat) (imageNative noiseNative : List α) (K : Kernel α)
    (idx : List (Nat × Nat)) : List α :=
  idx.map fun ip0 =>
    forYX K.kh K.kw
      (fun value k0y k0x =>
        let y := ip0.1 + k0y - K.hy
        let x := ip0.2 + k0x - K.hx
        let im := vget imageNative (y * w + x)
        let nz := vget noiseNative (y * w + x)
        if im = 0 ∧ nz * nz = 0 then value
        else value + K.get k0y k0x * (im / (nz * nz)))
      0

/-- `w_tilde_curvature_value_from` (repaired D2; `renormalize=False`) -/
def wTildeCurvatureValue (w : Nat) (valueNative : List α) (K : Kernel α) (ip0 ip1 : Nat × Nat) : α :=
  let shiftY : Int := -(K.hy : Int)
  let shiftX : Int := -(K.hx : Int)
  let offY : Int := (ip0.1 : Int) - (ip1.1 : Int)
  let offX : Int := (ip0.2 : Int) - (ip1.2 : Int)
  if offY < 2 * shiftY ∨ offY > -2 * shiftY ∨ offX < 2 * shiftX ∨ offX > -2 * shiftX then 0
  else
    forYX K.kh K.kw
      (fun cv k0y k0x =>
        let value := vget valueNative ((ip0.1 + k0y - K.hy) * w + (ip0.2 + k0x - K.hx))
        if 0 < value then
          let k1y : Int := (k0y : Int) + offY
          let k1x : Int := (k0x : Int) + offX
          if 0 ≤ k1y ∧ 0 ≤ k1x ∧ k1y < (K.kh : Int) ∧ k1x < (K.kw : Int) then
            cv + K.get k0y k0x * K.get k1y.toNat k1x.toNat * ((1 / value) * (1 / value))
          else cv
        else cv)
      0

/-- `w_tilde_curvature_preload_imaging_from` (repaired D3: `noise_value != 0.0`) → ragged
    (curvature_indexes, curvature_preload) rows; row `ip0` lists the partners `ip1 ≥ ip0`. -/
def wTildePreload (w : Nat) (noiseNative : List α) (K : Kernel α) (idx : List (Nat × Nat)) : Rows α :=
  (List.range idx.length).map fun ip0 =>
    (List.range' ip0 (idx.length - ip0)).foldl
      (fun row ip1 =>
        let v := wTildeCurvatureValue w noiseNative K (idx.getD ip0 (0, 0)) (idx.getD ip1 (0, 0))
        let v := if ip0 = ip1 then v / (1 + 1) else v
        if v ≠ 0 then row ++ [(ip1, v)] else row)
      []

/-- `data_vector_via_w_tilde_data_imaging_from` -/
def dataVectorWTilde (wtd : List α) (U : Rows α) (pixPixels : Nat) : Vec α :=
  (List.range wtd.length).foldl
    (fun dv d0 => (U.getD d0 []).foldl (fun dv e => dv.add e.1 (e.2 * vget wtd d0)) dv)
    (Vec.zeros pixPixels)

/-- `curvature_matrix_off_diags_via_w_tilde_curvature_preload_imaging_from` (also the first loop nest of
    `curvature_matrix_via_w_tilde_curvature_preload_imaging_from`, with `U0 = U1`) -/
def offDiagPreload (pre : Rows α) (U0 : Rows α) (n0 : Nat) (U1 : Rows α) (n1 : Nat) : Mat α :=
  (List.range pre.length).foldl
    (fun F d0 =>
      (pre.getD d0 []).foldl
        (fun F pe =>          -- pe = (data_1, w_tilde_value)
          (U0.getD d0 []).foldl
            (fun F e0 =>
              (U1.getD pe.1 []).foldl (fun F e1 => F.add e0.1 e1.1 (e0.2 * e1.2 * pe.2)) F)
            F)
        F)
    (Mat.zeros n0 n1)

/-- the two closing loop nests of `curvature_matrix_via_w_tilde_curvature_preload_imaging_from`:
    `F[i,j] += F[j,i]` for `j ≥ i`, then `F[j,i] = F[i,j]` for `j ≥ i`. -/
def symmetrize (F : Mat α) (n : Nat) : Mat α :=
  let F1 := (List.range n).foldl
    (fun F i => (List.range' i (n - i)).foldl (fun F j => F.add i j (F.get j i)) F) F
  (List.range n).foldl
    (fun F i => (List.range' i (n - i)).foldl (fun F j => F.put j i (F.get i j)) F) F1

/-- `curvature_matrix_via_w_tilde_curvature_preload_imaging_from` -/
def curvatureFromPreload (pre : Rows α) (U : Rows α) (pixPixels : Nat) : Mat α :=
  symmetrize (offDiagPreload pre U pixPixels U pixPixels) pixPixels

/-- `curvature_matrix_off_diags_via_mapper_and_linear_func_curvature_vector_from`
    (`off_diag[pix_0, :] += data_0_weight * curvature_weights[data_index, :] * kernel_value`) -/
def offDiagMapperFunc (U : Rows α) (pixPixels : Nat) (cw : Mat α) (fr : Rows α) : Mat α :=
  (List.range U.length).foldl
    (fun F d0 =>
      (U.getD d0 []).foldl
        (fun F e0 =>
          (fr.getD d0 []).foldl
            (fun F fe =>
              (List.range cw.c).foldl
                (fun F l => F.add e0.1 l (e0.2 * cw.get fe.1 l * fe.2)) F)
            F)
        F)
    (Mat.zeros pixPixels cw.c)

/-- one iteration `(i, j)` of `curvature_matrix_mirrored_from`: `out[i,j] = out[j,i] = C[i,j]` when
    `C[i,j] != 0`, then `out[i,j] = out[j,i] = C[j,i]` when `C[j,i] != 0`. -/
def mirroredStep (C : Mat α) (M : Mat α) (i j : Nat) : Mat α :=
  let M := if C.get i j ≠ 0 then (M.put i j (C.get i j)).put j i (C.get i j) else M
  if C.get j i ≠ 0 then (M.put i j (C.get j i)).put j i (C.get j i) else M

/-- `curvature_matrix_mirrored_from`, loop for loop (for a square matrix both entries of the unordered pair
    {i, j} end as `C[min,max]` if that is non-zero, else `C[max,min]` — `mirrored_spec` in
    Proofs/NormalEqMirror.lean). -/
def mirrored (C : Mat α) : Mat α :=
  forYX C.r C.c (fun M i j => mirroredStep C M i j) (Mat.zeros C.r C.c)

/-! ### the inversion: object order, parameter ranges, assembly -/

/-- `param_range_list_from(cls=LinearObj)`: `[start, end)` of every object, in list order -/
def paramRanges (objs : List (LinObj α)) : List (Nat × Nat) :=
  (objs.foldl (fun (st : List (Nat × Nat) × Nat) o =>
    (st.1 ++ [(st.2, st.2 + o.params)], st.2 + o.params)) ([], 0)).1

/-- `total_params` -/
def totalParams (objs : List (LinObj α)) : Nat := (objs.map LinObj.params).foldl (· + ·) 0

/-- `no_regularization_index_list` -/
def noRegIndexList (objs : List (LinObj α)) : List Nat :=
  ((objs.zip (paramRanges objs)).foldl
    (fun acc (p : LinObj α × (Nat × Nat)) =>
      if p.1.hasReg then acc else acc ++ List.range' p.2.1 (p.2.2 - p.2.1)) [])

/-- `linear_obj.mapping_matrix` -/
def mappingMatrixOf (nData : Nat) : LinObj α → Mat α
  | .mapper t _ => mappingMatrixFrom t nData
  | .funcList p M _ => Mat.ofLists nData p M

/-- `linear_obj.unique_mappings` of a mapper -/
def uniqueOf (nData : Nat) : LinObj α → Rows α
  | .mapper t _ => uniqueFrom t nData
  | .funcList _ _ _ => []

/-- `np.hstack` of matrices with `n` rows -/
def hstack (n : Nat) (Bs : List (Mat α)) : Mat α :=
  Mat.ofLists n ((Bs.map Mat.c).foldl (· + ·) 0)
    ((List.range n).map fun d => (Bs.map fun B => (List.range B.c).map fun j => B.get d j).flatten)

/-- `operated_mapping_matrix_list`: every object's mapping matrix blurred by the convolver -/
def operatedList (ds : Dataset α) (objs : List (LinObj α)) : List (Mat α) :=
  let n := (nativeForSlim ds.mask).length
  let fr := frames ds.mask ds.kernel
  objs.map fun o => convolveMatrix fr (mappingMatrixOf n o)

/-- `InversionImagingMapping.operated_mapping_matrix` -/
def operatedMappingMatrix (ds : Dataset α) (objs : List (LinObj α)) : Mat α :=
  hstack (nativeForSlim ds.mask).length (operatedList ds objs)

/-- `InversionImagingMapping.data_vector` -/
def dataVectorMap (ds : Dataset α) (objs : List (LinObj α)) : Vec α :=
  dataVectorMapping (operatedMappingMatrix ds objs) ds.data ds.noise

/-- `InversionImagingMapping.curvature_matrix` -/
def curvatureMap (ds : Dataset α) (objs : List (LinObj α)) (value : α) : Mat α :=
  curvatureMapping (operatedMappingMatrix ds objs) ds.noise true (noRegIndexList objs) value

/-- `v[r0:r1] = block` -/
def Vec.setBlock (v : Vec α) (r0 : Nat) (blk : Vec α) : Vec α :=
  (List.range blk.size).foldl (fun v i => v.setIfInBounds (r0 + i) (blk.getD i 0)) v

/-- `InversionImagingWTilde.w_tilde_data` (native arrays rebuilt from the slim ones as `Array2D.native`) -/
def wTildeDataOf (ds : Dataset α) : List α :=
  wTildeData ds.mask.w (nativeFrom ds.mask ds.data 0) (nativeFrom ds.mask ds.noise 0) ds.kernel
    (nativeForSlim ds.mask)

/-- `Imaging.w_tilde` -/
def wTildePreloadOf (ds : Dataset α) : Rows α :=
  wTildePreload ds.mask.w (nativeFrom ds.mask ds.noise 0) ds.kernel (nativeForSlim ds.mask)

/-- `InversionImagingWTilde.data_vector` (`_data_vector_func_list_and_mapper`, which for inversions
    without function lists coincides with `_data_vector_x1_mapper` / `_data_vector_multi_mapper`:
    every object's vector written into its parameter range). -/
def dataVectorWT (ds : Dataset α) (objs : List (LinObj α)) : Vec α :=
  let n := (nativeForSlim ds.mask).length
  let wtd := wTildeDataOf ds
  let fr := frames ds.mask ds.kernel
  (objs.zip (paramRanges objs)).foldl
    (fun dv (p : LinObj α × (Nat × Nat)) =>
      match p.1 with
      | .mapper t _ => Vec.setBlock dv p.2.1 (dataVectorWTilde wtd (uniqueFrom t n) t.pixels)
      | .funcList _ _ _ =>
        Vec.setBlock dv p.2.1
          (dataVectorMapping (convolveMatrix fr (mappingMatrixOf n p.1)) ds.data ds.noise))
    (Vec.zeros (totalParams objs))

/-- one block of `InversionImagingWTilde.curvature_matrix` before mirroring, for the ordered pair of
    objects at list positions `(i, j)`; `none` = this block is not written (left zero). -/
def blockWT (ds : Dataset α) (pre fr : Rows α) (n : Nat) (i j : Nat) (oi oj : LinObj α) :
    Option (Mat α) :=
  match oi, oj with
  | .mapper ti _, .mapper tj _ =>
    if i = j then
      -- `_curvature_matrix_mapper_diag`
      some (curvatureFromPreload pre (uniqueFrom ti n) ti.pixels)
    else if i < j then
      -- `_curvature_matrix_off_diag_from`: off_diag_0 + off_diag_1.T
      let ui := uniqueFrom ti n
      let uj := uniqueFrom tj n
      some (Mat.plus (offDiagPreload pre ui ti.pixels uj tj.pixels)
        (Mat.transpose (offDiagPreload pre uj tj.pixels ui ti.pixels)))
    else none
  | .mapper ti _, .funcList _ _ _ =>
    -- mapper rows, function-list columns (wherever the two sit in the list)
    let Bf := convolveMatrix fr (mappingMatrixOf n oj)
    let cw : Mat α := Mat.ofFn Bf.r Bf.c fun d l => Bf.get d l / (vget ds.noise d * vget ds.noise d)
    some (offDiagMapperFunc (uniqueFrom ti n) ti.pixels cw fr)
  | .funcList _ _ _, .funcList _ _ _ =>
    -- `np.dot(weighted_vector_0.T, weighted_vector_1)` for every ordered pair, including i = j
    let B0 := convolveMatrix fr (mappingMatrixOf n oi)
    let B1 := convolveMatrix fr (mappingMatrixOf n oj)
    some (Mat.ofFn B0.c B1.c fun a b =>
      sumRange n fun d => B0.get d a / vget ds.noise d * (B1.get d b / vget ds.noise d))
  | .funcList _ _ _, .mapper _ _ => none

/-- `InversionImagingWTilde.curvature_matrix`: blocks written by object pair, then
    `curvature_matrix_mirrored_from`, then the diagonal term. -/
def curvatureWT (ds : Dataset α) (objs : List (LinObj α)) (value : α) : Mat α :=
  let n := (nativeForSlim ds.mask).length
  let pre := wTildePreloadOf ds
  let fr := frames ds.mask ds.kernel
  let rs := paramRanges objs
  let tot := totalParams objs
  let os := (objs.zip rs).zipIdx
  let C := os.foldl
    (fun C (pi : (LinObj α × (Nat × Nat)) × Nat) =>
      os.foldl
        (fun C (pj : (LinObj α × (Nat × Nat)) × Nat) =>
          match blockWT ds pre fr n pi.2 pj.2 pi.1.1 pj.1.1 with
          | some blk => Mat.setBlock C pi.1.2.1 pj.1.2.1 blk
          | none => C)
        C)
    (Mat.zeros tot tot)
  let Cm := mirrored C
  let noReg := noRegIndexList objs
  if noReg.length > 0 then addToDiag Cm value noReg else Cm

/-! ### reconstruction → image plane -/

/-- `mapped_reconstructed_data_via_mapping_matrix_from` -/
def mappedViaMatrix (B : Mat α) (recon : List α) : Vec α :=
  (List.range B.r).foldl
    (fun v i => (List.range recon.length).foldl (fun v j => v.add i (vget recon j * B.get i j)) v)
    (Vec.zeros B.r)

/-- `mapped_reconstructed_data_via_image_to_pix_unique_from` -/
def mappedViaUnique (U : Rows α) (recon : List α) : Vec α :=
  (List.range U.length).foldl
    (fun v d0 => (U.getD d0 []).foldl (fun v e => v.add d0 (e.2 * vget recon e.1)) v)
    (Vec.zeros U.length)

/-- `Convolver.convolve_image_no_blurring` on a slim image: scatter through the frames -/
def convolveNoBlurring (fr : Rows α) (image : List α) : Vec α :=
  (List.range image.length).foldl
    (fun v a => (fr.getD a []).foldl (fun v fe => v.add fe.1 (vget image a * fe.2)) v)
    (Vec.zeros image.length)

end Impl
end Model
