/-
Model/NormalEqFuncList.lean — the three jit functions of
`autoarray/inversion/inversion/imaging/inversion_imaging_util.py` that Model/NormalEq.lean does not
transliterate (property C04, loop ties `Proofs/TieNormalEq2.lean`):

  w_tilde_curvature_imaging_from                               the dense `[image_pixels, image_pixels]` w-tilde
  data_linear_func_matrix_from                                 the preloaded `data_linear_func_matrix`
  curvature_matrix_off_diags_via_data_linear_func_matrix_from  the mapper × linear-func block through it

Mathlib-free, generic in the number type `α` exactly like Model/NormalEq.lean, whose representation choices
are kept: accumulators are `Mat` (a write outside the shape is dropped, Python would raise IndexError),
the convolver's `image_frame_1d_indexes / kernels / lengths` and the mapper's
`data_to_pix_unique / data_weights / pix_lengths` are ragged `Rows` (index, value) or, as stored, `Padded`
tables read through their length column (`…P` versions = the loops over the arrays as numpy holds them).
`Proofs/NormalEqFuncList.lean` proves `Impl = Spec` and that the preloaded route agrees with the direct one
(`Impl.offDiagMapperFunc`).
-/
import Model.NormalEq

namespace Model

/-! ## Spec layer (finite sums) -/
namespace Spec
variable {α : Type} [Add α] [Mul α] [OfNat α 0]

/-- `data_linear_func_matrix[d, l] = Σ_{(t, k) ∈ frame d} k · cw[t, l]`: the curvature weights of linear
    function `l` pushed through the PSF frame of data pixel `d`. -/
def dataLinearFuncMatrix (cw : Nat → Nat → α) (fr : Rows α) (d l : Nat) : α :=
  sum ((fr.getD d []).map fun fe => fe.2 * cw fe.1 l)

/-- `off_diag[p, l] = Σ_d M[d, p] · D[d, l]` with `M = rowsMat U` the mapping matrix the unique mappings
    encode: `off_diag = Mᵀ · D`. -/
def offDiagViaDataLinearFunc (D : Nat → Nat → α) (U : Rows α) (p l : Nat) : α :=
  sumRange U.length fun d => rowsMat U d p * D d l

end Spec

/-! ## Impl layer (loop transliterations) -/
namespace Impl

section Dense
variable {α : Type} [Add α] [Mul α] [Div α] [OfNat α 0] [OfNat α 1] [LT α] [DecidableLT α]

/-- `inversion_imaging_util.w_tilde_curvature_imaging_from`
```python
    image_pixels = len(native_index_for_slim_index)
    w_tilde_curvature = np.zeros((image_pixels, image_pixels))
    for ip0 in range(w_tilde_curvature.shape[0]):
        ip0_y, ip0_x = native_index_for_slim_index[ip0]
        for ip1 in range(ip0, w_tilde_curvature.shape[1]):
            ip1_y, ip1_x = native_index_for_slim_index[ip1]
            w_tilde_curvature[ip0, ip1] += w_tilde_curvature_value_from(
                value_native=noise_map_native, kernel_native=kernel_native,
                ip0_y=ip0_y, ip0_x=ip0_x, ip1_y=ip1_y, ip1_x=ip1_x)
    for ip0 in range(w_tilde_curvature.shape[0]):
        for ip1 in range(ip0, w_tilde_curvature.shape[1]):
            w_tilde_curvature[ip1, ip0] = w_tilde_curvature[ip0, ip1]
    return w_tilde_curvature
```
(the second nest is the second closing loop of `Impl.symmetrize`) -/
def wTildeCurvatureDense (w : Nat) (noiseNative : List α) (K : Kernel α) (idx : List (Nat × Nat)) :
    Mat α :=
  let n := idx.length
  let W1 := (List.range n).foldl
    (fun W ip0 =>
      (List.range' ip0 (n - ip0)).foldl
        (fun W ip1 =>
          W.add ip0 ip1
            (wTildeCurvatureValue w noiseNative K (idx.getD ip0 (0, 0)) (idx.getD ip1 (0, 0))))
        W)
    (Mat.zeros n n)
  (List.range n).foldl
    (fun W ip0 => (List.range' ip0 (n - ip0)).foldl (fun W ip1 => W.put ip1 ip0 (W.get ip0 ip1)) W)
    W1

end Dense

section FuncList
variable {α : Type} [Add α] [Mul α] [OfNat α 0]

/-- `inversion_imaging_util.data_linear_func_matrix_from`
```python
    data_pixels = curvature_weights_matrix.shape[0]
    linear_func_pixels = curvature_weights_matrix.shape[1]
    data_linear_func_matrix_dict = np.zeros(shape=(data_pixels, linear_func_pixels))
    for data_0 in range(data_pixels):
        for psf_index in range(image_frame_1d_lengths[data_0]):
            data_index = image_frame_1d_indexes[data_0, psf_index]
            kernel_value = image_frame_1d_kernels[data_0, psf_index]
            for linear_index in range(linear_func_pixels):
                data_linear_func_matrix_dict[data_0, linear_index] += (
                    kernel_value * curvature_weights_matrix[data_index, linear_index])
    return data_linear_func_matrix_dict
```
over the ragged frames (`fr[d]` = the first `image_frame_1d_lengths[d]` (index, kernel) pairs of row `d`) -/
def dataLinearFuncMatrix (cw : Mat α) (fr : Rows α) : Mat α :=
  (List.range cw.r).foldl
    (fun D d0 =>
      (fr.getD d0 []).foldl
        (fun D fe => (List.range cw.c).foldl (fun D l => D.add d0 l (fe.2 * cw.get fe.1 l)) D)
        D)
    (Mat.zeros cw.r cw.c)

/-- `data_linear_func_matrix_from` over the frame arrays as stored
    (`for psf_index in range(image_frame_1d_lengths[data_0])`) -/
def dataLinearFuncMatrixP (cw : Mat α) (f : Padded α) : Mat α :=
  (List.range cw.r).foldl
    (fun D d0 =>
      (List.range (f.len.getD d0 0)).foldl
        (fun D k =>
          (List.range cw.c).foldl
            (fun D l => D.add d0 l ((f.entry d0 k).2 * cw.get (f.entry d0 k).1 l)) D)
        D)
    (Mat.zeros cw.r cw.c)

/-- `inversion_imaging_util.curvature_matrix_off_diags_via_data_linear_func_matrix_from`
```python
    linear_func_pixels = data_linear_func_matrix.shape[1]
    off_diag = np.zeros((pix_pixels, linear_func_pixels))
    data_pixels = data_weights.shape[0]
    for data_0 in range(data_pixels):
        for pix_0_index in range(pix_lengths[data_0]):
            data_0_weight = data_weights[data_0, pix_0_index]
            pix_0 = data_to_pix_unique[data_0, pix_0_index]
            for linear_index in range(linear_func_pixels):
                off_diag[pix_0, linear_index] += (
                    data_linear_func_matrix[data_0, linear_index] * data_0_weight)
    return off_diag
```
over the ragged unique mappings -/
def offDiagViaDataLinearFunc (D : Mat α) (U : Rows α) (pixPixels : Nat) : Mat α :=
  (List.range U.length).foldl
    (fun F d0 =>
      (U.getD d0 []).foldl
        (fun F e0 => (List.range D.c).foldl (fun F l => F.add e0.1 l (D.get d0 l * e0.2)) F)
        F)
    (Mat.zeros pixPixels D.c)

/-- `curvature_matrix_off_diags_via_data_linear_func_matrix_from` over the stored unique mappings
    (`for pix_0_index in range(pix_lengths[data_0])`) -/
def offDiagViaDataLinearFuncP (D : Mat α) (p : Padded α) (pixPixels : Nat) : Mat α :=
  (List.range p.len.length).foldl
    (fun F d0 =>
      (List.range (p.len.getD d0 0)).foldl
        (fun F k0 =>
          (List.range D.c).foldl
            (fun F l => F.add (p.entry d0 k0).1 l (D.get d0 l * (p.entry d0 k0).2)) F)
        F)
    (Mat.zeros pixPixels D.c)

end FuncList

end Impl
end Model
