/-
Model/OverSample.lean — over-sampling (property C09).  Mathlib-free.

Python sources transliterated here (all under /repo/autoarray):
  geometry/geometry_util.py                    central_pixel_coordinates_2d_from,
                                               central_scaled_coordinate_2d_from
  structures/grids/grid_2d_util.py             grid_2d_slim_via_mask_from   (mask.derive_grid.unmasked)
  operators/over_sampling/over_sample_util.py  grid_2d_slim_over_sampled_via_mask_from,
                                               slim_index_for_sub_slim_index_via_mask_2d_from,
                                               native_sub_index_for_slim_sub_index_2d_from,
                                               binned_array_2d_from
  operators/over_sampling/uniform.py           OverSamplerUniform.{__init__, sub_pixel_areas,
                                               over_sampled_grid, binned_array_2d_from,
                                               array_via_func_from}
  operators/over_sampling/decorator.py         perform_over_sampling_from, over_sample
  operators/over_sampling/iterate.py           threshold_mask_via_arrays_jit_from,
                                               iterated_array_jit_from,
                                               OverSamplerIterate.{array_at_sub_size_from,
                                               threshold_mask_from, array_via_func_from}

Number type: any `α` with the core operator classes, so the same definitions run on `Rat` in the
driver and are reasoned about over an ordered field in Proofs/OverSample*.lean.

Conventions: the per-pixel sub-size map is a `List Nat` indexed by slim index (what
`np.array(self.sub_size).astype("int")` is); a user function is any `f : α × α → α` of a (y,x) point,
applied point-wise (`List.map f`) to a grid.
-/
import Model.Core
import Model.Slim

namespace Model

/-- pixel scales `(sy, sx)` and origin `(oy, ox)` of a `Mask2D`. -/
structure Geom (α : Type) where
  sy : α
  sx : α
  oy : α
  ox : α
deriving Repr

section
variable {α : Type} [Add α] [Sub α] [Mul α] [Div α] [Neg α] [NatCast α]
  [OfNat α 0] [OfNat α 1] [OfNat α 2] [LT α] [DecidableLT α] [DecidableEq α]

/-! ## Spec layer -/
namespace Spec

/-- centre of pixel `(y,x)` in scaled coordinates: `(−(y − c_y)·s_y, (x − c_x)·s_x)` with
    `c = ((H−1)/2 + o_y/s_y, (W−1)/2 − o_x/s_x)`. -/
def pixelCentre (h w : Nat) (g : Geom α) (p : Nat × Nat) : α × α :=
  (-(((p.1 : α) - (((h : α) - 1) / 2 + g.oy / g.sy)) * g.sy),
   ((p.2 : α) - (((w : α) - 1) / 2 - g.ox / g.sx)) * g.sx)

/-- centre of sub-cell `(y₁,x₁)` of the uniform `s×s` partition of the pixel square centred on `P`:
    `(P_y + s_y/2 − (y₁+½)·s_y/s,  P_x − s_x/2 + (x₁+½)·s_x/s)`. -/
def subCentre (g : Geom α) (P : α × α) (s : Nat) (q : Nat × Nat) : α × α :=
  (P.1 + g.sy / 2 - ((q.1 : α) + 1 / 2) * g.sy / (s : α),
   P.2 - g.sx / 2 + ((q.2 : α) + 1 / 2) * g.sx / (s : α))

/-- the `s²` sub-centres of one pixel: top-to-bottom, then left-to-right. -/
def subCentres (g : Geom α) (P : α × α) (s : Nat) : List (α × α) :=
  (pixels s s).map (subCentre g P s)

/-- the unmasked pixels paired with their slim index. -/
def slimPixels (m : Mask) : List ((Nat × Nat) × Nat) := (Spec.unmaskedPixels m).zipIdx

/-- the over-sampled grid: pixel by pixel in slim order, each pixel's `sub_k²` sub-centres. -/
def overSampledGrid (m : Mask) (sub : List Nat) (g : Geom α) : List (α × α) :=
  (slimPixels m).flatMap fun pk =>
    subCentres g (pixelCentre m.h m.w g pk.1) (sub.getD pk.2 0)

/-- each slim index `k` repeated `sub_k²` times. -/
def slimForSubSlim (n : Nat) (sub : List Nat) : List Nat :=
  (List.range n).flatMap fun k => List.replicate (sub.getD k 0 * sub.getD k 0) k

/-- start of pixel `k`'s block in the over-sampled ordering: `Σ_{j<k} sub_j²`. -/
def offset (sub : List Nat) (k : Nat) : Nat :=
  ((List.range k).map fun j => sub.getD j 0 * sub.getD j 0).sum

/-- pixel `k`'s own sub-values. -/
def block (sub : List Nat) (a : List α) (k : Nat) : List α :=
  (List.range (sub.getD k 0 * sub.getD k 0)).map fun j => a.getD (offset sub k + j) 0

/-- mean of `f` over the `s²` sub-centres of the pixel centred on `P`. -/
def cellMean (f : α × α → α) (g : Geom α) (P : α × α) (s : Nat) : α :=
  ((subCentres g P s).map f).foldl (· + ·) 0 / ((s * s : Nat) : α)

end Spec

/-! ## Impl layer (loop transliterations) -/
namespace Impl

/-- `central_scaled_coordinate_2d_from` (with `central_pixel_coordinates_2d_from` inlined):
    `(float(H − 1)/2 + o_y/s_y,  float(W − 1)/2 − o_x/s_x)`. -/
def centresScaled (h w : Nat) (g : Geom α) : α × α :=
  (((h : α) - 1) / 2 + g.oy / g.sy, ((w : α) - 1) / 2 - g.ox / g.sx)

/-- body of the loop of `grid_2d_slim_via_mask_from`:
    `(-(y - centres_scaled[0]) * pixel_scales[0], (x - centres_scaled[1]) * pixel_scales[1])`. -/
def pixelPoint (g : Geom α) (c : α × α) (y x : Nat) : α × α :=
  (-((y : α) - c.1) * g.sy, ((x : α) - c.2) * g.sx)

/-- `grid_2d_slim_via_mask_from` (`mask.derive_grid.unmasked`): one point per unmasked pixel. -/
def unmaskedGrid (m : Mask) (g : Geom α) : List (α × α) :=
  let c := centresScaled m.h m.w g
  forYX m.h m.w (fun acc y x => if !m.get y x then acc ++ [pixelPoint g c y x] else acc) []

/-- innermost statement pair of `grid_2d_slim_over_sampled_via_mask_from`, with the per-pixel
    temporaries (`y_sub_half`, `y_sub_step`, `y_scaled`, …) exactly as the code names them. -/
def subPoint (g : Geom α) (c : α × α) (y x sub y1 x1 : Nat) : α × α :=
  let ySubHalf := g.sy / 2
  let ySubStep := g.sy / (sub : α)
  let xSubHalf := g.sx / 2
  let xSubStep := g.sx / (sub : α)
  let yScaled := ((y : α) - c.1) * g.sy
  let xScaled := ((x : α) - c.2) * g.sx
  (-(yScaled - ySubHalf + (y1 : α) * ySubStep + ySubStep / 2),
   xScaled - xSubHalf + (x1 : α) * xSubStep + xSubStep / 2)

/-- `grid_2d_slim_over_sampled_via_mask_from`.  State = (grid rows written so far, `index`);
    `sub_index` is the number of rows written (the code pre-allocates `Σ sub²` rows and writes row
    `sub_index`, so writing is an append). -/
def overSampledGrid (m : Mask) (sub : List Nat) (g : Geom α) : List (α × α) :=
  let c := centresScaled m.h m.w g
  (forYX m.h m.w
    (fun (st : List (α × α) × Nat) y x =>
      if !m.get y x then
        let s := sub.getD st.2 0
        (forYX s s (fun acc y1 x1 => acc ++ [subPoint g c y x s y1 x1]) st.1, st.2 + 1)
      else st) ([], 0)).1

/-- `slim_index_for_sub_slim_index_via_mask_2d_from`. -/
def slimForSubSlim (m : Mask) (sub : List Nat) : List Nat :=
  (forYX m.h m.w
    (fun (st : List Nat × Nat) y x =>
      if !m.get y x then
        let s := sub.getD st.2 0
        (forYX s s (fun acc _ _ => acc ++ [st.2]) st.1, st.2 + 1)
      else st) ([], 0)).1

/-- `native_sub_index_for_slim_sub_index_2d_from`: `((y*sub)+y1, (x*sub)+x1)`. -/
def subNativeForSubSlim (m : Mask) (sub : List Nat) : List (Nat × Nat) :=
  (forYX m.h m.w
    (fun (st : List (Nat × Nat) × Nat) y x =>
      if !m.get y x then
        let s := sub.getD st.2 0
        (forYX s s (fun acc y1 x1 => acc ++ [(y * s + y1, x * s + x1)]) st.1, st.2 + 1)
      else st) ([], 0)).1

/-- `binned_array_2d_from`.  State = (binned values of the pixels finished so far, `index`,
    `sub_index`); the inner loop is `binned[index] += array_2d[sub_index] * sub_fraction[index]`
    starting from the zero the array was allocated with; `sub_fraction = 1.0 / sub_size**2`. -/
def binned (m : Mask) (sub : List Nat) (a : List α) : List α :=
  (forYX m.h m.w
    (fun (st : List α × Nat × Nat) y x =>
      if !m.get y x then
        let s := sub.getD st.2.1 0
        let frac : α := 1 / ((s * s : Nat) : α)
        let r := forYX s s (fun (v : α × Nat) _ _ => (v.1 + a.getD v.2 0 * frac, v.2 + 1))
          ((0 : α), st.2.2)
        (st.1 ++ [r.1], st.2.1 + 1, r.2)
      else st) ([], 0, 0)).1

/-- `OverSamplerUniform.sub_pixel_areas`:
    `for i in range(N): for j in range(sub[i]**2): areas[k] = pixel_area / sub[i]**2; k += 1`. -/
def subPixelAreas (sub : List Nat) (g : Geom α) : List α :=
  let pixelArea := g.sy * g.sx
  (List.range sub.length).foldl
    (fun acc i =>
      (List.range (sub.getD i 0 * sub.getD i 0)).foldl
        (fun acc _ => acc ++ [pixelArea / ((sub.getD i 0 * sub.getD i 0 : Nat) : α)]) acc) []

/-- `OverSamplerUniform.array_via_func_from`: evaluate on the over-sampled grid, bin. -/
def arrayViaFunc (f : α × α → α) (m : Mask) (sub : List Nat) (g : Geom α) : List α :=
  binned m sub ((overSampledGrid m sub g).map f)

/-! ### the decorator -/

/-- what the user passes as `sub_size`: one int for every pixel, or a per-pixel array. -/
inductive SubSpec where
  | int (s : Nat)
  | arr (s : List Nat)
deriving Repr

/-- `OverSamplerUniform.__init__`: an int is expanded by `np.full(fill_value=sub_size, shape=N)`. -/
def SubSpec.expand (n : Nat) : SubSpec → List Nat
  | .int s => List.replicate n s
  | .arr l => l

/-- the `over_sampling` attribute of a `Grid2D`. -/
inductive OverSampling (α : Type) where
  | uniform (s : SubSpec)
  | iterate (fr rel : Option α) (steps : List Nat)

/-- `perform_over_sampling_from` for a `Grid2D` whose `over_sampling` is not None:
    uniform with `sub_size == 1` (int), or — the `ValueError` branch for arrays —
    `sum(sub_size) == pixels_in_mask`, switches over-sampling off.
    (A one-element array takes the first branch in Python; there `l == [1]` iff `l.sum = n = 1`.) -/
def performOverSampling (n : Nat) : OverSampling α → Bool
  | .uniform (.int s) => !(s == 1)
  | .uniform (.arr l) => !(l.foldl (· + ·) 0 == n)
  | .iterate _ _ _ => true

/-! ### the iterative scheme -/

/-- `abs(lower - higher)` -/
def absDiff (a b : α) : α :=
  let d := a - b
  if d < 0 then -d else d

/-- the `fractional_accuracy` temporary of `threshold_mask_via_arrays_jit_from`. -/
def fracAccuracy (lo hi : α) : α :=
  if 0 < lo then
    let r := lo / hi
    if 1 < r then 1 / r else r
  else 0

/-- `threshold_mask_via_arrays_jit_from` on row-major arrays: starts all `True`
    (`Mask2D.all_false(..., invert=True)`), first pass clears entries failing the fractional
    accuracy, second pass clears entries failing the absolute-difference tolerance.
    `True` = converged (or masked at this level), `False` = must be re-evaluated. -/
def thresholdMask (fr rel : Option α) (h w : Nat) (higher lower : List α)
    (higherMask : List Bool) : List Bool :=
  let tm0 := List.replicate (h * w) true
  let tm1 := match fr with
    | some t =>
      forYX h w (fun tm y x =>
        if !higherMask.getD (y * w + x) true then
          if fracAccuracy (lower.getD (y * w + x) 0) (higher.getD (y * w + x) 0) < t then
            tm.set (y * w + x) false
          else tm
        else tm) tm0
    | none => tm0
  match rel with
  | some t =>
    forYX h w (fun tm y x =>
      if !higherMask.getD (y * w + x) true then
        if t < absDiff (lower.getD (y * w + x) 0) (higher.getD (y * w + x) 0) then
          tm.set (y * w + x) false
        else tm
      else tm) tm1
  | none => tm1

/-- `iterated_array_jit_from`. -/
def iteratedArray (h w : Nat) (iter : List α) (tmHigher tmLower : List Bool) (higher : List α) :
    List α :=
  forYX h w (fun it y x =>
    if tmHigher.getD (y * w + x) true && !tmLower.getD (y * w + x) true then
      it.set (y * w + x) (higher.getD (y * w + x) 0)
    else it) iter

/-- `iterated_array + array_higher_sub` (numpy element-wise sum of two native arrays). -/
def addArrays (a b : List α) : List α := List.zipWith (· + ·) a b

/-- The loop of `OverSamplerIterate.array_via_func_from` after the sub-size-1 evaluation.
    `arr ℓ bits` is the native array (zeros at masked pixels) the function gives at level `ℓ` of the
    schedule when evaluated under the mask `bits` (`array_at_sub_size_from`).  `remaining` counts the
    entries of `sub_steps[:-1]` still to be visited, `ℓ` is the current level (1-based); the `for`
    has an early `return`, hence recursion instead of a fold.
      state: `iter` = iterated_array, `mLow` = threshold_mask_lower_sub, `aLow` = array_sub_1. -/
def iterGo (fr rel : Option α) (h w : Nat) (arr : Nat → List Bool → List α) :
    (remaining : Nat) → (ℓ : Nat) → (iter : List α) → (mLow : List Bool) → (aLow : List α) → List α
  | 0, ℓ, iter, mLow, _ => addArrays iter (arr ℓ mLow)
  | r + 1, ℓ, iter, mLow, aLow =>
    let aHigh := arr ℓ mLow
    let tm := thresholdMask fr rel h w aHigh aLow mLow
    let iter' := iteratedArray h w iter tm mLow aHigh
    if tm.all id then iter'                      -- `threshold_mask_higher_sub.is_all_true`
    else iterGo fr rel h w arr r (ℓ + 1) iter' tm aHigh

/-- `OverSamplerIterate.array_via_func_from` at the native level, for a schedule of `nSteps ≥ 1`
    sub-sizes.  Level 0 is the plain evaluation at pixel centres; `if not np.any(array_sub_1)`
    returns it unchanged. -/
def iterateNative (fr rel : Option α) (h w : Nat) (bits : List Bool)
    (arr : Nat → List Bool → List α) (nSteps : Nat) : List α :=
  let a0 := arr 0 bits
  if a0.all (fun v => v == 0) then a0
  else iterGo fr rel h w arr (nSteps - 1) 1 (List.replicate (h * w) 0) bits a0

/-- the native array of level `ℓ` under the (shrunken) mask `bits`:
    level 0: `Array2D(values=func(obj, mask.derive_grid.unmasked), mask=mask).native`;
    level ℓ ≥ 1: `array_at_sub_size_from(mask=bits, sub_size=sub_steps[ℓ-1])`, i.e.
    `OverSamplerUniform(mask, int)` → binned → `.native`. -/
def levelArray (f : α × α → α) (h w : Nat) (g : Geom α) (steps : List Nat) (ℓ : Nat)
    (bits : List Bool) : List α :=
  let mk : Mask := ⟨h, w, bits⟩
  if ℓ = 0 then nativeFrom mk ((unmaskedGrid mk g).map f) 0
  else
    let sub := List.replicate (totalPixels mk) (steps.getD (ℓ - 1) 0)
    nativeFrom mk (arrayViaFunc f mk sub g) 0

/-- `OverSamplerIterate.array_via_func_from` as observed through `.slim` of the returned `Array2D`
    (`Array2D(values=native, mask=self.mask)` zeroes masked entries, then gathers). -/
def iterateViaFunc (f : α × α → α) (m : Mask) (g : Geom α) (fr rel : Option α) (steps : List Nat) :
    List α :=
  slimFrom m (applyMask m
    (iterateNative fr rel m.h m.w m.bits (levelArray f m.h m.w g steps) steps.length) 0) 0

/-- `iterate` with an explicit value table `v ℓ i` (level, flat pixel index) instead of a function:
    the level array under a mask is the table with masked entries zeroed. -/
def tableArray (hw : Nat) (v : Nat → Nat → α) (ℓ : Nat) (bits : List Bool) : List α :=
  (List.range hw).map fun i => if bits.getD i true then 0 else v ℓ i

/-- the `@over_sample` wrapper for a `Grid2D` carrying `over_sampling = os` on mask `m`;
    `gridValues` are the grid's own coordinates (used only when over-sampling is switched off). -/
def decorated (f : α × α → α) (m : Mask) (g : Geom α) (gridValues : List (α × α))
    (os : OverSampling α) : List α :=
  if performOverSampling (totalPixels m) os then
    match os with
    | .uniform s => arrayViaFunc f m (s.expand (totalPixels m)) g
    | .iterate fr rel steps => iterateViaFunc f m g fr rel steps
  else gridValues.map f

end Impl

/-! ## Spec layer of the iterative scheme -/
namespace Spec

/-- the code's per-pixel agreement rule between the previous level's value `lo` and the current
    level's value `hi`: the fractional accuracy (if a threshold is set) is not below the threshold
    and the absolute difference (if a tolerance is set) does not exceed it. -/
def converged (fr rel : Option α) (lo hi : α) : Bool :=
  (match fr with
    | some t => !decide (Impl.fracAccuracy lo hi < t)
    | none => true) &&
  (match rel with
    | some t => !decide (t < Impl.absDiff lo hi)
    | none => true)

/-- the value the stopping rule selects from one pixel's column of level values `vi 0, vi 1, …`:
    scanning levels `ℓ, ℓ+1, …, ℓ+r-1`, the first one that agrees with its predecessor; else level
    `ℓ + r` (the last sub-size). -/
def chosenFrom (conv : α → α → Bool) (vi : Nat → α) : (r : Nat) → (ℓ : Nat) → α
  | 0, ℓ => vi ℓ
  | r + 1, ℓ => if conv (vi (ℓ - 1)) (vi ℓ) then vi ℓ else chosenFrom conv vi r (ℓ + 1)

/-- the same selection stated with `find?`: the first level `ℓ ∈ [1, n-1]` agreeing with level
    `ℓ-1`, otherwise level `n`. -/
def iterValue (conv : α → α → Bool) (vi : Nat → α) (n : Nat) : α :=
  match (List.range' 1 (n - 1)).find? (fun l => conv (vi (l - 1)) (vi l)) with
  | some l => vi l
  | none => vi n

/-- level values of the pixel centred on `P` for a user function `f` and schedule `steps`:
    level 0 is `f P`, level `ℓ ≥ 1` the mean of `f` over the `steps[ℓ-1]²` sub-centres. -/
def levelValue (f : α × α → α) (g : Geom α) (steps : List Nat) (P : α × α) (l : Nat) : α :=
  if l = 0 then f P else cellMean f g P (steps.getD (l - 1) 0)

end Spec
end
end Model
