/-
Model/OverSampleBins.lean — radial sub-size bins and the sub-native → sub-slim index table
(property C09, loop-tie sweep A).

Python sources transliterated here:
  autoarray/operators/over_sampling/over_sample_util.py
      sub_size_radial_bins_from, sub_slim_index_for_sub_native_index_from
-/
import Model.Core

namespace Model

/-! ## Spec layer -/
namespace Spec

section bins
variable {α : Type} [LT α] [DecidableLT α]

/-- the sub-size of one radius `r`: that of the FIRST bin whose upper edge exceeds `r`
    (`r < radial_list[j]`), and the last entry of the sub-size list when no edge does. -/
def binOf (subs edges : List α) (z : α) (r : α) : α :=
  match (List.range edges.length).find? (fun j => decide (r < edges.getD j z)) with
  | some j => subs.getD j z
  | none => subs.getD (subs.length - 1) z

/-- one sub-size per radius. -/
def subSizeRadialBins (radial subs edges : List α) (z : α) : List α :=
  radial.map (binOf subs edges z)

end bins

/-- entry `k` (row-major) of the sub-native → sub-slim table: `none` (the code's `-1`) on a masked
    sub-pixel, else the number of unmasked sub-pixels before it. -/
def subSlimForSubNative (m : Mask) : List (Option Nat) :=
  (List.range (m.h * m.w)).map fun k =>
    if m.bits.getD k true then none
    else some ((List.range k).filter fun q => !m.bits.getD q true).length

end Spec

/-! ## Impl layer (loop transliterations) -/
namespace Impl

section bins
variable {α : Type} [LT α] [DecidableLT α]

/-- `sub_size_radial_bins_from`: `sub_size = sub_size_list[-1] * np.ones(n)`; for every `i` the inner
    loop over the bin edges writes `sub_size[i] = sub_size_list[j]` at the first `j` with
    `radial_grid[i] < radial_list[j]` and `break`s (the Bool of the state is the break flag). -/
def subSizeRadialBins (radial subs edges : List α) (z : α) : List α :=
  (List.range radial.length).foldl
    (fun out i =>
      ((List.range edges.length).foldl
        (fun (st : List α × Bool) j =>
          if st.2 then st
          else if radial.getD i z < edges.getD j z then (st.1.set i (subs.getD j z), true)
          else st)
        (out, false)).1)
    (List.replicate radial.length (subs.getD (subs.length - 1) z))

end bins

/-- `sub_slim_index_for_sub_native_index_from`: `-1 * np.ones(shape)` (`none`), then in the `y, x` nest
    every unmasked sub-pixel receives the running counter, which is then incremented. -/
def subSlimForSubNative (m : Mask) : List (Option Nat) :=
  (forYX m.h m.w
    (fun (st : List (Option Nat) × Nat) y x =>
      if m.get y x == false then (st.1.set (y * m.w + x) (some st.2), st.2 + 1) else st)
    (List.replicate (m.h * m.w) none, 0)).1

end Impl
end Model
