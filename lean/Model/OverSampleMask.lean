/-
Model/OverSampleMask.lean — `over_sample_util.oversample_mask_2d_from(mask, sub_size)` (property C09, uniform
over-sampling): the mask in which every pixel of `mask` is replaced by a `sub_size × sub_size` block of its value.

  autoarray/operators/over_sampling/over_sample_util.py   oversample_mask_2d_from

Impl = the loop as written (`np.full(.., True)`, then for every unmasked pixel the block store
`oversample_mask[y*s:(y+1)*s, x*s:(x+1)*s] = False`); Spec = the closed form `out[Y, X] = mask[Y / s, X / s]`.
The refinement `Impl = Spec` is Proofs/OverSampleMask.lean; the loop tie of Impl to the regenerated source is
Proofs/TieOverSample3.lean.  Mathlib-free.
-/
import Model.Core

namespace Model

namespace Impl

/-- `a[y0:y1, x0:x1] = v` on a native array of width `W` given by its row-major list: entry `k` is at row `k / W`,
    column `k % W` -/
def blockSet (W : Nat) (a : List Bool) (y0 y1 x0 x1 : Nat) (v : Bool) : List Bool :=
  a.mapIdx fun k e => if y0 ≤ k / W ∧ k / W < y1 ∧ x0 ≤ k % W ∧ k % W < x1 then v else e

/-- the bits of `oversample_mask_2d_from(mask, s)`: all `True`, then one block store per unmasked pixel, in the
    `for y: for x:` order of the code -/
def oversampleBits (m : Mask) (s : Nat) : List Bool :=
  forYX m.h m.w
    (fun acc y x =>
      if !m.get y x then blockSet (m.w * s) acc (y * s) ((y + 1) * s) (x * s) ((x + 1) * s) false else acc)
    (List.replicate (m.h * s * (m.w * s)) true)

/-- `over_sample_util.oversample_mask_2d_from` -/
def oversampleMask (m : Mask) (s : Nat) : Mask :=
  { h := m.h * s, w := m.w * s, bits := oversampleBits m s }

end Impl

namespace Spec

/-- the over-sampled mask: sub-pixel `(Y, X)` is masked exactly when its parent pixel `(Y / s, X / s)` is -/
def oversampleMask (m : Mask) (s : Nat) : Mask :=
  { h := m.h * s, w := m.w * s,
    bits := (pixels (m.h * s) (m.w * s)).map fun p => m.get (p.1 / s) (p.2 / s) }

end Spec

end Model
