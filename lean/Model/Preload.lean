/-
Model/Preload.lean — preloaded / cached intermediate results of an imaging inversion (property C15).

Python sources transliterated here (the *control* structure: which preload slot short-circuits which
computation, which arrays are aliased, copied, allocated or written in place):
  autoarray/preloads.py                               Preloads.__init__           (the slots)
  autoarray/inversion/inversion/factory.py            inversion_imaging_from      (formalism choice)
  autoarray/dataset/abstract/w_tilde.py               check_noise_map
  autoarray/inversion/inversion/abstract.py           operated_mapping_matrix, regularization_matrix,
        regularization_matrix_reduced, curvature_reg_matrix, curvature_reg_matrix_reduced,
        reconstruction, reconstruction_reduced, mapped_reconstructed_data, regularization_term,
        log_det_curvature_reg_matrix_term, log_det_regularization_matrix_term
  autoarray/inversion/inversion/imaging/abstract.py   operated_mapping_matrix_list,
        linear_func_operated_mapping_matrix_dict, data_linear_func_matrix_dict,
        mapper_operated_mapping_matrix_dict
  autoarray/inversion/inversion/imaging/mapping.py    data_vector, curvature_matrix
  autoarray/inversion/inversion/imaging/w_tilde.py    _data_vector_mapper, data_vector (three paths),
        _curvature_matrix_mapper_diag, _curvature_matrix_x1_mapper, _curvature_matrix_multi_mapper,
        _curvature_matrix_func_list_and_mapper, curvature_matrix
  autoarray/inversion/inversion/inversion_util.py     curvature_matrix_with_added_to_diag_from

What is NOT modelled (enters as the record `Ext` of pure functions, "modelled, not verified"): every
numerical kernel — PSF convolution of mapping matrices (C03), the two normal-equation formalisms (C04),
the solvers (C05), regularization matrices (C07), numpy `hstack/dot/delete`, scipy `block_diag/splu`,
`numpy.linalg.cholesky/solve`.  The model only does what the Python does *itself* with the arrays:
alias, `copy.copy`, allocate, `+=` of two matrices, `c[i,i] += value`, block writes `c[a:b, c:d] = …`.

numpy arrays live in a tiny heap (`Heap`): a reference is an index, `alloc` appends, `write` replaces
the contents of one cell (an in-place update), `copy` is `alloc ∘ read`.  A `Preloads` object holds
references (its arrays are shared by every inversion that is handed the object); the contents of the
cells below `base` — the heap size when the `Preloads` was built — are "the preloaded buffers".

`cached_property` is not modelled as a store: every accessor below recomputes its dependencies.  This
is observationally the same for a caller that copies what it reads, because the only cached array
that is ever written after being cached is `curvature_matrix`, and `curvature_reg_matrix` deletes that
cache entry right after writing (abstract.py:414).
-/
import Model.Core

namespace Model
namespace Preload

abbrev Ref := Nat

/-! ## heap of numpy buffers -/

structure Heap (α : Type) where
  bufs : List (List α)
deriving Repr, DecidableEq

namespace Heap
variable {α : Type}

def size (h : Heap α) : Nat := h.bufs.length
/-- contents of a cell; dangling references read as the empty array (never happens for WF preloads) -/
def read (h : Heap α) (r : Ref) : List α := h.bufs.getD r []
/-- a new numpy array -/
def alloc (h : Heap α) (b : List α) : Heap α × Ref := (⟨h.bufs ++ [b]⟩, h.bufs.length)
/-- in-place update of an existing array -/
def write (h : Heap α) (r : Ref) (b : List α) : Heap α := ⟨h.bufs.set r b⟩
/-- `copy.copy(ndarray)` -/
def copy (h : Heap α) (r : Ref) : Heap α × Ref := h.alloc (h.read r)

end Heap

/-! ## the slots of `Preloads` that the imaging inversions consult (preloads.py:19-58)

`β = Ref` : the object as the code sees it (arrays by reference);  `β = List α` : its contents. -/
structure SlotsOf (β α : Type) where
  /-- `w_tilde` (WTildeImaging: curvature_preload, indexes, lengths, noise_map_value) -/
  wTilde : Option β := none
  /-- `use_w_tilde` -/
  useWTilde : Option Bool := none
  /-- `operated_mapping_matrix` -/
  operatedMappingMatrix : Option β := none
  /-- `linear_func_operated_mapping_matrix_dict` -/
  linearFuncDict : Option β := none
  /-- `data_linear_func_matrix_dict` -/
  dataLinearFuncDict : Option β := none
  /-- `mapper_operated_mapping_matrix_dict` -/
  mapperOperatedDict : Option β := none
  /-- `curvature_matrix` -/
  curvatureMatrix : Option β := none
  /-- `data_vector_mapper` -/
  dataVectorMapper : Option β := none
  /-- `curvature_matrix_mapper_diag` -/
  curvatureMatrixMapperDiag : Option β := none
  /-- `regularization_matrix` -/
  regularizationMatrix : Option β := none
  /-- `log_det_regularization_matrix_term` (a float, held by value) -/
  logDetRegularizationMatrixTerm : Option α := none

abbrev Preloads (α : Type) := SlotsOf Ref α
abbrev Slots (α : Type) := SlotsOf (List α) α

namespace SlotsOf
variable {α β γ : Type}

def map (f : β → γ) (s : SlotsOf β α) : SlotsOf γ α :=
  { wTilde := s.wTilde.map f, useWTilde := s.useWTilde,
    operatedMappingMatrix := s.operatedMappingMatrix.map f,
    linearFuncDict := s.linearFuncDict.map f, dataLinearFuncDict := s.dataLinearFuncDict.map f,
    mapperOperatedDict := s.mapperOperatedDict.map f, curvatureMatrix := s.curvatureMatrix.map f,
    dataVectorMapper := s.dataVectorMapper.map f,
    curvatureMatrixMapperDiag := s.curvatureMatrixMapperDiag.map f,
    regularizationMatrix := s.regularizationMatrix.map f,
    logDetRegularizationMatrixTerm := s.logDetRegularizationMatrixTerm }

/-- the array-valued slots, in a fixed order -/
def arrays (s : SlotsOf β α) : List (Option β) :=
  [s.wTilde, s.operatedMappingMatrix, s.linearFuncDict, s.dataLinearFuncDict, s.mapperOperatedDict,
   s.curvatureMatrix, s.dataVectorMapper, s.curvatureMatrixMapperDiag, s.regularizationMatrix]

end SlotsOf

/-- every array of the `Preloads` object lives below `n` -/
def Preloads.Below {α : Type} (p : Preloads α) (n : Nat) : Prop :=
  (p.arrays.all fun o => o.all (· < n)) = true

instance {α : Type} (p : Preloads α) (n : Nat) : Decidable (p.Below n) := by
  unfold Preloads.Below; infer_instance

/-- what the `Preloads` object holds, read off the heap -/
def contents {α : Type} (h : Heap α) (p : Preloads α) : Slots α := p.map h.read

/-! ## inputs of an inversion that the control flow looks at -/
structure Cfg (α : Type) where
  /-- `settings.use_w_tilde` -/
  settingsUseWTilde : Bool
  /-- `all(isinstance(o, AbstractLinearObjFuncList) for o in linear_obj_list)` -/
  allFuncLists : Bool
  /-- `self.has(cls=AbstractLinearObjFuncList)` -/
  hasFuncList : Bool
  /-- `self.total(cls=AbstractMapper)` -/
  nMappers : Nat
  /-- `len(self.regularization_list)` (= number of linear objects) -/
  nObjs : Nat
  /-- `self.has(cls=AbstractRegularization)` -/
  hasReg : Bool
  /-- `self.all_linear_obj_have_regularization` -/
  allReg : Bool
  /-- some func list has `operated_mapping_matrix_override is not None` (then
      `operated_mapping_matrix_list` reads `linear_func_operated_mapping_matrix_dict`) -/
  funcOverride : Bool
  /-- `self.no_regularization_index_list` -/
  noRegIdx : List Nat
  /-- `settings.no_regularization_add_to_curvature_diag_value` -/
  diagValue : α
  /-- `self.total_params` -/
  dim : Nat

/-- The numerical kernels, as pure functions of the (fixed) dataset / linear objects / settings and of
    the arrays they are handed.  Modelled, not verified. -/
structure Ext (α : Type) where
  -- imaging/abstract.py
  /-- `linear_func_operated_mapping_matrix_dict`, computed -/
  lfCompute : List α
  /-- `mapper_operated_mapping_matrix_dict`, computed -/
  momdCompute : List α
  /-- `data_linear_func_matrix_dict`, computed from the linear-func dict -/
  dlfOfLf : List α → List α
  /-- `np.hstack(operated_mapping_matrix_list)` when no func list has an override -/
  ommPlain : List α
  /-- `np.hstack(operated_mapping_matrix_list)` when overrides are read from the linear-func dict -/
  ommOfLf : List α → List α
  -- imaging/mapping.py
  /-- `data_vector_via_blurred_mapping_matrix_from(omm, image, noise_map)` -/
  dvOfOmm : List α → List α
  /-- `np.dot((omm/σ).T, omm/σ)` (before the diagonal addition) -/
  curvOfOmm : List α → List α
  /-- `sum(mapped_reconstructed_data_dict.values())` of the mapping formalism -/
  mappedMapping : List α → List α → List α
  /-- mapping.py `_data_vector_mapper` computed (the per-mapper data vectors at the mapper entries,
      zeros at the func-list entries): what `Preloads.set_curvature_matrix` stores in
      `data_vector_mapper`.  Not used by any accessor; it names "what would be computed" for that slot. -/
  dvmMapping : List α
  -- dataset / imaging/w_tilde.py
  /-- `dataset.w_tilde` -/
  wtCompute : List α
  /-- `noise_map[0] == w_tilde.noise_map_value` (check_noise_map) -/
  wtCheck : List α → Bool
  /-- the mapper entries of the data vector via `w_tilde_data` (zeros elsewhere) -/
  dvW : List α
  /-- the entries written for the linear func lists: (index, value) -/
  dvFuncEntries : List α → List (Nat × α)
  /-- the mappers' diagonal blocks from the w-tilde tables -/
  diagOfWT : List α → List α
  /-- mapper×mapper off-diagonal blocks: (flat index, value) -/
  offDiagWrites : List α → List (Nat × α)
  /-- mapper×func blocks via `data_linear_func_matrix_dict` -/
  funcOffViaDlf : List α → List (Nat × α)
  /-- mapper×func blocks via `mapper_operated_mapping_matrix_dict` (and the linear-func dict) -/
  funcOffViaMomd : List α → List α → List (Nat × α)
  /-- mapper×func blocks via the convolver frames (and the linear-func dict) -/
  funcOffDefault : List α → List (Nat × α)
  /-- func×func blocks -/
  funcDiagWrites : List α → List (Nat × α)
  /-- `curvature_matrix_mirrored_from` (returns a new array) -/
  mirror : List α → List α
  /-- `sum(mapped_reconstructed_data_dict.values())` of the w-tilde formalism -/
  mappedW : List α → List α → List α
  -- abstract.py
  /-- `block_diag(*[o.regularization_matrix for o in linear_obj_list])` -/
  regCompute : List α
  /-- `np.delete(np.delete(m, no_reg, 0), no_reg, 1)` -/
  reduce : List α → List α
  /-- `np.delete(v, no_reg, axis=0)` -/
  reduceVec : List α → List α
  /-- the `splu` log-determinant of the reduced regularization matrix -/
  logDetReg : List α → α
  /-- `reconstruction_positive_negative_from` / `reconstruction_positive_only_from` (settings fixed) -/
  solve : List α → List α → List α
  /-- `sᵀ H s` -/
  regTerm : List α → List α → α
  /-- `2 Σ log diag cholesky(F + H)` -/
  logDetCurvReg : List α → α

/-- Which defensive copies / guards the code has.  `repaired` is the tree with the two C15 repairs
    (fixes/D151, D152); `snapshot` is the code as first read. -/
structure Policy where
  /-- mapping.py:207, w_tilde.py:261 `copy.copy(self.preloads.curvature_matrix)` -/
  copyCurvature : Bool
  /-- w_tilde.py `_data_vector_mapper`: copy of `preloads.data_vector_mapper` (D152) -/
  copyDataVectorMapper : Bool
  /-- w_tilde.py `_curvature_matrix_mapper_diag`: copy of `preloads.curvature_matrix_mapper_diag` (D152) -/
  copyMapperDiag : Bool
  /-- mapping.py `data_vector`: `preloads.data_vector_mapper` is the whole data vector only when the
      inversion has no linear func list (D151) -/
  guardDataVectorMapper : Bool
deriving Repr, DecidableEq

def Policy.repaired : Policy := ⟨true, true, true, true⟩
def Policy.snapshot : Policy := ⟨true, false, false, false⟩
def Policy.noCurvatureCopy : Policy := ⟨false, true, true, true⟩

/-- the quantities read off an inversion (`observe_at` of the property) -/
inductive Access
  | operatedMappingMatrix | dataVector | curvatureMatrix | regularizationMatrix | curvatureRegMatrix
  | reconstruction | mappedReconstructedData | regularizationTerm | logDetCurvatureRegMatrixTerm
  | logDetRegularizationMatrixTerm
deriving Repr, DecidableEq

/-! ## array helpers -/
section helpers
variable {α : Type}

/-- `b[i] = f(b[i])` -/
def modifyAt (b : List α) (i : Nat) (f : α → α) : List α :=
  match b[i]? with
  | some x => b.set i (f x)
  | none => b

/-- `curvature_matrix_with_added_to_diag_from`: `for i in idx: c[i, i] += value` on a dim×dim matrix -/
def addDiag [Add α] (dim : Nat) (idx : List Nat) (value : α) (b : List α) : List α :=
  idx.foldl (fun acc i => modifyAt acc (i * dim + i) (· + value)) b

/-- block writes `c[a:b, c:d] = block`, flattened to point writes -/
def applyWrites (ws : List (Nat × α)) (b : List α) : List α :=
  ws.foldl (fun acc w => acc.set w.1 w.2) b

/-- `a += b` / `np.add(a, b)` on arrays of the same shape -/
def addBuf [Add α] (a b : List α) : List α := List.zipWith (· + ·) a b

end helpers

/-- factory.py:125-136 `inversion_imaging_from`: which formalism runs. -/
def useWTilde {α : Type} (c : Cfg α) (preloadUse : Option Bool) : Bool :=
  let u :=
    if c.allFuncLists then false
    else match preloadUse with
      | some b => b
      | none => c.settingsUseWTilde
  if !c.settingsUseWTilde then false else u

/-! ## Spec layer: the value of every quantity as a pure function of the slot *contents* -/
namespace Spec
variable {α : Type} [Add α] [OfNat α 0]

def lf (E : Ext α) (s : Slots α) : List α := s.linearFuncDict.getD E.lfCompute
def wt (E : Ext α) (s : Slots α) : List α := s.wTilde.getD E.wtCompute
def ommFresh (c : Cfg α) (E : Ext α) (s : Slots α) : List α :=
  if c.funcOverride then E.ommOfLf (lf E s) else E.ommPlain
def omm (c : Cfg α) (E : Ext α) (s : Slots α) : List α :=
  s.operatedMappingMatrix.getD (ommFresh c E s)

def withDiag (c : Cfg α) (b : List α) : List α :=
  if c.noRegIdx.isEmpty then b else addDiag c.dim c.noRegIdx c.diagValue b

/-- mapping.py `data_vector` (with the D151 guard) -/
def dataVectorMapping (c : Cfg α) (E : Ext α) (s : Slots α) : List α :=
  match s.dataVectorMapper with
  | some d => if c.hasFuncList then E.dvOfOmm (omm c E s) else d
  | none => E.dvOfOmm (omm c E s)

/-- mapping.py `curvature_matrix` -/
def curvatureMapping (c : Cfg α) (E : Ext α) (s : Slots α) : List α :=
  match s.curvatureMatrix with
  | some f => f
  | none => withDiag c (E.curvOfOmm (omm c E s))

/-- w_tilde.py `data_vector` -/
def dataVectorW (c : Cfg α) (E : Ext α) (s : Slots α) : List α :=
  let m := s.dataVectorMapper.getD E.dvW
  if c.hasFuncList then applyWrites (E.dvFuncEntries (lf E s)) m else m

def mapperDiag (E : Ext α) (s : Slots α) : List α :=
  s.curvatureMatrixMapperDiag.getD (E.diagOfWT (wt E s))

def multiMapper (c : Cfg α) (E : Ext α) (s : Slots α) : List α :=
  if c.nMappers == 1 then mapperDiag E s
  else applyWrites (E.offDiagWrites (wt E s)) (mapperDiag E s)

def funcOffWrites (E : Ext α) (s : Slots α) : List (Nat × α) :=
  match s.dataLinearFuncDict with
  | some d => E.funcOffViaDlf d
  | none => match s.mapperOperatedDict with
    | some m => E.funcOffViaMomd m (lf E s)
    | none => E.funcOffDefault (lf E s)

def funcListAndMapper (c : Cfg α) (E : Ext α) (s : Slots α) : List α :=
  applyWrites (E.funcDiagWrites (lf E s)) (applyWrites (funcOffWrites E s) (multiMapper c E s))

def preMirror (c : Cfg α) (E : Ext α) (s : Slots α) : List α :=
  if c.hasFuncList then funcListAndMapper c E s
  else if c.nMappers == 1 then mapperDiag E s
  else multiMapper c E s

/-- w_tilde.py `curvature_matrix` -/
def curvatureW (c : Cfg α) (E : Ext α) (s : Slots α) : List α :=
  match s.curvatureMatrix with
  | some f => f
  | none => withDiag c (E.mirror (preMirror c E s))

def dataVector (c : Cfg α) (E : Ext α) (w : Bool) (s : Slots α) : List α :=
  if w then dataVectorW c E s else dataVectorMapping c E s

def curvatureMatrix (c : Cfg α) (E : Ext α) (w : Bool) (s : Slots α) : List α :=
  if w then curvatureW c E s else curvatureMapping c E s

def regularizationMatrix (E : Ext α) (s : Slots α) : List α :=
  s.regularizationMatrix.getD E.regCompute

def red (c : Cfg α) (E : Ext α) (m : List α) : List α := if c.allReg then m else E.reduce m
def redVec (c : Cfg α) (E : Ext α) (v : List α) : List α := if c.allReg then v else E.reduceVec v

/-- abstract.py `curvature_reg_matrix` -/
def curvatureRegMatrix (c : Cfg α) (E : Ext α) (w : Bool) (s : Slots α) : List α :=
  if !c.hasReg then curvatureMatrix c E w s
  else addBuf (curvatureMatrix c E w s) (regularizationMatrix E s)

def reconstruction (c : Cfg α) (E : Ext α) (w : Bool) (s : Slots α) : List α :=
  E.solve (curvatureRegMatrix c E w s) (dataVector c E w s)

def mapped (c : Cfg α) (E : Ext α) (w : Bool) (s : Slots α) : List α :=
  if w then E.mappedW (lf E s) (reconstruction c E w s)
  else E.mappedMapping (lf E s) (reconstruction c E w s)

def regularizationTerm (c : Cfg α) (E : Ext α) (w : Bool) (s : Slots α) : α :=
  if !c.hasReg then 0
  else E.regTerm (red c E (regularizationMatrix E s)) (redVec c E (reconstruction c E w s))

def logDetCurvReg (c : Cfg α) (E : Ext α) (w : Bool) (s : Slots α) : α :=
  if !c.hasReg then 0 else E.logDetCurvReg (red c E (curvatureRegMatrix c E w s))

def logDetReg (c : Cfg α) (E : Ext α) (s : Slots α) : α :=
  if !c.hasReg then 0
  else match s.logDetRegularizationMatrixTerm with
    | some v => v
    | none => E.logDetReg (red c E (regularizationMatrix E s))

/-- the value read by access `a` in formalism `w` (scalars as one-element arrays) -/
def output (c : Cfg α) (E : Ext α) (w : Bool) (s : Slots α) : Access → List α
  | .operatedMappingMatrix => omm c E s
  | .dataVector => dataVector c E w s
  | .curvatureMatrix => curvatureMatrix c E w s
  | .regularizationMatrix => regularizationMatrix E s
  | .curvatureRegMatrix => curvatureRegMatrix c E w s
  | .reconstruction => reconstruction c E w s
  | .mappedReconstructedData => mapped c E w s
  | .regularizationTerm => [regularizationTerm c E w s]
  | .logDetCurvatureRegMatrixTerm => [logDetCurvReg c E w s]
  | .logDetRegularizationMatrixTerm => [logDetReg c E s]

/-- what an inversion built from these slot contents reports: `none` = `InversionException` from
    `check_noise_map` -/
def inversion (c : Cfg α) (E : Ext α) (s : Slots α) (accs : List Access) : Option (List (List α)) :=
  let w := useWTilde c s.useWTilde
  if w && !E.wtCheck (wt E s) then none else some (accs.map (output c E w s))

end Spec

/-! ## Impl layer: the same accessors over the heap, with aliasing / copies / in-place writes as in the
Python.  An accessor takes the heap and returns the heap and the reference of the array it returns. -/
namespace Impl
variable {α : Type} [Add α] [OfNat α 0]

abbrev Acc (α : Type) := Heap α → Heap α × Ref

/-- `if self.preloads.<slot> is not None: return self.preloads.<slot>` else compute -/
def slotOr (slot : Option Ref) (compute : Acc α) : Acc α := fun h =>
  match slot with
  | some r => (h, r)
  | none => compute h

/-- `copy.copy(self.preloads.<slot>)` when `cp`, the preloaded array itself otherwise -/
def slotCopyOr (cp : Bool) (slot : Option Ref) (compute : Acc α) : Acc α := fun h =>
  match slot with
  | some r => if cp then h.copy r else (h, r)
  | none => compute h

/-- run `g`, then update the array it returned in place -/
def thenWrite (g : Acc α) (f : Heap α → List α → List α) : Acc α := fun h =>
  let x := g h
  (x.1.write x.2 (f x.1 (x.1.read x.2)), x.2)

/-- imaging/abstract.py:143 `linear_func_operated_mapping_matrix_dict`: the preloaded dict or the
    computed one (never written, never returned to the caller: only its value matters) -/
def lfVal (E : Ext α) (p : Preloads α) (h : Heap α) : List α :=
  match p.linearFuncDict with
  | some r => h.read r
  | none => E.lfCompute

/-- factory.py:139-142 `preloads.w_tilde` / `dataset.w_tilde` (only read) -/
def wtVal (E : Ext α) (p : Preloads α) (h : Heap α) : List α :=
  match p.wTilde with
  | some r => h.read r
  | none => E.wtCompute

/-- imaging/abstract.py:92 `operated_mapping_matrix_list`, hstacked -/
def ommFresh (c : Cfg α) (E : Ext α) (p : Preloads α) : Acc α := fun h =>
  if c.funcOverride then h.alloc (E.ommOfLf (lfVal E p h)) else h.alloc E.ommPlain

/-- abstract.py:326 `operated_mapping_matrix` -/
def operatedMappingMatrix (c : Cfg α) (E : Ext α) (p : Preloads α) : Acc α :=
  slotOr p.operatedMappingMatrix (ommFresh c E p)

/-- the diagonal addition on a freshly made matrix (inversion_util.py:111, w_tilde.py:274) -/
def withDiag (c : Cfg α) (g : Acc α) : Acc α :=
  if c.noRegIdx.isEmpty then g
  else thenWrite g fun _ b => addDiag c.dim c.noRegIdx c.diagValue b

/-- mapping.py:120-132 `data_vector` -/
def dataVectorMapping (c : Cfg α) (E : Ext α) (pol : Policy) (p : Preloads α) : Acc α := fun h =>
  let compute : Acc α := fun h =>
    let x := operatedMappingMatrix c E p h
    x.1.alloc (E.dvOfOmm (x.1.read x.2))
  match p.dataVectorMapper with
  | some r => if pol.guardDataVectorMapper && c.hasFuncList then compute h else (h, r)
  | none => compute h

/-- mapping.py:204-215 `curvature_matrix` -/
def curvatureMapping (c : Cfg α) (E : Ext α) (pol : Policy) (p : Preloads α) : Acc α :=
  slotCopyOr pol.copyCurvature p.curvatureMatrix <|
    withDiag c fun h =>
      let x := operatedMappingMatrix c E p h
      x.1.alloc (E.curvOfOmm (x.1.read x.2))

/-- w_tilde.py:97-122 `_data_vector_mapper` -/
def dataVectorMapperW (E : Ext α) (pol : Policy) (p : Preloads α) : Acc α :=
  slotCopyOr pol.copyDataVectorMapper p.dataVectorMapper fun h => h.alloc E.dvW

/-- w_tilde.py:139-233 `data_vector`: with func lists the func entries are written into the array
    `_data_vector_mapper` returned; otherwise (`_x1_mapper`, `_multi_mapper`) the preload or the
    computed vector is returned as is. -/
def dataVectorW (c : Cfg α) (E : Ext α) (pol : Policy) (p : Preloads α) : Acc α :=
  if c.hasFuncList then
    thenWrite (dataVectorMapperW E pol p) fun h b =>
      applyWrites (E.dvFuncEntries (lfVal E p h)) b
  else
    slotOr p.dataVectorMapper fun h => h.alloc E.dvW

/-- w_tilde.py:295-328 `_curvature_matrix_mapper_diag` -/
def mapperDiag (E : Ext α) (pol : Policy) (p : Preloads α) : Acc α :=
  slotCopyOr pol.copyMapperDiag p.curvatureMatrixMapperDiag fun h =>
    h.alloc (E.diagOfWT (wtVal E p h))

/-- w_tilde.py:397-422 `_curvature_matrix_multi_mapper` -/
def multiMapper (c : Cfg α) (E : Ext α) (pol : Policy) (p : Preloads α) : Acc α :=
  if c.nMappers == 1 then mapperDiag E pol p
  else
    thenWrite (mapperDiag E pol p) fun h b =>
      applyWrites (E.offDiagWrites (wtVal E p h)) b

/-- w_tilde.py:454-491: the three ways the mapper×func blocks are obtained -/
def funcOffWrites (E : Ext α) (p : Preloads α) (h : Heap α) : List (Nat × α) :=
  match p.dataLinearFuncDict with
  | some rd => E.funcOffViaDlf (h.read rd)
  | none => match p.mapperOperatedDict with
    | some rm => E.funcOffViaMomd (h.read rm) (lfVal E p h)
    | none => E.funcOffDefault (lfVal E p h)

/-- w_tilde.py:437-524 `_curvature_matrix_func_list_and_mapper` -/
def funcListAndMapper (c : Cfg α) (E : Ext α) (pol : Policy) (p : Preloads α) : Acc α :=
  thenWrite (multiMapper c E pol p) fun h b =>
    applyWrites (E.funcDiagWrites (lfVal E p h)) (applyWrites (funcOffWrites E p h) b)

/-- w_tilde.py:258-281 `curvature_matrix` -/
def curvatureW (c : Cfg α) (E : Ext α) (pol : Policy) (p : Preloads α) : Acc α :=
  slotCopyOr pol.copyCurvature p.curvatureMatrix <|
    withDiag c fun h =>
      let x :=
        if c.hasFuncList then funcListAndMapper c E pol p h
        else if c.nMappers == 1 then mapperDiag E pol p h
        else multiMapper c E pol p h
      x.1.alloc (E.mirror (x.1.read x.2))

def dataVector (c : Cfg α) (E : Ext α) (pol : Policy) (w : Bool) (p : Preloads α) : Acc α :=
  if w then dataVectorW c E pol p else dataVectorMapping c E pol p

def curvatureMatrix (c : Cfg α) (E : Ext α) (pol : Policy) (w : Bool) (p : Preloads α) : Acc α :=
  if w then curvatureW c E pol p else curvatureMapping c E pol p

/-- abstract.py:359 `regularization_matrix` -/
def regularizationMatrix (E : Ext α) (p : Preloads α) : Acc α :=
  slotOr p.regularizationMatrix fun h => h.alloc E.regCompute

/-- abstract.py:382-394 / 429-441: `np.delete` makes a new array, otherwise the same array -/
def reduced (c : Cfg α) (E : Ext α) (g : Acc α) : Acc α := fun h =>
  let x := g h
  if c.allReg then x else x.1.alloc (E.reduce (x.1.read x.2))

def reducedVec (c : Cfg α) (E : Ext α) (g : Acc α) : Acc α := fun h =>
  let x := g h
  if c.allReg then x else x.1.alloc (E.reduceVec (x.1.read x.2))

/-- abstract.py:407-418 `curvature_reg_matrix`: with one linear object the regularization matrix is
    added INTO the array `curvature_matrix` returned. -/
def curvatureRegMatrix (c : Cfg α) (E : Ext α) (pol : Policy) (w : Bool) (p : Preloads α) : Acc α :=
  fun h =>
    if !c.hasReg then curvatureMatrix c E pol w p h
    else if c.nObjs == 1 then
      let x := curvatureMatrix c E pol w p h
      let y := regularizationMatrix E p x.1
      (y.1.write x.2 (addBuf (y.1.read x.2) (y.1.read y.2)), x.2)
    else
      let x := curvatureMatrix c E pol w p h
      let y := regularizationMatrix E p x.1
      y.1.alloc (addBuf (y.1.read x.2) (y.1.read y.2))

/-- abstract.py:478-535 `reconstruction` -/
def reconstruction (c : Cfg α) (E : Ext α) (pol : Policy) (w : Bool) (p : Preloads α) : Acc α :=
  fun h =>
    let x := dataVector c E pol w p h
    let y := curvatureRegMatrix c E pol w p x.1
    y.1.alloc (E.solve (y.1.read y.2) (y.1.read x.2))

/-- abstract.py:630 `mapped_reconstructed_data` -/
def mapped (c : Cfg α) (E : Ext α) (pol : Policy) (w : Bool) (p : Preloads α) : Acc α := fun h =>
  let x := reconstruction c E pol w p h
  x.1.alloc (if w then E.mappedW (lfVal E p x.1) (x.1.read x.2)
             else E.mappedMapping (lfVal E p x.1) (x.1.read x.2))

/-- abstract.py:693-699 `regularization_term` -/
def regularizationTerm (c : Cfg α) (E : Ext α) (pol : Policy) (w : Bool) (p : Preloads α) : Acc α :=
  fun h =>
    if !c.hasReg then h.alloc [0]
    else
      let x := reducedVec c E (reconstruction c E pol w p) h
      let y := reduced c E (regularizationMatrix E p) x.1
      y.1.alloc [E.regTerm (y.1.read y.2) (y.1.read x.2)]

/-- abstract.py:709-717 `log_det_curvature_reg_matrix_term` -/
def logDetCurvReg (c : Cfg α) (E : Ext α) (pol : Policy) (w : Bool) (p : Preloads α) : Acc α :=
  fun h =>
    if !c.hasReg then h.alloc [0]
    else
      let x := reduced c E (curvatureRegMatrix c E pol w p) h
      x.1.alloc [E.logDetCurvReg (x.1.read x.2)]

/-- abstract.py:735-758 `log_det_regularization_matrix_term` -/
def logDetReg (c : Cfg α) (E : Ext α) (p : Preloads α) : Acc α := fun h =>
  if !c.hasReg then h.alloc [0]
  else match p.logDetRegularizationMatrixTerm with
    | some v => h.alloc [v]
    | none =>
      let x := reduced c E (regularizationMatrix E p) h
      x.1.alloc [E.logDetReg (x.1.read x.2)]

def access (c : Cfg α) (E : Ext α) (pol : Policy) (w : Bool) (p : Preloads α) : Access → Acc α
  | .operatedMappingMatrix => operatedMappingMatrix c E p
  | .dataVector => dataVector c E pol w p
  | .curvatureMatrix => curvatureMatrix c E pol w p
  | .regularizationMatrix => regularizationMatrix E p
  | .curvatureRegMatrix => curvatureRegMatrix c E pol w p
  | .reconstruction => reconstruction c E pol w p
  | .mappedReconstructedData => mapped c E pol w p
  | .regularizationTerm => regularizationTerm c E pol w p
  | .logDetCurvatureRegMatrixTerm => logDetCurvReg c E pol w p
  | .logDetRegularizationMatrixTerm => logDetReg c E p

/-- a caller reads the listed quantities one after the other off ONE inversion object and copies each
    out at once (so the outputs are values) -/
def readAll (c : Cfg α) (E : Ext α) (pol : Policy) (w : Bool) (p : Preloads α) :
    List Access → Heap α → Heap α × List (List α)
  | [], h => (h, [])
  | a :: as, h =>
    let x := access c E pol w p a h
    let rest := readAll c E pol w p as x.1
    (rest.1, x.1.read x.2 :: rest.2)

/-- `aa.Inversion(dataset, linear_obj_list, settings, preloads=p)` followed by the reads:
    factory → (w-tilde: `check_noise_map`) → accessors. `none` = InversionException. -/
def inversion (c : Cfg α) (E : Ext α) (pol : Policy) (p : Preloads α) (accs : List Access)
    (h : Heap α) : Heap α × Option (List (List α)) :=
  let w := useWTilde c p.useWTilde
  if w && !E.wtCheck (wtVal E p h) then (h, none)
  else
    let y := readAll c E pol w p accs h
    (y.1, some y.2)

/-- a history: successive inversions sharing one `Preloads` object -/
def history (c : Cfg α) (E : Ext α) (pol : Policy) (p : Preloads α) :
    List (List Access) → Heap α → Heap α × List (Option (List (List α)))
  | [], h => (h, [])
  | accs :: rest, h =>
    let x := inversion c E pol p accs h
    let r := history c E pol p rest x.1
    (r.1, x.2 :: r.2)

/-! ### the `cached_property` layer

`AbstractInversion`'s quantities are `cached_property`s: the first read stores the returned array in
the instance `__dict__`, later reads return that same array.  `curvature_reg_matrix` with a single
linear object (abstract.py:410-416) takes the (possibly cached) `curvature_matrix` array, adds the
regularization matrix INTO it, returns it, and `del`etes the `curvature_matrix` entry so that a later
read recomputes it.  Below, caching is modelled at the level of the reads a caller makes (`Access`);
reads nested inside an accessor recompute, which yields the same values (Proofs/PreloadCache.lean). -/

/-- the heap and the instance `__dict__` of one inversion object -/
structure CState (α : Type) where
  heap : Heap α
  cache : Access → Option Ref

def CState.store {α : Type} (st : CState α) (a : Access) (r : Option Ref) : CState α :=
  { st with cache := fun b => if b = a then r else st.cache b }

/-- one read through the cached_property layer.  `delCache` = the line
    `del self.__dict__["curvature_matrix"]` is present. -/
def cachedAccess (c : Cfg α) (E : Ext α) (pol : Policy) (delCache : Bool) (w : Bool)
    (p : Preloads α) (a : Access) (st : CState α) : CState α × Ref :=
  match st.cache a with
  | some r => (st, r)
  | none =>
    if a = Access.curvatureRegMatrix ∧ c.hasReg = true ∧ (c.nObjs == 1) = true then
      -- curvature_matrix = self.curvature_matrix   (cached_property: stored if not yet there)
      let x : Heap α × Ref := match st.cache Access.curvatureMatrix with
        | some rf => (st.heap, rf)
        | none => curvatureMatrix c E pol w p st.heap
      -- curvature_matrix += self.regularization_matrix
      let y := regularizationMatrix E p x.1
      let h' := y.1.write x.2 (addBuf (y.1.read x.2) (y.1.read y.2))
      let st1 : CState α := { heap := h', cache := st.cache }
      -- del self.__dict__["curvature_matrix"]
      let st2 := st1.store Access.curvatureMatrix (if delCache then none else some x.2)
      (st2.store Access.curvatureRegMatrix (some x.2), x.2)
    else
      let x := access c E pol w p a st.heap
      (({ heap := x.1, cache := st.cache } : CState α).store a (some x.2), x.2)

/-- the reads of one inversion object, each copied out at once -/
def readAllCached (c : Cfg α) (E : Ext α) (pol : Policy) (delCache : Bool) (w : Bool)
    (p : Preloads α) : List Access → CState α → CState α × List (List α)
  | [], st => (st, [])
  | a :: as, st =>
    let x := cachedAccess c E pol delCache w p a st
    let rest := readAllCached c E pol delCache w p as x.1
    (rest.1, x.1.heap.read x.2 :: rest.2)

/-- a new inversion object starts with an empty `__dict__` -/
def inversionCached (c : Cfg α) (E : Ext α) (pol : Policy) (delCache : Bool) (p : Preloads α)
    (accs : List Access) (h : Heap α) : Heap α × Option (List (List α)) :=
  let w := useWTilde c p.useWTilde
  if w && !E.wtCheck (wtVal E p h) then (h, none)
  else
    let y := readAllCached c E pol delCache w p accs { heap := h, cache := fun _ => none }
    (y.1.heap, some y.2)

def historyCached (c : Cfg α) (E : Ext α) (pol : Policy) (delCache : Bool) (p : Preloads α) :
    List (List Access) → Heap α → Heap α × List (Option (List (List α)))
  | [], h => (h, [])
  | accs :: rest, h =>
    let x := inversionCached c E pol delCache p accs h
    let r := historyCached c E pol delCache p rest x.1
    (r.1, x.2 :: r.2)

end Impl

end Preload
end Model
