/-
Model/Purity.lean — property C11: the abstract object-graph / cache machine and the seeded-RNG machine.

What is modelled (DESIGN.md §5 C11).  PyAutoArray objects (structures, masks, datasets, mappers,
inversions, valued mappers, fits) are *contents* (the numpy buffers and plain attributes given to the
constructor) + a *cache* (`autoconf.cached_property` stores `obj.__dict__[name] = func(obj)`, see
autoconf/tools/decorators.py `CachedProperty.__get__`) + references to the objects they were built from
(`inversion.linear_obj_list`, `mapper.mapper_grids.mask`, `fit.dataset`, `mapper_valued.mapper` …).
Every public operation is one of

* `construct`  — a constructor call  (`Array2D(values, mask)`, `Imaging(data, noise_map, psf)`,
                 `MapperValued(mapper, values, mesh_pixel_mask)`, `aa.Inversion(dataset, linear_obj_list)`);
* `read o k`   — a property read / query call: if `k` is a `cached_property` whose value is already in
                 `o.__dict__` return it, else first read the quantities it is computed from
                 (`deps`, on the object itself or on one of its parents — these reads populate caches
                 too, e.g. `inversion.curvature_matrix` reads `mapper.mapping_matrix`), run the body
                 (`compute`), store the result if `k` is cached, delete the cache entries the body
                 deletes (`del self.__dict__["curvature_matrix"]` in
                 `AbstractInversion.curvature_reg_matrix`), and perform the in-place writes the body makes
                 to its own / its parents' buffers or cached values (none on a pure tree; D7/D9 are such
                 writes);
* `derive o g` — arithmetic, slicing, `copy()`, `apply_mask`, trimming: a new object whose contents are
                 `apply g contents` and whose cache is the source's cache restricted to `keeps g`
                 (`AbstractNDArray.__copy__` / `with_new_array` / `AbstractDataset.trimmed_after_convolution_from`;
                 before the D8 repair `keeps g = everything`, after it `keeps g = nothing`).

Which flag each real operation has is *data* (harness/props/c11_effects.json), validated against the
real code by the correspondence run; the machine takes that table as its parameter `Effects`.

Everything here is executable and Mathlib-free; `Driver/C11.lean` runs it on the symbolic (free)
instance where contents are terms `root i · g₁ · g₂ …` and values are terms `(key, contents, deps)`.
-/

namespace Model
namespace Purity

/-- The effects table.  `κ` keys (property / query names), `γ` derivations, `τ` constructor kinds,
    `σ` contents, `ν` reported values.  A reference `r : Nat` inside a `read` is relative to the object
    being read: `0` = the object itself, `i+1` = its `i`-th parent. -/
structure Effects (κ γ τ σ ν : Type) where
  /-- body of property `k`: a function of the object's own contents and the values of the quantities it reads -/
  compute : κ → σ → List ν → ν
  /-- `k` is a `cached_property` (result stored in `__dict__`) rather than a plain property / method -/
  cached : κ → Bool
  /-- the quantities the body of `k` reads, in order: (reference, key) -/
  deps : κ → List (Nat × κ)
  /-- cache keys of the same object that the body of `k` deletes after computing -/
  drops : κ → List κ
  /-- in-place edits of the *contents* of (reference) performed by the body of `k` -/
  cwrites : κ → List (Nat × (σ → σ))
  /-- in-place edits of a *cached value* (reference, key) performed by the body of `k` -/
  vwrites : κ → List (Nat × κ × (ν → ν))
  /-- contents of the object derived by `g` -/
  apply : γ → σ → σ
  /-- cache keys the derived object inherits from its source -/
  keeps : γ → κ → Bool
  /-- in-place edits a constructor of kind `t` makes to the contents of its `i`-th argument object -/
  ctorWrites : τ → List (Nat × (σ → σ))

/-- An object: immutable-by-intention contents, the `cached_property` store, parent references. -/
structure Obj (κ σ ν : Type) where
  contents : σ
  cache : List (κ × ν)
  parents : List Nat

abbrev Heap (κ σ ν : Type) := List (Obj κ σ ν)

variable {κ γ τ σ ν : Type} [DecidableEq κ]

/-- resolve a relative reference of object `o` -/
def resolve (h : Heap κ σ ν) (o r : Nat) : Option Nat :=
  match r with
  | 0 => if o < h.length then some o else none
  | i + 1 => match h[o]? with
    | none => none
    | some ob => ob.parents[i]?

def lookupCache (c : List (κ × ν)) (k : κ) : Option ν :=
  match c with
  | [] => none
  | (k', v) :: rest => if k' = k then some v else lookupCache rest k

/-- `obj.__dict__[k] = v` -/
def storeCache (c : List (κ × ν)) (k : κ) (v : ν) : List (κ × ν) :=
  (k, v) :: c.filter (fun e => !(e.1 = k))

/-- `del obj.__dict__[k]` for every `k` in `ks` -/
def dropCache (c : List (κ × ν)) (ks : List κ) : List (κ × ν) :=
  c.filter (fun e => !(ks.contains e.1))

/-- functional update of one heap cell -/
def modifyObj (h : Heap κ σ ν) (o : Nat) (f : Obj κ σ ν → Obj κ σ ν) : Heap κ σ ν :=
  match h[o]? with
  | none => h
  | some ob => h.set o (f ob)

def editCached (c : List (κ × ν)) (k : κ) (f : ν → ν) : List (κ × ν) :=
  c.map (fun e => if e.1 = k then (e.1, f e.2) else e)

/-- perform the contents writes of one operation, relative to object `o` -/
def applyCWrites (h : Heap κ σ ν) (o : Nat) (ws : List (Nat × (σ → σ))) : Heap κ σ ν :=
  ws.foldl (fun h w => match resolve h o w.1 with
    | none => h
    | some p => modifyObj h p (fun ob => { ob with contents := w.2 ob.contents })) h

/-- perform the cached-value writes of one operation, relative to object `o` -/
def applyVWrites (h : Heap κ σ ν) (o : Nat) (ws : List (Nat × κ × (ν → ν))) : Heap κ σ ν :=
  ws.foldl (fun h w => match resolve h o w.1 with
    | none => h
    | some p => modifyObj h p (fun ob => { ob with cache := editCached ob.cache w.2.1 w.2.2 })) h

namespace Impl

/-- read the dependencies of a property body one after the other, threading the heap (each read may
    populate caches); `rd` is the reader for the smaller fuel.  `none` = some dependency failed. -/
def readDeps (rd : Heap κ σ ν → Nat → κ → Option (Heap κ σ ν × ν)) (o : Nat) :
    List (Nat × κ) → Heap κ σ ν → Option (Heap κ σ ν × List ν)
  | [], h => some (h, [])
  | d :: ds, h =>
    match resolve h o d.1 with
    | none => none
    | some p =>
      match rd h p d.2 with
      | none => none
      | some (h1, v) =>
        match readDeps rd o ds h1 with
        | none => none
        | some (h2, vs) => some (h2, v :: vs)

/-- `CachedProperty.__get__` + the body of the property.  Fuel bounds the depth of the dependency
    chain (the real dependency graph is acyclic; `none` = out of fuel / dangling reference). -/
def readF (E : Effects κ γ τ σ ν) : Nat → Heap κ σ ν → Nat → κ → Option (Heap κ σ ν × ν)
  | 0, _, _, _ => none
  | n + 1, h, o, k =>
    match h[o]? with
    | none => none
    | some ob =>
      match lookupCache ob.cache k with
      | some v => some (h, v)                       -- `if name in obj.__dict__: return obj.__dict__[name]`
      | none =>
        match readDeps (readF E n) o (E.deps k) h with
        | none => none
        | some (h1, vs) =>
          match h1[o]? with
          | none => none
          | some ob1 =>
            let v := E.compute k ob1.contents vs     -- `self.func(obj)`
            let h2 := if E.cached k then modifyObj h1 o (fun ob => { ob with cache := storeCache ob.cache k v })
                      else h1                        -- `obj.__dict__[name] = …`
            let h3 := modifyObj h2 o (fun ob => { ob with cache := dropCache ob.cache (E.drops k) })
            let h4 := applyCWrites h3 o (E.cwrites k)
            let h5 := applyVWrites h4 o (E.vwrites k)
            some (h5, v)

/-- the operations of a history -/
inductive Step (κ γ τ σ : Type) where
  | construct (t : τ) (c : σ) (parents : List Nat)
  | read (o : Nat) (k : κ)
  | derive (o : Nat) (g : γ)

/-- constructions and derivations build the object graph; reads only observe it -/
def Step.isStructural : Step κ γ τ σ → Bool
  | .read _ _ => false
  | _ => true

/-- one step: new heap and what the step reports (`none` for constructions / derivations / failed reads) -/
def step (E : Effects κ γ τ σ ν) (fuel : Nat) (h : Heap κ σ ν) : Step κ γ τ σ → Heap κ σ ν × Option ν
  | .construct t c ps =>
    if ps.all (· < h.length) then
      let h1 := h ++ [{ contents := c, cache := [], parents := ps }]
      -- a constructor may edit the objects it was given (D7); references 1.. = its arguments
      (applyCWrites h1 h.length ((E.ctorWrites t).map fun w => (w.1 + 1, w.2)), none)
    else (h, none)
  | .read o k =>
    match readF E fuel h o k with
    | none => (h, none)
    | some (h1, v) => (h1, some v)
  | .derive o g =>
    match h[o]? with
    | none => (h, none)
    | some ob =>
      (h ++ [{ contents := E.apply g ob.contents,
               cache := ob.cache.filter (fun e => E.keeps g e.1),
               parents := ob.parents }], none)

/-- run a history from a heap, logging what every step reports -/
def run (E : Effects κ γ τ σ ν) (fuel : Nat) : List (Step κ γ τ σ) → Heap κ σ ν → Heap κ σ ν × List (Option ν)
  | [], h => (h, [])
  | s :: ss, h =>
    let (h1, r) := step E fuel h s
    let (h2, rs) := run E fuel ss h1
    (h2, r :: rs)

end Impl

namespace Spec

/-- The value a quantity has on an object *with no cache anywhere*: the body applied to the contents
    and to the cache-free values of its dependencies.  This is "the same quantity read once on a freshly
    built equal object".  It inspects contents and parent links only, never a cache. -/
def depVals (sp : Nat → κ → Option ν) (h : Heap κ σ ν) (o : Nat) : List (Nat × κ) → Option (List ν)
  | [] => some []
  | d :: ds =>
    match resolve h o d.1 with
    | none => none
    | some p =>
      match sp p d.2 with
      | none => none
      | some v =>
        match depVals sp h o ds with
        | none => none
        | some vs => some (v :: vs)

def value (E : Effects κ γ τ σ ν) : Nat → Heap κ σ ν → Nat → κ → Option ν
  | 0, _, _, _ => none
  | n + 1, h, o, k =>
    match h[o]? with
    | none => none
    | some ob =>
      match depVals (value E n h) h o (E.deps k) with
      | none => none
      | some vs => some (E.compute k ob.contents vs)

/-- forget every cache: the freshly built equal object graph -/
def erase (h : Heap κ σ ν) : Heap κ σ ν := h.map fun ob => { ob with cache := [] }

end Spec

/-! ### The table properties the theorems need -/

/-- no operation writes in place (what the correspondence run validates with buffer fingerprints) -/
def Effects.Pure (E : Effects κ γ τ σ ν) : Prop :=
  (∀ k, E.cwrites k = []) ∧ (∀ k, E.vwrites k = []) ∧ (∀ t, E.ctorWrites t = [])

/-- the same table with every in-place write erased -/
def Effects.purify (E : Effects κ γ τ σ ν) : Effects κ γ τ σ ν :=
  { E with cwrites := fun _ => [], vwrites := fun _ => [], ctorWrites := fun _ => [] }

/-- `S` is a set of keys none of which writes in place and which is closed under "reads" -/
def Effects.CleanOn (E : Effects κ γ τ σ ν) (S : κ → Prop) : Prop :=
  ∀ k, S k → E.cwrites k = [] ∧ E.vwrites k = [] ∧ ∀ d ∈ E.deps k, S d.2

/-! ### Seeded simulation (autoarray/dataset/preprocess.py `setup_random_seed`,
    `poisson_noise_via_data_eps_from`; autoarray/dataset/imaging/simulator.py `via_image_from`) -/

/-- numpy's global generator, abstractly: `seed` overwrites the state, `next` draws one number. -/
structure Rng (ρ : Type) where
  seed : Nat → ρ
  next : ρ → Nat × ρ

namespace Impl

/-- `n` successive draws (`np.random.poisson(image_counts, shape)` draws per pixel in order) -/
def drawN (G : Rng ρ) : Nat → ρ → List Nat × ρ
  | 0, st => ([], st)
  | n + 1, st =>
    let (x, st1) := G.next st
    let (xs, st2) := drawN G n st1
    (x :: xs, st2)

/-- `setup_random_seed(seed)`: `if seed == -1: seed = np.random.randint(0, int(1e9))`; `np.random.seed(seed)` -/
def setupSeed (G : Rng ρ) (seed : Int) (st : ρ) : ρ :=
  if seed = -1 then G.seed ((G.next st).1 % 1000000000) else G.seed seed.toNat

/-- `SimulatorImaging(noise_seed=seed).via_image_from(image)`: seed, then one draw per pixel; the
    simulated data / noise-map are a function `post` of the image and the draws.  Returns the output and
    the generator state left behind. -/
def simulate (G : Rng ρ) (post : List Nat → β) (seed : Int) (npix : Nat) (st : ρ) : β × ρ :=
  let (xs, st1) := drawN G npix (setupSeed G seed st)
  (post xs, st1)

/-- operations on the global generator seen in a history -/
inductive RStep where
  | reseed (j : Nat)          -- caller runs `np.random.seed(j)`
  | draw (n : Nat)            -- caller draws `n` numbers
  | simulate (seed : Int) (npix : Nat)

def rstep (G : Rng ρ) (post : List Nat → β) (st : ρ) : RStep → ρ × Option β
  | .reseed j => (G.seed j, none)
  | .draw n => ((drawN G n st).2, none)
  | .simulate s n => let (out, st1) := simulate G post s n st; (st1, some out)

def rrun (G : Rng ρ) (post : List Nat → β) : List RStep → ρ → ρ × List (Option β)
  | [], st => (st, [])
  | s :: ss, st =>
    let (st1, r) := rstep G post st s
    let (st2, rs) := rrun G post ss st1
    (st2, r :: rs)

end Impl

/-- a concrete generator for the driver and the witnesses: 64-bit LCG (Knuth's MMIX constants); `seed` is
    injective on `[0, 2^64)` (odd multiplier), so distinct numpy seeds (< 2^32) are distinct states -/
def lcg : Rng Nat where
  seed := fun k => ((k + 1) * 6364136223846793005) % 18446744073709551616
  next := fun s =>
    let s1 := (s * 6364136223846793005 + 1442695040888963407) % 18446744073709551616
    (s1 / 8589934592, s1)

end Purity
end Model
