/-
Model/Regularization.lean — regularization matrices (property C07).

Python sources transliterated here (all under /repo/autoarray):
  inversion/regularization/regularization_util.py
        zeroth_regularization_matrix_from, constant_regularization_matrix_from,
        constant_zeroth_regularization_matrix_from, adaptive_regularization_weights_from,
        brightness_zeroth_regularization_weights_from, weighted_regularization_matrix_from,
        brightness_zeroth_regularization_matrix_from, reg_split_from,
        pixel_splitted_regularization_matrix_from
  inversion/regularization/gaussian_kernel.py     gauss_cov_matrix_from, GaussianKernel
  inversion/regularization/exponential_kernel.py  exp_cov_matrix_from, ExponentialKernel
  inversion/regularization/{constant,constant_zeroth,zeroth,adaptive_brightness,brightness_zeroth,
        constant_split,adaptive_brightness_split}.py   (class level: which table / weight goes where)
  inversion/pixelization/mappers/mapper_util.py   adaptive_pixel_signals_from (fancyAdd, pixelSignalStep,
        pixelSignalAccum, pixelSignalMeans, adaptivePixelSignals)
  inversion/linear_obj/linear_obj.py              LinearObj.regularization_matrix
  inversion/inversion/abstract.py                 regularization_matrix (block_diag),
        no_regularization_index_list, regularization_matrix_reduced

Conventions.
* A matrix is its list of rows, `List (List α)`.  `M[i, j] += v` is `Mat.addAt M i j v`.
* The number type `α` carries only core operator classes, so the same definitions run on `Rat`
  (exact) and `Float` in the driver and are reasoned about over an ordered field in `Proofs/`.
* Literals of the code that are not 0 or 1 are parameters: `ridge` (the `1e-8`), `ridge2` (the `2e-8` of the
  split scheme).  `2.0` is written `1 + 1`.  `c ** 2.0` is written `c * c`.
* `np.sqrt`, `np.exp`, `np.linalg.inv`, `**signal_scale` are explicit function parameters.
* numpy index tables are `List (List Nat)`; tables that carry the `-1` padding as data
  (`reg_split_from`, `adaptive_pixel_signals_from`) are `List (List Int)` and are read with numpy's
  negative-index wrap `pyIdx`.
-/
import Model.Core

namespace Model

/-! ## matrices as lists of rows -/
namespace Mat

variable {α : Type}

/-- `np.zeros(shape=(n, m))` -/
def zeros [Zero α] (n m : Nat) : List (List α) := List.replicate n (List.replicate m 0)

/-- `M[i, j]` (0 outside the stored shape; callers guard) -/
def entry [Zero α] (M : List (List α)) (i j : Nat) : α := (M.getD i []).getD j 0

/-- `M[i, j] += v` -/
def addAt [Add α] (M : List (List α)) (i j : Nat) (v : α) : List (List α) :=
  M.modify i fun row => row.modify j fun e => e + v

/-- `M[i, j] -= v` -/
def subAt [Sub α] (M : List (List α)) (i j : Nat) (v : α) : List (List α) :=
  M.modify i fun row => row.modify j fun e => e - v

/-- `M[i, j] /= v` -/
def divAt [Div α] (M : List (List α)) (i j : Nat) (v : α) : List (List α) :=
  M.modify i fun row => row.modify j fun e => e / v

/-- `M[i, j] = v` -/
def setAt (M : List (List α)) (i j : Nat) (v : α) : List (List α) :=
  M.modify i fun row => row.set j v

/-- `Σ_{i<n} f i` -/
def sumRange [Add α] [Zero α] (n : Nat) (f : Nat → α) : α := ((List.range n).map f).sum

/-- the quadratic form `xᵀ M x = Σ_i Σ_j x_i M_ij x_j` over the index range of `x` -/
def quad [Add α] [Mul α] [Zero α] (M : List (List α)) (x : List α) : α :=
  sumRange x.length fun i => sumRange x.length fun j => x.getD i 0 * entry M i j * x.getD j 0

/-- `M` is an `n × n` array -/
def Dims (n : Nat) (M : List (List α)) : Prop := M.length = n ∧ ∀ r ∈ M, r.length = n

/-- scalar multiple `c * M` (numpy broadcasting) -/
def smul [Mul α] (c : α) (M : List (List α)) : List (List α) := M.map fun r => r.map fun e => c * e

end Mat

/-- numpy's index normalisation on an axis of length `n`: negative indices wrap once. -/
def pyIdx (n : Nat) (k : Int) : Nat := if k < 0 then (k + n).toNat else k.toNat

/-- an index table with the `-1` padding read the numpy way -/
def pyTable (n : Nat) (t : List (List Int)) : List (List Nat) := t.map fun r => r.map (pyIdx n)

/-! ## Spec layer -/
namespace Spec

variable {α : Type}

/-- `neighbors[i, j]` -/
def nb (neighbors : List (List Nat)) (i j : Nat) : Nat := (neighbors.getD i []).getD j 0

/-- the directed neighbour pairs `(i, neighbors[i, j])`, `i < n`, `j < neighbors_sizes[i]`, in loop order -/
def edges (n : Nat) (neighbors : List (List Nat)) (sizes : List Nat) : List (Nat × Nat) :=
  (List.range n).flatMap fun i =>
    (List.range (sizes.getD i 0)).map fun j => (i, nb neighbors i j)

/-- every neighbour index read by the loops is a valid pixel index (else numpy raises IndexError) -/
def InRange (n : Nat) (neighbors : List (List Nat)) (sizes : List Nat) : Prop :=
  ∀ e ∈ edges n neighbors sizes, e.2 < n

/-- the neighbour relation is symmetric (with multiplicity): reversing every directed pair permutes the list -/
def Symmetric (n : Nat) (neighbors : List (List Nat)) (sizes : List Nat) : Prop :=
  ((edges n neighbors sizes).map fun e => (e.2, e.1)).Perm (edges n neighbors sizes)

instance (n : Nat) (N : List (List Nat)) (S : List Nat) : Decidable (InRange n N S) := by
  unfold InRange; infer_instance

instance (n : Nat) (N : List (List Nat)) (S : List Nat) : Decidable (Symmetric n N S) := by
  unfold Symmetric; infer_instance

/-- the unordered neighbouring pairs: the directed pairs `(i, j)` with `i < j` -/
def pairs (n : Nat) (neighbors : List (List Nat)) (sizes : List Nat) : List (Nat × Nat) :=
  (edges n neighbors sizes).filter fun e => e.1 < e.2

/-- `Σ_i x_i²` -/
def sumSq [Add α] [Mul α] [Zero α] (x : List α) : α :=
  Mat.sumRange x.length fun i => x.getD i 0 * x.getD i 0

/-- `Σ_i d_i x_i²` -/
def diagForm [Add α] [Mul α] [Zero α] (d x : List α) : α :=
  Mat.sumRange x.length fun i => d.getD i 0 * (x.getD i 0 * x.getD i 0)

/-- the vector of one cross-point row `k` of the split scheme applied to `x`: `Σ_{l<size} weight[l]·x[mapping[l]]` -/
def crossDot [Add α] [Mul α] [Zero α] (mappings : List (List Nat)) (sizes : List Nat)
    (weights : List (List α)) (x : List α) (k : Nat) : α :=
  Mat.sumRange (sizes.getD k 0) fun l =>
    (weights.getD k []).getD l 0 * x.getD ((mappings.getD k []).getD l 0) 0

/-- `scipy.linalg.block_diag` on square blocks given with their sizes -/
def blockDiag [Zero α] : List (Nat × List (List α)) → List (List α)
  | [] => []
  | (n, B) :: rest =>
    let tail := blockDiag rest
    let restCols := (rest.map (·.1)).sum
    (B.map fun r => r ++ List.replicate restCols 0) ++ tail.map fun r => List.replicate n 0 ++ r

/-- `np.delete(a, idx, axis)` on a list: drop the positions in `idx` -/
def deleteIdx {β : Type} (l : List β) (idx : List Nat) : List β :=
  (l.zipIdx.filter fun p => !idx.contains p.2).map (·.1)

end Spec

/-! ## Impl layer (loop transliterations) -/
namespace Impl

open Mat Spec

variable {α : Type}

/-- `regularization_util.zeroth_regularization_matrix_from(coefficient, pixels)` -/
def zerothMatrix [Add α] [Mul α] [Zero α] (coefficient : α) (pixels : Nat) : List (List α) :=
  let rc := coefficient * coefficient
  (List.range pixels).foldl (fun M i => addAt M i i rc) (zeros pixels pixels)

/-- `regularization_util.constant_regularization_matrix_from(coefficient, neighbors, neighbors_sizes)`;
    `ridge` is the literal `1e-8`. -/
def constantMatrix [Add α] [Sub α] [Mul α] [Zero α] (ridge coefficient : α)
    (neighbors : List (List Nat)) (sizes : List Nat) : List (List α) :=
  let parameters := neighbors.length
  let rc := coefficient * coefficient
  (List.range parameters).foldl (fun M i =>
      let M := addAt M i i ridge
      (List.range (sizes.getD i 0)).foldl (fun M j =>
          let neighborIndex := nb neighbors i j
          let M := addAt M i i rc
          subAt M i neighborIndex rc) M)
    (zeros parameters parameters)

/-- `regularization_util.constant_zeroth_regularization_matrix_from` -/
def constantZerothMatrix [Add α] [Sub α] [Mul α] [Zero α] (ridge coefficient coefficientZeroth : α)
    (neighbors : List (List Nat)) (sizes : List Nat) : List (List α) :=
  let pixels := neighbors.length
  let rc := coefficient * coefficient
  let rcz := coefficientZeroth * coefficientZeroth
  (List.range pixels).foldl (fun M i =>
      let M := addAt M i i ridge
      let M := addAt M i i rcz
      (List.range (sizes.getD i 0)).foldl (fun M j =>
          let neighborIndex := nb neighbors i j
          let M := addAt M i i rc
          subAt M i neighborIndex rc) M)
    (zeros pixels pixels)

/-- `regularization_util.adaptive_regularization_weights_from`:
    `(inner * s + outer * (1.0 - s)) ** 2.0` element-wise -/
def adaptiveWeights [Add α] [Sub α] [Mul α] [One α] (inner outer : α) (signals : List α) : List α :=
  signals.map fun s => (inner * s + outer * (1 - s)) * (inner * s + outer * (1 - s))

/-- `regularization_util.brightness_zeroth_regularization_weights_from`: `coefficient * (1.0 - s)` -/
def brightnessZerothWeights [Sub α] [Mul α] [One α] (coefficient : α) (signals : List α) : List α :=
  signals.map fun s => coefficient * (1 - s)

/-- `regularization_util.weighted_regularization_matrix_from(regularization_weights, neighbors, sizes)` -/
def weightedMatrix [Add α] [Sub α] [Mul α] [Zero α] (ridge : α) (regWeights : List α)
    (neighbors : List (List Nat)) (sizes : List Nat) : List (List α) :=
  let parameters := regWeights.length
  let rw := regWeights.map fun w => w * w
  (List.range parameters).foldl (fun M i =>
      let M := addAt M i i ridge
      (List.range (sizes.getD i 0)).foldl (fun M j =>
          let neighborIndex := nb neighbors i j
          let M := addAt M i i (rw.getD neighborIndex 0)
          let M := addAt M neighborIndex neighborIndex (rw.getD neighborIndex 0)
          let M := subAt M i neighborIndex (rw.getD neighborIndex 0)
          subAt M neighborIndex i (rw.getD neighborIndex 0)) M)
    (zeros parameters parameters)

/-- `regularization_util.brightness_zeroth_regularization_matrix_from(regularization_weights)` -/
def brightnessZerothMatrix [Add α] [Mul α] [Zero α] (regWeights : List α) : List (List α) :=
  let parameters := regWeights.length
  let rw := regWeights.map fun w => w * w
  (List.range parameters).foldl (fun M i => addAt M i i (rw.getD i 0)) (zeros parameters parameters)

/-- the three arrays `reg_split_from` works on -/
structure SplitTables (α : Type) where
  mappings : List (List Int)
  sizes : List Nat
  weights : List (List α)

/-- outcome of `reg_split_from` -/
inductive SplitResult (α : Type) where
  | ok (t : SplitTables α)
  | meshException        -- `exc.MeshException` (`j >= max_j`)
  | unboundLocal         -- `flag == 0` on a row of size 0 before any inner iteration ever ran (`j` unbound)

/-- loop state of `reg_split_from`: the three arrays, the Python variable `j` (it survives its loop and is
    read after it), and whether the exception has been raised. -/
structure SplitState (α : Type) where
  t : SplitTables α
  j : Option Nat
  raised : Bool
  unbound : Bool

/-- the inner loop `for j in range(splitted_sizes[i])` of `reg_split_from` on row `i`
    (`splitted_weights[i][j] += 1.0` acts on the row view).  State = (weights row, flag, the Python
    variable `j`, exception raised).  The `j >= max_j` test comes after the update, as in the code. -/
def splitRowLoop [Add α] [One α] (maxJ : Nat) (pixelIndex : Int) (mrow : List Int) (size : Nat)
    (wrow : List α) (j0 : Option Nat) : List α × Bool × Option Nat × Bool :=
  (List.range size).foldl
    (fun (st : List α × Bool × Option Nat × Bool) j =>
      if st.2.2.2 then st else
      let hit := mrow.getD j 0 == pixelIndex
      (if hit then st.1.modify j (fun e => e + 1) else st.1, if hit then true else st.2.1,
        some j, decide (j ≥ maxJ)))
    (wrow, false, j0, false)

/-- one iteration of the outer loop `for i in range(len(splitted_mappings))` -/
def splitStep [Add α] [One α] (maxJ : Nat) (s : SplitState α) (i : Nat) : SplitState α :=
  if s.raised || s.unbound then s else
  let pixelIndex : Int := ((i / 4 : Nat) : Int)
  let inner := splitRowLoop maxJ pixelIndex (s.t.mappings.getD i []) (s.t.sizes.getD i 0)
    (s.t.weights.getD i []) s.j
  if inner.2.2.2 then { s with raised := true } else
  if inner.2.1 then { s with t := { s.t with weights := s.t.weights.set i inner.1 }, j := inner.2.2.1 } else
  match inner.2.2.1 with
  | none => { s with unbound := true }
  | some j =>
    { s with
      t := { mappings := s.t.mappings.modify i (fun r => r.set (j + 1) pixelIndex),
             sizes := s.t.sizes.modify i (fun n => n + 1),
             weights := s.t.weights.set i (inner.1.set (j + 1) 1) },
      j := some j }

/-- `regularization_util.reg_split_from(splitted_mappings, splitted_sizes, splitted_weights)`:
    the in-place sign flip, then per cross-point row the `+1` on the entry of the row's own pixel, or the
    append of that pixel with weight 1 at position `j + 1`. -/
def regSplitFrom [Neg α] [Add α] [One α] (t : SplitTables α) : SplitResult α :=
  let maxJ := (t.weights.headD []).length - 1
  let t0 : SplitTables α := { t with weights := t.weights.map fun r => r.map fun v => -v }
  let final := (List.range t0.mappings.length).foldl (splitStep maxJ)
    { t := t0, j := none, raised := false, unbound := false }
  if final.raised then .meshException
  else if final.unbound then .unboundLocal
  else .ok final.t

/-- `regularization_util.pixel_splitted_regularization_matrix_from`; `ridge2` is the literal `2e-8`. -/
def pixelSplittedMatrix [Add α] [Mul α] [Div α] [Zero α] [One α] (ridge2 : α) (regWeights : List α)
    (mappings : List (List Nat)) (sizes : List Nat) (weights : List (List α)) : List (List α) :=
  let parameters := mappings.length / 4
  let rw := regWeights.map fun w => w * w
  let M := (List.range parameters).foldl (fun M i =>
      let M := addAt M i i ridge2
      (List.range 4).foldl (fun M j =>
          let k := i * 4 + j
          let size := sizes.getD k 0
          let mapping := mappings.getD k []
          let weight := weights.getD k []
          (List.range size).foldl (fun M l =>
              (List.range (size - l)).foldl (fun M m =>
                  let v := weight.getD l 0 * weight.getD (l + m) 0 * rw.getD i 0
                  let M := addAt M (mapping.getD l 0) (mapping.getD (l + m) 0) v
                  addAt M (mapping.getD (l + m) 0) (mapping.getD l 0) v) M) M) M)
    (zeros parameters parameters)
  (List.range parameters).foldl (fun M i => divAt M i i (1 + 1)) M

/-- `gauss_cov_matrix_from` / `exp_cov_matrix_from`: the double loop is the same, only the kernel
    evaluated on `d_ij = sqrt((xi - xj)**2 + (yi - yj)**2)` differs. Points are `(y, x)`. -/
def covMatrix [Add α] [Sub α] [Mul α] [Zero α] (kernel : α → α) (sqrt : α → α) (ridge : α)
    (points : List (α × α)) : List (List α) :=
  let pixels := points.length
  (List.range pixels).foldl (fun M i =>
      let M := addAt M i i ridge
      (List.range pixels).foldl (fun M j =>
          let xi := (points.getD i (0, 0)).2
          let yi := (points.getD i (0, 0)).1
          let xj := (points.getD j (0, 0)).2
          let yj := (points.getD j (0, 0)).1
          let d := sqrt ((xi - xj) * (xi - xj) + (yi - yj) * (yi - yj))
          addAt M i j (kernel d)) M)
    (zeros pixels pixels)

/-- `np.exp(-1.0 * d_ij ** 2 / (2 * scale ** 2))` -/
def gaussKernel [Add α] [Mul α] [Div α] [Neg α] [One α] (exp : α → α) (scale d : α) : α :=
  exp ((-1 * (d * d)) / ((1 + 1) * (scale * scale)))

/-- `np.exp(-1.0 * d_ij / scale)` -/
def expKernel [Mul α] [Div α] [Neg α] [One α] (exp : α → α) (scale d : α) : α :=
  exp ((-1 * d) / scale)

/-- `np.max` of a non-empty array (0 for the empty one, where numpy raises) -/
def npMax [Zero α] [LT α] [DecidableLT α] (l : List α) : α :=
  match l with
  | [] => 0
  | a :: rest => rest.foldl (fun m v => if m < v then v else m) a

/-- numpy's fancy-index in-place add `arr[idx] += vals`.  It is buffered: the right-hand sides
    `arr[idx] + vals` are computed from the old array and then assigned in order, so a repeated
    index keeps the last value. -/
def fancyAdd [Add α] [Zero α] (arr : List α) (idx : List Nat) (vals : List α) : List α :=
  let news := List.zipWith (fun k v => arr.getD k 0 + v) idx vals
  (List.zip idx news).foldl (fun a p => a.set p.1 p.2) arr

/-- one iteration of the loop `for sub_slim_index in range(len(pix_indexes_for_sub_slim_index))` of
    `mapper_util.adaptive_pixel_signals_from`; state = (`pixel_signals`, `pixel_sizes`).
    `pixel_sizes[vertices_indexes] += 1` uses the *whole* row including any `-1` padding (which
    wraps to the last pixel), exactly as the code does. -/
def pixelSignalStep [Add α] [Mul α] [Zero α] [One α] (pixels : Nat) (pixelWeights : List (List α))
    (pixIndexes : List (List Int)) (pixSizes : List Nat) (slimForSub : List Nat)
    (adaptData : List α) (st : List α × List α) (sub : Nat) : List α × List α :=
  let vertices := (pixIndexes.getD sub []).map (pyIdx pixels)
  let maskIdx := slimForSub.getD sub 0
  let sizeTem := pixSizes.getD sub 0
  if sizeTem > 1 then
    let rhs := (pixelWeights.getD sub []).map fun w => adaptData.getD maskIdx 0 * w
    (fancyAdd st.1 (vertices.take sizeTem) rhs,
     fancyAdd st.2 vertices (vertices.map fun _ => 1))
  else
    let v0 := vertices.getD 0 0
    (st.1.set v0 (st.1.getD v0 0 + adaptData.getD maskIdx 0),
     st.2.set v0 (st.2.getD v0 0 + 1))

/-- the accumulation loop of `adaptive_pixel_signals_from`: (`pixel_signals`, `pixel_sizes`) after it -/
def pixelSignalAccum [Add α] [Mul α] [Zero α] [One α] (pixels : Nat) (pixelWeights : List (List α))
    (pixIndexes : List (List Int)) (pixSizes : List Nat) (slimForSub : List Nat)
    (adaptData : List α) : List α × List α :=
  (List.range pixIndexes.length).foldl
    (pixelSignalStep pixels pixelWeights pixIndexes pixSizes slimForSub adaptData)
    (List.replicate pixels 0, List.replicate pixels 0)

/-- `pixel_sizes[pixel_sizes == 0] = 1; pixel_signals /= pixel_sizes`: the per-pixel means before the
    normalisation by the maximum -/
def pixelSignalMeans [Add α] [Mul α] [Div α] [Zero α] [One α] [DecidableEq α] (pixels : Nat)
    (pixelWeights : List (List α)) (pixIndexes : List (List Int)) (pixSizes : List Nat)
    (slimForSub : List Nat) (adaptData : List α) : List α :=
  let st := pixelSignalAccum pixels pixelWeights pixIndexes pixSizes slimForSub adaptData
  let sizes := st.2.map fun s => if s = 0 then 1 else s
  List.zipWith (fun s n => s / n) st.1 sizes

/-- `mapper_util.adaptive_pixel_signals_from`.  `pow` is `x ↦ x ** signal_scale`:
    `pixel_signals /= np.max(pixel_signals); return pixel_signals ** signal_scale`. -/
def adaptivePixelSignals [Add α] [Mul α] [Div α] [Zero α] [One α] [LT α] [DecidableLT α]
    [DecidableEq α] (pow : α → α) (pixels : Nat) (pixelWeights : List (List α))
    (pixIndexes : List (List Int)) (pixSizes : List Nat) (slimForSub : List Nat)
    (adaptData : List α) : List α :=
  let signals := pixelSignalMeans pixels pixelWeights pixIndexes pixSizes slimForSub adaptData
  let mx := npMax signals
  (signals.map fun s => s / mx).map pow

/-! ### class level: the nine schemes -/

/-- what a regularization scheme reads off a linear object (`Mapper`) -/
structure LinObj (α : Type) where
  params : Nat                                -- `linear_obj.params`
  neighbors : List (List Nat)                 -- `linear_obj.neighbors` (= `source_plane_mesh_grid.neighbors`)
  sizes : List Nat                            -- `….neighbors.sizes`
  signals : List α                            -- `linear_obj.pixel_signals_from(signal_scale)` for the scheme's scale
  split : SplitTables α                       -- `linear_obj.pix_sub_weights_split_cross`
  points : List (α × α)                       -- `np.array(linear_obj.source_plane_mesh_grid)`, rows `(y, x)`

/-- the nine regularization classes with their constructor arguments -/
inductive Scheme (α : Type) where
  | constant (coefficient : α)
  | constantZeroth (coefficientNeighbor coefficientZeroth : α)
  | zeroth (coefficient : α)
  | adaptiveBrightness (inner outer : α)
  | brightnessZeroth (coefficient : α)
  | constantSplit (coefficient : α)
  | adaptiveBrightnessSplit (inner outer : α)
  | gaussianKernel (coefficient scale : α)
  | exponentialKernel (coefficient scale : α)

/-- the libm / LAPACK functions the kernel schemes call, and the two ridge literals -/
structure Env (α : Type) where
  ridge : α                                   -- 1e-8
  ridge2 : α                                  -- 2e-8
  sqrt : α → α
  exp : α → α
  inv : List (List α) → List (List α)         -- `np.linalg.inv`

/-- `regularization.regularization_weights_from(linear_obj)` -/
def schemeWeights [Add α] [Sub α] [Mul α] [One α] (s : Scheme α) (o : LinObj α) : List α :=
  match s with
  | .constant c => List.replicate o.params c                  -- `coefficient * np.ones(params)`
  | .constantZeroth cn _ => List.replicate o.params cn
  | .zeroth c => List.replicate o.params c
  | .adaptiveBrightness inner outer => adaptiveWeights inner outer o.signals
  | .brightnessZeroth c => brightnessZerothWeights c o.signals
  | .constantSplit c => List.replicate o.params c
  | .adaptiveBrightnessSplit inner outer => adaptiveWeights inner outer o.signals
  | .gaussianKernel c _ => List.replicate o.params c
  | .exponentialKernel c _ => List.replicate o.params c

/-- result of `regularization.regularization_matrix_from(linear_obj)` -/
inductive MatrixResult (α : Type) where
  | ok (M : List (List α))
  | meshException
  | unboundLocal

/-- the split-cross schemes: `reg_split_from` on the mapper's tables, then
    `pixel_splitted_regularization_matrix_from` (indices read the numpy way). -/
def splitSchemeMatrix [Add α] [Mul α] [Div α] [Neg α] [Zero α] [One α] (ridge2 : α)
    (regWeights : List α) (t : SplitTables α) : MatrixResult α :=
  match regSplitFrom t with
  | .meshException => .meshException
  | .unboundLocal => .unboundLocal
  | .ok t' =>
    .ok (pixelSplittedMatrix ridge2 regWeights (pyTable (t'.mappings.length / 4) t'.mappings)
          t'.sizes t'.weights)

/-- `regularization.regularization_matrix_from(linear_obj)` for each class -/
def schemeMatrix [Add α] [Sub α] [Mul α] [Div α] [Neg α] [Zero α] [One α] (env : Env α)
    (s : Scheme α) (o : LinObj α) : MatrixResult α :=
  match s with
  | .constant c => .ok (constantMatrix env.ridge c o.neighbors o.sizes)
  | .constantZeroth cn cz => .ok (constantZerothMatrix env.ridge cn cz o.neighbors o.sizes)
  | .zeroth c => .ok (zerothMatrix c o.params)
  | .adaptiveBrightness _ _ => .ok (weightedMatrix env.ridge (schemeWeights s o) o.neighbors o.sizes)
  | .brightnessZeroth _ => .ok (brightnessZerothMatrix (schemeWeights s o))
  | .constantSplit c =>
    -- `np.full(fill_value=coefficient, shape=(int(len(splitted_mappings) / 4),))`
    splitSchemeMatrix env.ridge2 (List.replicate (o.split.mappings.length / 4) c) o.split
  | .adaptiveBrightnessSplit _ _ => splitSchemeMatrix env.ridge2 (schemeWeights s o) o.split
  | .gaussianKernel c scale =>
    .ok (smul c (env.inv (covMatrix (gaussKernel env.exp scale) env.sqrt env.ridge o.points)))
  | .exponentialKernel c scale =>
    .ok (smul c (env.inv (covMatrix (expKernel env.exp scale) env.sqrt env.ridge o.points)))

/-! ### assembly over linear objects -/

/-- `LinearObj.regularization_matrix`: zeros when there is no scheme -/
def linearObjMatrix [Zero α] (params : Nat) (reg : Option (List (List α))) : List (List α) :=
  match reg with
  | none => zeros params params
  | some H => H

/-- `AbstractInversion.regularization_matrix`: `block_diag(*[obj.regularization_matrix …])`;
    objects are `(params, matrix of the scheme if any)` in list order. -/
def inversionMatrix [Zero α] (objs : List (Nat × Option (List (List α)))) : List (List α) :=
  blockDiag (objs.map fun o => (o.1, linearObjMatrix o.1 o.2))

/-- `AbstractInversion.no_regularization_index_list` (with `param_range_list_from(cls=LinearObj)`) -/
def noRegIndexList (objs : List (Nat × Bool)) : List Nat :=
  (objs.foldl (fun (st : List Nat × Nat) o =>
      (if o.2 then st.1 else st.1 ++ (List.range o.1).map (· + st.2), st.2 + o.1)) ([], 0)).1

/-- `AbstractInversion.regularization_matrix_reduced` -/
def reducedMatrix [Zero α] (objs : List (Nat × Option (List (List α)))) : List (List α) :=
  let H := inversionMatrix objs
  if objs.all (fun o => o.2.isSome) then H
  else
    let idx := noRegIndexList (objs.map fun o => (o.1, o.2.isSome))
    (deleteIdx H idx).map fun r => deleteIdx r idx

end Impl
end Model
