/-
Model/RegularizationMatern.lean — the Matérn kernel covariance matrix of
`autoarray/inversion/regularization/matern_kernel.py` (`matern_kernel`, `matern_cov_matrix_from`).

Mathlib-free.  `Impl.*` are loop-for-loop transliterations of the Python that exists today; `Spec.*` is the
entry-wise closed form.  The refinement `Impl.maternCov = Spec.maternCov` (all sizes), the symmetry and the
diagonal of the matrix are proved in Proofs/RegularizationMatern.lean; the loop ties
`Generated.LoopsReg2.* = Impl.*` are in Proofs/TieReg2.lean.

Oracles (explicit parameters, in the order the translator passes them): `sqrt gamma kv rpow`
(`math.sqrt` / `np.sqrt`, `math.gamma`, `scipy.special.kv`, the real power `x ** y`).  Nothing is assumed
about them anywhere.  The float literal `2` is `1 + 1` (as in `Impl.gaussKernel`), the float literals
`0.00000001` (the replacement of a zero distance) and `1e-8` (the ridge) are the parameters `tiny` / `ridge`.
-/
import Model.Regularization

namespace Model
open Mat

variable {α : Type}

namespace Impl

/-- `matern_kernel.py : matern_kernel(r, l, v)`

    r = abs(r)
    if r == 0: r = 0.00000001
    part1 = 2 ** (1 - v) / math.gamma(v)
    part2 = (math.sqrt(2 * v) * r / l) ** v
    part3 = sc.kv(v, math.sqrt(2 * v) * r / l)
    return part1 * part2 * part3 -/
def maternKernel [Add α] [Sub α] [Mul α] [Div α] [Neg α] [Zero α] [One α] [LT α] [DecidableLT α] [BEq α]
    (sqrt gamma : α → α) (kv rpow : α → α → α) (tiny : α) (r l v : α) : α :=
  let r := if r < 0 then -r else r
  let r := if r == 0 then tiny else r
  let part1 := rpow (1 + 1) (1 - v) / gamma v
  let part2 := rpow (sqrt ((1 + 1) * v) * r / l) v
  let part3 := kv v (sqrt ((1 + 1) * v) * r / l)
  part1 * part2 * part3

/-- `matern_kernel.py : matern_cov_matrix_from(scale, nu, pixel_points)`; points are `(y, x)`.

    pixels = len(pixel_points)
    covariance_matrix = np.zeros(shape=(pixels, pixels))
    for i in range(pixels):
        covariance_matrix[i, i] += 1e-8
        for j in range(pixels):
            xi = pixel_points[i, 1]; yi = pixel_points[i, 0]
            xj = pixel_points[j, 1]; yj = pixel_points[j, 0]
            d_ij = np.sqrt((xi - xj) ** 2 + (yi - yj) ** 2)
            covariance_matrix[i, j] += matern_kernel(d_ij, l=scale, v=nu) -/
def maternCov [Add α] [Sub α] [Mul α] [Div α] [Neg α] [Zero α] [One α] [LT α] [DecidableLT α] [BEq α]
    (sqrt gamma : α → α) (kv rpow : α → α → α) (tiny ridge : α) (scale nu : α)
    (points : List (α × α)) : List (List α) :=
  let pixels := points.length
  (List.range pixels).foldl (fun M i =>
      let M := addAt M i i ridge
      (List.range pixels).foldl (fun M j =>
          let xi := (points.getD i (0, 0)).2
          let yi := (points.getD i (0, 0)).1
          let xj := (points.getD j (0, 0)).2
          let yj := (points.getD j (0, 0)).1
          let d_ij := sqrt ((xi - xj) * (xi - xj) + (yi - yj) * (yi - yj))
          addAt M i j (maternKernel sqrt gamma kv rpow tiny d_ij scale nu)) M)
    (zeros pixels pixels)

/-- the double loop is the one shared by the Gaussian / exponential kernels (`Impl.covMatrix`) -/
theorem maternCov_eq_covMatrix [Add α] [Sub α] [Mul α] [Div α] [Neg α] [Zero α] [One α] [LT α]
    [DecidableLT α] [BEq α] (sqrt gamma : α → α) (kv rpow : α → α → α) (tiny ridge scale nu : α)
    (points : List (α × α)) :
    maternCov sqrt gamma kv rpow tiny ridge scale nu points
      = covMatrix (fun d => maternKernel sqrt gamma kv rpow tiny d scale nu) sqrt ridge points := rfl

end Impl

namespace Spec

/-- the argument handed to `sqrt`: `(xi - xj)**2 + (yi - yj)**2` for the points `i`, `j` (`(y, x)` pairs) -/
def maternDist2 [Add α] [Sub α] [Mul α] [Zero α] (points : List (α × α)) (i j : Nat) : α :=
  ((points.getD i (0, 0)).2 - (points.getD j (0, 0)).2)
      * ((points.getD i (0, 0)).2 - (points.getD j (0, 0)).2)
    + ((points.getD i (0, 0)).1 - (points.getD j (0, 0)).1)
      * ((points.getD i (0, 0)).1 - (points.getD j (0, 0)).1)

/-- entry `(i, j)` of the Matérn covariance matrix: the kernel of the distance, plus the ridge on the
    diagonal -/
def maternEntry [Add α] [Sub α] [Mul α] [Div α] [Neg α] [Zero α] [One α] [LT α] [DecidableLT α] [BEq α]
    (sqrt gamma : α → α) (kv rpow : α → α → α) (tiny ridge : α) (scale nu : α)
    (points : List (α × α)) (i j : Nat) : α :=
  (if i = j then ridge else 0)
    + Impl.maternKernel sqrt gamma kv rpow tiny (sqrt (maternDist2 points i j)) scale nu

/-- the `n × n` matrix (`n = len(pixel_points)`) given entry by entry -/
def maternCov [Add α] [Sub α] [Mul α] [Div α] [Neg α] [Zero α] [One α] [LT α] [DecidableLT α] [BEq α]
    (sqrt gamma : α → α) (kv rpow : α → α → α) (tiny ridge : α) (scale nu : α)
    (points : List (α × α)) : List (List α) :=
  (List.range points.length).map fun i =>
    (List.range points.length).map fun j =>
      maternEntry sqrt gamma kv rpow tiny ridge scale nu points i j

end Spec

end Model
