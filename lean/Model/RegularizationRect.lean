/-
Model/RegularizationRect.lean — the neighbour tables a rectangular / Delaunay mesh hands to the
regularization schemes (property C07, composed with C06.f).

Python: `structures/mesh/rectangular_2d.py: Mesh2DRectangular.neighbors` =
`Neighbors(arr=neighbors.astype("int"), sizes=sizes.astype("int"))` of
`mesh_util.rectangular_neighbors_from(shape_native)` (modelled phase by phase in Model/Mapper.lean as
`Impl.rectNeighbors`).  The regularization loops read the padded array with numpy indexing (`pyTable`)
and only the first `sizes[i]` entries of row `i`.
-/
import Model.Regularization
import Model.Mapper

namespace Model
namespace Impl

/-- `mapper.source_plane_mesh_grid.neighbors` of a rectangular mesh of shape `(H, W)`, as read by the loops -/
def rectMeshNeighbors (H W : Nat) : List (List Nat) := pyTable (H * W) (rectNeighbors H W).1

/-- `mapper.source_plane_mesh_grid.neighbors.sizes` of a rectangular mesh of shape `(H, W)` -/
def rectMeshSizes (H W : Nat) : List Nat := (rectNeighbors H W).2

/-- `mapper.source_plane_mesh_grid.neighbors` of a Delaunay mesh with `n` vertices (`Mesh2DDelaunay.neighbors`,
    built from scipy's CSR pair `vertex_neighbor_vertices = (indptr, indices)`; C06's `Impl.delaunayNeighbors`),
    as read by the regularization loops -/
def delaunayMeshNeighbors (indptr indices : List Nat) (n : Nat) : List (List Nat) :=
  pyTable n (delaunayNeighbors indptr indices n).1

/-- `….neighbors.sizes` of that Delaunay mesh -/
def delaunayMeshSizes (indptr indices : List Nat) (n : Nat) : List Nat :=
  (delaunayNeighbors indptr indices n).2

end Impl
end Model
