/-
Model/RegularizationSignals.lean — Spec layer of `mapper_util.adaptive_pixel_signals_from` (property C07,
the "per-pixel regularization weights the scheme itself reports" are computed from these signals).

The Impl layer (`Impl.fancyAdd`, `pixelSignalStep`, `pixelSignalAccum`, `pixelSignalMeans`,
`adaptivePixelSignals`) lives in Model/Regularization.lean.  Here: what the accumulation loop computes on
well-formed mapper tables, as finite sums.
-/
import Model.Regularization

namespace Model
namespace Spec

open Mat

variable {α : Type}

/-- row `sub` of `pix_indexes_for_sub_slim_index`, read the numpy way -/
def signalRow (pixels : Nat) (pixIndexes : List (List Int)) (sub : Nat) : List Nat :=
  (pixIndexes.getD sub []).map (pyIdx pixels)

/-- the tables `adaptive_pixel_signals_from` receives from a mapper are well formed: every index of a row
    (padding included, after numpy's wrap) is a valid source pixel; a sub-pixel with more than one mapping
    (`size > 1`: a Delaunay triangle) has at least `size` index entries, exactly `size` weights (otherwise
    numpy's broadcasting raises) and its `size` vertices are pairwise distinct; a sub-pixel with a single
    mapping has a non-empty row. -/
def SignalsWF (pixels : Nat) (pixelWeights : List (List α)) (pixIndexes : List (List Int))
    (pixSizes : List Nat) : Prop :=
  ∀ sub, sub < pixIndexes.length →
    (∀ v ∈ signalRow pixels pixIndexes sub, v < pixels)
    ∧ (1 < pixSizes.getD sub 0 →
        pixSizes.getD sub 0 ≤ (signalRow pixels pixIndexes sub).length
        ∧ (pixelWeights.getD sub []).length = pixSizes.getD sub 0
        ∧ ((signalRow pixels pixIndexes sub).take (pixSizes.getD sub 0)).Nodup)
    ∧ (¬ 1 < pixSizes.getD sub 0 → signalRow pixels pixIndexes sub ≠ [])

/-- what sub-pixel `sub` adds to `pixel_signals[p]`: its adapt-image value times the interpolation weight
    of vertex `p` (a triangle), or the bare adapt-image value when `p` is its single source pixel -/
def signalContrib [Add α] [Mul α] [Zero α] (pixels : Nat) (pixelWeights : List (List α))
    (pixIndexes : List (List Int)) (pixSizes : List Nat) (slimForSub : List Nat) (adaptData : List α)
    (p sub : Nat) : α :=
  let row := signalRow pixels pixIndexes sub
  let a := adaptData.getD (slimForSub.getD sub 0) 0
  if 1 < pixSizes.getD sub 0 then
    sumRange (pixSizes.getD sub 0) fun l =>
      if row.getD l 0 = p then a * (pixelWeights.getD sub []).getD l 0 else 0
  else if row.getD 0 0 = p then a else 0

/-- what sub-pixel `sub` adds to `pixel_sizes[p]`: 1 when `p` occurs in its row (the code indexes with the
    whole row), or is its single source pixel -/
def countContrib [Zero α] [One α] (pixels : Nat) (pixIndexes : List (List Int)) (pixSizes : List Nat)
    (p sub : Nat) : α :=
  let row := signalRow pixels pixIndexes sub
  if 1 < pixSizes.getD sub 0 then (if p ∈ row then 1 else 0)
  else if row.getD 0 0 = p then 1 else 0

/-- `pixel_signals[p]` after the loop: the weighted sum of the adapt-image values mapped to pixel `p` -/
def pixelSignalSum [Add α] [Mul α] [Zero α] (pixels : Nat) (pixelWeights : List (List α))
    (pixIndexes : List (List Int)) (pixSizes : List Nat) (slimForSub : List Nat) (adaptData : List α)
    (p : Nat) : α :=
  sumRange pixIndexes.length
    (signalContrib pixels pixelWeights pixIndexes pixSizes slimForSub adaptData p)

/-- `pixel_sizes[p]` after the loop: the number of sub-pixels mapped to pixel `p` -/
def pixelSignalCount [Add α] [Zero α] [One α] (pixels : Nat) (pixIndexes : List (List Int))
    (pixSizes : List Nat) (p : Nat) : α :=
  sumRange pixIndexes.length (countContrib pixels pixIndexes pixSizes p)

/-- the mean signal of pixel `p` (sum over count, count 0 replaced by 1) -/
def pixelSignalMean [Add α] [Mul α] [Div α] [Zero α] [One α] [DecidableEq α] (pixels : Nat)
    (pixelWeights : List (List α)) (pixIndexes : List (List Int)) (pixSizes : List Nat)
    (slimForSub : List Nat) (adaptData : List α) (p : Nat) : α :=
  pixelSignalSum pixels pixelWeights pixIndexes pixSizes slimForSub adaptData p
    / (if pixelSignalCount (α := α) pixels pixIndexes pixSizes p = 0 then 1
       else pixelSignalCount pixels pixIndexes pixSizes p)

end Spec
end Model
