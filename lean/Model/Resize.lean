/-
Model/Resize.lean — resize / pad / trim / zoom (property C14).

Python sources transliterated here (all under /repo/autoarray):
  structures/arrays/array_2d_util.py   resized_array_2d_from, extracted_array_2d_from
  structures/arrays/uniform_2d.py      Array2D.resized_from, padded_before_convolution_from,
                                       trimmed_after_convolution_from, zoomed_around_mask
  mask/mask_2d.py                      Mask2D.resized_from, trimmed_array_from, zoom_region
  mask/mask_2d_util.py                 blurring_mask_2d_from (only: does it raise?)
  dataset/imaging/dataset.py           Imaging.__init__ (pad_for_convolver branch), apply_mask
  structures/grids/grid_2d_util.py     grid_2d_slim_via_mask_from  (pixel-centre coordinates)
  geometry/geometry_util.py            central_pixel_coordinates_2d_from,
                                       central_scaled_coordinate_2d_from

Conventions: a native (H×W) array is its row-major flattening (`List α`, length `H*W`); Python ints
that may be negative (window corners) are `Int`; `int(n / 2)` of a non-negative Python int is `n / 2`
on `Nat` (float division then truncation = floor for n ≥ 0 — exact for every n < 2^53).
Mathlib-free.
-/
import Model.Core
import Model.Slim

namespace Model

/-! ## Spec layer -/
namespace Spec

/-- source index of resized row/column `r` (one axis): `centre − ⌊n'/2⌋ + r`. -/
def srcIndex (centre n' r : Nat) : Int := (centre : Int) - ((n' / 2 : Nat) : Int) + (r : Int)

/-- the centred window copy as a closed form: pixel `(r,c)` of the result is the source pixel at
    `(r + c_y − ⌊h'/2⌋, c + c_x − ⌊w'/2⌋)` if that lies in the source, else the pad value. -/
def resizedAt (src : List α) (h w h' w' cy cx : Nat) (pad zero : α) (r c : Nat) : α :=
  let y := srcIndex cy h' r
  let x := srcIndex cx w' c
  if 0 ≤ y ∧ y < (h : Int) ∧ 0 ≤ x ∧ x < (w : Int) then src.getD (y.toNat * w + x.toNat) zero
  else pad

def resized (src : List α) (h w h' w' cy cx : Nat) (pad zero : α) : List α :=
  (pixels h' w').map fun p => resizedAt src h w h' w' cy cx pad zero p.1 p.2

/-- window extraction `array[y0:y1, x0:x1]` with zeros outside the source. -/
def extractedAt (src : List α) (h w : Nat) (y0 x0 : Int) (zero : α) (r c : Nat) : α :=
  let y := y0 + (r : Int)
  let x := x0 + (c : Int)
  if 0 ≤ y ∧ 0 ≤ x ∧ y ≤ (h : Int) - 1 ∧ x ≤ (w : Int) - 1 then
    src.getD (y.toNat * w + x.toNat) zero
  else zero

def extracted (src : List α) (h w : Nat) (y0 y1 x0 x1 : Int) (zero : α) : List α :=
  (pixels (y1 - y0).toNat (x1 - x0).toNat).map fun p => extractedAt src h w y0 x0 zero p.1 p.2

/-- pixel-centre coordinates, closed form:  y = o_y + ((H−1)/2 − i)·s_y,  x = o_x + (j − (W−1)/2)·s_x -/
def centreY [Add α] [Sub α] [Mul α] [Div α] [NatCast α] (h : Nat) (oy sy : α) (i : Nat) : α :=
  oy + (((h - 1 : Nat) : α) / ((2 : Nat) : α) - (i : α)) * sy

def centreX [Add α] [Sub α] [Mul α] [Div α] [NatCast α] (w : Nat) (ox sx : α) (j : Nat) : α :=
  ox + ((j : α) - ((w - 1 : Nat) : α) / ((2 : Nat) : α)) * sx

end Spec

/-! ## Impl layer (loop transliterations) -/
namespace Impl

/-- `resized_array_2d_from(array_2d, resized_shape, origin, pad_value)`.
    `origin = none` is the Python default `(-1, -1)`: the centre is `(int(H/2), int(W/2))` (both
    parity branches of the source are identical).  The loop runs over
    `range(y_min, y_max)` with `y_max − y_min = 2·int(H'/2) + 1` (one more than `H'` when `H'` is
    even); the surplus row/column is discarded by the `y_resized < resized_shape[0]` guard. -/
def resizedArray2d (src : List α) (h w h' w' : Nat) (origin : Option (Nat × Nat)) (pad zero : α) :
    List α :=
  let o : Nat × Nat := match origin with
    | some o => o
    | none => (h / 2, w / 2)
  let yMin : Int := (o.1 : Int) - ((h' / 2 : Nat) : Int)
  let yMax : Int := (o.1 : Int) + ((h' / 2 : Nat) : Int) + 1
  let xMin : Int := (o.2 : Int) - ((w' / 2 : Nat) : Int)
  let xMax : Int := (o.2 : Int) + ((w' / 2 : Nat) : Int) + 1
  forYX (yMax - yMin).toNat (xMax - xMin).toNat
    (fun arr yr xr =>
      let y : Int := yMin + (yr : Int)
      let x : Int := xMin + (xr : Int)
      if 0 ≤ y ∧ y < (h : Int) ∧ 0 ≤ x ∧ x < (w : Int) then
        if yr < h' ∧ xr < w' then arr.set (yr * w' + xr) (src.getD (y.toNat * w + x.toNat) zero)
        else arr
      else
        if yr < h' ∧ xr < w' then arr.set (yr * w' + xr) pad else arr)
    (List.replicate (h' * w') zero)

/-- `extracted_array_2d_from(array_2d, y0, y1, x0, x1)`: zeros of shape `(y1−y0, x1−x0)`, then copy
    where the source index is inside the source. -/
def extractedArray2d (src : List α) (h w : Nat) (y0 y1 x0 x1 : Int) (zero : α) : List α :=
  let nh := (y1 - y0).toNat
  let nw := (x1 - x0).toNat
  forYX nh nw
    (fun arr yr xr =>
      let y : Int := y0 + (yr : Int)
      let x : Int := x0 + (xr : Int)
      if 0 ≤ y ∧ 0 ≤ x ∧ y ≤ (h : Int) - 1 ∧ x ≤ (w : Int) - 1 then
        arr.set (yr * nw + xr) (src.getD (y.toNat * w + x.toNat) zero)
      else arr)
    (List.replicate (nh * nw) zero)

/-! ### pixel-centre coordinates as the code computes them -/

/-- `grid_2d_slim_via_mask_from`: `-(y - (cpy + o_y/s_y)) * s_y` with `cpy = float(H-1)/2`. -/
def pixelCentreY [Add α] [Sub α] [Mul α] [Div α] [Neg α] [NatCast α]
    (h : Nat) (oy sy : α) (i : Nat) : α :=
  -((i : α) - (((h - 1 : Nat) : α) / ((2 : Nat) : α) + oy / sy)) * sy

/-- `(x - (cpx - o_x/s_x)) * s_x` with `cpx = float(W-1)/2`. -/
def pixelCentreX [Add α] [Sub α] [Mul α] [Div α] [NatCast α]
    (w : Nat) (ox sx : α) (j : Nat) : α :=
  ((j : α) - (((w - 1 : Nat) : α) / ((2 : Nat) : α) - ox / sx)) * sx

/-- geometry carried by every mask / array: pixel scales and origin, both (y,x). -/
structure Geom (α : Type) where
  sy : α
  sx : α
  oy : α
  ox : α
deriving Repr, DecidableEq

/-- `grid_2d_slim_via_mask_from` (what `Grid2D.from_mask(mask)` holds): the centres of the unmasked
    pixels in row-major order. -/
def gridSlimViaMask [Add α] [Sub α] [Mul α] [Div α] [Neg α] [NatCast α]
    (m : Mask) (g : Geom α) : List (α × α) :=
  forYX m.h m.w
    (fun acc y x =>
      if !m.get y x then acc ++ [(pixelCentreY m.h g.oy g.sy y, pixelCentreX m.w g.ox g.sx x)]
      else acc) []

/-! ### Mask2D / Array2D level -/

/-- a `Mask2D`: boolean mask + pixel scales + origin -/
structure GMask (α : Type) where
  mask : Mask
  geom : Geom α
deriving Repr, DecidableEq

/-- observable state of an `Array2D`: its mask (with geometry), its native values (zero at masked
    pixels — the constructor enforces that) and the storage flag. -/
structure Arr (α : Type) where
  gm : GMask α
  native : List α
  storeNative : Bool
deriving Repr, DecidableEq

/-- the invariant every `Array2D` satisfies after construction: well-formed mask, native values of
    the mask's shape, zeros at masked pixels. -/
def Arr.WF (a : Arr α) (zero : α) : Prop :=
  a.gm.mask.WF ∧ a.native.length = a.gm.mask.h * a.gm.mask.w
    ∧ applyMask a.gm.mask a.native zero = a.native

/-- `Mask2D.resized_from(new_shape, pad_value)`: the boolean array goes through
    `resized_array_2d_from(...).astype("bool")` (bool → float → bool is the identity; the pad value
    becomes `pad_value != 0`), pixel scales and origin are passed on. -/
def maskResizedFrom (gm : GMask α) (h' w' : Nat) (padValue : Bool) : GMask α :=
  { mask := ⟨h', w', resizedArray2d gm.mask.bits gm.mask.h gm.mask.w h' w' none padValue false⟩,
    geom := gm.geom }

/-- `Array2D.resized_from(new_shape, mask_pad_value)`: values resized with pad value 0, mask resized
    with `mask_pad_value`, then `convert_array_2d` (multiply by `~mask`) and the constructor. -/
def arrayResizedFrom (a : Arr α) (h' w' : Nat) (maskPad : Bool) (zero : α) : Arr α :=
  let vals := resizedArray2d a.native a.gm.mask.h a.gm.mask.w h' w' none zero zero
  let gm' := maskResizedFrom a.gm h' w' maskPad
  { gm := gm', native := applyMask gm'.mask vals zero, storeNative := a.storeNative }

/-- `Array2D.padded_before_convolution_from(kernel_shape, mask_pad_value)` -/
def paddedBeforeConvolution (a : Arr α) (kh kw : Nat) (maskPad : Bool) (zero : α) : Arr α :=
  arrayResizedFrom a (a.gm.mask.h + (kh - 1)) (a.gm.mask.w + (kw - 1)) maskPad zero

/-- numpy basic slicing `native[r0:r1, c0:c1]` for `0 ≤ r0 ≤ r1 ≤ H`, `0 ≤ c0 ≤ c1 ≤ W` (not a loop
    in the source; numpy's slicing is modelled directly). -/
def sliceNative (src : List α) (w r0 r1 c0 c1 : Nat) (zero : α) : List α :=
  (pixels (r1 - r0) (c1 - c0)).map fun p => src.getD ((r0 + p.1) * w + (c0 + p.2)) zero

/-- `Array2D.trimmed_after_convolution_from(kernel_shape)`: `psf_cut = ceil(k/2) − 1`; values by
    slicing `native[cut_y : H − cut_y, cut_x : W − cut_x]`, mask by the centred `resized_from` to the
    sliced shape.  `none` when the slice would be empty (the Python then fails downstream). -/
def trimmedAfterConvolution (a : Arr α) (kh kw : Nat) (zero : α) : Option (Arr α) :=
  let cy := (kh + 1) / 2 - 1
  let cx := (kw + 1) / 2 - 1
  let h := a.gm.mask.h
  let w := a.gm.mask.w
  if h ≤ 2 * cy ∨ w ≤ 2 * cx then none
  else
    let vals := sliceNative a.native w cy (h - cy) cx (w - cx) zero
    let gm' := maskResizedFrom a.gm (h - 2 * cy) (w - 2 * cx) false
    some { gm := gm', native := applyMask gm'.mask vals zero, storeNative := a.storeNative }

/-- `Mask2D.trimmed_array_from(padded_array, image_shape)` called on the padded mask (shape
    `hp×wp`): `native[p0//2 : hp − p0//2, p1//2 : wp − p1//2]`, `p = padded − image`; result is an
    unmasked `Array2D` with the mask's scales and origin.  `none` when the image is larger than the
    padded frame (negative Python slice bounds: not modelled). Returns (rows, cols, values). -/
def trimmedArrayFrom (padded : List α) (hp wp ih iw : Nat) (zero : α) :
    Option (Nat × Nat × List α) :=
  if hp < ih ∨ wp < iw then none
  else
    let p0 := (hp - ih) / 2
    let p1 := (wp - iw) / 2
    some (hp - p0 - p0, wp - p1 - p1, sliceNative padded wp p0 (hp - p0) p1 (wp - p1) zero)

/-! ### automatic padding in `Imaging.apply_mask` -/

/-- does `blurring_mask_2d_from(mask, kernel_shape)` complete without `MaskException`?  Same loop
    nest; the raise is modelled by clearing a flag.  (`DeriveMask2D.blurring_from` additionally
    raises for an even kernel side.) -/
def blurringFits (m : Mask) (kh kw : Nat) : Bool :=
  if kh % 2 == 0 || kw % 2 == 0 then false
  else
    let ylo : Int := (-(kh : Int) + 1) / 2
    let yhi : Int := ((kh : Int) + 1) / 2
    let xlo : Int := (-(kw : Int) + 1) / 2
    let xhi : Int := ((kw : Int) + 1) / 2
    forYX m.h m.w
      (fun ok y x =>
        if !m.get y x then
          forYX (yhi - ylo).toNat (xhi - xlo).toNat
            (fun ok dy dx =>
              let y1 : Int := ylo + (dy : Int)
              let x1 : Int := xlo + (dx : Int)
              if 0 ≤ (x : Int) + x1 ∧ (x : Int) + x1 ≤ (m.w : Int) - 1
                  ∧ 0 ≤ (y : Int) + y1 ∧ (y : Int) + y1 ≤ (m.h : Int) - 1 then ok
              else false) ok
        else ok) true

/-- `Array2D(values=native, mask=mask)`: native input is multiplied by `~mask`. -/
def arrayWithMask (native : List α) (gm : GMask α) (zero : α) : Arr α :=
  { gm := gm, native := applyMask gm.mask native zero, storeNative := false }

/-- `Imaging.apply_mask(mask)` on an unmasked dataset with PSF of shape `kh×kw`:
    data and noise map are re-built on the new mask; `Imaging.__init__(pad_for_convolver=True)` then
    pads both for the kernel with mask pad value 1 iff the blurring mask cannot be built. -/
def imagingApplyMask (data noise : List α) (gm : GMask α) (kh kw : Nat) (zero : α) :
    Arr α × Arr α :=
  let d := arrayWithMask data gm zero
  let n := arrayWithMask noise gm zero
  if blurringFits gm.mask kh kw then (d, n)
  else (paddedBeforeConvolution d kh kw true zero, paddedBeforeConvolution n kh kw true zero)

/-! ### successive `apply_mask` calls (`self.unmasked` bookkeeping) -/

/-- `Mask.is_all_false`: `pixels_in_mask == np.size(mask)` -/
def isAllFalse (m : Mask) : Bool := totalPixels m == m.h * m.w

/-- what `apply_mask` reads and writes of an `Imaging` object: its (masked) data and noise map and
    the retained unmasked dataset `self.unmasked` (its data and noise map), `None` on a fresh dataset -/
structure ImagingState (α : Type) where
  data : Arr α
  noise : Arr α
  unmasked : Option (Arr α × Arr α)
deriving Repr, DecidableEq

/-- a fresh unmasked dataset (`Array2D.no_mask` data and noise map of the same geometry) -/
def imagingInit (data noise : List α) (h w : Nat) (g : Geom α) : ImagingState α :=
  let gm : GMask α := ⟨⟨h, w, List.replicate (h * w) false⟩, g⟩
  { data := ⟨gm, data, false⟩, noise := ⟨gm, noise, false⟩, unmasked := none }

/-- `Imaging.apply_mask(mask)` as a state transition: the source of the values is `self` when
    `self.data.mask.is_all_false`, else `self.unmasked`; data and noise map are re-built from the
    source's native arrays on the new mask (then padded as in `imagingApplyMask`); the result's
    `unmasked` is the source.  `none`: `self.unmasked` is `None`, or the native arrays do not have
    the mask's shape (the `Array2D` constructor raises). -/
def imagingApplyMaskStep (s : ImagingState α) (gm : GMask α) (kh kw : Nat) (zero : α) :
    Option (ImagingState α) :=
  let src := if isAllFalse s.data.gm.mask then some (s.data, s.noise) else s.unmasked
  match src with
  | none => none
  | some u =>
    if u.1.gm.mask.h ≠ gm.mask.h ∨ u.1.gm.mask.w ≠ gm.mask.w then none
    else
      let r := imagingApplyMask u.1.native u.2.native gm kh kw zero
      some { data := r.1, noise := r.2, unmasked := some u }

/-- a sequence of `apply_mask` calls -/
def imagingApplyMasks (s : ImagingState α) (gms : List (GMask α)) (kh kw : Nat) (zero : α) :
    Option (ImagingState α) :=
  gms.foldl (fun acc gm => acc.bind fun st => imagingApplyMaskStep st gm kh kw zero) (some s)

/-! ### zoom -/

/-- `Mask2D.zoom_region`: bounding box of the unmasked pixels (`np.where`/`amin`/`amax` → folds over
    the row-major list of unmasked pixels), widened on the shorter axis by `int(diff/2)` on both
    sides; returned as `[y0, y1+1, x0, x1+1]`.  `none` when nothing is unmasked (numpy raises). -/
def zoomRegion (m : Mask) : Option (Int × Int × Int × Int) :=
  match nativeForSlim m with
  | [] => none
  | p :: t =>
    let y0 : Int := ((t.foldl (fun a q => min a q.1) p.1 : Nat) : Int)
    let y1 : Int := ((t.foldl (fun a q => max a q.1) p.1 : Nat) : Int)
    let x0 : Int := ((t.foldl (fun a q => min a q.2) p.2 : Nat) : Int)
    let x1 : Int := ((t.foldl (fun a q => max a q.2) p.2 : Nat) : Int)
    let ylength := y1 - y0
    let xlength := x1 - x0
    if ylength > xlength then
      let d := (ylength - xlength) / 2
      some (y0, y1 + 1, x0 - d, x1 + d + 1)
    else if xlength > ylength then
      let d := (xlength - ylength) / 2
      some (y0 - d, y1 + d + 1, x0, x1 + 1)
    else some (y0, y1 + 1, x0, x1 + 1)

/-- `Array2D.zoomed_around_mask(buffer)`: shape and native values of the extracted window. -/
def zoomedAroundMask (a : Arr α) (buffer : Int) (zero : α) : Option (Nat × Nat × List α) :=
  match zoomRegion a.gm.mask with
  | none => none
  | some (y0, y1, x0, x1) =>
    some ((y1 + buffer - (y0 - buffer)).toNat, (x1 + buffer - (x0 - buffer)).toNat,
      extractedArray2d a.native a.gm.mask.h a.gm.mask.w (y0 - buffer) (y1 + buffer) (x0 - buffer)
        (x1 + buffer) zero)

end Impl
end Model
