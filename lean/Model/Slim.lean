/-
Model/Slim.lean — slim ↔ native conversions (property C01).

Python sources transliterated here:
  autoarray/mask/mask_2d_util.py      native_index_for_slim_index_2d_from, mask_slim_indexes_from,
                                      total_pixels_2d_from
  autoarray/structures/arrays/array_2d_util.py
                                      array_2d_slim_from, array_2d_native_from,
                                      array_2d_via_indexes_from, convert_array_2d
  autoarray/structures/grids/grid_2d_util.py
                                      convert_grid_2d, grid_2d_slim_from, grid_2d_native_from
  autoarray/structures/arrays/array_1d_util.py   (1-D twins)
-/
import Model.Core

namespace Model

/-! ## Spec layer -/
namespace Spec

/-- the unmasked pixels of a mask, in row-major order. -/
def unmaskedPixels (m : Mask) : List (Nat × Nat) :=
  (pixels m.h m.w).filter fun p => !m.get p.1 p.2

/-- slim form: the values at the unmasked pixels, row-major. -/
def slimFrom (m : Mask) (a : List α) (zero : α) : List α :=
  (unmaskedPixels m).map fun p => a.getD (flat m.w p) zero

end Spec

/-! ## Impl layer (loop transliterations) -/
namespace Impl

/-- `total_pixels_2d_from`: count of `False` entries, by the double loop. -/
def totalPixels (m : Mask) : Nat :=
  forYX m.h m.w (fun acc y x => if !m.get y x then acc + 1 else acc) 0

/-- `native_index_for_slim_index_2d_from`: the code pre-allocates `total_pixels` rows and writes row
    `slim_index`, incrementing it; writing at a running counter that starts at 0 is an append. -/
def nativeForSlim (m : Mask) : List (Nat × Nat) :=
  forYX m.h m.w (fun acc y x => if !m.get y x then acc ++ [(y, x)] else acc) []

/-- `array_2d_slim_from`: gather of the unmasked entries by the same double loop. -/
def slimFrom (m : Mask) (a : List α) (zero : α) : List α :=
  forYX m.h m.w (fun acc y x => if !m.get y x then acc ++ [a.getD (y * m.w + x) zero] else acc) []

/-- `mask_slim_indexes_from(mask, return_masked_indexes=flag)`: running `regular_index` over all
    pixels, recorded where `mask[y,x] == flag`. -/
def maskSlimIndexes (m : Mask) (flag : Bool) : List Nat :=
  (forYX m.h m.w
    (fun (acc : List Nat × Nat) y x =>
      (if m.get y x == flag then acc.1 ++ [acc.2] else acc.1, acc.2 + 1)) ([], 0)).1

/-- `array_2d_via_indexes_from`: zeros, then one point-write per slim index. -/
def nativeViaIndexes (zero : α) (h w : Nat) (idx : List (Nat × Nat)) (s : List α) : List α :=
  (List.range idx.length).foldl
    (fun arr k => arr.set (flat w (idx.getD k (0, 0))) (s.getD k zero))
    (List.replicate (h * w) zero)

/-- `array_2d_native_from` = scatter through `native_index_for_slim_index_2d_from`. -/
def nativeFrom (m : Mask) (s : List α) (zero : α) : List α :=
  nativeViaIndexes zero m.h m.w (nativeForSlim m) s

/-- `array_2d *= np.invert(mask_2d)` on a native array: masked entries become `0 * a` …
    which for finite reals is `zero`; unmasked entries are multiplied by one. -/
def applyMask (m : Mask) (a : List α) (zero : α) : List α :=
  (List.range (m.h * m.w)).map fun k => if m.bits.getD k true then zero else a.getD k zero

/-- the input handed to a constructor: a slim list or a native (row-major) list. -/
inductive Input (α : Type) where
  | slim (v : List α)
  | native (v : List α)
deriving Repr

/-- what is stored by the structure. -/
inductive Stored (α : Type) where
  | slim (v : List α)
  | native (v : List α)
deriving Repr, DecidableEq

/-- `convert_array_2d` including `check_array_2d_and_mask_2d` (`none` = ArrayException). -/
def convertArray2d (m : Mask) (inp : Input α) (storeNative skipMask : Bool) (zero : α) :
    Option (Stored α) :=
  match inp with
  | .slim v =>
    if v.length ≠ totalPixels m then none
    else if storeNative then some (.native (nativeFrom m v zero)) else some (.slim v)
  | .native v =>
    if v.length ≠ m.h * m.w then none
    else
      let v' := if skipMask then v else applyMask m v zero
      if storeNative then some (.native v') else some (.slim (slimFrom m v' zero))

/-- `Array2D.slim` / `.native` on an existing structure: re-run the constructor on the stored values. -/
def Stored.toInput : Stored α → Input α
  | .slim v => .slim v
  | .native v => .native v

def viewSlim (m : Mask) (st : Stored α) (zero : α) : Option (Stored α) :=
  convertArray2d m st.toInput false false zero

def viewNative (m : Mask) (st : Stored α) (zero : α) : Option (Stored α) :=
  convertArray2d m st.toInput true false zero

/-! ### 1-D twins (`array_1d_util`, `mask_1d_util`) — a 1-D mask is a `1×n` frame read along x. -/

def slim1dFrom (mask : List Bool) (a : List α) (zero : α) : List α :=
  (List.range mask.length).foldl
    (fun acc x => if !mask.getD x true then acc ++ [a.getD x zero] else acc) []

def nativeForSlim1d (mask : List Bool) : List Nat :=
  (List.range mask.length).foldl (fun acc x => if !mask.getD x true then acc ++ [x] else acc) []

def native1dFrom (mask : List Bool) (s : List α) (zero : α) : List α :=
  let idx := nativeForSlim1d mask
  (List.range idx.length).foldl
    (fun arr k => arr.set (idx.getD k 0) (s.getD k zero)) (List.replicate mask.length zero)

/-- `array_1d * np.invert(mask_1d)` on a native 1-D input (repair D31) -/
def applyMask1d (mask : List Bool) (a : List α) (zero : α) : List α :=
  (List.range mask.length).map fun x => if mask.getD x true then zero else a.getD x zero

/-- `convert_array_1d`: an input is native iff its length equals the mask's; a native input is
    multiplied by the inverted mask; then stored as is or converted. (No shape check in the code: a
    slim input of the wrong length makes numpy raise in the scatter — `none` here.) -/
def convertArray1d (mask : List Bool) (v : List α) (storeNative : Bool) (zero : α) :
    Option (Stored α) :=
  if v.length = mask.length then
    let v' := applyMask1d mask v zero
    if storeNative then some (.native v') else some (.slim (slim1dFrom mask v' zero))
  else if v.length = (nativeForSlim1d mask).length then
    if storeNative then some (.native (native1dFrom mask v zero)) else some (.slim v)
  else none

def Stored.values : Stored α → List α
  | .slim v => v
  | .native v => v

/-- `Array1D.slim` / `.native`: re-run the constructor on the stored values -/
def viewSlim1d (mask : List Bool) (st : Stored α) (zero : α) : Option (Stored α) :=
  convertArray1d mask st.values false zero

def viewNative1d (mask : List Bool) (st : Stored α) (zero : α) : Option (Stored α) :=
  convertArray1d mask st.values true zero

end Impl
end Model
