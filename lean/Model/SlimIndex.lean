/-
Model/SlimIndex.lean — slim index ↔ 2-D index converters (property C01, loop-tie sweep A).

Python sources transliterated here:
  autoarray/structures/arrays/array_2d_util.py   index_2d_for_index_slim_from, index_slim_for_index_2d_from

Indexes are natural numbers (the callers pass non-negative pixel indexes) and the row width `w`
(`shape_native[1]`) is positive where the code divides by it.
-/
import Model.Core

namespace Model

/-! ## Spec layer: the `divmod` closed forms -/
namespace Spec

/-- slim index `k` of a row-major `h × w` frame is the pixel `(k / w, k % w)`. -/
def index2dForIndexSlim (w : Nat) (idx : List Nat) : List (Nat × Nat) :=
  idx.map fun k => (k / w, k % w)

/-- pixel `(y, x)` of a row-major `h × w` frame has the slim index `y * w + x`. -/
def indexSlimForIndex2d (w : Nat) (idx : List (Nat × Nat)) : List Nat :=
  idx.map fun p => p.1 * w + p.2

end Spec

/-! ## Impl layer (loop transliterations) -/
namespace Impl

/-- `index_2d_for_index_slim_from`: `np.zeros((n, 2))`, then for every `i` the two point writes
    `out[i, 0] = int(index_slim / shape_native[1])`, `out[i, 1] = int(index_slim % shape_native[1])`. -/
def index2dForIndexSlim (w : Nat) (idx : List Nat) : List (Nat × Nat) :=
  (List.range idx.length).foldl
    (fun out i => out.set i (idx.getD i 0 / w, idx.getD i 0 % w))
    (List.replicate idx.length (0, 0))

/-- `index_slim_for_index_2d_from`: `np.zeros(n)`, then for every `i` the point write
    `out[i] = int(indexes_2d[i, 0] * shape_native[1] + indexes_2d[i, 1])`. -/
def indexSlimForIndex2d (w : Nat) (idx : List (Nat × Nat)) : List Nat :=
  (List.range idx.length).foldl
    (fun out i => out.set i ((idx.getD i (0, 0)).1 * w + (idx.getD i (0, 0)).2))
    (List.replicate idx.length 0)

end Impl
end Model
