/-
Model/Triangles.lean — triangle sets in the vertex-array and the integer-coordinate representation
(property C20).

Python sources transliterated here:
  autoarray/structures/triangles/abstract.py
        AbstractTriangles.area, _up_sample_triangle, _neighborhood_triangles
  autoarray/structures/triangles/array.py
        ArrayTriangles.triangles, up_sample, neighborhood, for_indexes, with_vertices, containing_indices
  autoarray/structures/triangles/abstract_coordinate_array.py
        AbstractCoordinateArray.triangles, centres, flip_mask, area, __len__, for_limits_and_scale
  autoarray/structures/triangles/coordinate_array.py
        CoordinateArrayTriangles.flip_array, up_sample, neighborhood, _vertices_and_indices,
        with_vertices, for_indexes, containing_indices
  autoarray/structures/triangles/shape.py
        Point.mask, centroid, Circle.mask, Triangle (shape).mask / triangle_contains_mask,
        Polygon.mask, Square.mask

A vertex is a pair `(c0, c1)` = the two columns of the vertex array; `shape.py`, `area` and the
coordinate representation read `c0` as x and `c1` as y.  `h` stands for `HEIGHT_FACTOR = 3**0.5/2`; it
is a free parameter so that no square root occurs.  Generic number type (core classes only).
-/
import Model.Core

namespace Model

/-- one triangle = three vertices (a row of `vertices[indices]`). -/
structure Tri (α : Type) where
  v0 : α × α
  v1 : α × α
  v2 : α × α
deriving Repr

namespace Tri
def verts (t : Tri α) : List (α × α) := [t.v0, t.v1, t.v2]
end Tri

/-! ## generic sorting / de-duplication (`np.unique(..., axis=0)`) -/

/-- insert into a strictly increasing list, dropping `x` if an equal element (neither `<`) exists. -/
def insertUniq (lt : β → β → Bool) (x : β) : List β → List β
  | [] => [x]
  | y :: ys =>
    if lt x y then x :: y :: ys
    else if lt y x then y :: insertUniq lt x ys
    else y :: ys

/-- sorted list of the distinct elements. -/
def sortUniq (lt : β → β → Bool) (l : List β) : List β := l.foldr (insertUniq lt) []

/-- position of (an element equal to) `x` in `u` — the `return_inverse` array of `np.unique`. -/
def indexIn (lt : β → β → Bool) (x : β) : List β → Nat
  | [] => 0
  | y :: ys => if !lt x y && !lt y x then 0 else indexIn lt x ys + 1

namespace Impl
section
variable {α : Type} [Add α] [Sub α] [Mul α] [Div α] [Neg α] [OfNat α 0] [OfNat α 1] [OfNat α 2]
  [OfNat α 3] [OfNat α 4] [NatCast α] [IntCast α] [LT α] [DecidableLT α]

/-! ### vertices -/

def vadd (a b : α × α) : α × α := (a.1 + b.1, a.2 + b.2)
def vsub (a b : α × α) : α × α := (a.1 - b.1, a.2 - b.2)
def vhalf (a : α × α) : α × α := (a.1 / 2, a.2 / 2)

/-- lexicographic order on rows, as `np.unique(axis=0)` sorts them. -/
def ltPair (a b : α × α) : Bool :=
  decide (a.1 < b.1) || (!decide (b.1 < a.1) && decide (a.2 < b.2))

def ltNat3 (a b : Nat × Nat × Nat) : Bool :=
  decide (a.1 < b.1) || (a.1 == b.1 && (decide (a.2.1 < b.2.1) || (a.2.1 == b.2.1 && decide (a.2.2 < b.2.2))))

def ltInt2 (a b : Int × Int) : Bool :=
  decide (a.1 < b.1) || (a.1 == b.1 && decide (a.2 < b.2))

/-! ### the vertex-array representation -/

/-- `ArrayTriangles(indices, vertices)`. -/
structure ArrTris (α : Type) where
  indices : List (Nat × Nat × Nat)
  vertices : List (α × α)

/-- `ArrayTriangles.triangles = self.vertices[self.indices]`. -/
def ArrTris.triangles (a : ArrTris α) : List (Tri α) :=
  a.indices.map fun i =>
    ⟨a.vertices.getD i.1 (0, 0), a.vertices.getD i.2.1 (0, 0), a.vertices.getD i.2.2 (0, 0)⟩

/-- `|x0(y1−y2) + x1(y2−y0) + x2(y0−y1)|` with `x = c0`, `y = c1` (`np.abs`). -/
def absv (x : α) : α := if x < 0 then -x else x

def twiceSignedArea (t : Tri α) : α :=
  t.v0.1 * (t.v1.2 - t.v2.2) + t.v1.1 * (t.v2.2 - t.v0.2) + t.v2.1 * (t.v0.2 - t.v1.2)

/-- `AbstractTriangles.area`: `0.5 * Σ |…|`. -/
def area (ts : List (Tri α)) : α :=
  (ts.foldl (fun acc t => acc + absv (twiceSignedArea t)) 0) / 2

/-- `_up_sample_triangle`: the four blocks, in the order of the `concatenate`. -/
def upSampleRaw (ts : List (Tri α)) : List (Tri α) :=
  let m01 := fun (t : Tri α) => vhalf (vadd t.v0 t.v1)
  let m12 := fun (t : Tri α) => vhalf (vadd t.v1 t.v2)
  let m20 := fun (t : Tri α) => vhalf (vadd t.v2 t.v0)
  ts.map (fun t => ⟨t.v1, m12 t, m01 t⟩)
    ++ ts.map (fun t => ⟨t.v2, m20 t, m12 t⟩)
    ++ ts.map (fun t => ⟨m01 t, m12 t, m20 t⟩)
    ++ ts.map (fun t => ⟨t.v0, m01 t, m20 t⟩)

/-- `_neighborhood_triangles`. -/
def neighborhoodRaw (ts : List (Tri α)) : List (Tri α) :=
  ts.map (fun t => ⟨vsub (vadd t.v1 t.v2) t.v0, t.v1, t.v2⟩)
    ++ ts.map (fun t => ⟨t.v0, vsub (vadd t.v0 t.v2) t.v1, t.v2⟩)
    ++ ts.map (fun t => ⟨t.v0, t.v1, vsub (vadd t.v0 t.v1) t.v2⟩)
    ++ ts

/-- `x.reshape(-1, 2)` of an `(N,3,2)` array. -/
def flatVerts (ts : List (Tri α)) : List (α × α) := ts.flatMap Tri.verts

/-- `inverse_indices.reshape(-1, 3)`. -/
def rows3 : List Nat → List (Nat × Nat × Nat)
  | a :: b :: c :: rest => (a, b, c) :: rows3 rest
  | _ => []

/-- `np.unique(flat, axis=0, return_inverse=True)` followed by the reshape: de-duplicated vertex
    table and index rows that reproduce the given triangles. -/
def reindex (ts : List (Tri α)) : ArrTris α :=
  let flat := flatVerts ts
  let u := sortUniq ltPair flat
  { indices := rows3 (flat.map fun v => indexIn ltPair v u), vertices := u }

/-- `ArrayTriangles.up_sample`. -/
def ArrTris.upSample (a : ArrTris α) : ArrTris α := reindex (upSampleRaw a.triangles)

/-- `np.sort(new_indices, axis=1)` on one row. -/
def sort3 (r : Nat × Nat × Nat) : Nat × Nat × Nat :=
  let (a, b, c) := r
  let (a, b) := if b < a then (b, a) else (a, b)
  let (b, c) := if c < b then (c, b) else (b, c)
  let (a, b) := if b < a then (b, a) else (a, b)
  (a, b, c)

/-- `ArrayTriangles.neighborhood`: re-index, sort each row, unique rows. -/
def ArrTris.neighborhood (a : ArrTris α) : ArrTris α :=
  let r := reindex (neighborhoodRaw a.triangles)
  { indices := sortUniq ltNat3 (r.indices.map sort3), vertices := r.vertices }

/-- `ArrayTriangles.for_indexes` (non-negative indexes). -/
def ArrTris.forIndexes (a : ArrTris α) (idx : List Nat) : ArrTris α :=
  reindex ((idx.map fun k => a.indices.getD k (0, 0, 0)).map fun i =>
    ⟨a.vertices.getD i.1 (0, 0), a.vertices.getD i.2.1 (0, 0), a.vertices.getD i.2.2 (0, 0)⟩)

/-- `ArrayTriangles.with_vertices`. -/
def ArrTris.withVertices (a : ArrTris α) (vs : List (α × α)) : ArrTris α :=
  { indices := a.indices, vertices := vs }

/-! ### the integer-coordinate representation -/

/-- `CoordinateArrayTriangles(coordinates, side_length, x_offset, y_offset, flipped)`. -/
structure CoordTris (α : Type) where
  coords : List (Int × Int)
  side : α
  xOff : α
  yOff : α
  flipped : Bool

/-- `flip_mask` of one coordinate: `(x + y) % 2 != 0`, inverted when `flipped`. -/
def flipMask1 (flipped : Bool) (p : Int × Int) : Bool :=
  let m := (p.1 + p.2) % 2 != 0
  if flipped then !m else m

/-- `centres`: `scaling_factors * coordinates + [x_offset, y_offset]`,
    `scaling_factors = [0.5·L, h·L]`. -/
def centre (h : α) (c : CoordTris α) (p : Int × Int) : α × α :=
  (c.side / 2 * (p.1 : α) + c.xOff, h * c.side * (p.2 : α) + c.yOff)

/-- one row of `AbstractCoordinateArray.triangles` (`f` = the ±1 of `flip_array`). -/
def coordTri (h : α) (c : CoordTris α) (p : Int × Int) : Tri α :=
  let ce := centre h c p
  let f : α := if flipMask1 c.flipped p then -1 else 1
  ⟨(ce.1 + f * 0, ce.2 + f * (c.side / 2 * h)),
   (ce.1 + f * (c.side / 2), ce.2 + f * (-(c.side / 2 * h))),
   (ce.1 + f * (-(c.side / 2)), ce.2 + f * (-(c.side / 2 * h)))⟩

def CoordTris.triangles (h : α) (c : CoordTris α) : List (Tri α) := c.coords.map (coordTri h c)

/-- `CoordinateArrayTriangles.up_sample`: non-flipped parents first, then flipped ones, each block
    a `vstack` of four offset copies. -/
def CoordTris.upSample (h : α) (c : CoordTris α) : CoordTris α :=
  let normal := c.coords.filter fun p => !flipMask1 c.flipped p
  let flp := c.coords.filter fun p => flipMask1 c.flipped p
  let blk (l : List (Int × Int)) (d : Int × Int) := l.map fun p => (2 * p.1 + d.1, 2 * p.2 + d.2)
  { coords := blk normal (0, 0) ++ blk normal (1, 0) ++ blk normal (-1, 0) ++ blk normal (0, 1)
        ++ (blk flp (0, 0) ++ blk flp (1, 1) ++ blk flp (-1, 1) ++ blk flp (0, 1)),
    side := c.side / 2,
    yOff := c.yOff + -(h * c.side / 4),
    xOff := c.xOff,
    flipped := true }

/-- `CoordinateArrayTriangles.neighborhood`, with `np.unique(axis=0)` on the integer rows. -/
def CoordTris.neighborhood (c : CoordTris α) : CoordTris α :=
  let normal := c.coords.filter fun p => !flipMask1 c.flipped p
  let flp := c.coords.filter fun p => flipMask1 c.flipped p
  let blk (l : List (Int × Int)) (d : Int × Int) := l.map fun p => (p.1 + d.1, p.2 + d.2)
  let raw := blk normal (0, 0) ++ blk normal (1, 0) ++ blk normal (-1, 0) ++ blk normal (0, -1)
        ++ (blk flp (0, 0) ++ blk flp (1, 0) ++ blk flp (-1, 0) ++ blk flp (0, 1))
  { coords := sortUniq ltInt2 raw, side := c.side, xOff := c.xOff, yOff := c.yOff,
    flipped := c.flipped }

/-- `CoordinateArrayTriangles.for_indexes`. -/
def CoordTris.forIndexes (c : CoordTris α) (idx : List Nat) : CoordTris α :=
  { coords := idx.map fun k => c.coords.getD k (0, 0), side := c.side, xOff := c.xOff,
    yOff := c.yOff, flipped := c.flipped }

/-- `_vertices_and_indices` + `with_vertices(self.vertices)`: the array view of a coordinate set. -/
def CoordTris.arrayView (h : α) (c : CoordTris α) : ArrTris α := reindex (c.triangles h)

/-- `AbstractCoordinateArray.area = (3**0.5/4 · L²) · len(self)`; `3**0.5/4 = h/2`. -/
def CoordTris.area (h : α) (c : CoordTris α) : α := h / 2 * (c.side * c.side) * (c.coords.length : α)

/-- `AbstractCoordinateArray.for_limits_and_scale`; `trunc` = Python `int()`. -/
def coordsForLimits (trunc : α → Int) (h xMin xMax yMin yMax scale : α) : List (Int × Int) :=
  let xShift := trunc (2 * xMin / scale)
  let yShift := trunc (yMin / (h * scale))
  let xHi := trunc (2 * xMax / scale) + 1
  let yHi := trunc (yMax / (h * scale)) + 2
  (List.range (xHi - xShift).toNat).flatMap fun (i : Nat) =>
    (List.range (yHi - (yShift - 1)).toNat).map fun (j : Nat) =>
      (xShift + Int.ofNat i, yShift - 1 + Int.ofNat j)

/-! ### containment masks (`shape.py`) -/

def isZero (d : α) : Bool := !decide (d < 0) && !decide (0 < d)
def le (a b : α) : Bool := !decide (b < a)

/-- barycentric test of `Point.mask` for the point `(px, py)`; a zero denominator makes numpy produce
    nan/inf, for which the chain of comparisons is False. -/
def pointMask (px py : α) (t : Tri α) : Bool :=
  let x1 := t.v0.1; let y1 := t.v0.2
  let x2 := t.v1.1; let y2 := t.v1.2
  let x3 := t.v2.1; let y3 := t.v2.2
  let den := (y2 - y3) * (x1 - x3) + (x3 - x2) * (y1 - y3)
  if isZero den then false
  else
    let a := ((y2 - y3) * (px - x3) + (x3 - x2) * (py - y3)) / den
    let b := ((y3 - y1) * (px - x3) + (x1 - x3) * (py - y3)) / den
    let c := 1 - a - b
    le 0 a && le a 1 && le 0 b && le b 1 && le 0 c && le c 1

/-- `centroid(triangles)`. -/
def centroid (t : Tri α) : α × α :=
  ((t.v0.1 + t.v1.1 + t.v2.1) / 3, (t.v0.2 + t.v1.2 + t.v2.2) / 3)

/-- `Circle.mask`. -/
def circleMask (x y r : α) (t : Tri α) : Bool :=
  let c := centroid t
  let a := c.1 - x
  let b := c.2 - y
  le (a * a + b * b) (r * r) || pointMask x y t

/-- `Square.mask` (`top ≤ centroid_y ≤ bottom`, `left ≤ centroid_x ≤ right`), reference point the
    middle of the square. -/
def squareMask (top bottom left right : α) (t : Tri α) : Bool :=
  let c := centroid t
  (le left c.1 && le c.1 right && le c.2 bottom && le top c.2)
    || pointMask ((left + right) / 2) ((top + bottom) / 2) t

/-- `Triangle.triangle_contains_mask` AS WRITTEN: the shape's vertices are unpacked as `y1, x1 = a`
    although `Triangle.__init__` (and everything else) reads them as `(x, y)`. -/
def triContainsMask (a b c : α × α) (t : Tri α) : Bool :=
  let y1 := a.1; let x1 := a.2
  let y2 := b.1; let x2 := b.2
  let y3 := c.1; let x3 := c.2
  let den := (y2 - y3) * (x1 - x3) + (x3 - x2) * (y1 - y3)
  let ce := centroid t
  if isZero den then false
  else
    let a' := ((y2 - y3) * (ce.1 - x3) + (x3 - x2) * (ce.2 - y3)) / den
    let b' := ((y3 - y1) * (ce.1 - x3) + (x1 - x3) * (ce.2 - y3)) / den
    let c' := 1 - a' - b'
    le 0 a' && le a' 1 && le 0 b' && le b' 1 && le 0 c' && le c' 1

/-- `Triangle(a,b,c).mask`: reference point = mean of the vertices. -/
def triShapeMask (a b c : α × α) (t : Tri α) : Bool :=
  triContainsMask a b c t || pointMask ((a.1 + b.1 + c.1) / 3) ((a.2 + b.2 + c.2) / 3) t

/-- reference point of `Polygon(vertices)`: `np.mean` of each column. -/
def polygonRef (vs : List (α × α)) : α × α :=
  ((vs.map Prod.fst).foldl (· + ·) 0 / (vs.length : α),
   (vs.map Prod.snd).foldl (· + ·) 0 / (vs.length : α))

/-- `Polygon.mask`: fan of `Triangle(first, second, third)` shapes, or the reference point. -/
def polygonMask (vs : List (α × α)) (t : Tri α) : Bool :=
  let first := vs.headD (0, 0)
  ((vs.drop 1).zip (vs.drop 2)).any (fun st => triShapeMask first st.1 st.2 t)
    || pointMask (polygonRef vs).1 (polygonRef vs).2 t

inductive Shape (α : Type) where
  | point (x y : α)
  | circle (x y r : α)
  | square (top bottom left right : α)
  | polygon (vs : List (α × α))

/-- the shape's reference point (`Point.x`, `Point.y` of the base class). -/
def Shape.ref : Shape α → α × α
  | .point x y => (x, y)
  | .circle x y _ => (x, y)
  | .square top bottom left right => ((left + right) / 2, (top + bottom) / 2)
  | .polygon vs => polygonRef vs

def Shape.mask : Shape α → Tri α → Bool
  | .point x y => pointMask x y
  | .circle x y r => circleMask x y r
  | .square top bottom left right => squareMask top bottom left right
  | .polygon vs => polygonMask vs

/-- `containing_indices(shape) = np.where(shape.mask(self.triangles))[0]`. -/
def containingIndices (s : Shape α) (ts : List (Tri α)) : List Nat :=
  (List.range ts.length).filter fun i =>
    match ts[i]? with
    | some t => s.mask t
    | none => false

end
end Impl

end Model
