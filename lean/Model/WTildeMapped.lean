/-
Model/WTildeMapped.lean — the w-tilde formalism's route from a reconstruction back to the image plane
(property C05, clause e, second formalism).  Mathlib-free; generic number type; imports nothing but core
Lean so that it can be imported next to C03's model (Model/Convolution.lean), C05's model (Model/NNLS.lean)
and — separately — C06's model (Model/Mapper.lean).  Everything lives in `Model.WTildeMapped` (the names
`Model.Impl.mappedViaUnique`, `Model.Impl.uniqueFrom`, `Model.Impl.convolveNoBlurring` … already exist in
Model/NormalEq.lean, C04's self-contained model, which cannot be imported next to Model/NNLS.lean).

Python sources transliterated here:
  autoarray/inversion/inversion/inversion_util.py
      mapped_reconstructed_data_via_image_to_pix_unique_from          → `mappedViaUnique`      (Impl)
  autoarray/inversion/inversion/imaging/w_tilde.py
      InversionImagingWTilde.mapped_reconstructed_data_dict
        (function-list branch: `np.sum(reconstruction * operated_mapping_matrix, axis=1)`)  → `rowSums` (Impl)
  autoarray/inversion/inversion/abstract.py  source_quantity_dict_from → `sliceDict`           (Impl)

Spec: `denseRowOfUnique` (textually the definition of the same name in Model/Mapper.lean: how the w-tilde
routines read one row of the unique tables) and `Encodes` (the tables, read that way, are the `n × P`
matrix `M`; every used table entry is a valid source-pixel index).  `Encodes` is what C06.e
(`C06.unique_encodes_mapping_matrix` + `C06.unique_rows_distinct`) proves of
`data_slim_to_pixelization_unique_from` against `mapping_matrix_from` — Proofs/WTildeMappedC06.lean.
-/

namespace Model
namespace WTildeMapped

/-! ## Impl layer -/

section Impl
variable {α : Type} [Add α] [Mul α] [OfNat α 0]

/-- `inversion_util.mapped_reconstructed_data_via_image_to_pix_unique_from`:
    ```
    data_pixels = data_to_pix_unique.shape[0]
    mapped_reconstructed_data = np.zeros(data_pixels)
    for data_0 in range(data_pixels):
        for pix_0 in range(pix_lengths[data_0]):
            pix_for_data = data_to_pix_unique[data_0, pix_0]
            mapped_reconstructed_data[data_0] += data_weights[data_0, pix_0] * reconstruction[pix_for_data]
    ```
    The index tables are `-1`-padded integer arrays (`List (List Int)`), an entry used as an array position is
    read with `Int.toNat` (convention of Model/Mapper.lean; the theorems carry the range hypothesis, numpy's
    negative-index wrap-around / IndexError is outside the modelled domain). -/
def mappedViaUnique (dataToPixUnique : List (List Int)) (dataWeights : List (List α))
    (pixLengths : List Nat) (reconstruction : List α) : List α :=
  (List.range dataToPixUnique.length).foldl
    (fun out data0 =>
      (List.range (pixLengths.getD data0 0)).foldl
        (fun out pix0 =>
          let pixForData := ((dataToPixUnique.getD data0 []).getD pix0 (-1)).toNat
          out.set data0
            (out.getD data0 0 + (dataWeights.getD data0 []).getD pix0 0 * reconstruction.getD pixForData 0))
        out)
    (List.replicate dataToPixUnique.length 0)

/-- the function-list branch of `InversionImagingWTilde.mapped_reconstructed_data_dict`:
    `np.sum(reconstruction * operated_mapping_matrix, axis=1)` (broadcast product, then the sum of every row;
    the summation order of `np.sum` is immaterial in exact arithmetic). -/
def rowSums (operatedMappingMatrix : List (List α)) (reconstruction : List α) : List α :=
  operatedMappingMatrix.map fun row => (List.zipWith (· * ·) reconstruction row).foldl (· + ·) 0

/-- `source_quantity_dict_from`: consecutive slices `source_quantity[index : index + linear_obj.params]`
    (same definition as `Model.Impl.sliceDict` of Model/NNLS.lean). -/
def sliceDict (params : List Nat) (s : List α) : List (List α) :=
  match params with
  | [] => []
  | p :: ps => s.take p :: sliceDict ps (s.drop p)

/-- a linear object as `InversionImagingWTilde.mapped_reconstructed_data_dict` uses it: a mapper through its
    `params` and `unique_mappings` (`data_to_pix_unique`, `data_weights`, `pix_lengths`), an
    `AbstractLinearObjFuncList` through `linear_func_operated_mapping_matrix_dict[linear_obj]`. -/
inductive LinObj (α : Type) where
  | mapper (params : Nat) (dataToPixUnique : List (List Int)) (dataWeights : List (List α))
      (pixLengths : List Nat)
  | funcList (operatedMappingMatrix : List (List α))

/-- `linear_obj.params` (a function list has one parameter per column of its matrix) -/
def LinObj.params : LinObj α → Nat
  | .mapper p _ _ _ => p
  | .funcList B => (B.headD []).length

/-- body of the loop of `InversionImagingWTilde.mapped_reconstructed_data_dict` for one linear object;
    `convolveNoBlurring` = `self.convolver.convolve_image_no_blurring` (C03's `Impl.convolveNoBlurring cv`,
    passed as a parameter to keep this file free of imports). -/
def mappedOne (convolveNoBlurring : List α → List α) (o : LinObj α) (reconstruction : List α) : List α :=
  match o with
  | .mapper _ d2p dw len => convolveNoBlurring (mappedViaUnique d2p dw len reconstruction)
  | .funcList B => rowSums B reconstruction

/-- `InversionImagingWTilde.mapped_reconstructed_data_dict`: one image per linear object, in list order. -/
def mappedDataDict (convolveNoBlurring : List α → List α) (objs : List (LinObj α)) (s : List α) :
    List (List α) :=
  List.zipWith (mappedOne convolveNoBlurring) objs (sliceDict (objs.map LinObj.params) s)

end Impl

/-! ## Spec layer -/

section Spec
variable {α : Type} [Add α] [OfNat α 0]

/-- dense row denoted by one row of the unique tables, as the w-tilde routines read it:
    `for k in range(pix_lengths[ip]): out[data_to_pix_unique[ip,k]] += data_weights[ip,k]`
    (the definition of `Model.Spec.denseRowOfUnique` in Model/Mapper.lean, repeated because that file cannot
    be imported next to Model/Convolution.lean). -/
def denseRowOfUnique (d2p : List Int) (dw : List α) (len : Nat) (p : Nat) : α :=
  ((((List.range len).filter fun k => d2p.getD k (-1) == Int.ofNat p).map fun k => dw.getD k 0).foldr
    (· + ·) 0)

/-- the stored unique tables encode the `n × P` matrix `M` (`n` data pixels, `P` source pixels):
    one row per data pixel; every entry the consumer loops read (`k < pix_lengths[ip]`) is a source-pixel
    index `0 ≤ · < P`; and the dense row they denote is row `ip` of `M`. -/
structure Encodes (d2p : List (List Int)) (dw : List (List α)) (len : List Nat) (n P : Nat)
    (M : List (List α)) : Prop where
  rows : d2p.length = n
  inRange : ∀ ip, ip < n → ∀ k, k < len.getD ip 0 →
    0 ≤ (d2p.getD ip []).getD k (-1) ∧ ((d2p.getD ip []).getD k (-1)).toNat < P
  dense : ∀ ip, ip < n → ∀ p, p < P →
    denseRowOfUnique (d2p.getD ip []) (dw.getD ip []) (len.getD ip 0) p = (M.getD ip []).getD p 0

end Spec

end WTildeMapped
end Model
