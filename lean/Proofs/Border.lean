/-
Proofs/Border.lean — helper lemmas for Model/Border.lean (property C18), part 1:
loop shapes (`foldl`+`set` = `map`), `np.min` / `np.max` / `np.argmin`, and the relocation rule over an
ordered field with an abstract `sqrt` satisfying its contract.
-/
import Model.Border
import Mathlib.Tactic.Ring
import Mathlib.Tactic.Linarith
import Mathlib.Tactic.FieldSimp
import Mathlib.Algebra.Order.Field.Basic

set_option linter.unusedSectionVars false
set_option linter.unusedSimpArgs false

namespace Model

open Impl

/-! ### the copy-then-overwrite loop is a `map` -/

theorem foldl_set_eq_map_aux {β : Type} (f : β → β) (d : β) (l : List β) (n : Nat) (hn : n ≤ l.length) :
    (List.range n).foldl (fun out i => out.set i (f (l.getD i d))) l
      = (l.take n).map f ++ l.drop n := by
  induction n with
  | zero => simp
  | succ n ih =>
    have hn' : n < l.length := hn
    rw [List.range_succ, List.foldl_append, ih (Nat.le_of_lt hn')]
    simp only [List.foldl_cons, List.foldl_nil]
    apply List.ext_getElem?
    intro j
    have hlen : ((l.take n).map f).length = n := by simp; omega
    by_cases hj : j = n
    · subst hj
      rw [List.getElem?_set_self (by simp; omega)]
      rw [List.getElem?_append_left (by simp; omega)]
      simp [List.getElem?_take, List.getD_eq_getElem?_getD, hn']
    · rw [List.getElem?_set_ne (Ne.symm hj)]
      by_cases hlt : j < n
      · rw [List.getElem?_append_left (by omega), List.getElem?_append_left (by simp; omega)]
        simp only [List.getElem?_map, List.getElem?_take]
        simp [hlt, Nat.lt_succ_of_lt hlt]
      · have hge : n + 1 ≤ j := by omega
        rw [List.getElem?_append_right (by omega), List.getElem?_append_right (by simp; omega)]
        simp only [List.length_map, List.length_take, List.getElem?_drop]
        congr 1
        omega

theorem foldl_set_eq_map {β : Type} (f : β → β) (d : β) (l : List β) :
    (List.range l.length).foldl (fun out i => out.set i (f (l.getD i d))) l = l.map f := by
  rw [foldl_set_eq_map_aux f d l l.length (Nat.le_refl _)]
  simp

section field
variable {α : Type} [Field α] [LinearOrder α] [IsStrictOrderedRing α]

/-- `relocated_grid_via_jit_from` is the pointwise application of the loop body. -/
theorem relocatedGrid_eq_map (sqrt : α → α) (grid border : List (α × α)) :
    Impl.relocatedGrid sqrt grid border
      = grid.map (Impl.relocatePoint sqrt (Impl.borderOrigin border) (Impl.borderRadii sqrt border)
          (Impl.minList (Impl.borderRadii sqrt border)) border) := by
  unfold Impl.relocatedGrid
  exact foldl_set_eq_map _ _ _

/-! ### running minimum / maximum / argmin -/

theorem minFold_spec (l : List α) (x : α) :
    let r := l.foldl (fun acc v => if v < acc then v else acc) x
    (r = x ∨ r ∈ l) ∧ r ≤ x ∧ ∀ v ∈ l, r ≤ v := by
  induction l generalizing x with
  | nil => simp
  | cons a l ih =>
    simp only [List.foldl_cons]
    by_cases h : a < x
    · simp only [h, if_true]
      obtain ⟨h1, h2, h3⟩ := ih a
      refine ⟨?_, le_trans h2 (le_of_lt h), ?_⟩
      · rcases h1 with h1 | h1
        · right; rw [h1]; exact List.mem_cons_self
        · right; exact List.mem_cons_of_mem _ h1
      · intro v hv
        rcases List.mem_cons.mp hv with rfl | hv
        · exact h2
        · exact h3 v hv
    · simp only [h, if_false]
      obtain ⟨h1, h2, h3⟩ := ih x
      refine ⟨?_, h2, ?_⟩
      · rcases h1 with h1 | h1
        · left; exact h1
        · right; exact List.mem_cons_of_mem _ h1
      · intro v hv
        rcases List.mem_cons.mp hv with rfl | hv
        · exact le_trans h2 (not_lt.mp h)
        · exact h3 v hv

theorem minList_mem {l : List α} (h : l ≠ []) : Impl.minList l ∈ l := by
  cases l with
  | nil => exact absurd rfl h
  | cons x xs =>
    have := (minFold_spec xs x).1
    rcases this with h1 | h1
    · simp only [Impl.minList]; rw [h1]; exact List.mem_cons_self
    · exact List.mem_cons_of_mem _ h1

theorem minList_le {l : List α} {v : α} (hv : v ∈ l) : Impl.minList l ≤ v := by
  cases l with
  | nil => cases hv
  | cons x xs =>
    obtain ⟨_, h2, h3⟩ := minFold_spec xs x
    rcases List.mem_cons.mp hv with rfl | hv
    · exact h2
    · exact h3 v hv

theorem maxFold_spec (l : List α) (x : α) :
    let r := l.foldl (fun acc v => if acc < v then v else acc) x
    (r = x ∨ r ∈ l) ∧ x ≤ r ∧ ∀ v ∈ l, v ≤ r := by
  induction l generalizing x with
  | nil => simp
  | cons a l ih =>
    simp only [List.foldl_cons]
    by_cases h : x < a
    · simp only [h, if_true]
      obtain ⟨h1, h2, h3⟩ := ih a
      refine ⟨?_, le_trans (le_of_lt h) h2, ?_⟩
      · rcases h1 with h1 | h1
        · right; rw [h1]; exact List.mem_cons_self
        · right; exact List.mem_cons_of_mem _ h1
      · intro v hv
        rcases List.mem_cons.mp hv with rfl | hv
        · exact h2
        · exact h3 v hv
    · simp only [h, if_false]
      obtain ⟨h1, h2, h3⟩ := ih x
      refine ⟨?_, h2, ?_⟩
      · rcases h1 with h1 | h1
        · left; exact h1
        · right; exact List.mem_cons_of_mem _ h1
      · intro v hv
        rcases List.mem_cons.mp hv with rfl | hv
        · exact le_trans (not_lt.mp h) h2
        · exact h3 v hv

theorem maxList_mem {l : List α} (h : l ≠ []) : Impl.maxList l ∈ l := by
  cases l with
  | nil => exact absurd rfl h
  | cons x xs =>
    have := (maxFold_spec xs x).1
    rcases this with h1 | h1
    · simp only [Impl.maxList]; rw [h1]; exact List.mem_cons_self
    · exact List.mem_cons_of_mem _ h1

theorem le_maxList {l : List α} {v : α} (hv : v ∈ l) : v ≤ Impl.maxList l := by
  cases l with
  | nil => cases hv
  | cons x xs =>
    obtain ⟨_, h2, h3⟩ := maxFold_spec xs x
    rcases List.mem_cons.mp hv with rfl | hv
    · exact h2
    · exact h3 v hv

/-- invariant of the `argmin` scan: given an incumbent `(bi, bv)` that is the first minimum of the
    prefix `pre`, the result is the first minimum of `pre ++ l`. -/
theorem argminGo_spec (l pre : List α) (bi : Nat) (bv : α)
    (hbi : pre[bi]? = some bv) (hmin : ∀ v ∈ pre, bv ≤ v)
    (hfirst : ∀ j, j < bi → ∀ v, pre[j]? = some v → bv < v) :
    let k := Impl.argminGo l pre.length bi bv
    ∃ kv, (pre ++ l)[k]? = some kv ∧ (∀ v ∈ pre ++ l, kv ≤ v)
      ∧ ∀ j, j < k → ∀ v, (pre ++ l)[j]? = some v → kv < v := by
  induction l generalizing pre bi bv with
  | nil =>
    simp only [Impl.argminGo, List.append_nil]
    exact ⟨bv, hbi, hmin, hfirst⟩
  | cons x xs ih =>
    simp only [Impl.argminGo]
    have hbilt : bi < pre.length := by
      by_contra hc
      rw [List.getElem?_eq_none (by omega)] at hbi
      cases hbi
    have hpre : pre ++ x :: xs = (pre ++ [x]) ++ xs := by simp
    have hlen : (pre ++ [x]).length = pre.length + 1 := by simp
    by_cases hx : x < bv
    · simp only [hx, if_true]
      have := ih (pre ++ [x]) pre.length x (by simp)
        (by
          intro v hv
          rcases List.mem_append.mp hv with hv | hv
          · exact le_trans (le_of_lt hx) (hmin v hv)
          · simp at hv; rw [hv])
        (by
          intro j hj v hjv
          rw [List.getElem?_append_left hj] at hjv
          exact lt_of_lt_of_le hx (hmin v (List.mem_of_getElem? hjv)))
      rw [hlen] at this
      rw [hpre]
      exact this
    · simp only [hx, if_false]
      have := ih (pre ++ [x]) bi bv
        (by rw [List.getElem?_append_left hbilt]; exact hbi)
        (by
          intro v hv
          rcases List.mem_append.mp hv with hv | hv
          · exact hmin v hv
          · simp at hv; rw [hv]; exact not_lt.mp hx)
        (by
          intro j hj v hjv
          rw [List.getElem?_append_left (by omega)] at hjv
          exact hfirst j hj v hjv)
      rw [hlen] at this
      rw [hpre]
      exact this

/-- `np.argmin`: in range, a minimum, and the first one. -/
theorem argmin_spec {l : List α} (h : l ≠ []) :
    ∃ kv, l[Impl.argmin l]? = some kv ∧ (∀ v ∈ l, kv ≤ v)
      ∧ ∀ j, j < Impl.argmin l → ∀ v, l[j]? = some v → kv < v := by
  cases l with
  | nil => exact absurd rfl h
  | cons x xs =>
    have := argminGo_spec xs [x] 0 x (by simp) (by simp) (by intro j hj; omega)
    simpa [Impl.argmin] using this

theorem argmin_lt_length {l : List α} (h : l ≠ []) : Impl.argmin l < l.length := by
  obtain ⟨kv, hk, _⟩ := argmin_spec h
  by_contra hc
  rw [List.getElem?_eq_none (by omega)] at hk
  cases hk

/-! ### squared distances -/

theorem sqDist_nonneg (p q : α × α) : 0 ≤ Impl.sqDist p q := by
  unfold Impl.sqDist
  nlinarith [mul_self_nonneg (p.1 - q.1), mul_self_nonneg (p.2 - q.2)]

theorem sqDist_self (p : α × α) : Impl.sqDist p p = 0 := by
  unfold Impl.sqDist; ring

theorem eq_of_sqDist_eq_zero {p q : α × α} (h : Impl.sqDist p q = 0) : p = q := by
  unfold Impl.sqDist at h
  have h1 : (p.1 - q.1) * (p.1 - q.1) = 0 := by
    nlinarith [mul_self_nonneg (p.1 - q.1), mul_self_nonneg (p.2 - q.2)]
  have h2 : (p.2 - q.2) * (p.2 - q.2) = 0 := by
    nlinarith [mul_self_nonneg (p.1 - q.1), mul_self_nonneg (p.2 - q.2)]
  have e1 : p.1 = q.1 := by
    have := mul_self_eq_zero.mp h1; linarith
  have e2 : p.2 = q.2 := by
    have := mul_self_eq_zero.mp h2; linarith
  exact Prod.ext e1 e2

/-! ### the contract of `sqrt` and what follows from it -/

/-- what the theorems assume about the libm function (discharged for `Real.sqrt` in Props/C18). -/
def SqrtSpec (sqrt : α → α) : Prop := ∀ x, 0 ≤ x → 0 ≤ sqrt x ∧ sqrt x * sqrt x = x

theorem SqrtSpec.unique {sqrt : α → α} (hs : SqrtSpec sqrt) {x s : α} (hx : 0 ≤ x) (h0 : 0 ≤ s)
    (hss : s * s = x) : sqrt x = s := by
  obtain ⟨h1, h2⟩ := hs x hx
  have : sqrt x * sqrt x = s * s := by rw [h2, hss]
  rcases mul_self_eq_mul_self_iff.mp this with h | h
  · exact h
  · have : sqrt x = 0 := by linarith
    have hs0 : s = 0 := by linarith
    rw [this, hs0]

theorem SqrtSpec.mono {sqrt : α → α} (hs : SqrtSpec sqrt) {x y : α} (hx : 0 ≤ x) (hxy : x ≤ y) :
    sqrt x ≤ sqrt y := by
  obtain ⟨h1, h2⟩ := hs x hx
  obtain ⟨h3, h4⟩ := hs y (le_trans hx hxy)
  by_contra hc
  have hc := not_le.mp hc
  have : sqrt y * sqrt y < sqrt x * sqrt x := by nlinarith
  linarith

theorem SqrtSpec.le_iff {sqrt : α → α} (hs : SqrtSpec sqrt) {x y : α} (hx : 0 ≤ x) (hy : 0 ≤ y) :
    sqrt x ≤ sqrt y ↔ x ≤ y := by
  constructor
  · intro h
    obtain ⟨h1, h2⟩ := hs x hx
    obtain ⟨h3, h4⟩ := hs y hy
    nlinarith
  · exact hs.mono hx

/-- Euclidean distance from `o`. -/
def radius (sqrt : α → α) (o p : α × α) : α := sqrt (Impl.sqDist p o)

theorem radius_nonneg {sqrt : α → α} (hs : SqrtSpec sqrt) (o p : α × α) : 0 ≤ radius sqrt o p :=
  (hs _ (sqDist_nonneg p o)).1

/-- a point on the ray from `o` through `p` at parameter `t ≥ 0` has radius `t · r_p`. -/
theorem radius_ray {sqrt : α → α} (hs : SqrtSpec sqrt) (o p : α × α) (t : α) (ht : 0 ≤ t) :
    radius sqrt o (t * (p.1 - o.1) + o.1, t * (p.2 - o.2) + o.2) = t * radius sqrt o p := by
  unfold radius
  obtain ⟨h1, h2⟩ := hs _ (sqDist_nonneg p o)
  apply hs.unique (sqDist_nonneg _ _) (mul_nonneg ht h1)
  have : (t * sqrt (Impl.sqDist p o)) * (t * sqrt (Impl.sqDist p o))
      = t * t * (sqrt (Impl.sqDist p o) * sqrt (Impl.sqDist p o)) := by ring
  rw [this, h2]
  unfold Impl.sqDist
  ring

/-! ### the relocation rule for one point -/

/-- the nearest border point as the code finds it. -/
def nearestIdx (border : List (α × α)) (p : α × α) : Nat :=
  Impl.argmin (border.map fun b => Impl.sqDist p b)

theorem nearestIdx_lt {border : List (α × α)} (hb : border ≠ []) (p : α × α) :
    nearestIdx border p < border.length := by
  have := argmin_lt_length (l := border.map fun b => Impl.sqDist p b) (by simpa using hb)
  simpa [nearestIdx] using this

/-- it is nearest, and the first such. -/
theorem nearestIdx_spec {border : List (α × α)} (hb : border ≠ []) (p : α × α) :
    ∃ b, border[nearestIdx border p]? = some b ∧ (∀ b' ∈ border, Impl.sqDist p b ≤ Impl.sqDist p b')
      ∧ ∀ j, j < nearestIdx border p → ∀ b', border[j]? = some b' →
          Impl.sqDist p b < Impl.sqDist p b' := by
  obtain ⟨kv, hk, hmin, hfirst⟩ :=
    argmin_spec (l := border.map fun b => Impl.sqDist p b) (by simpa using hb)
  have hlt := nearestIdx_lt hb p
  refine ⟨border[nearestIdx border p], by simp [hlt], ?_, ?_⟩
  · intro b' hb'
    have h1 : kv = Impl.sqDist p border[nearestIdx border p] := by
      have : (border.map fun b => Impl.sqDist p b)[nearestIdx border p]?
          = some (Impl.sqDist p border[nearestIdx border p]) := by simp [hlt]
      unfold nearestIdx at this
      rw [hk] at this
      exact Option.some.inj this
    rw [← h1]
    exact hmin _ (List.mem_map_of_mem hb')
  · intro j hj b' hjb
    have h1 : kv = Impl.sqDist p border[nearestIdx border p] := by
      have : (border.map fun b => Impl.sqDist p b)[nearestIdx border p]?
          = some (Impl.sqDist p border[nearestIdx border p]) := by simp [hlt]
      unfold nearestIdx at this
      rw [hk] at this
      exact Option.some.inj this
    rw [← h1]
    exact hfirst j hj _ (by simp [hjb])

/-- the scale factor the code applies: `r_b/r_p` if that is `< 1`, else `1` (no move). -/
def moveFactor (sqrt : α → α) (o : α × α) (border : List (α × α)) (p : α × α) : α :=
  let rb := radius sqrt o (border.getD (nearestIdx border p) (0, 0))
  let rp := radius sqrt o p
  if rb / rp < 1 then rb / rp else 1

theorem borderRadii_getD (sqrt : α → α) (border : List (α × α)) (k : Nat) (hk : k < border.length) :
    (Impl.borderRadii sqrt border).getD k 0
      = radius sqrt (Impl.borderOrigin border) (border.getD k (0, 0)) := by
  simp [Impl.borderRadii, radius, List.getD_eq_getElem?_getD, hk]

/-- closed form of the loop body when the point is outside the smallest border radius. -/
theorem relocatePoint_outside (sqrt : α → α) (border : List (α × α)) (hb : border ≠ []) (p : α × α)
    (hout : Impl.minList (Impl.borderRadii sqrt border) < radius sqrt (Impl.borderOrigin border) p) :
    let o := Impl.borderOrigin border
    let t := moveFactor sqrt o border p
    Impl.relocatePoint sqrt o (Impl.borderRadii sqrt border)
        (Impl.minList (Impl.borderRadii sqrt border)) border p
      = (t * (p.1 - o.1) + o.1, t * (p.2 - o.2) + o.2) := by
  intro o t
  have hout' : Impl.minList (Impl.borderRadii sqrt border) < sqrt (Impl.sqDist p o) := hout
  unfold Impl.relocatePoint
  simp only [hout', if_true]
  have hk := nearestIdx_lt hb p
  have hr := borderRadii_getD sqrt border (nearestIdx border p) hk
  unfold nearestIdx at hr hk
  rw [hr]
  show (if radius sqrt o (border.getD (nearestIdx border p) (0, 0)) / radius sqrt o p < 1 then _ else _) = _
  by_cases hlt : radius sqrt o (border.getD (nearestIdx border p) (0, 0)) / radius sqrt o p < 1
  · have ht : t = radius sqrt o (border.getD (nearestIdx border p) (0, 0)) / radius sqrt o p := by
      show moveFactor sqrt o border p = _
      unfold moveFactor
      simp only [hlt, if_true]
    simp only [hlt, if_true, ht]
    rfl
  · have ht : t = 1 := by
      show moveFactor sqrt o border p = _
      unfold moveFactor
      simp only [hlt, if_false]
    simp only [hlt, if_false, ht]
    ext <;> simp

theorem relocatePoint_inside (sqrt : α → α) (o : α × α) (radii : List α) (rmin : α)
    (border : List (α × α)) (p : α × α) (hin : ¬ rmin < sqrt (Impl.sqDist p o)) :
    Impl.relocatePoint sqrt o radii rmin border p = p := by
  unfold Impl.relocatePoint
  simp only [hin, if_false]

/-! ### consequences used by the property theorems -/

theorem mem_borderRadii {sqrt : α → α} {border : List (α × α)} {r : α} :
    r ∈ Impl.borderRadii sqrt border ↔ ∃ b ∈ border, radius sqrt (Impl.borderOrigin border) b = r := by
  simp [Impl.borderRadii, radius]

theorem borderRadii_ne_nil {sqrt : α → α} {border : List (α × α)} (hb : border ≠ []) :
    Impl.borderRadii sqrt border ≠ [] := by
  simpa [Impl.borderRadii] using hb

/-- `r_min < x` iff some border point has radius `< x`. -/
theorem rmin_lt_iff {sqrt : α → α} {border : List (α × α)} (hb : border ≠ []) (x : α) :
    Impl.minList (Impl.borderRadii sqrt border) < x
      ↔ ∃ b ∈ border, radius sqrt (Impl.borderOrigin border) b < x := by
  constructor
  · intro h
    obtain ⟨b, hbm, hbr⟩ := mem_borderRadii.mp (minList_mem (borderRadii_ne_nil (sqrt := sqrt) hb))
    exact ⟨b, hbm, by rw [hbr]; exact h⟩
  · rintro ⟨b, hbm, hlt⟩
    exact lt_of_le_of_lt (minList_le (mem_borderRadii.mpr ⟨b, hbm, rfl⟩)) hlt

theorem rmin_nonneg {sqrt : α → α} (hs : SqrtSpec sqrt) {border : List (α × α)} (hb : border ≠ []) :
    0 ≤ Impl.minList (Impl.borderRadii sqrt border) := by
  obtain ⟨b, _, hbr⟩ := mem_borderRadii.mp (minList_mem (borderRadii_ne_nil (sqrt := sqrt) hb))
  rw [← hbr]; exact radius_nonneg hs _ _

theorem nearest_mem {border : List (α × α)} (hb : border ≠ []) (p : α × α) :
    border.getD (nearestIdx border p) (0, 0) ∈ border := by
  have hk := nearestIdx_lt hb p
  simp only [List.getD_eq_getElem?_getD, List.getElem?_eq_getElem hk, Option.getD_some]
  exact List.getElem_mem hk

/-- bounds on the scale factor for a point of positive radius. -/
theorem moveFactor_bounds {sqrt : α → α} (hs : SqrtSpec sqrt) (o : α × α) (border : List (α × α))
    (p : α × α) (hp : 0 < radius sqrt o p) :
    0 ≤ moveFactor sqrt o border p ∧ moveFactor sqrt o border p ≤ 1 := by
  unfold moveFactor
  have hb0 := radius_nonneg hs o (border.getD (nearestIdx border p) (0, 0))
  simp only
  split
  · rename_i h
    exact ⟨div_nonneg hb0 (le_of_lt hp), le_of_lt h⟩
  · exact ⟨zero_le_one, le_refl _⟩

/-- radius of the relocated point: `r_b` when it moves (`t < 1`), unchanged otherwise. -/
theorem moveFactor_mul_radius {sqrt : α → α} (o : α × α) (border : List (α × α))
    (p : α × α) (hp : 0 < radius sqrt o p) :
    (moveFactor sqrt o border p < 1 →
        moveFactor sqrt o border p * radius sqrt o p
          = radius sqrt o (border.getD (nearestIdx border p) (0, 0)))
    ∧ (¬ moveFactor sqrt o border p < 1 →
        moveFactor sqrt o border p = 1
          ∧ radius sqrt o p ≤ radius sqrt o (border.getD (nearestIdx border p) (0, 0))) := by
  unfold moveFactor
  simp only
  split
  · rename_i h
    refine ⟨fun _ => ?_, fun hn => absurd h hn⟩
    field_simp
  · rename_i h
    refine ⟨fun hl => absurd hl (lt_irrefl _), fun _ => ⟨rfl, ?_⟩⟩
    have := not_lt.mp h
    rwa [le_div_iff₀ hp, one_mul] at this

/-- every relocated point ends no farther out than some border point. -/
theorem relocatePoint_radius_le {sqrt : α → α} (hs : SqrtSpec sqrt) (border : List (α × α))
    (hb : border ≠ []) (p : α × α) :
    let o := Impl.borderOrigin border
    radius sqrt o (Impl.relocatePoint sqrt o (Impl.borderRadii sqrt border)
        (Impl.minList (Impl.borderRadii sqrt border)) border p)
      ≤ Impl.maxList (Impl.borderRadii sqrt border) := by
  intro o
  by_cases hout : Impl.minList (Impl.borderRadii sqrt border) < radius sqrt o p
  · have hp : 0 < radius sqrt o p := lt_of_le_of_lt (rmin_nonneg hs hb) hout
    rw [relocatePoint_outside sqrt border hb p hout]
    obtain ⟨h0, h1⟩ := moveFactor_bounds hs o border p hp
    rw [radius_ray hs o p _ h0]
    have hmem : radius sqrt o (border.getD (nearestIdx border p) (0, 0))
        ∈ Impl.borderRadii sqrt border := mem_borderRadii.mpr ⟨_, nearest_mem hb p, rfl⟩
    obtain ⟨hA, hB⟩ := moveFactor_mul_radius (sqrt := sqrt) o border p hp
    by_cases ht : moveFactor sqrt o border p < 1
    · rw [hA ht]; exact le_maxList hmem
    · obtain ⟨e1, hle⟩ := hB ht
      rw [e1, one_mul]; exact le_trans hle (le_maxList hmem)
  · rw [relocatePoint_inside sqrt o _ _ border p hout]
    have h1 : radius sqrt o p ≤ Impl.minList (Impl.borderRadii sqrt border) := not_lt.mp hout
    have hne := borderRadii_ne_nil (sqrt := sqrt) hb
    exact le_trans h1 (le_maxList (minList_mem hne))

/-- a border point is a fixed point of the relocation (its nearest border point is itself). -/
theorem relocatePoint_fixed_of_mem {sqrt : α → α} (hs : SqrtSpec sqrt) (border : List (α × α))
    (p : α × α) (hp : p ∈ border) :
    let o := Impl.borderOrigin border
    Impl.relocatePoint sqrt o (Impl.borderRadii sqrt border)
        (Impl.minList (Impl.borderRadii sqrt border)) border p = p := by
  intro o
  have hb : border ≠ [] := List.ne_nil_of_mem hp
  by_cases hout : Impl.minList (Impl.borderRadii sqrt border) < radius sqrt o p
  · have hpos : 0 < radius sqrt o p := lt_of_le_of_lt (rmin_nonneg hs hb) hout
    rw [relocatePoint_outside sqrt border hb p hout]
    obtain ⟨b, hbk, hnear, _⟩ := nearestIdx_spec hb p
    have h0 : Impl.sqDist p b = 0 :=
      le_antisymm (by have := hnear p hp; rwa [sqDist_self] at this) (sqDist_nonneg _ _)
    have hbp : b = p := (eq_of_sqDist_eq_zero h0).symm
    have hget : border.getD (nearestIdx border p) (0, 0) = p := by
      simp [List.getD_eq_getElem?_getD, hbk, hbp]
    have ht : moveFactor sqrt o border p = 1 := by
      unfold moveFactor
      simp only [hget]
      rw [div_self (ne_of_gt hpos)]
      simp
    have ht' : moveFactor sqrt (Impl.borderOrigin border) border p = 1 := ht
    simp only [ht']
    ext <;> simp
  · exact relocatePoint_inside sqrt o _ _ border p hout

/-! ### the farthest sub-pixel scan (`furthest_grid_2d_slim_index_from`) -/

theorem furthestDist_nonneg (g : List (α × α)) (c : α × α) (k : Nat) :
    0 ≤ Impl.furthestDist g c k := by
  unfold Impl.furthestDist
  simp only
  nlinarith [mul_self_nonneg ((g.getD k (0, 0)).2 - c.2), mul_self_nonneg ((g.getD k (0, 0)).1 - c.1)]

/-- scan invariant: the state holds the last maximiser of the prefix and its distance. -/
theorem furthest_fold_spec (g : List (α × α)) (c : α × α) (l pre : List Nat) (st : α × Option Nat)
    (hst : (pre = [] ∧ st = (0, none)) ∨
      ∃ k a b, pre = a ++ k :: b ∧ st = (Impl.furthestDist g c k, some k)
        ∧ (∀ j ∈ pre, Impl.furthestDist g c j ≤ Impl.furthestDist g c k)
        ∧ ∀ j ∈ b, Impl.furthestDist g c j < Impl.furthestDist g c k) :
    let r := l.foldl (fun (st : α × Option Nat) k =>
      if Impl.furthestDist g c k < st.1 then st else (Impl.furthestDist g c k, some k)) st
    (pre ++ l = [] ∧ r = (0, none)) ∨
      ∃ k a b, pre ++ l = a ++ k :: b ∧ r = (Impl.furthestDist g c k, some k)
        ∧ (∀ j ∈ pre ++ l, Impl.furthestDist g c j ≤ Impl.furthestDist g c k)
        ∧ ∀ j ∈ b, Impl.furthestDist g c j < Impl.furthestDist g c k := by
  induction l generalizing pre st with
  | nil => simpa using hst
  | cons x xs ih =>
    simp only [List.foldl_cons]
    have hpre : pre ++ x :: xs = (pre ++ [x]) ++ xs := by simp
    rw [hpre]
    apply ih
    right
    rcases hst with ⟨hp, hs⟩ | ⟨k, a, b, hp, hs, hmax, hlast⟩
    · subst hp; subst hs
      have : ¬ Impl.furthestDist g c x < 0 := not_lt.mpr (furthestDist_nonneg g c x)
      simp only [this, if_false]
      exact ⟨x, [], [], by simp, rfl, by simp, by simp⟩
    · subst hs
      by_cases hx : Impl.furthestDist g c x < Impl.furthestDist g c k
      · simp only [hx, if_true]
        refine ⟨k, a, b ++ [x], by simp [hp], rfl, ?_, ?_⟩
        · intro j hj
          rcases List.mem_append.mp hj with hj | hj
          · exact hmax j hj
          · simp at hj; subst hj; exact le_of_lt hx
        · intro j hj
          rcases List.mem_append.mp hj with hj | hj
          · exact hlast j hj
          · simp at hj; subst hj; exact hx
      · simp only [hx, if_false]
        refine ⟨x, pre, [], by simp, rfl, ?_, by simp⟩
        intro j hj
        rcases List.mem_append.mp hj with hj | hj
        · exact le_trans (hmax j hj) (not_lt.mp hx)
        · simp at hj; subst hj; exact le_refl _

/-- `furthest_grid_2d_slim_index_from` returns the LAST index of `idxs` that maximises the squared
    distance to `c`. -/
theorem furthest_spec (g : List (α × α)) (c : α × α) (idxs : List Nat) (h : idxs ≠ []) :
    ∃ k a b, idxs = a ++ k :: b ∧ Impl.furthest g idxs c = some k
      ∧ (∀ j ∈ idxs, Impl.furthestDist g c j ≤ Impl.furthestDist g c k)
      ∧ ∀ j ∈ b, Impl.furthestDist g c j < Impl.furthestDist g c k := by
  have := furthest_fold_spec g c idxs [] (0, none) (Or.inl ⟨rfl, rfl⟩)
  simp only [List.nil_append] at this
  rcases this with ⟨he, _⟩ | ⟨k, a, b, hp, hr, hmax, hlast⟩
  · exact absurd he h
  · refine ⟨k, a, b, hp, ?_, hmax, hlast⟩
    unfold Impl.furthest
    simp only
    rw [hr]

end field

end Model
