/-
Proofs/BorderCentre.lean — C18.d, last step: the code measures distances to the centre of the bounding
box of the OVER-SAMPLED grid, the property speaks of the centre of the bounding box of the UNMASKED
REGION.  With non-uniform sub-sizes the two centres differ, but by less than 1/4 pixel per axis, while
pixel centres sit at half-integer offsets from the region centre; the squared distance is separable
in the two axes and within one pixel the sub-pixel offsets are symmetric, so a sub-pixel that is
farthest from the one centre is farthest from the other.
-/
import Model.Border
import Proofs.Border
import Proofs.BorderSub
import Proofs.Core
import Proofs.Slim
import Mathlib.Tactic.Ring
import Mathlib.Tactic.Linarith
import Mathlib.Tactic.FieldSimp
import Mathlib.Tactic.Positivity
import Mathlib.Algebra.Order.Field.Basic
import Mathlib.Algebra.Order.Ring.Abs
import Mathlib.Tactic.Set

set_option linter.unusedSectionVars false
set_option linter.unusedSimpArgs false

namespace Model

open Impl

section field
variable {α : Type} [Field α] [LinearOrder α] [IsStrictOrderedRing α]

/-! ### the arithmetic core -/

/-- If `U` maximises `(a − u)²` over a symmetric range `[−w, w]` that contains both ends, and `a'` is a
    half-integer with `|a − a'| < 1/4`, `w < 1/2`, then `U` also maximises `(a' − u)²`. -/
theorem extreme_stable {w a a' U u : α} (n : ℤ) (ha' : a' = (n : α) / 2) (hclose : |a - a'| < 1 / 4)
    (hw0 : 0 ≤ w) (hw : w < 1 / 2) (hU : |U| ≤ w) (hu : |u| ≤ w)
    (h1 : (a + w) * (a + w) ≤ (a - U) * (a - U)) (h2 : (a - w) * (a - w) ≤ (a - U) * (a - U)) :
    (a' - u) * (a' - u) ≤ (a' - U) * (a' - U) := by
  rw [← abs_le_iff_mul_self_le] at h1 h2 ⊢
  obtain ⟨hU1, hU2⟩ := abs_le.mp hU
  obtain ⟨hu1, hu2⟩ := abs_le.mp hu
  obtain ⟨hc1, hc2⟩ := abs_lt.mp hclose
  rcases lt_trichotomy n 0 with hn | hn | hn
  · -- a' ≤ -1/2
    have hn' : (n : α) ≤ -1 := by exact_mod_cast (by omega : n ≤ -1)
    have ha'le : a' ≤ -(1 / 2) := by rw [ha']; linarith
    have haneg : a < -(1 / 4) := by linarith
    have hUw : U = w := by
      have h2' : w - a ≤ |a - U| := by
        have : |a - w| = w - a := by rw [abs_of_nonpos (by linarith)]; ring
        rw [this] at h2; exact h2
      rcases le_or_gt (a - U) 0 with h | h
      · rw [abs_of_nonpos h] at h2'; linarith
      · rw [abs_of_pos h] at h2'; linarith
    rw [hUw, abs_of_nonpos (by linarith : a' - w ≤ 0)]
    exact abs_le.mpr ⟨by linarith, by linarith⟩
  · -- a' = 0
    have ha0 : a' = 0 := by rw [ha', hn]; simp
    rw [ha0] at hc1 hc2 ⊢
    simp only [zero_sub, abs_neg]
    have hwU : w ≤ |U| := by
      rcases le_or_gt 0 a with h | h
      · have e : |a + w| = a + w := abs_of_nonneg (by linarith)
        have t : |a - U| ≤ |a| + |U| := by
          have := abs_sub a U; simpa using this
        rw [e] at h1; rw [abs_of_nonneg h] at t; linarith
      · have e : |a - w| = w - a := by rw [abs_of_nonpos (by linarith)]; ring
        have t : |a - U| ≤ |a| + |U| := by
          have := abs_sub a U; simpa using this
        rw [e] at h2; rw [abs_of_neg h] at t; linarith
    exact le_trans hu hwU
  · -- a' ≥ 1/2
    have hn' : (1 : α) ≤ (n : α) := by exact_mod_cast (by omega : 1 ≤ n)
    have ha'ge : 1 / 2 ≤ a' := by rw [ha']; linarith
    have hapos : 1 / 4 < a := by linarith
    have hUw : U = -w := by
      have h1' : a + w ≤ |a - U| := by
        have : |a + w| = a + w := abs_of_nonneg (by linarith)
        rw [this] at h1; exact h1
      rcases le_or_gt 0 (a - U) with h | h
      · rw [abs_of_nonneg h] at h1'; linarith
      · rw [abs_of_neg h] at h1'; linarith
    rw [hUw, abs_of_nonneg (by linarith : 0 ≤ a' - -w)]
    exact abs_le.mpr ⟨by linarith, by linarith⟩

/-- offset of sub-pixel `i` (of `s`) from its pixel centre, in pixel units. -/
def subOff (s i : Nat) : α := ((i : α) + 1 / 2) / (s : α) - 1 / 2

/-- half-width of the range of `subOff`. -/
def subW (s : Nat) : α := 1 / 2 - 1 / (2 * (s : α))

theorem subW_bounds (s : Nat) (hs : 0 < s) : (0 : α) ≤ subW s ∧ subW (α := α) s < 1 / 2 := by
  have hs' : (1 : α) ≤ (s : α) := by exact_mod_cast hs
  have hpos : (0 : α) < (s : α) := by linarith
  unfold subW
  constructor
  · have : 1 / (2 * (s : α)) ≤ 1 / 2 := by
      rw [div_le_div_iff₀ (by positivity) (by norm_num)]; linarith
    linarith
  · have : (0 : α) < 1 / (2 * (s : α)) := by positivity
    linarith

theorem subOff_abs (s i : Nat) (hi : i < s) : |subOff (α := α) s i| ≤ subW s := by
  have hs : 0 < s := by omega
  have hpos : (0 : α) < (s : α) := by exact_mod_cast hs
  have hi' : (i : α) + 1 ≤ (s : α) := by exact_mod_cast hi
  have hi0 : (0 : α) ≤ (i : α) := by positivity
  unfold subOff subW
  rw [abs_le]
  constructor
  · rw [show -(1 / 2 - 1 / (2 * (s : α))) = 1 / (2 * (s : α)) - 1 / 2 by ring]
    have : 1 / (2 * (s : α)) ≤ ((i : α) + 1 / 2) / (s : α) := by
      rw [div_le_div_iff₀ (by positivity) hpos]; nlinarith
    linarith
  · have : ((i : α) + 1 / 2) / (s : α) ≤ 1 - 1 / (2 * (s : α)) := by
      rw [div_le_iff₀ hpos]
      have : (1 - 1 / (2 * (s : α))) * (s : α) = (s : α) - 1 / 2 := by
        field_simp
      rw [this]; linarith
    linarith

theorem subOff_zero (s : Nat) (hs : 0 < s) : subOff (α := α) s 0 = -subW s := by
  have hpos : (s : α) ≠ 0 := by exact_mod_cast (by omega : s ≠ 0)
  unfold subOff subW
  field_simp
  ring

theorem subOff_last (s : Nat) (hs : 0 < s) : subOff (α := α) s (s - 1) = subW s := by
  have hpos : (s : α) ≠ 0 := by exact_mod_cast (by omega : s ≠ 0)
  have : ((s - 1 : Nat) : α) = (s : α) - 1 := by
    rw [Nat.cast_sub (by omega)]; simp
  unfold subOff subW
  rw [this]
  field_simp
  ring

/-! ### structure of the over-sampled grid -/

/-- one sub-pixel coordinate, exactly as `grid_2d_slim_over_sampled_via_mask_from` computes it. -/
def subPtG (ps : α × α) (cy cx : α) (y x s y1 x1 : Nat) : α × α :=
  (-(((y : α) - cy) * ps.1 - ps.1 / 2 + (y1 : α) * (ps.1 / (s : α)) + ps.1 / (s : α) / 2),
   ((x : α) - cx) * ps.2 - ps.2 / 2 + (x1 : α) * (ps.2 / (s : α)) + ps.2 / (s : α) / 2)

/-- the `s²` sub-pixels of one pixel, in the order of the two inner loops. -/
def subBlock (ps : α × α) (cy cx : α) (y x s : Nat) : List (α × α) :=
  (List.range s).flatMap fun y1 => (List.range s).map fun x1 => subPtG ps cy cx y x s y1 x1

theorem foldl_append_single {β γ : Type} (l : List γ) (g : γ → β) (a : List β) :
    l.foldl (fun acc x => acc ++ [g x]) a = a ++ l.map g := by
  induction l generalizing a with
  | nil => simp
  | cons x l ih => simp [ih]

theorem foldl_append_flat {β γ : Type} (l : List γ) (G : γ → List β) (a : List β) :
    l.foldl (fun acc x => acc ++ G x) a = a ++ l.flatMap G := by
  induction l generalizing a with
  | nil => simp
  | cons x l ih => simp [ih]

theorem forYX_append_pts {β : Type} (s : Nat) (f : Nat → Nat → β) (acc : List β) :
    forYX s s (fun acc y1 x1 => acc ++ [f y1 x1]) acc
      = acc ++ (List.range s).flatMap fun y1 => (List.range s).map fun x1 => f y1 x1 := by
  unfold forYX
  simp only [foldl_append_single]
  rw [foldl_append_flat]

theorem sum_map_const {β : Type} (l : List β) (c : Nat) : (l.map fun _ => c).sum = l.length * c := by
  induction l with
  | nil => simp
  | cons a l ih => simp only [List.map_cons, List.sum_cons, ih, List.length_cons]; rw [Nat.succ_mul]; omega

theorem subBlock_length (ps : α × α) (cy cx : α) (y x s : Nat) :
    (subBlock ps cy cx y x s).length = s * s := by
  unfold subBlock
  rw [List.length_flatMap]
  simp only [List.length_map, List.length_range]
  rw [sum_map_const, List.length_range]

theorem mem_subBlock (ps : α × α) (cy cx : α) (y x s : Nat) (q : α × α) :
    q ∈ subBlock ps cy cx y x s ↔ ∃ y1, y1 < s ∧ ∃ x1, x1 < s ∧ q = subPtG ps cy cx y x s y1 x1 := by
  unfold subBlock
  simp only [List.mem_flatMap, List.mem_map, List.mem_range]
  constructor
  · rintro ⟨y1, h1, x1, h2, rfl⟩; exact ⟨y1, h1, x1, h2, rfl⟩
  · rintro ⟨y1, h1, x1, h2, rfl⟩; exact ⟨y1, h1, x1, h2, rfl⟩

/-- body of the pixel loop of `grid_2d_slim_over_sampled_via_mask_from`. -/
def subGridStep (m : Mask) (ps : α × α) (cy cx : α) (sub : List Nat)
    (st : List (α × α) × Nat) (p : Nat × Nat) : List (α × α) × Nat :=
  if !m.get p.1 p.2 then
    (forYX (sub.getD st.2 0) (sub.getD st.2 0)
      (fun acc y1 x1 => acc ++ [subPtG ps cy cx p.1 p.2 (sub.getD st.2 0) y1 x1]) st.1, st.2 + 1)
  else st

theorem subGrid_fold (m : Mask) (ps : α × α) (cy cx : α) (sub : List Nat) (l : List (Nat × Nat))
    (acc : List (α × α)) (n : Nat) :
    l.foldl (subGridStep m ps cy cx sub) (acc, n)
      = (acc ++ ((l.filter fun p => !m.get p.1 p.2).zipIdx n).flatMap
            (fun q => subBlock ps cy cx q.1.1 q.1.2 (sub.getD q.2 0)),
         n + (l.filter fun p => !m.get p.1 p.2).length) := by
  induction l generalizing acc n with
  | nil => simp
  | cons a l ih =>
    simp only [List.foldl_cons, List.filter_cons]
    by_cases h : (!m.get a.1 a.2) = true
    · have : subGridStep m ps cy cx sub (acc, n) a
          = (acc ++ subBlock ps cy cx a.1 a.2 (sub.getD n 0), n + 1) := by
        unfold subGridStep
        simp only [h, if_true]
        rw [forYX_append_pts]
        rfl
      rw [this, ih]
      simp only [h, if_true, List.zipIdx_cons, List.flatMap_cons, List.length_cons, List.append_assoc]
      refine Prod.ext rfl (by simp only; omega)
    · have : subGridStep m ps cy cx sub (acc, n) a = (acc, n) := by
        unfold subGridStep
        simp only [h]
        rfl
      rw [this, ih]
      simp only [h]
      rfl

theorem zipIdx_eq_map_range {β : Type} (U : List β) (d : β) :
    U.zipIdx 0 = (List.range U.length).map fun b => (U.getD b d, b) := by
  apply List.ext_getElem
  · simp
  · intro i h1 h2
    have hi : i < U.length := by simpa using h1
    simp [List.getElem_zipIdx, List.getD_eq_getElem?_getD, hi]

/-- the over-sampled grid is the concatenation of the blocks of the unmasked pixels, in slim order. -/
theorem subGrid_eq (m : Mask) (ps origin : α × α) (sub : List Nat) :
    Impl.subGrid m ps origin sub
      = (List.range (Spec.unmaskedPixels m).length).flatMap fun b =>
          subBlock ps (((m.h : α) - 1) / 2 + origin.1 / ps.1) (((m.w : α) - 1) / 2 - origin.2 / ps.2)
            ((Spec.unmaskedPixels m).getD b (0, 0)).1 ((Spec.unmaskedPixels m).getD b (0, 0)).2
            (sub.getD b 0) := by
  have h0 : Impl.subGrid m ps origin sub
      = ((pixels m.h m.w).foldl
          (subGridStep m ps (((m.h : α) - 1) / 2 + origin.1 / ps.1)
            (((m.w : α) - 1) / 2 - origin.2 / ps.2) sub) ([], 0)).1 := by
    show ((forYX m.h m.w (fun st y x => subGridStep m ps (((m.h : α) - 1) / 2 + origin.1 / ps.1)
        (((m.w : α) - 1) / 2 - origin.2 / ps.2) sub st (y, x)) ([], 0)).1) = _
    rw [forYX_eq_foldl]
  rw [h0, subGrid_fold]
  simp only [List.nil_append]
  show ((Spec.unmaskedPixels m).zipIdx 0).flatMap _ = _
  rw [zipIdx_eq_map_range _ (0, 0), List.flatMap_map]

/-- the grid restricted to the first `n` pixels. -/
def gridUpTo (F : Nat → List (α × α)) (n : Nat) : List (α × α) := (List.range n).flatMap F

theorem gridUpTo_succ (F : Nat → List (α × α)) (n : Nat) :
    gridUpTo F (n + 1) = gridUpTo F n ++ F n := by
  simp [gridUpTo, List.range_succ, List.flatMap_append]

theorem subOffset_mono (sub : List Nat) {a b : Nat} (hab : a ≤ b) (hb : b ≤ sub.length) :
    subOffset sub a ≤ subOffset sub b := by
  induction b with
  | zero => have : a = 0 := by omega
            subst this; exact Nat.le_refl _
  | succ n ih =>
    by_cases h : a = n + 1
    · subst h; exact Nat.le_refl _
    · have hn : n < sub.length := hb
      rw [subOffset_succ sub n hn]
      have := ih (by omega) (by omega)
      omega

theorem gridUpTo_length (F : Nat → List (α × α)) (sub : List Nat)
    (hF : ∀ b, b < sub.length → (F b).length = sub[b]! * sub[b]!) (n : Nat) (hn : n ≤ sub.length) :
    (gridUpTo F n).length = subOffset sub n := by
  induction n with
  | zero => simp [gridUpTo, subOffset]
  | succ n ih =>
    have hn' : n < sub.length := hn
    rw [gridUpTo_succ, List.length_append, ih (by omega), subOffset_succ sub n hn', hF n hn']
    simp [hn']

/-- entry `off_b + i` of the grid is entry `i` of pixel `b`'s block. -/
theorem gridUpTo_getD (F : Nat → List (α × α)) (sub : List Nat)
    (hF : ∀ b, b < sub.length → (F b).length = sub[b]! * sub[b]!) (n : Nat) (hn : n ≤ sub.length)
    (b i : Nat) (hb : b < n) (hi : i < sub[b]! * sub[b]!) (d : α × α) :
    (gridUpTo F n).getD (subOffset sub b + i) d = (F b).getD i d := by
  induction n with
  | zero => omega
  | succ n ih =>
    have hn' : n < sub.length := hn
    rw [gridUpTo_succ]
    have hlen := gridUpTo_length F sub hF n (by omega)
    by_cases hbn : b = n
    · subst hbn
      rw [List.getD_eq_getElem?_getD, List.getElem?_append_right (by omega), hlen,
        Nat.add_sub_cancel_left, ← List.getD_eq_getElem?_getD]
    · have hb' : b < n := by omega
      have hlt : subOffset sub b + i < (gridUpTo F n).length := by
        rw [hlen]
        have h1 := subOffset_succ sub b (by omega)
        have h2 := subOffset_mono sub (a := b + 1) (b := n) (by omega) (by omega)
        have : sub[b]! = sub[b]'(by omega) := by simp [show b < sub.length by omega]
        rw [this] at hi
        omega
      rw [List.getD_eq_getElem?_getD, List.getElem?_append_left hlt, ← List.getD_eq_getElem?_getD]
      exact ih (by omega) hb'

/-! ### one pixel: farthest from the one centre = farthest from the other -/

/-- squared distance of sub-pixel `(y1,x1)` of the pixel at `(Yb, Xb)` (grid frame) to `c`, written as
    `furthest_grid_2d_slim_index_from` writes it. -/
def blockDist (s : Nat) (Yb Xb : α) (c : α × α) (y1 x1 : Nat) : α :=
  (Xb + subOff s x1 - c.2) * (Xb + subOff s x1 - c.2)
    + (Yb - subOff s y1 - c.1) * (Yb - subOff s y1 - c.1)

theorem block_stable (s : Nat) (hs : 0 < s) (Yb Xb : α) (cG cR : α × α) (ny nx : ℤ)
    (hy : Yb - cR.1 = (ny : α) / 2) (hx : cR.2 - Xb = (nx : α) / 2)
    (hcy : |cG.1 - cR.1| < 1 / 4) (hcx : |cG.2 - cR.2| < 1 / 4)
    (ys xs : Nat) (hys : ys < s) (hxs : xs < s)
    (hmax : ∀ y1 x1, y1 < s → x1 < s → blockDist s Yb Xb cG y1 x1 ≤ blockDist s Yb Xb cG ys xs) :
    ∀ y1 x1, y1 < s → x1 < s → blockDist s Yb Xb cR y1 x1 ≤ blockDist s Yb Xb cR ys xs := by
  obtain ⟨hw0, hw⟩ := subW_bounds (α := α) s hs
  have hs1 : s - 1 < s := by omega
  -- per-axis maximality with respect to cG
  have hyax : ∀ y1, y1 < s →
      (Yb - cG.1 - subOff s y1) * (Yb - cG.1 - subOff s y1)
        ≤ (Yb - cG.1 - subOff s ys) * (Yb - cG.1 - subOff s ys) := by
    intro y1 h1
    have := hmax y1 xs h1 hxs
    unfold blockDist at this
    nlinarith
  have hxax : ∀ x1, x1 < s →
      (cG.2 - Xb - subOff s x1) * (cG.2 - Xb - subOff s x1)
        ≤ (cG.2 - Xb - subOff s xs) * (cG.2 - Xb - subOff s xs) := by
    intro x1 h1
    have := hmax ys x1 hys h1
    unfold blockDist at this
    nlinarith
  intro y1 x1 h1 h2
  have ey := extreme_stable (w := subW s) (a := Yb - cG.1) (a' := Yb - cR.1) (U := subOff s ys)
    (u := subOff s y1) ny hy
    (by rw [show Yb - cG.1 - (Yb - cR.1) = -(cG.1 - cR.1) by ring, abs_neg]; exact hcy)
    hw0 hw (subOff_abs s ys hys) (subOff_abs s y1 h1)
    (by have := hyax 0 hs; rw [subOff_zero s hs] at this
        rw [show Yb - cG.1 + subW s = Yb - cG.1 - -subW s by ring]; exact this)
    (by have := hyax (s - 1) hs1; rw [subOff_last s hs] at this; exact this)
  have ex := extreme_stable (w := subW s) (a := cG.2 - Xb) (a' := cR.2 - Xb) (U := subOff s xs)
    (u := subOff s x1) nx hx
    (by rw [show cG.2 - Xb - (cR.2 - Xb) = cG.2 - cR.2 by ring]; exact hcx)
    hw0 hw (subOff_abs s xs hxs) (subOff_abs s x1 h2)
    (by have := hxax 0 hs; rw [subOff_zero s hs] at this
        rw [show cG.2 - Xb + subW s = cG.2 - Xb - -subW s by ring]; exact this)
    (by have := hxax (s - 1) hs1; rw [subOff_last s hs] at this; exact this)
  unfold blockDist
  nlinarith

/-- with unit pixel scales a sub-pixel coordinate is pixel centre ± symmetric offset. -/
theorem subPtG_unit (cy cx : α) (y x s y1 x1 : Nat) (hs : 0 < s) :
    subPtG (1, 1) cy cx y x s y1 x1 = (cy - (y : α) - subOff s y1, (x : α) - cx + subOff s x1) := by
  have hpos : (s : α) ≠ 0 := by exact_mod_cast (by omega : s ≠ 0)
  unfold subPtG subOff
  ext
  · simp only; field_simp; ring
  · simp only; field_simp; ring

/-! ### the two centres are within a quarter pixel of each other -/

/-- `[ylo,yhi] × [xlo,xhi]` is the bounding box of the unmasked region (pixel indices). -/
structure IsBBox (m : Mask) (ylo yhi xlo xhi : Nat) : Prop where
  inside : ∀ p ∈ Spec.unmaskedPixels m, ylo ≤ p.1 ∧ p.1 ≤ yhi ∧ xlo ≤ p.2 ∧ p.2 ≤ xhi
  top : ∃ p ∈ Spec.unmaskedPixels m, p.1 = ylo
  bottom : ∃ p ∈ Spec.unmaskedPixels m, p.1 = yhi
  left : ∃ p ∈ Spec.unmaskedPixels m, p.2 = xlo
  right : ∃ p ∈ Spec.unmaskedPixels m, p.2 = xhi

/-- the block of slim pixel `b` in the unit-scale grid. -/
def unitBlock (m : Mask) (cy cx : α) (sub : List Nat) (b : Nat) : List (α × α) :=
  subBlock (1, 1) cy cx ((Spec.unmaskedPixels m).getD b (0, 0)).1
    ((Spec.unmaskedPixels m).getD b (0, 0)).2 (sub.getD b 0)

/-- the unit-scale grid. -/
def unitGrid (m : Mask) (cy cx : α) (sub : List Nat) : List (α × α) :=
  gridUpTo (unitBlock m cy cx sub) (Spec.unmaskedPixels m).length

theorem mem_unitGrid_of (m : Mask) (cy cx : α) (sub : List Nat)
    (hpos : ∀ b, b < (Spec.unmaskedPixels m).length → 0 < sub.getD b 0)
    (p : Nat × Nat) (hp : p ∈ Spec.unmaskedPixels m) :
    ∃ s, 0 < s ∧ ∀ y1 x1, y1 < s → x1 < s →
      (cy - (p.1 : α) - subOff s y1, (p.2 : α) - cx + subOff s x1) ∈ unitGrid m cy cx sub := by
  obtain ⟨b, hb, hbp⟩ := List.getElem_of_mem hp
  refine ⟨sub.getD b 0, hpos b hb, ?_⟩
  intro y1 x1 h1 h2
  unfold unitGrid gridUpTo
  rw [List.mem_flatMap]
  refine ⟨b, List.mem_range.mpr hb, ?_⟩
  unfold unitBlock
  rw [mem_subBlock]
  refine ⟨y1, h1, x1, h2, ?_⟩
  rw [subPtG_unit _ _ _ _ _ _ _ (hpos b hb)]
  simp [List.getD_eq_getElem?_getD, hb, hbp]

theorem of_mem_unitGrid (m : Mask) (cy cx : α) (sub : List Nat)
    (hpos : ∀ b, b < (Spec.unmaskedPixels m).length → 0 < sub.getD b 0)
    (q : α × α) (hq : q ∈ unitGrid m cy cx sub) :
    ∃ p ∈ Spec.unmaskedPixels m, ∃ s, 0 < s ∧ ∃ y1 x1, y1 < s ∧ x1 < s ∧
      q = (cy - (p.1 : α) - subOff s y1, (p.2 : α) - cx + subOff s x1) := by
  unfold unitGrid gridUpTo at hq
  rw [List.mem_flatMap] at hq
  obtain ⟨b, hb, hqb⟩ := hq
  have hb' := List.mem_range.mp hb
  unfold unitBlock at hqb
  rw [mem_subBlock] at hqb
  obtain ⟨y1, h1, x1, h2, rfl⟩ := hqb
  refine ⟨(Spec.unmaskedPixels m)[b], List.getElem_mem hb', sub.getD b 0, hpos b hb', y1, x1, h1, h2, ?_⟩
  rw [subPtG_unit _ _ _ _ _ _ _ (hpos b hb')]
  simp [List.getD_eq_getElem?_getD, hb']

theorem gridCentre_close (m : Mask) (cy cx : α) (sub : List Nat)
    (hpos : ∀ b, b < (Spec.unmaskedPixels m).length → 0 < sub.getD b 0)
    (ylo yhi xlo xhi : Nat) (hbox : IsBBox m ylo yhi xlo xhi) :
    |(Impl.gridCentre (unitGrid m cy cx sub)).1 - (cy - ((ylo : α) + (yhi : α)) / 2)| < 1 / 4
    ∧ |(Impl.gridCentre (unitGrid m cy cx sub)).2 - (((xlo : α) + (xhi : α)) / 2 - cx)| < 1 / 4 := by
  have hall : ∀ q ∈ unitGrid m cy cx sub,
      cy - (yhi : α) - 1 / 2 < q.1 ∧ q.1 < cy - (ylo : α) + 1 / 2
      ∧ (xlo : α) - cx - 1 / 2 < q.2 ∧ q.2 < (xhi : α) - cx + 1 / 2 := by
    intro q hq
    obtain ⟨p, hp, s, hs, y1, x1, h1, h2, rfl⟩ := of_mem_unitGrid m cy cx sub hpos q hq
    obtain ⟨b1, b2, b3, b4⟩ := hbox.inside p hp
    have c1 : (ylo : α) ≤ (p.1 : α) := by exact_mod_cast b1
    have c2 : (p.1 : α) ≤ (yhi : α) := by exact_mod_cast b2
    have c3 : (xlo : α) ≤ (p.2 : α) := by exact_mod_cast b3
    have c4 : (p.2 : α) ≤ (xhi : α) := by exact_mod_cast b4
    obtain ⟨w0, w1⟩ := subW_bounds (α := α) s hs
    obtain ⟨u1, u2⟩ := abs_le.mp (subOff_abs (α := α) s y1 h1)
    obtain ⟨v1, v2⟩ := abs_le.mp (subOff_abs (α := α) s x1 h2)
    simp only
    refine ⟨by linarith, by linarith, by linarith, by linarith⟩
  -- witnesses reaching at least the pixel-centre extremes
  obtain ⟨pt, hpt, ept⟩ := hbox.top
  obtain ⟨pb, hpb, epb⟩ := hbox.bottom
  obtain ⟨pl, hpl, epl⟩ := hbox.left
  obtain ⟨pr, hpr, epr⟩ := hbox.right
  obtain ⟨st, hst, mt⟩ := mem_unitGrid_of m cy cx sub hpos pt hpt
  obtain ⟨sb, hsb, mb⟩ := mem_unitGrid_of m cy cx sub hpos pb hpb
  obtain ⟨sl, hsl, ml⟩ := mem_unitGrid_of m cy cx sub hpos pl hpl
  obtain ⟨sr, hsr, mr⟩ := mem_unitGrid_of m cy cx sub hpos pr hpr
  have qt := mt 0 0 hst hst
  have qb := mb (sb - 1) 0 (by omega) hsb
  have ql := ml 0 0 hsl hsl
  have qr := mr 0 (sr - 1) hsr (by omega)
  rw [subOff_zero st hst] at qt
  rw [subOff_last sb hsb] at qb
  rw [subOff_zero sl hsl] at ql
  rw [subOff_last sr hsr] at qr
  have wt := (subW_bounds (α := α) st hst).1
  have wb := (subW_bounds (α := α) sb hsb).1
  have wl := (subW_bounds (α := α) sl hsl).1
  have wr := (subW_bounds (α := α) sr hsr).1
  set g := unitGrid m cy cx sub with hg
  have hne1 : g.map Prod.fst ≠ [] := by
    intro h; have := List.map_eq_nil_iff.mp h; rw [this] at qt; cases qt
  have hne2 : g.map Prod.snd ≠ [] := by
    intro h; have := List.map_eq_nil_iff.mp h; rw [this] at qt; cases qt
  -- max / min of the first column
  obtain ⟨qM, hqM, eM⟩ := List.mem_map.mp (maxList_mem hne1)
  obtain ⟨qm, hqm, em⟩ := List.mem_map.mp (minList_mem hne1)
  have M_ge := le_maxList (List.mem_map_of_mem (f := Prod.fst) qt)
  have m_le := minList_le (List.mem_map_of_mem (f := Prod.fst) qb)
  obtain ⟨qX, hqX, eX⟩ := List.mem_map.mp (maxList_mem hne2)
  obtain ⟨qx, hqx, ex⟩ := List.mem_map.mp (minList_mem hne2)
  have X_ge := le_maxList (List.mem_map_of_mem (f := Prod.snd) qr)
  have x_le := minList_le (List.mem_map_of_mem (f := Prod.snd) ql)
  have bM := hall qM hqM
  have bm := hall qm hqm
  have bX := hall qX hqX
  have bx := hall qx hqx
  have ept' : (pt.1 : α) = (ylo : α) := by exact_mod_cast ept
  have epb' : (pb.1 : α) = (yhi : α) := by exact_mod_cast epb
  have epl' : (pl.2 : α) = (xlo : α) := by exact_mod_cast epl
  have epr' : (pr.2 : α) = (xhi : α) := by exact_mod_cast epr
  simp only at M_ge m_le X_ge x_le
  unfold Impl.gridCentre
  simp only
  constructor
  · rw [abs_lt]
    rw [← eM] at *
    rw [← em] at *
    constructor <;> linarith [bM.2.1, bm.1]
  · rw [abs_lt]
    rw [← eX] at *
    rw [← ex] at *
    constructor <;> linarith [bX.2.2.2, bx.2.2.1]

/-! ### assembly -/

theorem unitBlock_length (m : Mask) (cy cx : α) (sub : List Nat) (b : Nat) (hb : b < sub.length) :
    (unitBlock m cy cx sub b).length = sub[b]! * sub[b]! := by
  unfold unitBlock
  rw [subBlock_length]
  simp [List.getD_eq_getElem?_getD, hb]

theorem furthestDist_of_getD (g : List (α × α)) (c : α × α) (j : Nat) (s : Nat) (Yb Xb : α) (y1 x1 : Nat)
    (h : g.getD j (0, 0) = (Yb - subOff s y1, Xb + subOff s x1)) :
    Impl.furthestDist g c j = blockDist s Yb Xb c y1 x1 := by
  unfold Impl.furthestDist blockDist
  simp only [h]

/-- a sub-pixel of border pixel `b` that is farthest from the centre of the over-sampled grid's
    bounding box (what the code maximises) is farthest from the centre of the bounding box of the
    unmasked region (what the property names) — distances in pixel units. -/
theorem farthest_from_region_centre (m : Mask) (sub : List Nat)
    (hsub : sub.length = (Spec.unmaskedPixels m).length)
    (hpos : ∀ b, b < sub.length → 0 < sub.getD b 0) (cy cx : α)
    (ylo yhi xlo xhi : Nat) (hbox : IsBBox m ylo yhi xlo xhi)
    (b : Nat) (hb : b < sub.length) (k : Nat)
    (hk1 : subOffset sub b ≤ k) (hk2 : k < subOffset sub b + sub.getD b 0 * sub.getD b 0)
    (hmax : ∀ j, subOffset sub b ≤ j → j < subOffset sub b + sub.getD b 0 * sub.getD b 0 →
      Impl.furthestDist (unitGrid m cy cx sub) (Impl.gridCentre (unitGrid m cy cx sub)) j
        ≤ Impl.furthestDist (unitGrid m cy cx sub) (Impl.gridCentre (unitGrid m cy cx sub)) k) :
    ∀ j, subOffset sub b ≤ j → j < subOffset sub b + sub.getD b 0 * sub.getD b 0 →
      Impl.furthestDist (unitGrid m cy cx sub)
          (cy - ((ylo : α) + (yhi : α)) / 2, ((xlo : α) + (xhi : α)) / 2 - cx) j
        ≤ Impl.furthestDist (unitGrid m cy cx sub)
          (cy - ((ylo : α) + (yhi : α)) / 2, ((xlo : α) + (xhi : α)) / 2 - cx) k := by
  have hpos' : ∀ b, b < (Spec.unmaskedPixels m).length → 0 < sub.getD b 0 := by
    intro b hb'; exact hpos b (by omega)
  obtain ⟨hcy, hcx⟩ := gridCentre_close m cy cx sub hpos' ylo yhi xlo xhi hbox
  set g := unitGrid m cy cx sub with hg
  set s := sub.getD b 0 with hs_def
  have hs : 0 < s := hpos b hb
  have hsb : sub[b]! = s := by simp [hs_def, List.getD_eq_getElem?_getD, hb]
  set p := (Spec.unmaskedPixels m).getD b (0, 0) with hp_def
  have hpm : p ∈ Spec.unmaskedPixels m := by
    have hb' : b < (Spec.unmaskedPixels m).length := by omega
    simp only [hp_def, List.getD_eq_getElem?_getD, List.getElem?_eq_getElem hb', Option.getD_some]
    exact List.getElem_mem hb'
  -- index ↔ sub-pixel
  have hget : ∀ i, i < s * s →
      g.getD (subOffset sub b + i) (0, 0) = (unitBlock m cy cx sub b).getD i (0, 0) := by
    intro i hi
    exact gridUpTo_getD (unitBlock m cy cx sub) sub (unitBlock_length m cy cx sub)
      (Spec.unmaskedPixels m).length (by omega) b i (by omega) (by rw [hsb]; exact hi) (0, 0)
  have hblen : (unitBlock m cy cx sub b).length = s * s := by
    rw [unitBlock_length m cy cx sub b hb, hsb]
  have idx_to_sub : ∀ j, subOffset sub b ≤ j → j < subOffset sub b + s * s →
      ∃ y1 x1, y1 < s ∧ x1 < s ∧
        g.getD j (0, 0) = (cy - (p.1 : α) - subOff s y1, (p.2 : α) - cx + subOff s x1) := by
    intro j h1 h2
    have hi : j - subOffset sub b < s * s := by omega
    have e := hget (j - subOffset sub b) hi
    rw [show subOffset sub b + (j - subOffset sub b) = j by omega] at e
    have hmem : (unitBlock m cy cx sub b).getD (j - subOffset sub b) (0, 0) ∈ unitBlock m cy cx sub b := by
      rw [List.getD_eq_getElem?_getD, List.getElem?_eq_getElem (by rw [hblen]; exact hi),
        Option.getD_some]
      exact List.getElem_mem _
    unfold unitBlock at hmem
    rw [mem_subBlock] at hmem
    obtain ⟨y1, hy1, x1, hx1, e2⟩ := hmem
    refine ⟨y1, x1, hy1, hx1, ?_⟩
    rw [e]
    unfold unitBlock
    rw [e2, subPtG_unit _ _ _ _ _ _ _ hs]
  have sub_to_idx : ∀ y1 x1, y1 < s → x1 < s →
      ∃ j, subOffset sub b ≤ j ∧ j < subOffset sub b + s * s ∧
        g.getD j (0, 0) = (cy - (p.1 : α) - subOff s y1, (p.2 : α) - cx + subOff s x1) := by
    intro y1 x1 hy1 hx1
    have hmem : subPtG (1, 1) cy cx p.1 p.2 s y1 x1 ∈ unitBlock m cy cx sub b := by
      unfold unitBlock
      rw [mem_subBlock]
      exact ⟨y1, hy1, x1, hx1, rfl⟩
    obtain ⟨i, hi, ei⟩ := List.getElem_of_mem hmem
    have hi' : i < s * s := by rw [hblen] at hi; exact hi
    refine ⟨subOffset sub b + i, by omega, by omega, ?_⟩
    rw [hget i hi', List.getD_eq_getElem?_getD, List.getElem?_eq_getElem hi, Option.getD_some, ei,
      subPtG_unit _ _ _ _ _ _ _ hs]
  -- the chosen index
  obtain ⟨ys, xs, hys, hxs, ek⟩ := idx_to_sub k hk1 hk2
  have hmaxB : ∀ y1 x1, y1 < s → x1 < s →
      blockDist s (cy - (p.1 : α)) ((p.2 : α) - cx) (Impl.gridCentre g) y1 x1
        ≤ blockDist s (cy - (p.1 : α)) ((p.2 : α) - cx) (Impl.gridCentre g) ys xs := by
    intro y1 x1 hy1 hx1
    obtain ⟨j, hj1, hj2, ej⟩ := sub_to_idx y1 x1 hy1 hx1
    have := hmax j hj1 hj2
    rw [furthestDist_of_getD g _ j s _ _ y1 x1 ej, furthestDist_of_getD g _ k s _ _ ys xs ek] at this
    exact this
  have hny : cy - (p.1 : α) - (cy - ((ylo : α) + (yhi : α)) / 2)
      = (((ylo : ℤ) + (yhi : ℤ) - 2 * (p.1 : ℤ) : ℤ) : α) / 2 := by
    push_cast; ring
  have hnx : ((xlo : α) + (xhi : α)) / 2 - cx - ((p.2 : α) - cx)
      = (((xlo : ℤ) + (xhi : ℤ) - 2 * (p.2 : ℤ) : ℤ) : α) / 2 := by
    push_cast; ring
  have key := block_stable s hs (cy - (p.1 : α)) ((p.2 : α) - cx) (Impl.gridCentre g)
    (cy - ((ylo : α) + (yhi : α)) / 2, ((xlo : α) + (xhi : α)) / 2 - cx)
    ((ylo : ℤ) + (yhi : ℤ) - 2 * (p.1 : ℤ)) ((xlo : ℤ) + (xhi : ℤ) - 2 * (p.2 : ℤ))
    hny hnx hcy hcx ys xs hys hxs hmaxB
  intro j hj1 hj2
  obtain ⟨y1, x1, hy1, hx1, ej⟩ := idx_to_sub j hj1 hj2
  rw [furthestDist_of_getD g _ j s _ _ y1 x1 ej, furthestDist_of_getD g _ k s _ _ ys xs ek]
  exact key y1 x1 hy1 hx1

/-- the unit-scale, zero-origin grid of `sub_border_pixel_slim_indexes_from` is `unitGrid` with the
    frame centre `((H−1)/2, (W−1)/2)`. -/
theorem subGrid_unit_eq (m : Mask) (sub : List Nat) :
    Impl.subGrid (α := α) m (1, 1) (0, 0) sub
      = unitGrid m (((m.h : α) - 1) / 2) (((m.w : α) - 1) / 2) sub := by
  rw [subGrid_eq]
  unfold unitGrid gridUpTo unitBlock
  simp

end field

end Model
