/-
Proofs/BorderSub.lean — the sub-pixel bookkeeping of `sub_border_pixel_slim_indexes_from` (C18.d):
`slim_index_for_sub_slim_index_via_mask_2d_from` lists, for slim pixel k = 0,1,…, `s_k²` copies of k, and
the bucket loop `sub_slim_indexes_for_slim_index_via_mask_2d_from` therefore hands pixel `b` exactly
the block `[off_b, off_b + s_b²)` of sub-slim indices, in increasing order.  Core Lean only.
-/
import Model.Border
import Proofs.Core
import Proofs.Slim

set_option linter.unusedSimpArgs false

namespace Model

open Impl

/-- `off_b = Σ_{j<b} s_j²`: the sub-slim index of the first sub-pixel of slim pixel `b`. -/
def subOffset (sub : List Nat) (b : Nat) : Nat := ((sub.take b).map fun s => s * s).sum

/-- the table `slim_index_for_sub_slim_index` for the first `n` slim pixels. -/
def subTable (sub : List Nat) (n : Nat) : List Nat :=
  (List.range n).flatMap fun k => List.replicate (sub.getD k 0 * sub.getD k 0) k

theorem subTable_succ (sub : List Nat) (n : Nat) :
    subTable sub (n + 1) = subTable sub n ++ List.replicate (sub.getD n 0 * sub.getD n 0) n := by
  simp [subTable, List.range_succ, List.flatMap_append]

theorem subOffset_succ (sub : List Nat) (n : Nat) (hn : n < sub.length) :
    subOffset sub (n + 1) = subOffset sub n + sub[n] * sub[n] := by
  unfold subOffset
  rw [List.take_succ_eq_append_getElem hn, List.map_append, List.sum_append]
  simp

theorem subTable_length (sub : List Nat) (n : Nat) (hn : n ≤ sub.length) :
    (subTable sub n).length = subOffset sub n := by
  induction n with
  | zero => simp [subTable, subOffset]
  | succ n ih =>
    have hn' : n < sub.length := hn
    rw [subTable_succ, List.length_append, ih (Nat.le_of_lt hn'), subOffset_succ sub n hn']
    simp [List.getD_eq_getElem?_getD, hn']

/-! ### the two nested `for y1 / for x1` loops append `s²` copies -/

theorem foldl_append_const {β γ : Type} (l : List γ) (v : List β) (acc : List β) :
    l.foldl (fun acc _ => acc ++ v) acc = acc ++ (List.replicate l.length v).flatten := by
  induction l generalizing acc with
  | nil => simp
  | cons a l ih =>
    simp only [List.foldl_cons, List.length_cons, List.replicate_succ, List.flatten_cons]
    rw [ih]; simp

theorem flatten_replicate_replicate {β : Type} (n s : Nat) (v : β) :
    (List.replicate n (List.replicate s v)).flatten = List.replicate (n * s) v := by
  induction n with
  | zero => simp
  | succ n ih =>
    rw [List.replicate_succ, List.flatten_cons, ih, Nat.succ_mul, Nat.add_comm, List.replicate_append_replicate]

theorem forYX_append_const {β : Type} (s : Nat) (v : β) (acc : List β) :
    forYX s s (fun acc _ _ => acc ++ [v]) acc = acc ++ List.replicate (s * s) v := by
  unfold forYX
  have inner : ∀ a : List β, (List.range s).foldl (fun acc _ => acc ++ [v]) a
      = a ++ List.replicate s v := by
    intro a
    rw [foldl_append_const]
    simp
  simp only [inner]
  rw [foldl_append_const, List.length_range, flatten_replicate_replicate]

/-! ### step 1: the table -/

theorem slimIndex_fold (m : Mask) (sub : List Nat) (l : List (Nat × Nat)) (acc : List Nat) (n : Nat) :
    l.foldl (fun (st : List Nat × Nat) p =>
        if !m.get p.1 p.2 then
          (forYX (sub.getD st.2 0) (sub.getD st.2 0) (fun acc _ _ => acc ++ [st.2]) st.1, st.2 + 1)
        else st) (acc, n)
      = (acc ++ (List.range (l.filter fun p => !m.get p.1 p.2).length).flatMap
            (fun j => List.replicate (sub.getD (n + j) 0 * sub.getD (n + j) 0) (n + j)),
         n + (l.filter fun p => !m.get p.1 p.2).length) := by
  induction l generalizing acc n with
  | nil => simp
  | cons a l ih =>
    simp only [List.foldl_cons, List.filter_cons]
    by_cases h : (!m.get a.1 a.2) = true
    · simp only [h, if_true]
      rw [forYX_append_const, ih]
      simp only [List.length_cons, List.range_succ_eq_map, List.flatMap_cons, List.flatMap_map,
        Nat.add_zero, List.append_assoc]
      refine Prod.ext ?_ (by simp; omega)
      simp only
      have hj : ∀ j, n + 1 + j = n + (j + 1) := by intro j; omega
      simp only [Function.comp, hj]
    · simp only [h]
      exact ih acc n

theorem slimIndexForSubSlimIndex_eq (m : Mask) (sub : List Nat) :
    Impl.slimIndexForSubSlimIndex m sub = subTable sub (Impl.totalPixels m) := by
  unfold Impl.slimIndexForSubSlimIndex
  rw [forYX_eq_foldl]
  have := slimIndex_fold m sub (pixels m.h m.w) [] 0
  simp only [Nat.zero_add, List.nil_append] at this
  rw [this, totalPixels_eq]
  rfl

/-! ### step 2: the bucket loop -/

/-- body of the bucket loop. -/
def bucketStep (tbl : List Nat) (out : List (List Nat)) (k : Nat) : List (List Nat) :=
  out.set (tbl.getD k 0) (out.getD (tbl.getD k 0) [] ++ [k])

theorem bucket_loop (tbl : List Nat) (total : Nat) (n : Nat) (hn : n ≤ tbl.length)
    (hlt : ∀ v ∈ tbl, v < total) :
    ((List.range n).foldl (bucketStep tbl) (List.replicate total [])).length = total ∧
      ∀ b, b < total → ((List.range n).foldl (bucketStep tbl) (List.replicate total []))[b]?
        = some ((List.range n).filter fun k => tbl.getD k 0 == b) := by
  induction n with
  | zero =>
    refine ⟨by simp, ?_⟩
    intro b hb
    simp [List.getElem?_replicate, hb]
  | succ n ih =>
    have hn' : n < tbl.length := hn
    obtain ⟨hl, hb⟩ := ih (Nat.le_of_lt hn')
    rw [List.range_succ, List.foldl_append]
    simp only [List.foldl_cons, List.foldl_nil]
    generalize hout : (List.range n).foldl (bucketStep tbl) (List.replicate total []) = out at hl hb ⊢
    refine ⟨by unfold bucketStep; rw [List.length_set]; exact hl, ?_⟩
    intro b hbt
    have hv : tbl.getD n 0 < total := by
      apply hlt
      rw [List.getD_eq_getElem?_getD, List.getElem?_eq_getElem hn']
      exact List.getElem_mem hn'
    rw [List.filter_append]
    unfold bucketStep
    by_cases hbe : tbl.getD n 0 = b
    · rw [hbe]
      rw [List.getElem?_set_self (by rw [hl]; exact hbt)]
      rw [List.getD_eq_getElem?_getD, hb b hbt]
      have : ([n].filter fun k => tbl.getD k 0 == b) = [n] := by
        rw [List.filter_eq_self]; intro a ha; simp at ha; subst ha
        simpa [List.getD_eq_getElem?_getD] using hbe
      rw [this]; rfl
    · rw [List.getElem?_set_ne hbe, hb b hbt]
      have : ([n].filter fun k => tbl.getD k 0 == b) = [] := by
        rw [List.filter_eq_nil_iff]; intro a ha; simp at ha; subst ha
        intro h; exact hbe (by simpa using h)
      rw [this]; simp

/-! ### step 3: the bucket of `b` in the table is its block -/

theorem subTable_getD_lt (sub : List Nat) (n k : Nat) (hk : k < (subTable sub n).length) :
    (subTable sub (n + 1)).getD k 0 = (subTable sub n).getD k 0 := by
  rw [subTable_succ]
  simp [List.getD_eq_getElem?_getD, List.getElem?_append_left hk]

theorem subTable_mem_lt (sub : List Nat) (n : Nat) : ∀ v ∈ subTable sub n, v < n := by
  intro v hv
  simp only [subTable, List.mem_flatMap, List.mem_range, List.mem_replicate] at hv
  obtain ⟨k, hk, _, rfl⟩ := hv
  exact hk

theorem subTable_getD_ge (sub : List Nat) (n j : Nat) (hj : j < sub.getD n 0 * sub.getD n 0) :
    (subTable sub (n + 1)).getD ((subTable sub n).length + j) 0 = n := by
  rw [subTable_succ, List.getD_eq_getElem?_getD, List.getElem?_append_right (Nat.le_add_right _ _),
    Nat.add_sub_cancel_left, List.getElem?_replicate, if_pos hj]
  rfl

theorem bucket_of_subTable (sub : List Nat) (b n : Nat) (hn : n ≤ sub.length) :
    ((List.range (subTable sub n).length).filter fun k => (subTable sub n).getD k 0 == b)
      = if b < n then (List.range (sub.getD b 0 * sub.getD b 0)).map (· + subOffset sub b) else [] := by
  induction n with
  | zero => simp [subTable]
  | succ n ih =>
    have hn' : n < sub.length := hn
    have ih := ih (Nat.le_of_lt hn')
    have hlen : (subTable sub (n + 1)).length
        = (subTable sub n).length + sub.getD n 0 * sub.getD n 0 := by
      rw [subTable_succ]; simp
    rw [hlen, List.range_add, List.filter_append]
    have h1 : ((List.range (subTable sub n).length).filter
          fun k => (subTable sub (n + 1)).getD k 0 == b)
        = (List.range (subTable sub n).length).filter fun k => (subTable sub n).getD k 0 == b := by
      apply List.filter_congr
      intro k hk
      rw [subTable_getD_lt sub n k (List.mem_range.mp hk)]
    have h2 := subTable_getD_ge sub n
    rw [h1, ih]
    by_cases hbe : n = b
    · subst hbe
      have : ((List.range (sub.getD n 0 * sub.getD n 0)).map ((subTable sub n).length + ·)).filter
          (fun k => (subTable sub (n + 1)).getD k 0 == n)
          = (List.range (sub.getD n 0 * sub.getD n 0)).map ((subTable sub n).length + ·) := by
        rw [List.filter_eq_self]
        intro k hk
        obtain ⟨j, hj, rfl⟩ := List.mem_map.mp hk
        rw [h2 j (List.mem_range.mp hj)]
        simp
      rw [this, if_neg (Nat.lt_irrefl n), if_pos (Nat.lt_succ_self n), List.nil_append,
        subTable_length sub n (Nat.le_of_lt hn')]
      apply List.map_congr_left
      intro j _
      omega
    · have : ((List.range (sub.getD n 0 * sub.getD n 0)).map ((subTable sub n).length + ·)).filter
          (fun k => (subTable sub (n + 1)).getD k 0 == b) = [] := by
        rw [List.filter_eq_nil_iff]
        intro k hk
        obtain ⟨j, hj, rfl⟩ := List.mem_map.mp hk
        rw [h2 j (List.mem_range.mp hj)]
        intro h
        exact hbe (by simpa using h)
      rw [this, List.append_nil]
      by_cases hbn : b < n
      · rw [if_pos hbn, if_pos (Nat.lt_succ_of_lt hbn)]
      · rw [if_neg hbn, if_neg (by omega)]

/-- `sub_slim_indexes_for_slim_index_via_mask_2d_from`: pixel `b`'s list is its own block. -/
theorem subSlimIndexes_getD (m : Mask) (sub : List Nat) (hsub : sub.length = Impl.totalPixels m)
    (b : Nat) (hb : b < sub.length) :
    (Impl.subSlimIndexesForSlimIndex m sub sub.length).getD b []
      = (List.range (sub[b] * sub[b])).map (· + subOffset sub b) := by
  unfold Impl.subSlimIndexesForSlimIndex
  simp only
  rw [slimIndexForSubSlimIndex_eq, ← hsub]
  have hlt : ∀ v ∈ subTable sub sub.length, v < sub.length := subTable_mem_lt sub sub.length
  obtain ⟨_, h2⟩ := bucket_loop (subTable sub sub.length) sub.length
    (subTable sub sub.length).length (Nat.le_refl _) hlt
  have h3 := h2 b hb
  unfold bucketStep at h3
  rw [List.getD_eq_getElem?_getD, h3, Option.getD_some,
    bucket_of_subTable sub b sub.length (Nat.le_refl _)]
  simp [hb, List.getD_eq_getElem?_getD]

end Model
