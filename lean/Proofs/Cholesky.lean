/-
Proofs/Cholesky.lean — helper lemmas for Model/Cholesky.lean (property C05), part 1:
  * generic tools: loop invariants of `foldl` over `List.range`, entries of `List.set` / `map`-over-range
    rows, `gram` as a finite sum;
  * `_cholupdate`: the Givens-rotation algebra of one pass, the loop invariant, and
    `cholupdate_spec`: `U'` upper triangular, positive diagonal, `U'ᵀU' = UᵀU + x xᵀ`.
-/
import Model.Cholesky
import Proofs.NNLS
import Proofs.NNLSLoop
import Proofs.NNLSRecon
import Mathlib.Tactic.LinearCombination
import Mathlib.Tactic.Positivity

set_option linter.unusedSectionVars false
set_option linter.unusedVariables false

namespace Model

open Impl Spec

/-! ### generic tools -/

/-- loop invariant of a `for t in range(m)` loop -/
theorem foldl_range_inv {σ : Type} (f : σ → ℕ → σ) (init : σ) (Inv : ℕ → σ → Prop) (m : ℕ)
    (h0 : Inv 0 init) (hstep : ∀ t s, t < m → Inv t s → Inv (t + 1) (f s t)) :
    Inv m ((List.range m).foldl f init) := by
  suffices h : ∀ k, k ≤ m → Inv k ((List.range k).foldl f init) from h m le_rfl
  intro k
  induction k with
  | zero => intro _; simpa using h0
  | succ k ih =>
    intro hk
    rw [List.range_succ, List.foldl_append]
    exact hstep k _ (by omega) (ih (by omega))

section Ring
variable {α : Type} [CommRing α]

theorem vget_map_range (f : ℕ → α) (n j : ℕ) (h : j < n) : vget ((List.range n).map f) j = f j := by
  simp [vget, List.getD_eq_getElem?_getD, h]

theorem mget_set (U : List (List α)) (k : ℕ) (row : List α) (i j : ℕ) (hk : k < U.length) :
    mget (U.set k row) i j = if i = k then vget row j else mget U i j := by
  unfold mget vget
  simp only [List.getD_eq_getElem?_getD, List.getElem?_set]
  by_cases h : k = i
  · subst h; simp [hk]
  · have h' : ¬ i = k := fun e => h e.symm
    simp [h, h']

theorem mget_eq_vget_getD (U : List (List α)) (i j : ℕ) : mget U i j = vget (U.getD i []) j := rfl

theorem sumTo_eq (m : ℕ) (f : ℕ → α) : sumTo m f = ∑ k ∈ Finset.range m, f k := by
  unfold sumTo
  have h : ∀ (p : ℕ) (init : α),
      (List.range p).foldl (fun acc j => acc + f j) init = init + ∑ j ∈ Finset.range p, f j := by
    intro p
    induction p with
    | zero => simp
    | succ p ih => intro init; rw [List.range_succ, List.foldl_append, ih, Finset.sum_range_succ]; simp [add_assoc]
  exact (h m 0).trans (zero_add _)

theorem col_length (U : List (List α)) (i : ℕ) : (col U i).length = U.length := by simp [col]

theorem vget_col (U : List (List α)) (i k : ℕ) (hk : k < U.length) : vget (col U i) k = mget U k i := by
  rw [vget_eq_getElem _ _ (by simpa [col] using hk), mget_eq U k i hk]
  simp [col]

/-- `(UᵀU)[i,j] = Σ_k U[k,i] U[k,j]` -/
theorem gram_eq_sum (n : ℕ) (U : List (List α)) (hU : U.length = n) (i j : ℕ) :
    gram U i j = ∑ k ∈ Finset.range n, mget U k i * mget U k j := by
  unfold gram
  rw [dot_eq_sum n _ _ (by rw [col_length, hU]) (by rw [col_length, hU])]
  refine Finset.sum_congr rfl fun k hk => ?_
  have hk' : k < U.length := hU ▸ Finset.mem_range.mp hk
  rw [vget_col U i k hk', vget_col U j k hk']

/-- replacing the `k`-th summand -/
theorem sum_range_replace (n k : ℕ) (hk : k < n) (g : ℕ → α) (a : α) :
    ∑ m ∈ Finset.range n, (if m = k then a else g m) = (∑ m ∈ Finset.range n, g m) - g k + a := by
  have hmem : k ∈ Finset.range n := Finset.mem_range.mpr hk
  rw [← Finset.add_sum_erase _ _ hmem, ← Finset.add_sum_erase _ g hmem]
  have : ∑ m ∈ (Finset.range n).erase k, (if m = k then a else g m) = ∑ m ∈ (Finset.range n).erase k, g m :=
    Finset.sum_congr rfl fun m hm => by rw [if_neg (Finset.ne_of_mem_erase hm)]
  rw [this]
  simp [add_comm]

end Ring

section Field
variable {α : Type} [Field α] [LinearOrder α] [IsStrictOrderedRing α]

/-! ### the square root -/

theorem sqrt_pos_of_pos (sqrt : α → α) (hs : SqrtContract sqrt) (t : α) (ht : 0 < t) :
    0 < sqrt t ∧ sqrt t * sqrt t = t := by
  obtain ⟨h0, h1⟩ := hs t ht.le
  refine ⟨lt_of_le_of_ne h0 ?_, h1⟩
  intro h
  rw [← h] at h1
  simp at h1
  exact absurd h1.symm (ne_of_gt ht)

theorem sq_add_sq_pos (u v : α) (hu : u ≠ 0) : 0 < u * u + v * v := by
  have h1 : 0 < u * u := mul_self_pos.mpr hu
  have h2 : 0 ≤ v * v := mul_self_nonneg v
  linarith

/-! ### one Givens rotation -/

theorem rot_diag_off (u xk r a xj : α) (hu : u ≠ 0) (hr0 : r ≠ 0) :
    r * ((a + xk / u * xj) / (r / u)) = u * a + xk * xj := by
  field_simp

theorem rot_new_row (u xk r a xj : α) (hu : u ≠ 0) (hr0 : r ≠ 0) :
    (a + xk / u * xj) / (r / u) = (u * a + xk * xj) / r := by
  field_simp

theorem rot_new_x (u xk r a xj : α) (hu : u ≠ 0) (hr0 : r ≠ 0) (hr : r * r = u * u + xk * xk) :
    r / u * xj - xk / u * ((u * a + xk * xj) / r) = (u * xj - xk * a) / r := by
  field_simp
  linear_combination xj * hr

theorem rot_off_off (u xk r ai aj xi xj : α) (hu : u ≠ 0) (hr0 : r ≠ 0) (hr : r * r = u * u + xk * xk) :
    (ai + xk / u * xi) / (r / u) * ((aj + xk / u * xj) / (r / u))
      + (r / u * xi - xk / u * ((ai + xk / u * xi) / (r / u)))
        * (r / u * xj - xk / u * ((aj + xk / u * xj) / (r / u)))
      = ai * aj + xi * xj := by
  rw [rot_new_row u xk r ai xi hu hr0, rot_new_row u xk r aj xj hu hr0,
    rot_new_x u xk r ai xi hu hr0 hr, rot_new_x u xk r aj xj hu hr0 hr]
  field_simp
  linear_combination (-(ai * aj) - xi * xj) * hr

/-! ### the loop invariant of `_cholupdate` -/

/-- after `k` passes: shape, triangularity, non-zero diagonal (positive on the rows already processed), and
    `U_kᵀU_k + (x_k x_kᵀ restricted to indices ≥ k) = UᵀU + x xᵀ` -/
structure UpdInv (n : ℕ) (U : List (List α)) (x : List α) (k : ℕ) (st : List (List α) × List α) : Prop where
  sq : IsSquare n st.1
  xl : st.2.length = n
  up : ∀ i j, j < i → i < n → mget st.1 i j = 0
  dnz : ∀ i, i < n → mget st.1 i i ≠ 0
  dpos : ∀ i, i < k → i < n → 0 < mget st.1 i i
  gr : ∀ i j, i < n → j < n →
    (∑ m ∈ Finset.range n, mget st.1 m i * mget st.1 m j)
        + (if k ≤ i ∧ k ≤ j then vget st.2 i * vget st.2 j else 0)
      = (∑ m ∈ Finset.range n, mget U m i * mget U m j) + vget x i * vget x j

theorem cholupdateStep_inv (sqrt : α → α) (hs : SqrtContract sqrt) (n : ℕ) (U : List (List α)) (x : List α)
    (k : ℕ) (hk : k < n) (st : List (List α) × List α) (h : UpdInv n U x k st) :
    UpdInv n U x (k + 1) (cholupdateStep sqrt n st k) := by
  obtain ⟨hsq, hxl, hup, hdnz, hdpos, hgr⟩ := h
  have hklen : k < st.1.length := by rw [hsq.1]; exact hk
  have hu : mget st.1 k k ≠ 0 := hdnz k hk
  obtain ⟨hrpos, hr⟩ := sqrt_pos_of_pos sqrt hs _ (sq_add_sq_pos (mget st.1 k k) (vget st.2 k) hu)
  have hr0 := ne_of_gt hrpos
  -- abbreviations
  set u := mget st.1 k k with hu_def
  set xk := vget st.2 k with hxk_def
  set r := sqrt (u * u + xk * xk) with hr_def
  set ρ : ℕ → α := fun j =>
    if j < k then mget st.1 k j else if j = k then r else (mget st.1 k j + xk / u * vget st.2 j) / (r / u)
    with hρ
  set ξ : ℕ → α := fun j =>
    if j ≤ k then vget st.2 j else r / u * vget st.2 j - xk / u * vget ((List.range n).map ρ) j with hξ
  have hstep : cholupdateStep sqrt n st k = (st.1.set k ((List.range n).map ρ), (List.range n).map ξ) := rfl
  rw [hstep]
  have hmg : ∀ i j, j < n → mget (st.1.set k ((List.range n).map ρ)) i j
      = if i = k then ρ j else mget st.1 i j := by
    intro i j hj
    rw [mget_set _ _ _ _ _ hklen, vget_map_range ρ n j hj]
  have hxg : ∀ j, j < n → vget ((List.range n).map ξ) j = ξ j := fun j hj => vget_map_range ξ n j hj
  refine ⟨⟨by simpa using hsq.1, ?_⟩, by simp, ?_, ?_, ?_, ?_⟩
  · intro row hrow
    rcases List.mem_or_eq_of_mem_set hrow with h | h
    · exact hsq.2 row h
    · rw [h]; simp
  · intro i j hji hi
    rw [hmg i j (by omega)]
    by_cases hik : i = k
    · rw [if_pos hik]
      subst hik
      simp only [hρ, if_pos hji]
      exact hup _ j hji hi
    · rw [if_neg hik]; exact hup i j hji hi
  · intro i hi
    show mget (st.1.set k ((List.range n).map ρ)) i i ≠ 0
    rw [hmg i i hi]
    by_cases hik : i = k
    · rw [if_pos hik]; subst hik; simp [hρ, hr0]
    · rw [if_neg hik]; exact hdnz i hi
  · intro i hik1 hi
    show 0 < mget (st.1.set k ((List.range n).map ρ)) i i
    rw [hmg i i hi]
    by_cases hik : i = k
    · rw [if_pos hik]; subst hik; simpa [hρ] using hrpos
    · rw [if_neg hik]; exact hdpos i (by omega) hi
  · intro i j hi hj
    show (∑ m ∈ Finset.range n, mget (st.1.set k ((List.range n).map ρ)) m i
            * mget (st.1.set k ((List.range n).map ρ)) m j)
        + (if k + 1 ≤ i ∧ k + 1 ≤ j then vget ((List.range n).map ξ) i * vget ((List.range n).map ξ) j else 0)
      = _
    have hsum : (∑ m ∈ Finset.range n, mget (st.1.set k ((List.range n).map ρ)) m i
            * mget (st.1.set k ((List.range n).map ρ)) m j)
        = (∑ m ∈ Finset.range n, mget st.1 m i * mget st.1 m j) - mget st.1 k i * mget st.1 k j + ρ i * ρ j := by
      rw [← sum_range_replace n k hk]
      refine Finset.sum_congr rfl fun m _ => ?_
      rw [hmg m i hi, hmg m j hj]
      by_cases hmk : m = k
      · simp [hmk]
      · simp [hmk]
    rw [hsum, hxg i hi, hxg j hj, ← hgr i j hi hj]
    -- the local identity: new row products + new x products = old row products + old x products
    have key : ρ i * ρ j + (if k + 1 ≤ i ∧ k + 1 ≤ j then ξ i * ξ j else 0)
        = mget st.1 k i * mget st.1 k j + (if k ≤ i ∧ k ≤ j then vget st.2 i * vget st.2 j else 0) := by
      rcases lt_trichotomy i k with hi' | hi' | hi'
      · have h0 : mget st.1 k i = 0 := hup k i hi' hk
        have : ρ i = 0 := by simp only [hρ, if_pos hi']; exact h0
        rw [this, h0, if_neg (by omega), if_neg (by omega)]; ring
      · have h1 : ρ i = r := by simp [hρ, hi']
        rcases lt_trichotomy j k with hj' | hj' | hj'
        · have h0 : mget st.1 k j = 0 := hup k j hj' hk
          have : ρ j = 0 := by simp only [hρ, if_pos hj']; exact h0
          rw [this, h0, if_neg (by omega), if_neg (by omega)]; ring
        · have h2 : ρ j = r := by simp [hρ, hj']
          rw [h1, h2, if_neg (by omega), if_pos ⟨hi'.ge, hj'.ge⟩, hr, hi', hj']
          ring
        · have h2 : ρ j = (mget st.1 k j + xk / u * vget st.2 j) / (r / u) := by
            simp only [hρ, if_neg (by omega : ¬ j < k), if_neg (by omega : ¬ j = k)]
          rw [h1, h2, if_neg (by omega), if_pos ⟨hi'.ge, hj'.le⟩, rot_diag_off u xk r _ _ hu hr0, hi']
          exact add_zero _
      · rcases lt_trichotomy j k with hj' | hj' | hj'
        · have h0 : mget st.1 k j = 0 := hup k j hj' hk
          have : ρ j = 0 := by simp only [hρ, if_pos hj']; exact h0
          rw [this, h0, if_neg (by omega), if_neg (by omega)]; ring
        · have h1 : ρ j = r := by simp [hρ, hj']
          have h2 : ρ i = (mget st.1 k i + xk / u * vget st.2 i) / (r / u) := by
            simp only [hρ, if_neg (by omega : ¬ i < k), if_neg (by omega : ¬ i = k)]
          rw [h1, h2, if_neg (by omega), if_pos ⟨hi'.le, hj'.ge⟩, mul_comm, rot_diag_off u xk r _ _ hu hr0, hj']
          ring
        · have h1 : ρ i = (mget st.1 k i + xk / u * vget st.2 i) / (r / u) := by
            simp only [hρ, if_neg (by omega : ¬ i < k), if_neg (by omega : ¬ i = k)]
          have h2 : ρ j = (mget st.1 k j + xk / u * vget st.2 j) / (r / u) := by
            simp only [hρ, if_neg (by omega : ¬ j < k), if_neg (by omega : ¬ j = k)]
          have h3 : ξ i = r / u * vget st.2 i - xk / u * ρ i := by
            simp only [hξ, if_neg (by omega : ¬ i ≤ k), vget_map_range ρ n i hi]
          have h4 : ξ j = r / u * vget st.2 j - xk / u * ρ j := by
            simp only [hξ, if_neg (by omega : ¬ j ≤ k), vget_map_range ρ n j hj]
          rw [if_pos ⟨by omega, by omega⟩, if_pos ⟨hi'.le, hj'.le⟩, h3, h4, h1, h2]
          exact rot_off_off u xk r _ _ _ _ hu hr0 hr
    linear_combination key

/-- the last statement of `_cholupdate` (`k = n − 1; U[k, k] = sqrt(U[k, k]**2 + x[k]**2)`) is what one more
    pass of the loop body would do to `U` -/
theorem cholupdate_last_eq_step (sqrt : α → α) (n : ℕ) (hn : 0 < n) (st : List (List α) × List α)
    (hsq : IsSquare n st.1) :
    st.1.set (n - 1) ((st.1.getD (n - 1) []).set (n - 1)
        (sqrt (mget st.1 (n - 1) (n - 1) * mget st.1 (n - 1) (n - 1) + vget st.2 (n - 1) * vget st.2 (n - 1))))
      = (cholupdateStep sqrt n st (n - 1)).1 := by
  have hk : n - 1 < st.1.length := by rw [hsq.1]; omega
  have hrowlen : (st.1.getD (n - 1) []).length = n := by
    rw [List.getD_eq_getElem?_getD, List.getElem?_eq_getElem hk]
    exact hsq.2 _ (List.getElem_mem hk)
  show _ = st.1.set (n - 1) _
  congr 1
  simp only [mget_eq_vget_getD]
  generalize st.1.getD (n - 1) [] = row at hrowlen ⊢
  generalize sqrt (vget row (n - 1) * vget row (n - 1) + vget st.2 (n - 1) * vget st.2 (n - 1)) = v
  apply List.ext_getElem
  · simp [hrowlen]
  · intro j h1 h2
    have hj : j < n := by simpa [hrowlen] using h1
    simp only [List.getElem_set, List.getElem_map, List.getElem_range]
    by_cases hjk : n - 1 = j
    · rw [if_pos hjk, if_neg (by omega), if_pos hjk.symm]
    · rw [if_neg hjk, if_pos (by omega)]
      rw [vget_eq_getElem row j (by omega)]

/-- **`_cholupdate` is the rank-one update of the factor.**  For an upper-triangular n×n `U` with non-zero
    diagonal and `x` of length `n`: the result is upper triangular with POSITIVE diagonal and
    `U'ᵀU' = UᵀU + x xᵀ`. -/
theorem cholupdate_spec (sqrt : α → α) (hs : SqrtContract sqrt) (n : ℕ) (U : List (List α)) (x : List α)
    (hU : IsUpper n U) (hd : ∀ i, i < n → mget U i i ≠ 0) (hx : x.length = n) :
    IsUpper n (cholupdate sqrt U x) ∧ PosDiag n (cholupdate sqrt U x)
      ∧ ∀ i j, i < n → j < n → gram (cholupdate sqrt U x) i j = gram U i j + vget x i * vget x j := by
  rcases Nat.eq_zero_or_pos n with hn | hn
  · subst hn
    have hU0 : U = [] := List.eq_nil_of_length_eq_zero hU.1.1
    have hx0 : x = [] := List.eq_nil_of_length_eq_zero hx
    subst hU0; subst hx0
    refine ⟨⟨⟨by simp [cholupdate], by simp [cholupdate]⟩, fun i j _ hi => absurd hi (by omega)⟩,
      fun i hi => absurd hi (by omega), fun i j hi => absurd hi (by omega)⟩
  · have h0 : UpdInv n U x 0 (U, x) :=
      ⟨hU.1, hx, hU.2, hd, fun i hi => absurd hi (by omega), fun i j hi hj => by simp⟩
    have hloop : UpdInv n U x (n - 1) ((List.range (n - 1)).foldl (cholupdateStep sqrt n) (U, x)) :=
      foldl_range_inv (cholupdateStep sqrt n) (U, x) (fun k st => UpdInv n U x k st) (n - 1) h0
        (fun t st ht hinv => cholupdateStep_inv sqrt hs n U x t (by omega) st hinv)
    have hfin := cholupdateStep_inv sqrt hs n U x (n - 1) (by omega) _ hloop
    have heq : cholupdate sqrt U x
        = (cholupdateStep sqrt n ((List.range (n - 1)).foldl (cholupdateStep sqrt n) (U, x)) (n - 1)).1 := by
      rw [← cholupdate_last_eq_step sqrt n hn _ hloop.sq]
      simp only [cholupdate, hx]
    rw [heq]
    have hnn : n - 1 + 1 = n := by omega
    rw [hnn] at hfin
    refine ⟨⟨hfin.sq, hfin.up⟩, fun i hi => hfin.dpos i hi hi, fun i j hi hj => ?_⟩
    have := hfin.gr i j hi hj
    rw [if_neg (by omega), add_zero] at this
    rw [gram_eq_sum n _ hfin.sq.1, gram_eq_sum n U hU.1.1, this]

end Field

end Model
