/-
Proofs/CholeskyDelete.lean — helper lemmas for Model/Cholesky.lean (property C05), part 3:
`choldeleteindexes`.
  * entries of `np.delete` of a row and column, of the view `L[d:, d:]` and of the array written through it;
  * `cholDelete1_spec`: one pass (delete position `d`, `_cholupdate` on the trailing block with the deleted
    row's tail) turns the exact factor of `M` into the exact factor of `M` without row/column `d`;
  * `choldeleteindexes_spec`: deleting a set of positions (any order, no repetition) from the factor of
    `A[idx][:, idx]` gives the factor of `A[idx'][:, idx']`, `idx' = np.delete(idx, positions)`.
-/
import Proofs.CholeskySolve

set_option linter.unusedSectionVars false
set_option linter.unusedVariables false

namespace Model

open Impl Spec

/-- position `i` of an array after position `d` was deleted is position `skip d i` of the original -/
def skip (d i : ℕ) : ℕ := if i < d then i else i + 1

theorem skip_lt_skip (d i j : ℕ) (h : j < i) : skip d j < skip d i := by
  unfold skip; split <;> split <;> omega

theorem skip_lt (d i n : ℕ) (h : i < n) : skip d i < n + 1 := by
  unfold skip; split <;> omega

section Ring
variable {α : Type} [CommRing α]

/-! ### entries of the arrays involved -/

theorem mget_deleteRowCol (U : List (List α)) (d i j : ℕ) :
    mget (deleteRowCol U d) i j = mget U (skip d i) (skip d j) := by
  unfold mget deleteRowCol
  simp only [List.getD_eq_getElem?_getD, List.getElem?_map, List.getElem?_eraseIdx]
  have hrow : ∀ (o : Option (List α)),
      ((Option.map (fun r => r.eraseIdx d) o).getD [])[j]?.getD 0 = (o.getD [])[skip d j]?.getD 0 := by
    intro o
    cases o with
    | none => simp
    | some r =>
      simp only [Option.map_some, Option.getD_some, List.getElem?_eraseIdx]
      unfold skip; split <;> rfl
  unfold skip at *
  split
  · exact hrow _
  · exact hrow _

theorem deleteRowCol_square (n : ℕ) (U : List (List α)) (hU : IsSquare (n + 1) U) (d : ℕ) (hd : d ≤ n) :
    IsSquare n (deleteRowCol U d) := by
  refine ⟨by simp [deleteRowCol, List.length_eraseIdx, hU.1]; omega, ?_⟩
  intro r hr
  obtain ⟨r', hr', rfl⟩ := List.mem_map.mp hr
  have := hU.2 r' (List.mem_of_mem_eraseIdx hr')
  simp [List.length_eraseIdx, this]; omega

theorem mget_viewBlock (L : List (List α)) (d i j : ℕ) :
    mget (viewBlock L d) i j = mget L (d + i) (d + j) := by
  unfold mget viewBlock
  simp only [List.getD_eq_getElem?_getD, List.getElem?_map, List.getElem?_drop]
  cases L[d + i]? with
  | none => simp
  | some r => simp [List.getElem?_drop]

theorem viewBlock_square (m : ℕ) (L : List (List α)) (hL : IsSquare m L) (d : ℕ) :
    IsSquare (m - d) (viewBlock L d) := by
  refine ⟨by simp [viewBlock, hL.1], ?_⟩
  intro r hr
  obtain ⟨r', hr', rfl⟩ := List.mem_map.mp hr
  simp [hL.2 r' (List.mem_of_mem_drop hr')]

theorem writeBlock_square (m : ℕ) (L : List (List α)) (hL : IsSquare m L) (d : ℕ) (hd : d ≤ m)
    (B : List (List α)) (hB : IsSquare (m - d) B) : IsSquare m (writeBlock L d B) := by
  refine ⟨by simp [writeBlock, hL.1, hB.1]; omega, ?_⟩
  intro r hr
  rcases List.mem_append.mp hr with h | h
  · exact hL.2 r (List.mem_of_mem_take h)
  · obtain ⟨k, hk, rfl⟩ := List.mem_iff_getElem.mp h
    simp only [List.getElem_zipWith, List.length_append, List.length_take]
    have hk' : k < B.length := by simp at hk; omega
    rw [hB.2 _ (List.getElem_mem hk'), hL.2 _ (List.mem_of_mem_drop (List.getElem_mem _))]
    omega

theorem mget_writeBlock (m : ℕ) (L : List (List α)) (hL : IsSquare m L) (d : ℕ) (hd : d ≤ m)
    (B : List (List α)) (hB : IsSquare (m - d) B) (i j : ℕ) (hi : i < m) :
    mget (writeBlock L d B) i j
      = if i < d then mget L i j else if j < d then mget L i j else mget B (i - d) (j - d) := by
  have htl : (L.take d).length = d := by simp [hL.1]; omega
  by_cases hid : i < d
  · rw [if_pos hid]
    unfold mget writeBlock
    simp only [List.getD_eq_getElem?_getD]
    rw [List.getElem?_append_left (by rw [htl]; exact hid), List.getElem?_take, if_pos hid]
  · rw [if_neg hid]
    have hk : i - d < B.length := by rw [hB.1]; omega
    have hk2 : i - d < (L.drop d).length := by simp [hL.1]; omega
    have hiL : i < L.length := by rw [hL.1]; exact hi
    have hrow : (writeBlock L d B).getD i [] = L[i].take d ++ B[i - d] := by
      unfold writeBlock
      rw [List.getD_eq_getElem?_getD, List.getElem?_append_right (by omega), htl,
        List.getElem?_eq_getElem (by simp [hL.1, hB.1]; omega)]
      simp only [List.getElem_zipWith, List.getElem_drop, Option.getD_some]
      congr 3
      omega
    have hrl : (L[i].take d).length = d := by
      simp [hL.2 _ (List.getElem_mem hiL)]; omega
    rw [mget_eq_vget_getD, hrow]
    by_cases hjd : j < d
    · rw [if_pos hjd, mget_eq L i j hiL]
      simp [vget, List.getD_eq_getElem?_getD, List.getElem?_append_left (hrl ▸ hjd : j < (L[i].take d).length),
        hjd]
    · rw [if_neg hjd, mget_eq B (i - d) (j - d) hk]
      simp [vget, List.getD_eq_getElem?_getD, List.getElem?_append_right (by omega : (L[i].take d).length ≤ j), hrl]

theorem vget_drop (l : List α) (k j : ℕ) : vget (l.drop k) j = vget l (k + j) := by
  simp [vget, List.getD_eq_getElem?_getD, List.getElem?_drop]

theorem mget_subMat (A : List (List α)) (idx : List ℕ) (i j : ℕ) (hi : i < idx.length) (hj : j < idx.length) :
    mget (subMat A idx) i j = mget A idx[i] idx[j] := by
  simp [mget, subMat, List.getD_eq_getElem?_getD, List.getElem?_map, List.getElem?_eq_getElem hi,
    List.getElem?_eq_getElem hj]

/-- summing over the positions that remain after `d` was deleted, plus the deleted one -/
theorem sum_skip (n d : ℕ) (hd : d ≤ n) (f : ℕ → α) :
    (∑ m ∈ Finset.range n, f (skip d m)) + f d = ∑ m ∈ Finset.range (n + 1), f m := by
  have hn : n = d + (n - d) := by omega
  have hn1 : n + 1 = (d + 1) + (n - d) := by omega
  conv_lhs => rw [hn]
  conv_rhs => rw [hn1]
  rw [Finset.sum_range_add, Finset.sum_range_add, Finset.sum_range_succ]
  have h1 : ∑ m ∈ Finset.range d, f (skip d m) = ∑ m ∈ Finset.range d, f m :=
    Finset.sum_congr rfl fun m hm => by
      have := Finset.mem_range.mp hm
      unfold skip; rw [if_pos this]
  have h2 : ∑ m ∈ Finset.range (n - d), f (skip d (d + m)) = ∑ m ∈ Finset.range (n - d), f (d + 1 + m) :=
    Finset.sum_congr rfl fun m _ => by
      unfold skip; rw [if_neg (by omega)]; congr 1; omega
  rw [h1, h2]
  ring

end Ring

section Field
variable {α : Type} [Field α] [LinearOrder α] [IsStrictOrderedRing α]

/-! ### one pass of `choldeleteindexes` -/

/-- **one deletion.**  `U` the exact factor of the (n+1)×(n+1) `M`, `d ≤ n` a position, `M'` the n×n array
    `M` without row and column `d`: the pass returns the exact factor of `M'`. -/
theorem cholDelete1_spec (sqrt : α → α) (hs : SqrtContract sqrt) (n : ℕ) (U M M' : List (List α)) (d : ℕ)
    (hf : IsCholFactor (n + 1) U M) (hd : d ≤ n)
    (hM' : ∀ i j, i < n → j < n → mget M' i j = mget M (skip d i) (skip d j)) :
    IsCholFactor n (cholDelete1 sqrt U d) M' := by
  obtain ⟨hU, hpos, hg⟩ := hf
  have hLsq : IsSquare n (deleteRowCol U d) := deleteRowCol_square n U hU.1 d hd
  have hLe : ∀ i j, mget (deleteRowCol U d) i j = mget U (skip d i) (skip d j) := mget_deleteRowCol U d
  have hLup : ∀ i j, j < i → i < n → mget (deleteRowCol U d) i j = 0 := fun i j hji hi => by
    rw [hLe]; exact hU.2 _ _ (skip_lt_skip d i j hji) (skip_lt d i n hi)
  have hLpos : ∀ i, i < n → 0 < mget (deleteRowCol U d) i i := fun i hi => by
    rw [hLe]; exact hpos _ (skip_lt d i n hi)
  have hLgram : ∀ i j, i < n → j < n →
      ∑ m ∈ Finset.range n, mget (deleteRowCol U d) m i * mget (deleteRowCol U d) m j
        = mget M' i j - mget U d (skip d i) * mget U d (skip d j) := by
    intro i j hi hj
    have := sum_skip n d hd (fun m => mget U m (skip d i) * mget U m (skip d j))
    rw [← gram_eq_sum (n + 1) U hU.1.1, hg _ _ (skip_lt d i n hi) (skip_lt d j n hj), ← hM' i j hi hj] at this
    rw [← this]
    simp only [hLe]
    ring
  unfold cholDelete1
  by_cases hdn : d = n
  · rw [if_pos (hdn.trans hLsq.1.symm)]
    refine ⟨⟨hLsq, hLup⟩, hLpos, fun i j hi hj => ?_⟩
    rw [gram_eq_sum n _ hLsq.1, hLgram i j hi hj]
    have : mget U d (skip d i) = 0 := by
      unfold skip; rw [if_pos (by omega)]; exact hU.2 d i (by omega) (by omega)
    rw [this]; ring
  · rw [if_neg (fun e => hdn (e.trans hLsq.1))]
    have hdlt : d < n := by omega
    set L := deleteRowCol U d with hL
    set B := viewBlock L d with hB
    set x := (U.getD d []).drop (d + 1) with hx
    have hBsq : IsSquare (n - d) B := viewBlock_square n L hLsq d
    have hBe : ∀ i j, mget B i j = mget L (d + i) (d + j) := mget_viewBlock L d
    have hBup : IsUpper (n - d) B := ⟨hBsq, fun i j hji hi => by rw [hBe]; exact hLup _ _ (by omega) (by omega)⟩
    have hBd : ∀ i, i < n - d → mget B i i ≠ 0 := fun i hi => by
      rw [hBe]; exact ne_of_gt (hLpos _ (by omega))
    have hdU : d < U.length := by rw [hU.1.1]; omega
    have hxl : x.length = n - d := by
      rw [hx, List.length_drop, List.getD_eq_getElem?_getD, List.getElem?_eq_getElem hdU]
      simp only [Option.getD_some]
      rw [hU.1.2 _ (List.getElem_mem hdU)]; omega
    have hxe : ∀ j, vget x j = mget U d (d + 1 + j) := fun j => by
      rw [hx, vget_drop]; rfl
    obtain ⟨hB'up, hB'pos, hB'g⟩ := cholupdate_spec sqrt hs (n - d) B x hBup hBd hxl
    set B' := cholupdate sqrt B x with hB'
    have hRsq : IsSquare n (writeBlock L d B') := writeBlock_square n L hLsq d hd B' hB'up.1
    have hRe : ∀ i j, i < n → mget (writeBlock L d B') i j
        = if i < d then mget L i j else if j < d then mget L i j else mget B' (i - d) (j - d) :=
      fun i j hi => mget_writeBlock n L hLsq d hd B' hB'up.1 i j hi
    refine ⟨⟨hRsq, ?_⟩, ?_, ?_⟩
    · intro i j hji hi
      rw [hRe i j hi]
      by_cases hid : i < d
      · rw [if_pos hid]; exact hLup i j hji hi
      · rw [if_neg hid]
        by_cases hjd : j < d
        · rw [if_pos hjd]; exact hLup i j hji hi
        · rw [if_neg hjd]; exact hB'up.2 _ _ (by omega) (by omega)
    · intro i hi
      rw [hRe i i hi]
      by_cases hid : i < d
      · rw [if_pos hid]; exact hLpos i hi
      · rw [if_neg hid, if_neg hid]; exact hB'pos _ (by omega)
    · intro i j hi hj
      rw [gram_eq_sum n _ hRsq.1]
      have hn : n = d + (n - d) := by omega
      have hsplit : ∀ f : ℕ → α, ∑ m ∈ Finset.range n, f m
          = ∑ m ∈ Finset.range d, f m + ∑ m ∈ Finset.range (n - d), f (d + m) := by
        intro f
        conv_lhs => rw [hn]
        rw [Finset.sum_range_add]
      rw [hsplit]
      have h1 : ∑ m ∈ Finset.range d, mget (writeBlock L d B') m i * mget (writeBlock L d B') m j
          = ∑ m ∈ Finset.range d, mget L m i * mget L m j :=
        Finset.sum_congr rfl fun m hm => by
          have hm' := Finset.mem_range.mp hm
          rw [hRe m i (by omega), hRe m j (by omega), if_pos hm', if_pos hm']
      have h2 : ∑ m ∈ Finset.range (n - d),
            mget (writeBlock L d B') (d + m) i * mget (writeBlock L d B') (d + m) j
          = ∑ m ∈ Finset.range (n - d), mget L (d + m) i * mget L (d + m) j
            + mget U d (skip d i) * mget U d (skip d j) := by
        by_cases hid : i < d
        · have hz : mget U d (skip d i) = 0 := by
            unfold skip; rw [if_pos hid]; exact hU.2 d i hid (by omega)
          rw [hz, zero_mul, add_zero]
          refine Finset.sum_congr rfl fun m hm => ?_
          have hm' := Finset.mem_range.mp hm
          have hRi : mget (writeBlock L d B') (d + m) i = 0 := by
            rw [hRe (d + m) i (by omega), if_neg (by omega), if_pos hid]
            exact hLup (d + m) i (by omega) (by omega)
          rw [hRi, hLup (d + m) i (by omega) (by omega), zero_mul, zero_mul]
        · by_cases hjd : j < d
          · have hz : mget U d (skip d j) = 0 := by
              unfold skip; rw [if_pos hjd]; exact hU.2 d j hjd (by omega)
            rw [hz, mul_zero, add_zero]
            refine Finset.sum_congr rfl fun m hm => ?_
            have hm' := Finset.mem_range.mp hm
            have hRj : mget (writeBlock L d B') (d + m) j = 0 := by
              rw [hRe (d + m) j (by omega), if_neg (by omega), if_pos hjd]
              exact hLup (d + m) j (by omega) (by omega)
            rw [hRj, hLup (d + m) j (by omega) (by omega), mul_zero, mul_zero]
          · have hsum : ∑ m ∈ Finset.range (n - d),
                  mget (writeBlock L d B') (d + m) i * mget (writeBlock L d B') (d + m) j
                = gram B' (i - d) (j - d) := by
              rw [gram_eq_sum (n - d) B' hB'up.1.1]
              refine Finset.sum_congr rfl fun m hm => ?_
              have hm' := Finset.mem_range.mp hm
              have hRi : mget (writeBlock L d B') (d + m) i = mget B' m (i - d) := by
                rw [hRe (d + m) i (by omega), if_neg (by omega), if_neg hid]
                congr 1; omega
              have hRj : mget (writeBlock L d B') (d + m) j = mget B' m (j - d) := by
                rw [hRe (d + m) j (by omega), if_neg (by omega), if_neg hjd]
                congr 1; omega
              rw [hRi, hRj]
            rw [hsum, hB'g (i - d) (j - d) (by omega) (by omega), gram_eq_sum (n - d) B hBsq.1, hxe, hxe]
            have e1 : skip d i = d + 1 + (i - d) := by unfold skip; rw [if_neg hid]; omega
            have e2 : skip d j = d + 1 + (j - d) := by unfold skip; rw [if_neg hjd]; omega
            rw [e1, e2]
            congr 1
            refine Finset.sum_congr rfl fun m _ => ?_
            rw [hBe, hBe]
            congr 2 <;> omega
      rw [h1, h2, ← add_assoc, ← hsplit (fun m => mget L m i * mget L m j), hLgram i j hi hj]
      ring

/-! ### `np.delete` on the passive list, positions in descending order -/

theorem npDelete_snoc {β : Type} (init : List β) (a : β) (ds : List ℕ) :
    npDelete (init ++ [a]) ds = npDelete init ds ++ (if ds.contains init.length then [] else [a]) := by
  unfold npDelete
  rw [List.zipIdx_append, List.filter_append, List.map_append]
  congr 1
  by_cases h : init.length ∈ ds <;> simp [h]

theorem npDelete_congr {β : Type} (l : List β) (ds ds' : List ℕ)
    (h : ∀ k, k < l.length → (ds.contains k = ds'.contains k)) : npDelete l ds = npDelete l ds' := by
  unfold npDelete
  congr 1
  apply List.filter_congr
  intro p hp
  have := List.mem_zipIdx' (x := p.1) (i := p.2) hp
  rw [h p.2 this.1]

theorem foldl_eraseIdx_snoc {β : Type} (a : β) : ∀ (ds : List ℕ) (init : List β),
    ds.Pairwise (fun x y => y < x) → (∀ d, d ∈ ds → d < init.length) →
    ds.foldl List.eraseIdx (init ++ [a]) = ds.foldl List.eraseIdx init ++ [a] := by
  intro ds
  induction ds with
  | nil => intro init _ _; rfl
  | cons d ds ih =>
    intro init hp hr
    have hd : d < init.length := hr d (by simp)
    rw [List.foldl_cons, List.foldl_cons, List.eraseIdx_append_of_lt_length hd]
    obtain ⟨hhd, htl⟩ := List.pairwise_cons.mp hp
    apply ih _ htl
    intro e he
    have := hhd e he
    rw [List.length_eraseIdx_of_lt hd]
    omega

/-- deleting a strictly descending list of in-range positions one at a time is `np.delete` -/
theorem foldl_eraseIdx_desc {β : Type} : ∀ (idx : List β) (ds : List ℕ),
    ds.Pairwise (fun x y => y < x) → (∀ d, d ∈ ds → d < idx.length) →
    ds.foldl List.eraseIdx idx = npDelete idx ds := by
  intro idx
  induction idx using List.reverseRecOn with
  | nil =>
    intro ds _ hr
    cases ds with
    | nil => rfl
    | cons d ds => exact absurd (hr d (by simp)) (by simp)
  | append_singleton init a ih =>
    intro ds hp hr
    rw [npDelete_snoc]
    by_cases hc : ds.contains init.length
    · rw [if_pos hc, List.append_nil]
      cases ds with
      | nil => simp at hc
      | cons d ds' =>
        obtain ⟨hhd, htl⟩ := List.pairwise_cons.mp hp
        have hdle : d < init.length + 1 := by simpa using hr d (by simp)
        have hdeq : d = init.length := by
          rcases List.mem_cons.mp (List.contains_iff_mem.mp hc) with h | h
          · exact h.symm
          · have := hhd _ h; omega
        subst hdeq
        rw [List.foldl_cons, List.eraseIdx_append_of_length_le (le_refl _)]
        simp only [Nat.sub_self, List.eraseIdx_cons_zero, List.append_nil]
        rw [ih ds' htl (fun e he => hhd e he)]
        apply npDelete_congr
        intro k hk
        simp only [List.contains_cons]
        have : (k == init.length) = false := by simp; omega
        rw [this, Bool.false_or]
    · rw [if_neg hc]
      have hr' : ∀ d, d ∈ ds → d < init.length := by
        intro d hd
        have h1 : d < init.length + 1 := by simpa using hr d hd
        have h2 : d ≠ init.length := fun e => hc (List.contains_iff_mem.mpr (e ▸ hd))
        omega
      rw [foldl_eraseIdx_snoc a ds init hp hr', ih ds hp hr']

theorem mem_insertDesc (a x : ℕ) : ∀ l : List ℕ, x ∈ insertDesc a l ↔ x = a ∨ x ∈ l := by
  intro l
  induction l with
  | nil => simp [insertDesc]
  | cons b bs ih =>
    unfold insertDesc
    split
    · simp
    · simp only [List.mem_cons, ih]
      constructor
      · rintro (h | h | h)
        · exact Or.inr (Or.inl h)
        · exact Or.inl h
        · exact Or.inr (Or.inr h)
      · rintro (h | h | h)
        · exact Or.inr (Or.inl h)
        · exact Or.inl h
        · exact Or.inr (Or.inr h)

theorem insertDesc_perm (a : ℕ) : ∀ l : List ℕ, (insertDesc a l).Perm (a :: l) := by
  intro l
  induction l with
  | nil => exact List.Perm.refl _
  | cons b bs ih =>
    unfold insertDesc
    split
    · exact List.Perm.refl _
    · exact (List.Perm.cons b ih).trans (List.Perm.swap a b bs)

theorem pairwise_insertDesc (a : ℕ) : ∀ l : List ℕ, l.Pairwise (fun x y => y ≤ x) →
    (insertDesc a l).Pairwise (fun x y => y ≤ x) := by
  intro l
  induction l with
  | nil => intro _; simp [insertDesc]
  | cons b bs ih =>
    intro hp
    obtain ⟨hb, hbs⟩ := List.pairwise_cons.mp hp
    unfold insertDesc
    split
    · rename_i hba
      refine List.pairwise_cons.mpr ⟨?_, hp⟩
      intro y hy
      rcases List.mem_cons.mp hy with rfl | hy
      · exact hba
      · exact le_trans (hb y hy) hba
    · rename_i hba
      refine List.pairwise_cons.mpr ⟨?_, ih hbs⟩
      intro y hy
      rcases (mem_insertDesc a y bs).mp hy with rfl | hy
      · omega
      · exact hb y hy

theorem sortDesc_perm : ∀ l : List ℕ, (sortDesc l).Perm l := by
  intro l
  induction l with
  | nil => exact List.Perm.refl _
  | cons a as ih =>
    show (insertDesc a (sortDesc as)).Perm (a :: as)
    exact (insertDesc_perm a _).trans (List.Perm.cons a ih)

theorem sortDesc_pairwise : ∀ l : List ℕ, (sortDesc l).Pairwise (fun x y => y ≤ x) := by
  intro l
  induction l with
  | nil => exact List.Pairwise.nil
  | cons a as ih => exact pairwise_insertDesc a _ ih

/-- `sorted(indexes, reverse=True)` of a duplicate-free list is strictly descending, with the same members -/
theorem sortDesc_spec (dels : List ℕ) (hnd : dels.Nodup) :
    (sortDesc dels).Pairwise (fun x y => y < x) ∧ ∀ d, d ∈ sortDesc dels ↔ d ∈ dels := by
  have hperm := sortDesc_perm dels
  have hnd' : (sortDesc dels).Nodup := hperm.nodup_iff.mpr hnd
  refine ⟨?_, fun d => hperm.mem_iff⟩
  have := List.Pairwise.and (sortDesc_pairwise dels) hnd'
  exact this.imp (fun {a b} h => by
    have h1 : b ≤ a := h.1
    have h2 : a ≠ b := h.2
    omega)

/-! ### `choldeleteindexes` -/

theorem cholDelete1_subMat (sqrt : α → α) (hs : SqrtContract sqrt) (A : List (List α)) (idx : List ℕ)
    (U : List (List α)) (d : ℕ) (hd : d < idx.length)
    (hf : IsCholFactor idx.length U (subMat A idx)) :
    IsCholFactor (idx.eraseIdx d).length (cholDelete1 sqrt U d) (subMat A (idx.eraseIdx d)) := by
  have hlen : (idx.eraseIdx d).length = idx.length - 1 := List.length_eraseIdx_of_lt hd
  have hn : idx.length = (idx.length - 1) + 1 := by omega
  rw [hlen]
  rw [hn] at hf
  apply cholDelete1_spec sqrt hs (idx.length - 1) U (subMat A idx) _ d hf (by omega)
  intro i j hi hj
  have hi' : i < (idx.eraseIdx d).length := by omega
  have hj' : j < (idx.eraseIdx d).length := by omega
  rw [mget_subMat A _ i j hi' hj',
    mget_subMat A idx _ _ (by have := skip_lt d i _ hi; omega) (by have := skip_lt d j _ hj; omega)]
  have hget : ∀ k (hk : k < (idx.eraseIdx d).length) (hk2 : skip d k < idx.length),
      (idx.eraseIdx d)[k] = idx[skip d k] := by
    intro k hk hk2
    rw [List.getElem_eraseIdx]
    unfold skip
    split <;> rfl
  rw [hget i hi', hget j hj']

/-- **`choldeleteindexes` keeps the factor exact.**  `U` the exact factor of `A[idx][:, idx]`; `dels` a
    duplicate-free list of positions of `idx` in ANY order: the result is the exact factor of
    `A[idx'][:, idx']` for `idx' = np.delete(idx, dels)`, the remaining indices in their order. -/
theorem choldeleteindexes_spec (sqrt : α → α) (hs : SqrtContract sqrt) (A : List (List α)) (idx : List ℕ)
    (U : List (List α)) (hf : IsCholFactor idx.length U (subMat A idx))
    (dels : List ℕ) (hnd : dels.Nodup) (hr : ∀ d, d ∈ dels → d < idx.length) :
    IsCholFactor (npDelete idx dels).length (choldeleteindexes sqrt U dels) (subMat A (npDelete idx dels)) := by
  obtain ⟨hp, hmem⟩ := sortDesc_spec dels hnd
  have hr' : ∀ d, d ∈ (sortDesc dels) → d < idx.length :=
    fun d hd => hr d ((hmem d).mp hd)
  have hnp : npDelete idx dels = (sortDesc dels).foldl List.eraseIdx idx := by
    rw [foldl_eraseIdx_desc idx _ hp hr']
    apply npDelete_congr
    intro k _
    by_cases h : k ∈ dels
    · rw [List.contains_iff_mem.mpr h, List.contains_iff_mem.mpr ((hmem k).mpr h)]
    · have h' : k ∉ (sortDesc dels) := fun e => h ((hmem k).mp e)
      have e1 : dels.contains k = false := by simpa using h
      have e2 : (sortDesc dels).contains k = false := by simpa using h'
      rw [e1, e2]
  rw [hnp]
  unfold choldeleteindexes
  generalize (sortDesc dels) = ds at hp hr' ⊢
  clear hnp hmem hr hnd
  induction ds generalizing U idx with
  | nil => exact hf
  | cons d ds ih =>
    obtain ⟨hhd, htl⟩ := List.pairwise_cons.mp hp
    have hd : d < idx.length := hr' d (by simp)
    rw [List.foldl_cons, List.foldl_cons]
    apply ih (idx.eraseIdx d) (cholDelete1 sqrt U d) (cholDelete1_subMat sqrt hs A idx U d hd hf) htl
    intro e he
    have := hhd e he
    rw [List.length_eraseIdx_of_lt hd]
    omega

end Field

end Model
