/-
Proofs/CholeskyExact.lean — property C05, part 6 of the Cholesky bookkeeping: closing the "solver
completeness" gap of `b_terminates_exact`.

Proofs/NNLSCount.lean proves "main exit, or some passive-set solve returned `none`".  Here the same argument
is carried out once more keeping track of WHICH passive list the failing solve was asked for — always a
duplicate-free in-range list (`GoodIdx`) — so that a solver which never fails on such lists (the Cholesky
path on a symmetric positive-definite system, `cholSolve_pd`) is seen to reach the main exit outright:
`fnnls_exact_good` (any contract-meeting solver) and `fnnls_cholesky_exact` (the Cholesky path).
The proofs of `innerLoop_outcome_good` / `outerLoop_exact_good` follow `innerLoop_outcome` /
`outerLoop_exact` of Proofs/NNLSCount.lean line by line.
-/
import Proofs.CholeskyNNLS
import Proofs.NNLSCount

set_option linter.unusedSectionVars false
set_option linter.unusedVariables false

namespace Model

open Impl Spec

section Field
variable {α : Type} [Field α] [LinearOrder α] [IsStrictOrderedRing α]

/-- a passive list `fnnls` can ask a solve for: duplicate-free and in range -/
def GoodIdx (n : ℕ) (idx : List ℕ) : Prop := idx.Nodup ∧ ∀ i, i ∈ idx → i < n

theorem fixConstraint_none_good (solve : List (List α) → List α → Option (List α))
    (n : ℕ) (A : List (List α)) (b : List α) (tol : α) (st : St α) (hinv : IInv n A b st)
    (h : fixConstraint solve A b tol st = none) : ∃ idx, GoodIdx n idx ∧ solveOn solve A b idx = none := by
  unfold fixConstraint at h
  simp only at h
  split at h
  · simp at h
  · split at h
    · rename_i hx
      exact ⟨_, ⟨hinv.nodup.filter _, fun i hi => hinv.range i (List.mem_filter.mp hi).1⟩, hx⟩
    · simp at h

variable (solve : List (List α) → List α → Option (List α)) (hc : Spec.SolveContract solve)
variable (n : ℕ) (A : List (List α)) (b : List α) (hsym : Spec.IsSymm n A) (hpd : Spec.IsPD n A)
  (hb : b.length = n)

include hc hsym in
theorem innerLoop_outcome_good (tol : α) (htol : 0 ≤ tol) (maxIter : ℕ) :
    ∀ (fuel : ℕ) (st : St α), IInv n A b st →
      st.P.count true < fuel → st.loopCount2 + st.P.count true ≤ maxIter →
      (∃ st2, innerLoop solve A b tol maxIter fuel st = .ok st2 ∧ st2.loopCount = st.loopCount)
      ∨ (innerLoop solve A b tol maxIter fuel st = .error .singular
          ∧ ∃ idx, GoodIdx n idx ∧ solveOn solve A b idx = none) := by
  intro fuel
  induction fuel with
  | zero => intro st _ hf; omega
  | succ fuel ih =>
    intro st hinv hf hbud
    rw [innerLoop]
    split
    · rename_i hg
      split
      · rename_i hnone
        exact Or.inr ⟨rfl, fixConstraint_none_good solve n A b tol st hinv hnone⟩
      · rename_i st1 hfix
        obtain ⟨hlt, hP1, hs1, hd1, hlc⟩ :=
          fixConstraint_shrinks solve A b n tol htol st st1 hinv.hP hinv.hs hinv.hd hg hfix
        have hcnt := (fixConstraint_counters solve A b tol st st1 hfix).1
        have hinv1 := fixConstraint_inv solve hc n A b hsym.1 hsym.2.1 tol st st1 hinv hfix
        simp only
        split
        · rename_i hgt; omega
        · rcases ih { st1 with loopCount2 := st1.loopCount2 + 1 }
            ⟨hinv1.hP, hinv1.hs, hinv1.hd, hinv1.sync, hinv1.nodup, hinv1.range, hinv1.off, hinv1.solves⟩
            (by show st1.P.count true < fuel; omega)
            (by show st1.loopCount2 + 1 + st1.P.count true ≤ maxIter; omega) with ⟨st2, h1, h2⟩ | h1
          · exact Or.inl ⟨st2, h1, by rw [h2]; exact hcnt⟩
          · exact Or.inr h1
    · exact Or.inl ⟨st, rfl, rfl⟩

include hc hsym hpd hb in
theorem outerLoop_exact_good (maxIter : ℕ) (hmax : 2 ^ n + n ≤ maxIter) :
    ∀ (fuel : ℕ) (st : St α) (visited : List (List Bool)),
      OInv n A b 0 st → visited.Nodup → (∀ V, V ∈ visited → V.length = n) →
      (∀ V, V ∈ visited → ∀ x, FaceMin n A b V x → Spec.qform A b st.d < Spec.qform A b x) →
      st.loopCount ≤ visited.length →
      st.loopCount2 + st.P.count true ≤ st.loopCount + n →
      2 ^ n < fuel + visited.length →
      (∃ d lc lc2, outerLoop solve A b 0 maxIter fuel st = .ok d .main lc lc2)
        ∨ (outerLoop solve A b 0 maxIter fuel st = .err .singular
            ∧ ∃ idx, GoodIdx n idx ∧ solveOn solve A b idx = none) := by
  have hA := hsym.1
  have hrow := hsym.2.1
  intro fuel
  induction fuel with
  | zero =>
    intro st visited _ hnd hl _ _ _ hf
    have := masks_nodup_length_le n visited hnd hl
    omega
  | succ fuel ih =>
    intro st visited ho hnd hl hdesc hlc hlc2 hf
    have hinv := ho.inv
    have hwl : st.w.length = n := by rw [ho.hw, vsub_length, matVec_length, hA, hb, Nat.min_self]
    have hfd : FaceMin n A b st.P st.d := by rw [ho.hds]; exact hinv.faceMin
    have hPnew : st.P ∉ visited := fun hm => lt_irrefl _ (hdesc st.P hm st.d hfd)
    have hnd' : (st.P :: visited).Nodup := List.nodup_cons.mpr ⟨hPnew, hnd⟩
    have hl' : ∀ V, V ∈ st.P :: visited → V.length = n := by
      intro V hV
      rcases List.mem_cons.mp hV with rfl | hV
      · exact hinv.hP
      · exact hl V hV
    have hvis' := masks_nodup_length_le n (st.P :: visited) hnd' hl'
    simp only [List.length_cons] at hvis'
    rw [outerLoop]
    split
    · rename_i hg
      obtain ⟨hid, hpid⟩ := idmax_spec n st.w st.P 0 le_rfl hwl hinv.hP hg
      have hnotmem : argmax (maskActive st.w st.P) ∉ st.Pin := fun hm => by
        have := (hinv.sync _ hid).mpr hm
        rw [hpid] at this; exact absurd this (by simp)
      have hgood : GoodIdx n (st.Pin ++ [argmax (maskActive st.w st.P)]) := by
        refine ⟨?_, ?_⟩
        · rw [List.nodup_append]
          refine ⟨hinv.nodup, by simp, ?_⟩
          intro a ha c hc'
          have : c = argmax (maskActive st.w st.P) := by simpa using hc'
          subst this
          intro hac; subst hac; exact hnotmem ha
        · intro i hi
          rcases List.mem_append.mp hi with h1 | h1
          · exact hinv.range i h1
          · have : i = argmax (maskActive st.w st.P) := by simpa using h1
            rw [this]; exact hid
      simp only
      split
      · rename_i hnone
        exact Or.inr ⟨rfl, _, hgood, hnone⟩
      · rename_i x hx
        have hI := outer_step_inv solve hc n A b hA hrow 0 st hinv _ hid hpid x hx
        have hcnt : (st.P.set (argmax (maskActive st.w st.P)) true).count true = st.P.count true + 1 :=
          count_set_true st.P _ (hinv.hP ▸ hid) hpid
        have hout := innerLoop_outcome_good solve hc n A b hsym 0 le_rfl maxIter (maxIter + 2) _ hI
          (by show (st.P.set (argmax (maskActive st.w st.P)) true).count true < maxIter + 2; omega)
          (by show st.loopCount2 + (st.P.set (argmax (maskActive st.w st.P)) true).count true ≤ maxIter
              omega)
        split
        · rename_i e heq
          rcases hout with ⟨st2, h1, _⟩ | ⟨h1, hw⟩
          · rw [heq] at h1; cases h1
          · rw [heq] at h1; cases h1; exact Or.inr ⟨rfl, hw⟩
        · rename_i st2 heq
          have hlc' : st2.loopCount = st.loopCount := by
            rcases hout with ⟨st2', h1, h2⟩ | ⟨h1, _⟩
            · rw [heq] at h1; cases h1; exact h2
            · rw [heq] at h1; cases h1
          have hdec := outer_step_decreases solve hc n A b hsym hpd hb maxIter st ho hg x hx _ st2 heq
          obtain ⟨hinv2, hpos2⟩ := innerLoop_inv solve hc n A b hA hrow 0 maxIter _ _ st2 hI heq
          have hterm := (innerLoop_terminates solve A b n 0 le_rfl maxIter (maxIter + 2) _ hI.hP hI.hs hI.hd
            (by show (st.P.set (argmax (maskActive st.w st.P)) true).count true < maxIter + 2; omega)).2
            st2 heq
          have hterm' : st2.loopCount2 + st2.P.count true ≤ st.loopCount2 + (st.P.count true + 1) := by
            rw [← hcnt]; exact hterm
          have hne : (st.P == st2.P) = false := by
            cases hbeq : (st.P == st2.P) with
            | false => rfl
            | true =>
              exfalso
              have hPP : st.P = st2.P := eq_of_beq hbeq
              have hf2 : FaceMin n A b st.P st2.s := by rw [hPP]; exact hinv2.faceMin
              have := faceMin_unique n A b hsym hpd hb st.P st2.s st.d hf2 hfd
              rw [this] at hdec
              exact lt_irrefl _ hdec
          generalize hnu : (if (st.P == st2.P) = true then st2.noUpdate + 1 else 0) = nu
          have hnu0 : nu = 0 := by rw [← hnu, hne]; simp
          subst hnu0
          split
          · rename_i hgt; omega
          · split
            · rename_i h3; omega
            · refine ih _ (st.P :: visited) ?_ hnd' hl' ?_ ?_ ?_ ?_
              · exact ⟨⟨hinv2.hP, hinv2.hs, hinv2.hs, hinv2.sync, hinv2.nodup, hinv2.range, hinv2.off,
                  hinv2.solves⟩, hpos2, rfl, rfl⟩
              · intro V hV y hy
                show Spec.qform A b st2.s < Spec.qform A b y
                rcases List.mem_cons.mp hV with rfl | hV
                · rw [faceMin_unique n A b hsym hpd hb _ y st.d hy hfd]; exact hdec
                · exact lt_trans hdec (hdesc V hV y hy)
              · show st2.loopCount + 1 ≤ (st.P :: visited).length
                simp only [List.length_cons]; omega
              · show st2.loopCount2 + st2.P.count true ≤ st2.loopCount + 1 + n
                omega
              · simp only [List.length_cons]; omega
    · exact Or.inl ⟨st.d, _, _, rfl⟩

include hc hsym hpd hb in
/-- `fnnls_exact` of Proofs/NNLSCount.lean, remembering that a failed solve was asked for a duplicate-free
    in-range passive list -/
theorem fnnls_exact_good (maxIter : ℕ) (hmax : 2 ^ n + n ≤ maxIter) (pInit : Option (List ℕ))
    (hp : ∀ idx, pInit = some idx → idx.Nodup ∧ ∀ i, i ∈ idx → i < n) :
    (∃ d lc lc2, fnnls solve A b 0 maxIter pInit = .ok d .main lc lc2)
      ∨ (fnnls solve A b 0 maxIter pInit = .err .singular
          ∧ ∃ idx, GoodIdx n idx ∧ solveOn solve A b idx = none) := by
  unfold fnnls
  split
  · rename_i hnone
    refine Or.inr ⟨rfl, ?_⟩
    unfold initState at hnone
    cases pInit with
    | none => simp at hnone
    | some idx =>
      simp only at hnone
      split at hnone
      · rename_i hx
        refine ⟨_, ⟨maskIndices_nodup _, fun i hi => ?_⟩, hx⟩
        have := ((mem_maskIndices _ i).mp hi).1
        simpa [maskOfIndices, hsym.1] using this
      · split at hnone <;> simp at hnone
  · rename_i st0 h0
    have ho := initState_inv solve hc n A b hsym.1 hsym.2.1 0 pInit hp st0 h0
    obtain ⟨h1, h2⟩ := initState_counters solve A b 0 pInit st0 h0
    have hcnt : st0.P.count true ≤ n := by rw [← ho.inv.hP]; exact List.count_le_length
    exact outerLoop_exact_good solve hc n A b hsym hpd hb maxIter hmax (maxIter + 2) st0 []
      ho List.nodup_nil (by simp) (by simp) (by simp [h1]) (by omega) (by simp; omega)

omit solve hc in
include hsym hpd hb in
/-- **total correctness of the Cholesky path in exact arithmetic.**  Symmetric positive-definite `A`,
    tolerance 0, `sqrt` meeting its contract, cold start or any duplicate-free in-range warm start,
    `2^n + n ≤ maxIter`: `fnnls` run with the passive-set solves of `fnnls_cholesky` (carried factor +
    `cho_solve`) leaves through the MAIN exit — no failed solve, no guard, no `no_update` break. -/
theorem fnnls_cholesky_exact (sqrt : α → α) (hs : SqrtContract sqrt) (maxIter : ℕ)
    (hmax : 2 ^ n + n ≤ maxIter) (pInit : Option (List ℕ))
    (hp : ∀ idx, pInit = some idx → idx.Nodup ∧ ∀ i, i ∈ idx → i < n) :
    ∃ d lc lc2, fnnls (cholSolve sqrt) A b 0 maxIter pInit = .ok d .main lc lc2 := by
  rw [← fnnls_cholSolveG_eq sqrt n A hsym b 0 maxIter pInit]
  rcases fnnls_exact_good (cholSolveG sqrt) (cholSolveG_contract sqrt hs) n A b hsym hpd hb maxIter hmax
    pInit hp with h | ⟨_, idx, hgood, hnone⟩
  · exact h
  · exfalso
    rw [solveOn_cholSolveG sqrt n A hsym b idx] at hnone
    obtain ⟨x, hx⟩ := cholSolve_pd sqrt hs n A hsym hpd idx hgood.1 hgood.2 (gather b idx)
    unfold solveOn at hnone
    rw [hx] at hnone
    cases hnone

end Field

end Model
