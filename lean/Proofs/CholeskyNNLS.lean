/-
Proofs/CholeskyNNLS.lean — helper lemmas for Model/Cholesky.lean (property C05), part 5: the composition
with the active-set solver of Model/NNLS.lean.
  * `cholFactor_spec` / `cholSolve_sound`: the factor built by successive `cholinsertlast` calls and the
    `cho_solve` through it solve `M x = r` for a symmetric `M` (whenever they return);
  * `cholFactor_pd` / `cholSolve_pd`: on principal submatrices of a symmetric PD matrix they never fail;
  * `cholSolveG` (the same solver behind a symmetry guard, a proof device) meets `Spec.SolveContract`
    unconditionally, and `fnnls` cannot tell it from `cholSolve` on a symmetric system (`fnnls_congr`);
  * `CholReach`: the factors reachable by the insert / delete calls `fnnls_cholesky` makes are exact.
-/
import Proofs.CholeskyPD

set_option linter.unusedSectionVars false
set_option linter.unusedVariables false

namespace Model

open Impl Spec

section Field
variable {α : Type} [Field α] [LinearOrder α] [IsStrictOrderedRing α]

/-! ### shapes -/

theorem solveUT_length (U : List (List α)) (b : List α) : (solveUT U b).length = b.length := by
  unfold solveUT
  exact foldl_range_inv _ b (fun _ y => y.length = b.length) b.length rfl
    (fun t y _ h => by simpa using h)

theorem border_square (n : ℕ) (U : List (List α)) (c last : List α) (hU : IsSquare n U) (hc : c.length = n)
    (hl : last.length = n + 1) : IsSquare (n + 1) (List.zipWith (fun row v => row ++ [v]) U c ++ [last]) := by
  refine ⟨by simp [hU.1, hc], ?_⟩
  intro r hr
  rcases List.mem_append.mp hr with h | h
  · obtain ⟨i, hi, rfl⟩ := List.mem_iff_getElem.mp h
    have hi' : i < U.length := by simp at hi; omega
    simp [hU.2 _ (List.getElem_mem hi')]
  · simp at h; subst h; exact hl

theorem cholinsertlast_eq (sqrt : α → α) (U : List (List α)) (x : List α) (S : List (List α))
    (h : cholinsertlast sqrt U x = some S) :
    ¬ (vget x U.length - dot (solveUT U (x.take U.length)) (solveUT U (x.take U.length)) < 0)
    ∧ S = List.zipWith (fun row v => row ++ [v]) U (solveUT U (x.take U.length))
          ++ [List.replicate U.length 0
            ++ [sqrt (vget x U.length - dot (solveUT U (x.take U.length)) (solveUT U (x.take U.length)))]] := by
  unfold cholinsertlast at h
  simp only at h
  split at h
  · cases h
  · rename_i hlt
    exact ⟨hlt, (Option.some.inj h).symm⟩

/-- a positive new pivot means a positive Schur complement -/
theorem schur_pos_of_pivot (sqrt : α → α) (hs : SqrtContract sqrt) (k : ℕ) (U : List (List α)) (x : List α)
    (S : List (List α)) (hU : IsSquare k U) (hx : x.length = k + 1)
    (h : cholinsertlast sqrt U x = some S) (hp : 0 < mget S k k) :
    0 < vget x k - dot (solveUT U (x.take k)) (solveUT U (x.take k)) := by
  obtain ⟨hge, hS⟩ := cholinsertlast_eq sqrt U x S h
  rw [hU.1] at hge hS
  have hyl : (solveUT U (x.take k)).length = k := by rw [solveUT_length]; simp [hx]
  have hpiv : mget S k k = sqrt (vget x k - dot (solveUT U (x.take k)) (solveUT U (x.take k))) := by
    rw [hS, mget_border k U _ _ hU hyl k k, if_neg (lt_irrefl k), if_pos rfl, vget_replicate_append, if_pos rfl]
  rcases lt_or_eq_of_le (not_lt.mp hge) with hlt | heq
  · exact hlt
  · exfalso
    rw [hpiv, ← heq] at hp
    have h0 := (hs 0 le_rfl).2
    have : sqrt (0 : α) = 0 := by
      rcases mul_self_eq_zero.mp h0 with h
      exact h
    rw [this] at hp
    exact lt_irrefl _ hp

theorem vget_take (l : List α) (m j : ℕ) (hj : j < m) : vget (l.take m) j = vget l j := by
  simp [vget, List.getD_eq_getElem?_getD, hj]

/-! ### the factor built by successive insertions -/

/-- loop invariant of `cholFactor`: after `i` insertions the carried array is i×i, and as soon as its pivots
    are positive it is the exact factor of the leading i×i block of `M` -/
theorem cholFactor_inv (sqrt : α → α) (hs : SqrtContract sqrt) (n : ℕ) (M : List (List α))
    (hsym : IsSymm n M) (i : ℕ) (hi : i ≤ n) :
    ∀ U, (List.range i).foldl (fun acc i =>
        match acc with
        | none => none
        | some U => cholinsertlast sqrt U ((M.getD i []).take (i + 1))) (some []) = some U →
      IsSquare i U ∧ (PosDiag i U → IsCholFactor i U M) := by
  refine foldl_range_inv _ (some []) (fun i acc => ∀ U, acc = some U →
      IsSquare i U ∧ (PosDiag i U → IsCholFactor i U M)) i ?_ ?_
  · intro U hU
    cases hU
    refine ⟨⟨rfl, by simp⟩, fun _ => ⟨⟨⟨rfl, by simp⟩, fun i j _ hi => absurd hi (by omega)⟩,
      fun i hi => absurd hi (by omega), fun i j hi => absurd hi (by omega)⟩⟩
  · intro t acc ht hinv S hS
    cases acc with
    | none => simp at hS
    | some U =>
      simp only at hS
      obtain ⟨hUsq, hUf⟩ := hinv U rfl
      have htn : t < M.length := by rw [hsym.1]; omega
      have hrowl : (M.getD t []).length = n := by
        rw [List.getD_eq_getElem?_getD, List.getElem?_eq_getElem htn]
        exact hsym.2.1 _ (List.getElem_mem htn)
      set x := (M.getD t []).take (t + 1) with hx
      have hxl : x.length = t + 1 := by rw [hx, List.length_take, hrowl]; omega
      have hyl : (solveUT U (x.take t)).length = t := by rw [solveUT_length]; simp [hxl]
      obtain ⟨hge, hSe⟩ := cholinsertlast_eq sqrt U x S hS
      rw [hUsq.1] at hge hSe
      have hSsq : IsSquare (t + 1) S := by
        rw [hSe]; exact border_square t U _ _ hUsq hyl (by simp)
      refine ⟨hSsq, fun hpos => ?_⟩
      have hUpos : PosDiag t U := by
        intro a ha
        have := hpos a (by omega)
        rw [hSe, mget_border t U _ _ hUsq hyl a a, if_pos ha, if_pos ha] at this
        exact this
      have hschur := schur_pos_of_pivot sqrt hs t U x S hUsq hxl hS (hpos t (by omega))
      have hxe : ∀ j, j ≤ t → mget M t j = vget x j := fun j hj => by
        rw [hx, vget_take _ _ _ (by omega)]; rfl
      obtain ⟨S', hS', hf'⟩ := cholinsertlast_spec sqrt hs t U M M x (hUf hUpos) hxl (fun _ _ _ _ => rfl)
        hxe (fun j hj => by rw [mget_symm_all n M hsym j t]; exact hxe j hj) hschur
      rw [hS] at hS'
      cases hS'
      exact hf'

theorem cholFactor_spec (sqrt : α → α) (hs : SqrtContract sqrt) (n : ℕ) (M : List (List α))
    (hsym : IsSymm n M) (U : List (List α)) (h : cholFactor sqrt M = some U) :
    IsSquare n U ∧ (PosDiag n U → IsCholFactor n U M) := by
  unfold cholFactor at h
  rw [hsym.1] at h
  exact cholFactor_inv sqrt hs n M hsym n le_rfl U h

/-- the passive-set solve through the carried factor meets the solve contract on symmetric systems -/
theorem cholSolve_sound (sqrt : α → α) (hs : SqrtContract sqrt) (n : ℕ) (M : List (List α))
    (hsym : IsSymm n M) (r : List α) (hr : r.length = n) (x : List α)
    (h : cholSolve sqrt M r = some x) : x.length = n ∧ matVec M x = r := by
  unfold cholSolve at h
  split at h
  · cases h
  · rename_i U hU
    obtain ⟨hUsq, hUf⟩ := cholFactor_spec sqrt hs n M hsym U hU
    split at h
    · rename_i hall
      cases h
      have hpos : PosDiag n U := by
        intro i hi
        have := List.all_eq_true.mp hall i (List.mem_range.mpr (by rw [hUsq.1]; exact hi))
        exact of_decide_eq_true this
      exact choSolve_spec n U M r (hUf hpos) ⟨hsym.1, hsym.2.1⟩ hr
    · cases h

/-! ### completeness on positive-definite systems -/

theorem subMat_symm (n : ℕ) (A : List (List α)) (hsym : IsSymm n A) (idx : List ℕ) :
    IsSymm idx.length (subMat A idx) := by
  refine ⟨subMat_length A idx, fun r hr => subMat_row_length A idx r hr, fun i j hi hj => ?_⟩
  rw [mget_subMat A idx i j hi hj, mget_subMat A idx j i hj hi]
  exact mget_symm_all n A hsym _ _

/-- **solver completeness.**  On a principal submatrix (duplicate-free in-range list, any order) of a
    symmetric positive-definite matrix the successive insertions never fail and yield the exact factor. -/
theorem cholFactor_pd (sqrt : α → α) (hs : SqrtContract sqrt) (n : ℕ) (A : List (List α))
    (hsym : IsSymm n A) (hpd : IsPD n A) (idx : List ℕ) (hnd : idx.Nodup) (hr : ∀ i, i ∈ idx → i < n) :
    ∃ U, cholFactor sqrt (subMat A idx) = some U ∧ IsCholFactor idx.length U (subMat A idx) := by
  have hMsym := subMat_symm n A hsym idx
  unfold cholFactor
  rw [subMat_length]
  refine foldl_range_inv _ (some []) (fun i acc => ∃ U, acc = some U ∧ IsCholFactor i U (subMat A idx))
    idx.length ?_ ?_
  · exact ⟨[], rfl, ⟨⟨rfl, by simp⟩, fun i j _ hi => absurd hi (by omega)⟩,
      fun i hi => absurd hi (by omega), fun i j hi => absurd hi (by omega)⟩
  · intro t acc ht ⟨U, hacc, hf⟩
    subst hacc
    simp only
    have htn : t < (subMat A idx).length := by rw [subMat_length]; exact ht
    have hrowl : ((subMat A idx).getD t []).length = idx.length := by
      rw [List.getD_eq_getElem?_getD, List.getElem?_eq_getElem htn]
      exact subMat_row_length A idx _ (List.getElem_mem htn)
    set x := ((subMat A idx).getD t []).take (t + 1) with hx
    have hxl : x.length = t + 1 := by rw [hx, List.length_take, hrowl]; omega
    have hxe : ∀ j, j ≤ t → mget (subMat A idx) t j = vget x j := fun j hj => by
      rw [hx, vget_take _ _ _ (by omega)]; rfl
    have hxc : ∀ j, j ≤ t → mget (subMat A idx) j t = vget x j := fun j hj => by
      rw [mget_symm_all idx.length _ hMsym j t]; exact hxe j hj
    have hschur := schur_pos t U (subMat A idx) x hf hxl hxe hxc (by
      intro z hz
      have htl : (idx.take (t + 1)).length = t + 1 := by rw [List.length_take]; omega
      have := subMat_pd n A hsym hpd (idx.take (t + 1)) (hnd.sublist (List.take_sublist _ _))
        (fun i hi => hr i (List.mem_of_mem_take hi)) z ⟨t, by omega, hz⟩
      rw [htl] at this
      have hconv : ∀ a b, a < t + 1 → b < t + 1 →
          mget (subMat A (idx.take (t + 1))) a b = mget (subMat A idx) a b := by
        intro a b ha hb
        rw [mget_subMat A _ a b (by omega) (by omega), mget_subMat A idx a b (by omega) (by omega),
          List.getElem_take, List.getElem_take]
      rw [Finset.sum_congr rfl (fun a ha => by
        rw [Finset.sum_congr rfl (fun b hb => by
          rw [hconv a b (Finset.mem_range.mp ha) (Finset.mem_range.mp hb)])])] at this
      exact this)
    obtain ⟨S, hS, hfS⟩ := cholinsertlast_spec sqrt hs t U (subMat A idx) (subMat A idx) x hf hxl
      (fun _ _ _ _ => rfl) hxe hxc hschur
    exact ⟨S, hS, hfS⟩

theorem cholSolve_pd (sqrt : α → α) (hs : SqrtContract sqrt) (n : ℕ) (A : List (List α))
    (hsym : IsSymm n A) (hpd : IsPD n A) (idx : List ℕ) (hnd : idx.Nodup) (hr : ∀ i, i ∈ idx → i < n)
    (r : List α) : ∃ x, cholSolve sqrt (subMat A idx) r = some x := by
  obtain ⟨U, hU, hf⟩ := cholFactor_pd sqrt hs n A hsym hpd idx hnd hr
  unfold cholSolve
  rw [hU]
  simp only
  have hall : (List.range U.length).all (fun i => decide (0 < mget U i i)) = true := by
    apply List.all_eq_true.mpr
    intro i hi
    exact decide_eq_true (hf.2.1 i (by rw [← hf.1.1.1]; exact List.mem_range.mp hi))
  rw [if_pos hall]
  exact ⟨_, rfl⟩

/-! ### the solve contract, unconditionally, behind a symmetry guard -/

open Classical in
/-- `cholSolve` behind a guard "the system is symmetric and its sizes match" — a proof device: `fnnls` only
    ever solves principal subsystems of its (symmetric) input, so the guard never fires there
    (`fnnls_cholSolveG_eq`), and behind it the contract holds for every input. -/
noncomputable def cholSolveG (sqrt : α → α) (M : List (List α)) (r : List α) : Option (List α) :=
  if IsSymm r.length M then cholSolve sqrt M r else none

theorem cholSolveG_contract (sqrt : α → α) (hs : SqrtContract sqrt) : SolveContract (cholSolveG sqrt) := by
  intro M r x h
  unfold cholSolveG at h
  split at h
  · rename_i hsym
    exact cholSolve_sound sqrt hs r.length M hsym r rfl x h
  · cases h

/-! ### `fnnls` depends on its solver only through the passive-set solves -/

section Congr
variable (s s' : List (List α) → List α → Option (List α)) (A : List (List α)) (b : List α)
  (h : ∀ idx, solveOn s A b idx = solveOn s' A b idx)

include h in
theorem fixConstraint_congr (tol : α) (st : St α) :
    fixConstraint s A b tol st = fixConstraint s' A b tol st := by
  unfold fixConstraint
  simp only [h]

include h in
theorem innerLoop_congr (tol : α) (maxIter : ℕ) : ∀ (fuel : ℕ) (st : St α),
    innerLoop s A b tol maxIter fuel st = innerLoop s' A b tol maxIter fuel st := by
  intro fuel
  induction fuel with
  | zero => intro st; rfl
  | succ fuel ih =>
    intro st
    rw [innerLoop, innerLoop, fixConstraint_congr s s' A b h]
    simp only [ih]

include h in
theorem outerLoop_congr (tol : α) (maxIter : ℕ) : ∀ (fuel : ℕ) (st : St α),
    outerLoop s A b tol maxIter fuel st = outerLoop s' A b tol maxIter fuel st := by
  intro fuel
  induction fuel with
  | zero => intro st; rfl
  | succ fuel ih =>
    intro st
    rw [outerLoop, outerLoop]
    simp only [h, innerLoop_congr s s' A b h, ih]

include h in
theorem fnnls_congr (tol : α) (maxIter : ℕ) (pInit : Option (List ℕ)) :
    fnnls s A b tol maxIter pInit = fnnls s' A b tol maxIter pInit := by
  unfold fnnls initState
  simp only [h, outerLoop_congr s s' A b h]

end Congr

theorem solveOn_cholSolveG (sqrt : α → α) (n : ℕ) (A : List (List α)) (hsym : IsSymm n A) (b : List α)
    (idx : List ℕ) : solveOn (cholSolveG sqrt) A b idx = solveOn (cholSolve sqrt) A b idx := by
  unfold solveOn cholSolveG
  rw [if_pos (by rw [gather_length]; exact subMat_symm n A hsym idx)]

/-- on a symmetric system `fnnls` run with the guarded solver is `fnnls` run with the Cholesky path itself -/
theorem fnnls_cholSolveG_eq (sqrt : α → α) (n : ℕ) (A : List (List α)) (hsym : IsSymm n A) (b : List α)
    (tol : α) (maxIter : ℕ) (pInit : Option (List ℕ)) :
    fnnls (cholSolveG sqrt) A b tol maxIter pInit = fnnls (cholSolve sqrt) A b tol maxIter pInit :=
  fnnls_congr _ _ A b (solveOn_cholSolveG sqrt n A hsym b) tol maxIter pInit

/-! ### the factors `fnnls_cholesky` can be carrying -/

/-- `CholReach sqrt A idx U`: `U` is obtained from the empty factor by the calls `fnnls_cholesky` /
    `fix_constraint_cholesky` make — `cholinsertlast(U, ZTZ[i][P_inorder])` after `P_inorder.append(i)` (with a
    positive new pivot), `choldeleteindexes(U, id_delete)` together with `np.delete(P_inorder, id_delete)` —
    and `idx` is the value of `P_inorder` that goes with it. -/
inductive CholReach (sqrt : α → α) (A : List (List α)) : List ℕ → List (List α) → Prop
  | empty : CholReach sqrt A [] []
  | insert (idx : List ℕ) (U : List (List α)) (i : ℕ) (S : List (List α)) :
      CholReach sqrt A idx U →
      cholinsertlast sqrt U (gather (A.getD i []) (idx ++ [i])) = some S →
      0 < mget S idx.length idx.length →
      CholReach sqrt A (idx ++ [i]) S
  | delete (idx : List ℕ) (U : List (List α)) (dels : List ℕ) :
      CholReach sqrt A idx U → dels.Nodup → (∀ d, d ∈ dels → d < idx.length) →
      CholReach sqrt A (npDelete idx dels) (choldeleteindexes sqrt U dels)

theorem CholReach.factor (sqrt : α → α) (hs : SqrtContract sqrt) (n : ℕ) (A : List (List α))
    (hsym : IsSymm n A) (idx : List ℕ) (U : List (List α)) (h : CholReach sqrt A idx U) :
    IsCholFactor idx.length U (subMat A idx) := by
  induction h with
  | empty =>
    exact ⟨⟨⟨rfl, by simp⟩, fun i j _ hi => absurd hi (by simp)⟩, fun i hi => absurd hi (by simp),
      fun i j hi => absurd hi (by simp)⟩
  | insert idx U i S _ hS hp ih =>
    have hschur := schur_pos_of_pivot sqrt hs idx.length U _ S ih.1.1
      (by rw [gather_length]; simp) hS hp
    obtain ⟨S', hS', hf⟩ := cholinsertlast_subMat sqrt hs n A hsym idx i U ih hschur
    rw [hS] at hS'
    cases hS'
    exact hf
  | delete idx U dels _ hnd hr ih =>
    exact choldeleteindexes_spec sqrt hs A idx U ih dels hnd hr

/-! ### the carried factor and the factor built from scratch give the same passive-set solve -/

/-- a positive-definite principal subsystem has at most one solution -/
theorem pd_solution_unique (n : ℕ) (A : List (List α)) (hsym : IsSymm n A) (hpd : IsPD n A)
    (idx : List ℕ) (hnd : idx.Nodup) (hr : ∀ i, i ∈ idx → i < n) (x y : List α)
    (hx : x.length = idx.length) (hy : y.length = idx.length)
    (h : matVec (subMat A idx) x = matVec (subMat A idx) y) : x = y := by
  have hsq : (subMat A idx).length = idx.length := subMat_length A idx
  have hrow := subMat_row_length A idx
  by_contra hne
  have hex : ∃ a, a < idx.length ∧ vget x a - vget y a ≠ 0 := by
    by_contra hall
    push Not at hall
    apply hne
    apply List.ext_getElem (by rw [hx, hy])
    intro a h1 h2
    have := hall a (hx ▸ h1)
    rw [vget_eq_getElem x a h1, vget_eq_getElem y a h2] at this
    exact sub_eq_zero.mp this
  have hpos := subMat_pd n A hsym hpd idx hnd hr (fun a => vget x a - vget y a) hex
  have hzero : ∑ a ∈ Finset.range idx.length,
      (∑ b ∈ Finset.range idx.length, mget (subMat A idx) a b * (vget x b - vget y b))
        * (vget x a - vget y a) = 0 := by
    refine Finset.sum_eq_zero fun a ha => ?_
    have ha' := Finset.mem_range.mp ha
    have h1 := vget_matVec idx.length (subMat A idx) x hsq hrow hx a ha'
    have h2 := vget_matVec idx.length (subMat A idx) y hsq hrow hy a ha'
    have : ∑ b ∈ Finset.range idx.length, mget (subMat A idx) a b * (vget x b - vget y b) = 0 := by
      simp only [mul_sub, Finset.sum_sub_distrib]
      rw [← h1, ← h2, h, sub_self]
    rw [this, zero_mul]
  rw [hzero] at hpos
  exact lt_irrefl _ hpos

/-- the explicit form of `cholSolve_pd` -/
theorem cholSolve_pd_eq (sqrt : α → α) (hs : SqrtContract sqrt) (n : ℕ) (A : List (List α))
    (hsym : IsSymm n A) (hpd : IsPD n A) (idx : List ℕ) (hnd : idx.Nodup) (hr : ∀ i, i ∈ idx → i < n)
    (r : List α) : ∃ U0, IsCholFactor idx.length U0 (subMat A idx)
      ∧ cholSolve sqrt (subMat A idx) r = some (choSolve U0 r) := by
  obtain ⟨U, hU, hf⟩ := cholFactor_pd sqrt hs n A hsym hpd idx hnd hr
  refine ⟨U, hf, ?_⟩
  unfold cholSolve
  rw [hU]
  simp only
  have hall : (List.range U.length).all (fun i => decide (0 < mget U i i)) = true := by
    apply List.all_eq_true.mpr
    intro i hi
    exact decide_eq_true (hf.2.1 i (by rw [← hf.1.1.1]; exact List.mem_range.mp hi))
  rw [if_pos hall]

/-- **the carried factor does what the model's solver does.**  On a symmetric positive-definite `ZTZ`, for
    any factor `U` the code can be carrying for the passive list `idx` (`CholReach`),
    `cho_solve((U, False), ZTx[idx])` is the value of the passive-set solve `solveOn (cholSolve sqrt) ZTZ ZTx idx`
    that `Impl.fnnls` performs at that point. -/
theorem CholReach.solve_eq (sqrt : α → α) (hs : SqrtContract sqrt) (n : ℕ) (A : List (List α))
    (hsym : IsSymm n A) (hpd : IsPD n A) (b : List α) (idx : List ℕ) (U : List (List α))
    (hnd : idx.Nodup) (hr : ∀ i, i ∈ idx → i < n) (h : CholReach sqrt A idx U) :
    solveOn (cholSolve sqrt) A b idx = some (choSolve U (gather b idx)) := by
  have hf := CholReach.factor sqrt hs n A hsym idx U h
  obtain ⟨U0, hf0, h0⟩ := cholSolve_pd_eq sqrt hs n A hsym hpd idx hnd hr (gather b idx)
  unfold solveOn
  rw [h0]
  congr 1
  have hsq : IsSquare idx.length (subMat A idx) := ⟨subMat_length A idx, subMat_row_length A idx⟩
  obtain ⟨hl0, hs0⟩ := choSolve_spec idx.length U0 (subMat A idx) (gather b idx) hf0 hsq (gather_length b idx)
  obtain ⟨hl1, hs1⟩ := choSolve_spec idx.length U (subMat A idx) (gather b idx) hf hsq (gather_length b idx)
  exact pd_solution_unique n A hsym hpd idx hnd hr _ _ hl0 hl1 (hs0.trans hs1.symm)

/-! ### `np.where` / `np.delete` on the passive list = the filter of the NNLS model -/

theorem npWhere_snoc (mask : List Bool) (p : Bool) :
    npWhere (mask ++ [p]) = npWhere mask ++ (if p then [mask.length] else []) := by
  unfold npWhere
  rw [List.zipIdx_append, List.filter_append, List.map_append]
  congr 1
  cases p <;> simp

theorem mem_npWhere_lt (mask : List Bool) (k : ℕ) (h : k ∈ npWhere mask) : k < mask.length := by
  unfold npWhere at h
  obtain ⟨p, hp, rfl⟩ := List.mem_map.mp h
  exact (List.mem_zipIdx' (x := p.1) (i := p.2) (List.mem_of_mem_filter hp)).1

/-- `np.delete(P_inorder, np.where(d[P_inorder] <= tolerance)[0])` is the filter `fcPin` of Model/NNLS.lean -/
theorem npDelete_fcIdDelete (tol : α) (d : List α) : ∀ (Pin : List ℕ),
    npDelete Pin (fcIdDelete tol Pin d) = fcPin tol Pin d := by
  intro Pin
  induction Pin using List.reverseRecOn with
  | nil => rfl
  | append_singleton init a ih =>
    unfold fcIdDelete fcPin at *
    rw [List.map_append, List.map_singleton, npWhere_snoc, npDelete_snoc, List.filter_append]
    have hlen : (init.map fun i => decide (vget d i ≤ tol)).length = init.length := by simp
    rw [hlen]
    congr 1
    · rw [← ih]
      apply npDelete_congr
      intro k hk
      by_cases hc : vget d a ≤ tol
      · simp only [hc, decide_true, if_true, List.contains_append, List.contains_cons, List.contains_nil,
          Bool.or_false]
        have : (k == init.length) = false := by simp; omega
        rw [this, Bool.or_false]
      · simp [hc]
    · by_cases hc : vget d a ≤ tol
      · simp [hc]
      · have hnm : init.length ∉ npWhere (init.map fun i => decide (vget d i ≤ tol)) := by
          intro hm
          have := mem_npWhere_lt _ _ hm
          simp at this
        simp [hc, hnm]

end Field

end Model
