/-
Proofs/CholeskyPD.lean — helper lemmas for Model/Cholesky.lean (property C05), part 4:
positive definiteness ⇒ every Schur complement met by `cholinsertlast` is positive.
  * `quadform_border`: for the test vector `z = (−y, 1)` with `U y = S12`, `UᵀS12 = x`:
    `zᵀ M' z = x[k] − ‖S12‖²`;
  * `subMat_pd`: a principal submatrix (duplicate-free in-range index list, any order) of a PD matrix is PD;
  * `cholinsertlast_subMat` (clause b in terms of `ZTZ[P_inorder][:, P_inorder]`) and
    `cholinsertlast_pd` (clause e).
-/
import Proofs.CholeskyDelete

set_option linter.unusedSectionVars false
set_option linter.unusedVariables false

namespace Model

open Impl Spec

section Field
variable {α : Type} [Field α] [LinearOrder α] [IsStrictOrderedRing α]

/-! ### the quadratic form of the bordered matrix at `z = (−y, 1)` -/

theorem quadform_border (k : ℕ) (Um Mf : ℕ → ℕ → α) (y S12 x : ℕ → α)
    (h1 : ∀ a b, a < k → b < k → Mf a b = ∑ m ∈ Finset.range k, Um m a * Um m b)
    (h2r : ∀ a, a ≤ k → Mf k a = x a) (h2c : ∀ a, a ≤ k → Mf a k = x a)
    (h3 : ∀ a, a < k → ∑ m ∈ Finset.range k, Um m a * S12 m = x a)
    (h4 : ∀ m, m < k → ∑ a ∈ Finset.range k, Um m a * y a = S12 m) :
    ∑ a ∈ Finset.range (k + 1),
        (∑ b ∈ Finset.range (k + 1), Mf a b * (if b < k then - y b else 1)) * (if a < k then - y a else 1)
      = x k - ∑ m ∈ Finset.range k, S12 m * S12 m := by
  -- (i) M y = x on the leading block
  have hMy : ∀ a, a < k → ∑ b ∈ Finset.range k, Mf a b * y b = x a := by
    intro a ha
    rw [← h3 a ha]
    have : ∀ b, b ∈ Finset.range k → Mf a b * y b = ∑ m ∈ Finset.range k, Um m a * (Um m b * y b) := by
      intro b hb
      rw [h1 a b ha (Finset.mem_range.mp hb), Finset.sum_mul]
      exact Finset.sum_congr rfl fun m _ => by ring
    rw [Finset.sum_congr rfl this, Finset.sum_comm]
    refine Finset.sum_congr rfl fun m hm => ?_
    rw [← Finset.mul_sum, h4 m (Finset.mem_range.mp hm)]
  -- (ii) y·x = ‖S12‖²
  have hyx : ∑ a ∈ Finset.range k, x a * y a = ∑ m ∈ Finset.range k, S12 m * S12 m := by
    have : ∀ a, a ∈ Finset.range k → x a * y a = ∑ m ∈ Finset.range k, S12 m * (Um m a * y a) := by
      intro a ha
      rw [← h3 a (Finset.mem_range.mp ha), Finset.sum_mul]
      exact Finset.sum_congr rfl fun m _ => by ring
    rw [Finset.sum_congr rfl this, Finset.sum_comm]
    refine Finset.sum_congr rfl fun m hm => ?_
    rw [← Finset.mul_sum, h4 m (Finset.mem_range.mp hm)]
  -- inner sums
  have hinner : ∀ a, a ≤ k → ∑ b ∈ Finset.range (k + 1), Mf a b * (if b < k then - y b else 1)
      = - (∑ b ∈ Finset.range k, Mf a b * y b) + Mf a k := by
    intro a _
    rw [Finset.sum_range_succ, if_neg (lt_irrefl k), mul_one]
    congr 1
    rw [← Finset.sum_neg_distrib]
    exact Finset.sum_congr rfl fun b hb => by rw [if_pos (Finset.mem_range.mp hb)]; ring
  rw [Finset.sum_range_succ, if_neg (lt_irrefl k), mul_one, hinner k le_rfl, h2r k le_rfl]
  have hrow : ∑ b ∈ Finset.range k, Mf k b * y b = ∑ m ∈ Finset.range k, S12 m * S12 m := by
    rw [← hyx]
    exact Finset.sum_congr rfl fun b hb => by rw [h2r b (Finset.mem_range.mp hb).le]
  have hlead : ∑ a ∈ Finset.range k,
      (∑ b ∈ Finset.range (k + 1), Mf a b * (if b < k then - y b else 1)) * (if a < k then - y a else 1) = 0 := by
    refine Finset.sum_eq_zero fun a ha => ?_
    have ha' := Finset.mem_range.mp ha
    rw [hinner a ha'.le, hMy a ha', h2c a ha'.le]
    ring
  rw [hlead, hrow]
  ring

/-- **abstract form of clause (e).**  `U` the exact factor of the leading k×k block of `M'`, `x` its row and
    column `k`; if the quadratic form of the leading (k+1)×(k+1) block of `M'` is positive on vectors with a
    non-zero last entry, the Schur complement `x[k] − ‖S12‖²` computed by `cholinsertlast` is positive. -/
theorem schur_pos (k : ℕ) (U M' : List (List α)) (x : List α) (hf : IsCholFactor k U M')
    (hx : x.length = k + 1)
    (hrow : ∀ j, j ≤ k → mget M' k j = vget x j) (hcol : ∀ j, j ≤ k → mget M' j k = vget x j)
    (hpd : ∀ z : ℕ → α, z k ≠ 0 →
      0 < ∑ a ∈ Finset.range (k + 1), (∑ b ∈ Finset.range (k + 1), mget M' a b * z b) * z a) :
    0 < vget x k - dot (solveUT U (x.take k)) (solveUT U (x.take k)) := by
  obtain ⟨hU, hpos, hg⟩ := hf
  have hdn : ∀ i, i < k → mget U i i ≠ 0 := fun i hi => ne_of_gt (hpos i hi)
  have htl : (x.take k).length = k := by simp [hx]
  obtain ⟨hsl, hs⟩ := solveUT_full k U (x.take k) hU htl hdn
  obtain ⟨hyl, hy⟩ := solveU_spec k U (solveUT U (x.take k)) hU hsl hdn
  have htake : ∀ m, m < k → vget (x.take k) m = vget x m := by
    intro m hm
    simp [vget, List.getD_eq_getElem?_getD, hm]
  have hq := quadform_border k (mget U) (mget M') (vget (solveU U (solveUT U (x.take k))))
    (vget (solveUT U (x.take k))) (vget x)
    (fun a b ha hb => by rw [← hg a b ha hb, gram_eq_sum k U hU.1.1])
    hrow hcol (fun a ha => by rw [hs a ha, htake a ha]) hy
  have hp := hpd (fun b => if b < k then - vget (solveU U (solveUT U (x.take k))) b else 1)
    (by simp)
  rw [hq] at hp
  rw [dot_eq_sum k _ _ hsl hsl]
  exact hp

/-! ### principal submatrices of a PD matrix -/

theorem mget_symm_all (n : ℕ) (A : List (List α)) (hsym : IsSymm n A) (i j : ℕ) : mget A i j = mget A j i := by
  have hrow0 : ∀ p, n ≤ p → A.getD p [] = [] := by
    intro p hp
    rw [List.getD_eq_getElem?_getD, List.getElem?_eq_none (by rw [hsym.1]; exact hp)]
    rfl
  have hout : ∀ p q, n ≤ p → mget A p q = 0 ∧ mget A q p = 0 := by
    intro p q hp
    constructor
    · unfold mget; rw [hrow0 p hp]; rfl
    · by_cases hq : q < n
      · rw [mget_eq A q p (by rw [hsym.1]; exact hq)]
        apply vget_of_le
        rw [hsym.2.1 _ (List.getElem_mem _)]; exact hp
      · unfold mget; rw [hrow0 q (by omega)]; rfl
  by_cases hi : i < n
  · by_cases hj : j < n
    · exact hsym.2.2 i j hi hj
    · obtain ⟨h1, h2⟩ := hout j i (by omega); rw [h1, h2]
  · obtain ⟨h1, h2⟩ := hout i j (by omega); rw [h1, h2]

/-- a principal submatrix of a PD matrix (duplicate-free in-range index list, in any order) is PD — stated on
    index functions over the positions of the list -/
theorem subMat_pd (n : ℕ) (A : List (List α)) (hsym : IsSymm n A) (hpd : IsPD n A)
    (idx : List ℕ) (hnd : idx.Nodup) (hr : ∀ i, i ∈ idx → i < n)
    (z : ℕ → α) (hz : ∃ a, a < idx.length ∧ z a ≠ 0) :
    0 < ∑ a ∈ Finset.range idx.length,
          (∑ b ∈ Finset.range idx.length, mget (subMat A idx) a b * z b) * z a := by
  obtain ⟨m, hm⟩ : ∃ m, m = idx.length := ⟨_, rfl⟩
  rw [← hm] at hz ⊢
  set zl : List α := (List.range m).map z with hzl
  have hzll : zl.length = idx.length := by simp [hzl, hm]
  have hzv : ∀ a, a < m → vget zl a = z a := fun a ha => vget_map_range z m a ha
  set v : List α := scatter (zeros n) idx zl with hv
  have hvl : v.length = n := by rw [hv, scatter_length, zeros_length]
  have hvon : ∀ a (ha : a < idx.length), vget v idx[a] = vget zl a :=
    fun a ha => vget_scatter_mem (zeros n) idx zl hnd (fun i hi => by rw [zeros_length]; exact hr i hi) hzll a ha
  have hvoff : ∀ j, j < n → j ∉ idx → vget v j = 0 :=
    fun j _ hj => by rw [hv, vget_scatter_not_mem _ _ _ _ hj, vget_zeros]
  have hne : ∃ i, vget v i ≠ 0 := by
    obtain ⟨a, ha, hza⟩ := hz
    exact ⟨idx[a], by rw [hvon a (hm ▸ ha), hzv a ha]; exact hza⟩
  have hpos := hpd v hvl hne
  -- reduce the quadratic form of `A` at `v` to the positions of `idx`
  have hinner : ∀ p, p < n → vget (matVec A v) p = ∑ b ∈ Finset.range m, mget A p idx[b]! * z b := by
    intro p hp
    rw [vget_matVec n A v hsym.1 hsym.2.1 hvl p hp,
      sum_range_eq_dot_of_support n idx hnd hr (mget A p) (vget v) zl hzll hvon hvoff,
      dot_eq_sum m _ zl (by simp [hm]) (hzll.trans hm.symm)]
    refine Finset.sum_congr rfl fun b hb => ?_
    have hb' : b < idx.length := hm ▸ Finset.mem_range.mp hb
    rw [hzv b (Finset.mem_range.mp hb), vget_eq_getElem _ b (by simpa using hb')]
    simp [hb']
  have hquad : dot v (matVec A v)
      = ∑ a ∈ Finset.range m, (∑ b ∈ Finset.range m, mget A idx[a]! idx[b]! * z b) * z a := by
    rw [dot_eq_sum n v (matVec A v) hvl (by rw [matVec_length, hsym.1])]
    have h1 : ∑ p ∈ Finset.range n, vget v p * vget (matVec A v) p
        = ∑ p ∈ Finset.range n, (∑ b ∈ Finset.range m, mget A p idx[b]! * z b) * vget v p :=
      Finset.sum_congr rfl fun p hp => by rw [hinner p (Finset.mem_range.mp hp)]; ring
    rw [h1, sum_range_eq_dot_of_support n idx hnd hr
      (fun p => ∑ b ∈ Finset.range m, mget A p idx[b]! * z b) (vget v) zl hzll hvon hvoff,
      dot_eq_sum m _ zl (by simp [hm]) (hzll.trans hm.symm)]
    refine Finset.sum_congr rfl fun a ha => ?_
    have ha' : a < idx.length := hm ▸ Finset.mem_range.mp ha
    rw [hzv a (Finset.mem_range.mp ha), vget_eq_getElem _ a (by simpa using ha')]
    simp [ha']
  rw [hquad] at hpos
  have : ∀ a, a ∈ Finset.range m → (∑ b ∈ Finset.range m, mget (subMat A idx) a b * z b) * z a
      = (∑ b ∈ Finset.range m, mget A idx[a]! idx[b]! * z b) * z a := by
    intro a ha
    have ha' : a < idx.length := hm ▸ Finset.mem_range.mp ha
    congr 1
    refine Finset.sum_congr rfl fun b hb => ?_
    have hb' : b < idx.length := hm ▸ Finset.mem_range.mp hb
    rw [mget_subMat A idx a b ha' hb']
    simp [ha', hb']
  rw [Finset.sum_congr rfl this]
  exact hpos

/-! ### `cholinsertlast` on `ZTZ[P_inorder][:, P_inorder]` -/

theorem vget_gather_row (A : List (List α)) (i : ℕ) (idx : List ℕ) (j : ℕ) (hj : j < idx.length) :
    vget (gather (A.getD i []) idx) j = mget A i idx[j] := by
  rw [vget_gather _ _ _ hj]; rfl

/-- **clause (b) on the passive list.**  `U` the exact factor of `ZTZ[P][:, P]` for the ordered passive list
    `P = idx`; `i` the entering index; `x = ZTZ[i][P ++ [i]]`; `ZTZ` symmetric. If the Schur complement is
    positive, `cholinsertlast(U, x)` returns the exact factor of `ZTZ[P ++ [i]][:, P ++ [i]]`. -/
theorem cholinsertlast_subMat (sqrt : α → α) (hs : SqrtContract sqrt) (n : ℕ) (A : List (List α))
    (hsym : IsSymm n A) (idx : List ℕ) (i : ℕ) (U : List (List α))
    (hf : IsCholFactor idx.length U (subMat A idx))
    (hschur : 0 < vget (gather (A.getD i []) (idx ++ [i])) idx.length
      - dot (solveUT U ((gather (A.getD i []) (idx ++ [i])).take idx.length))
            (solveUT U ((gather (A.getD i []) (idx ++ [i])).take idx.length))) :
    ∃ S, cholinsertlast sqrt U (gather (A.getD i []) (idx ++ [i])) = some S
      ∧ IsCholFactor (idx ++ [i]).length S (subMat A (idx ++ [i])) := by
  have hlen : (idx ++ [i]).length = idx.length + 1 := by simp
  rw [hlen]
  have hk : idx.length < (idx ++ [i]).length := by omega
  have hlast : (idx ++ [i])[idx.length] = i := by simp
  apply cholinsertlast_spec sqrt hs idx.length U (subMat A idx) (subMat A (idx ++ [i])) _ hf
    (by rw [gather_length, hlen]) ?_ ?_ ?_ hschur
  · intro a b ha hb
    rw [mget_subMat A _ a b (by omega) (by omega), mget_subMat A idx a b ha hb,
      List.getElem_append_left ha, List.getElem_append_left hb]
  · intro j hj
    rw [mget_subMat A _ _ j hk (by omega), vget_gather_row A i _ j (by omega), hlast]
  · intro j hj
    rw [mget_subMat A _ j _ (by omega) hk, vget_gather_row A i _ j (by omega), hlast]
    exact mget_symm_all n A hsym _ _

/-- **clause (e): on a symmetric positive-definite `ZTZ` the insertion never fails.**  For a duplicate-free
    in-range passive list `P ++ [i]` and the exact factor `U` of `ZTZ[P][:, P]`, the Schur complement is
    positive, hence `cholinsertlast` returns the exact factor of `ZTZ[P ++ [i]][:, P ++ [i]]`. -/
theorem schur_pos_of_pd (n : ℕ) (A : List (List α)) (hsym : IsSymm n A) (hpd : IsPD n A)
    (idx : List ℕ) (i : ℕ) (hnd : (idx ++ [i]).Nodup) (hr : ∀ j, j ∈ idx ++ [i] → j < n)
    (U : List (List α)) (hf : IsCholFactor idx.length U (subMat A idx)) :
    0 < vget (gather (A.getD i []) (idx ++ [i])) idx.length
      - dot (solveUT U ((gather (A.getD i []) (idx ++ [i])).take idx.length))
            (solveUT U ((gather (A.getD i []) (idx ++ [i])).take idx.length)) := by
  have hlen : (idx ++ [i]).length = idx.length + 1 := by simp
  have hk : idx.length < (idx ++ [i]).length := by omega
  have hlast : (idx ++ [i])[idx.length] = i := by simp
  have hf' : IsCholFactor idx.length U (subMat A (idx ++ [i])) := by
    refine ⟨hf.1, hf.2.1, fun a b ha hb => ?_⟩
    rw [hf.2.2 a b ha hb, mget_subMat A (idx ++ [i]) a b (by omega) (by omega), mget_subMat A idx a b ha hb,
      List.getElem_append_left ha, List.getElem_append_left hb]
  apply schur_pos idx.length U (subMat A (idx ++ [i])) _ hf' (by rw [gather_length, hlen])
  · intro j hj
    rw [mget_subMat A _ _ j hk (by omega), vget_gather_row A i _ j (by omega), hlast]
  · intro j hj
    rw [mget_subMat A _ j _ (by omega) hk, vget_gather_row A i _ j (by omega), hlast]
    exact mget_symm_all n A hsym _ _
  · intro z hz
    have := subMat_pd n A hsym hpd (idx ++ [i]) hnd hr z ⟨idx.length, hk, hz⟩
    rw [hlen] at this
    exact this

theorem cholinsertlast_pd (sqrt : α → α) (hs : SqrtContract sqrt) (n : ℕ) (A : List (List α))
    (hsym : IsSymm n A) (hpd : IsPD n A) (idx : List ℕ) (i : ℕ) (hnd : (idx ++ [i]).Nodup)
    (hr : ∀ j, j ∈ idx ++ [i] → j < n) (U : List (List α))
    (hf : IsCholFactor idx.length U (subMat A idx)) :
    ∃ S, cholinsertlast sqrt U (gather (A.getD i []) (idx ++ [i])) = some S
      ∧ IsCholFactor (idx ++ [i]).length S (subMat A (idx ++ [i])) :=
  cholinsertlast_subMat sqrt hs n A hsym idx i U hf (schur_pos_of_pd n A hsym hpd idx i hnd hr U hf)

end Field

end Model
