/-
Proofs/CholeskySolve.lean — helper lemmas for Model/Cholesky.lean (property C05), part 2:
  * forward / back substitution (`solveUT_spec`, `solveU_spec`) and `cho_solve` (`choSolve_spec`:
    `UᵀU x = b`, hence `M x = b` for an exact factor of `M`);
  * `cholinsertlast` (`cholinsertlast_spec`: bordering an exact factor gives an exact factor).
-/
import Proofs.Cholesky

set_option linter.unusedSectionVars false
set_option linter.unusedVariables false

namespace Model

open Impl Spec

section Field
variable {α : Type} [Field α] [LinearOrder α] [IsStrictOrderedRing α]

/-! ### forward substitution: `Uᵀ y = b` -/

theorem vget_set (v : List α) (i j : ℕ) (a : α) (h : i < v.length) :
    vget (v.set i a) j = if j = i then a else vget v j := by
  by_cases hj : j = i
  · subst hj; rw [if_pos rfl, vget_set_self _ _ _ h]
  · rw [if_neg hj, vget_set_ne _ _ _ _ (fun e => hj e.symm)]

/-- `solve_triangular(U, b, trans=1, lower=False)`: row `m` of the lower-triangular system `Uᵀ y = b` holds
    (only the entries `U[k, m]`, `k ≤ m`, are read; the diagonal must be non-zero) -/
theorem solveUT_spec (n : ℕ) (U : List (List α)) (b : List α) (hb : b.length = n)
    (hd : ∀ i, i < n → mget U i i ≠ 0) :
    (solveUT U b).length = n ∧ ∀ m, m < n →
      (∑ k ∈ Finset.range m, mget U k m * vget (solveUT U b) k) + mget U m m * vget (solveUT U b) m
        = vget b m := by
  have hinv := foldl_range_inv
    (fun y i => y.set i ((vget y i - sumTo i (fun k => mget U k i * vget y k)) / mget U i i)) b
    (fun i y => y.length = n
      ∧ (∀ m, m < i → m < n →
          (∑ k ∈ Finset.range m, mget U k m * vget y k) + mget U m m * vget y m = vget b m)
      ∧ ∀ m, i ≤ m → vget y m = vget b m) n
    ⟨hb, fun m hm => absurd hm (by omega), fun m _ => rfl⟩
    (by
      intro i y hi ⟨hl, hdone, hrest⟩
      have hil : i < y.length := by omega
      refine ⟨by simpa using hl, ?_, ?_⟩
      · intro m hm hmn
        have hsum : ∀ p, p ≤ i → ∑ k ∈ Finset.range p, mget U k p *
            vget (y.set i ((vget y i - sumTo i (fun k => mget U k i * vget y k)) / mget U i i)) k
            = ∑ k ∈ Finset.range p, mget U k p * vget y k := by
          intro p hp
          refine Finset.sum_congr rfl fun k hk => ?_
          rw [vget_set _ _ _ _ hil, if_neg (by have := Finset.mem_range.mp hk; omega)]
        rw [hsum m (by omega)]
        by_cases hmi : m = i
        · subst hmi
          rw [vget_set _ _ _ _ hil, if_pos rfl, sumTo_eq, mul_div_cancel₀ _ (hd m hmn), hrest m le_rfl]
          ring
        · rw [vget_set _ _ _ _ hil, if_neg hmi]
          exact hdone m (by omega) hmn
      · intro m hm
        rw [vget_set _ _ _ _ hil, if_neg (by omega)]
        exact hrest m (by omega))
  have hfold : solveUT U b = (List.range n).foldl
      (fun y i => y.set i ((vget y i - sumTo i (fun k => mget U k i * vget y k)) / mget U i i)) b := by
    unfold solveUT; rw [hb]
  rw [hfold]
  exact ⟨hinv.1, fun m hm => hinv.2.1 m hm hm⟩

/-- the same for an upper-triangular `U`, as the full sum `(Uᵀ y)[m] = b[m]` -/
theorem solveUT_full (n : ℕ) (U : List (List α)) (b : List α) (hU : IsUpper n U) (hb : b.length = n)
    (hd : ∀ i, i < n → mget U i i ≠ 0) :
    (solveUT U b).length = n ∧ ∀ m, m < n →
      ∑ k ∈ Finset.range n, mget U k m * vget (solveUT U b) k = vget b m := by
  obtain ⟨hl, hrow⟩ := solveUT_spec n U b hb hd
  refine ⟨hl, fun m hm => ?_⟩
  rw [← hrow m hm, ← Finset.sum_range_succ (fun k => mget U k m * vget (solveUT U b) k) m]
  symm
  apply Finset.sum_subset
  · intro k hk
    have := Finset.mem_range.mp hk
    exact Finset.mem_range.mpr (by omega)
  · intro k hk hnk
    have h1 := Finset.mem_range.mp hk
    have h2 : ¬ k < m + 1 := fun h => hnk (Finset.mem_range.mpr h)
    rw [hU.2 k m (by omega) h1, zero_mul]

/-! ### back substitution: `U x = y` -/

theorem solveU_spec (n : ℕ) (U : List (List α)) (y : List α) (hU : IsUpper n U) (hy : y.length = n)
    (hd : ∀ i, i < n → mget U i i ≠ 0) :
    (solveU U y).length = n ∧ ∀ m, m < n →
      ∑ k ∈ Finset.range n, mget U m k * vget (solveU U y) k = vget y m := by
  have hinv := foldl_range_inv
    (fun x t => x.set (n - 1 - t) ((vget x (n - 1 - t) - sumTo (n - 1 - (n - 1 - t))
        (fun k => mget U (n - 1 - t) (n - 1 - t + 1 + k) * vget x (n - 1 - t + 1 + k))) / mget U (n - 1 - t) (n - 1 - t))) y
    (fun t x => x.length = n
      ∧ (∀ m, n - t ≤ m → m < n →
          mget U m m * vget x m + (∑ k ∈ Finset.range (n - 1 - m), mget U m (m + 1 + k) * vget x (m + 1 + k))
            = vget y m)
      ∧ ∀ m, m < n - t → vget x m = vget y m) n
    ⟨hy, fun m h1 h2 => absurd h2 (by omega), fun m _ => rfl⟩
    (by
      intro t x ht ⟨hl, hdone, hrest⟩
      have hil : n - 1 - t < x.length := by omega
      refine ⟨by simpa using hl, ?_, ?_⟩
      · intro m hm hmn
        have hsum : ∀ p, n - 1 - t ≤ p → ∑ k ∈ Finset.range (n - 1 - p), mget U p (p + 1 + k) *
            vget (x.set (n - 1 - t) ((vget x (n - 1 - t) - sumTo (n - 1 - (n - 1 - t))
              (fun k => mget U (n - 1 - t) (n - 1 - t + 1 + k) * vget x (n - 1 - t + 1 + k)))
                / mget U (n - 1 - t) (n - 1 - t))) (p + 1 + k)
            = ∑ k ∈ Finset.range (n - 1 - p), mget U p (p + 1 + k) * vget x (p + 1 + k) := by
          intro p hp
          refine Finset.sum_congr rfl fun k hk => ?_
          rw [vget_set _ _ _ _ hil, if_neg (by omega)]
        rw [hsum m (by omega)]
        by_cases hmi : m = n - 1 - t
        · subst hmi
          rw [vget_set _ _ _ _ hil, if_pos rfl, sumTo_eq, mul_div_cancel₀ _ (hd _ hmn),
            hrest (n - 1 - t) (by omega)]
          ring
        · rw [vget_set _ _ _ _ hil, if_neg hmi]
          exact hdone m (by omega) hmn
      · intro m hm
        rw [vget_set _ _ _ _ hil, if_neg (by omega)]
        exact hrest m (by omega))
  have hfold : solveU U y = (List.range n).foldl
      (fun x t => x.set (n - 1 - t) ((vget x (n - 1 - t) - sumTo (n - 1 - (n - 1 - t))
        (fun k => mget U (n - 1 - t) (n - 1 - t + 1 + k) * vget x (n - 1 - t + 1 + k)))
          / mget U (n - 1 - t) (n - 1 - t))) y := by
    unfold solveU; rw [hy]
  rw [hfold]
  refine ⟨hinv.1, fun m hm => ?_⟩
  rw [← hinv.2.1 m (by omega) hm]
  have hn : n = (m + 1) + (n - 1 - m) := by omega
  generalize (List.range n).foldl _ y = x
  conv_lhs => rw [hn]
  rw [Finset.sum_range_add, Finset.sum_range_succ]
  have hz : ∑ k ∈ Finset.range m, mget U m k * vget x k = 0 :=
    Finset.sum_eq_zero fun k hk => by rw [hU.2 m k (Finset.mem_range.mp hk) hm, zero_mul]
  rw [hz, zero_add]

/-! ### `cho_solve` -/

/-- **`cho_solve((U, False), b)` solves `UᵀU x = b`** for an upper-triangular `U` with non-zero diagonal -/
theorem choSolve_gram (n : ℕ) (U : List (List α)) (b : List α) (hU : IsUpper n U) (hb : b.length = n)
    (hd : ∀ i, i < n → mget U i i ≠ 0) :
    (choSolve U b).length = n ∧ ∀ i, i < n →
      ∑ j ∈ Finset.range n, gram U i j * vget (choSolve U b) j = vget b i := by
  obtain ⟨hyl, hy⟩ := solveUT_full n U b hU hb hd
  obtain ⟨hxl, hx⟩ := solveU_spec n U (solveUT U b) hU hyl hd
  refine ⟨hxl, fun i hi => ?_⟩
  rw [← hy i hi]
  have : ∀ j, j ∈ Finset.range n → gram U i j * vget (choSolve U b) j
      = ∑ k ∈ Finset.range n, mget U k i * (mget U k j * vget (solveU U (solveUT U b)) j) := by
    intro j _
    rw [gram_eq_sum n U hU.1.1, Finset.sum_mul]
    exact Finset.sum_congr rfl fun k _ => by unfold choSolve; ring
  rw [Finset.sum_congr rfl this, Finset.sum_comm]
  refine Finset.sum_congr rfl fun k hk => ?_
  rw [← Finset.mul_sum, hx k (Finset.mem_range.mp hk)]

/-- hence, through an exact factor of `M`, `cho_solve` returns the solution of `M x = b` -/
theorem choSolve_spec (n : ℕ) (U M : List (List α)) (b : List α) (hf : IsCholFactor n U M)
    (hM : IsSquare n M) (hb : b.length = n) :
    (choSolve U b).length = n ∧ matVec M (choSolve U b) = b := by
  obtain ⟨hU, hpos, hg⟩ := hf
  obtain ⟨hxl, hx⟩ := choSolve_gram n U b hU hb (fun i hi => ne_of_gt (hpos i hi))
  refine ⟨hxl, ?_⟩
  apply List.ext_getElem
  · rw [matVec_length, hM.1, hb]
  · intro i h1 h2
    have hi : i < n := by rw [matVec_length, hM.1] at h1; exact h1
    rw [← vget_eq_getElem _ i h1, ← vget_eq_getElem _ i h2, vget_matVec n M _ hM.1 hM.2 hxl i hi, ← hx i hi]
    exact Finset.sum_congr rfl fun j hj => by rw [hg i j hi (Finset.mem_range.mp hj)]

/-! ### `cholinsertlast` -/

/-- entries of the bordered array `[[U, c], [last]]` -/
theorem mget_border (n : ℕ) (U : List (List α)) (c last : List α) (hU : IsSquare n U) (hc : c.length = n)
    (a b : ℕ) :
    mget (List.zipWith (fun row v => row ++ [v]) U c ++ [last]) a b =
      if a < n then (if b < n then mget U a b else if b = n then vget c a else 0)
      else if a = n then vget last b else 0 := by
  have hzl : (List.zipWith (fun row v => row ++ [v]) U c).length = n := by simp [hU.1, hc]
  by_cases ha : a < n
  · rw [if_pos ha]
    have haU : a < U.length := by rw [hU.1]; exact ha
    have hac : a < c.length := by rw [hc]; exact ha
    have hrow : (List.zipWith (fun row v => row ++ [v]) U c ++ [last]).getD a [] = U[a] ++ [c[a]] := by
      rw [List.getD_eq_getElem?_getD, List.getElem?_append_left (by omega),
        List.getElem?_eq_getElem (by omega)]
      simp
    have hrl : U[a].length = n := hU.2 _ (List.getElem_mem haU)
    rw [mget_eq_vget_getD, hrow]
    by_cases hb : b < n
    · rw [if_pos hb, mget_eq U a b haU]
      simp [vget, List.getD_eq_getElem?_getD, List.getElem?_append_left (hrl ▸ hb : b < U[a].length)]
    · rw [if_neg hb]
      by_cases hbn : b = n
      · rw [if_pos hbn, vget_eq_getElem c a hac]
        subst hbn
        simp [vget, List.getD_eq_getElem?_getD, hrl]
      · rw [if_neg hbn]
        apply vget_of_le
        simp [hrl]; omega
  · rw [if_neg ha]
    by_cases han : a = n
    · rw [if_pos han, mget_eq_vget_getD]
      congr 1
      rw [List.getD_eq_getElem?_getD, List.getElem?_append_right (by omega)]
      simp [hzl, han]
    · rw [if_neg han, mget_eq_vget_getD]
      have : (List.zipWith (fun row v => row ++ [v]) U c ++ [last]).getD a [] = [] := by
        rw [List.getD_eq_getElem?_getD, List.getElem?_eq_none (by simp [hzl]; omega)]
        rfl
      rw [this]; rfl

theorem vget_replicate_append (n : ℕ) (v : α) (b : ℕ) :
    vget (List.replicate n (0 : α) ++ [v]) b = if b = n then v else 0 := by
  unfold vget
  rw [List.getD_eq_getElem?_getD]
  by_cases h : b < n
  · rw [List.getElem?_append_left (by simpa using h), if_neg (by omega)]
    simp [h]
  · rw [List.getElem?_append_right (by simpa using h)]
    by_cases hb : b = n
    · simp [hb]
    · rw [if_neg hb, List.getElem?_eq_none (by simp; omega)]
      rfl

/-- **`cholinsertlast` borders an exact factor into an exact factor.**  `U` the factor of the n×n `M`;
    `M'` an (n+1)×(n+1) array whose leading block is `M` and whose last row AND last column are `x`
    (`x = ZTZ[idmax][P_inorder]`, `M' = ZTZ[P_inorder][:, P_inorder]`, symmetric); if the Schur complement
    `x[n] − ‖S12‖²` is positive, the call succeeds and returns the factor of `M'`. -/
theorem cholinsertlast_spec (sqrt : α → α) (hs : SqrtContract sqrt) (n : ℕ) (U M M' : List (List α))
    (x : List α) (hf : IsCholFactor n U M) (hx : x.length = n + 1)
    (hlead : ∀ a b, a < n → b < n → mget M' a b = mget M a b)
    (hrow : ∀ j, j ≤ n → mget M' n j = vget x j) (hcol : ∀ j, j ≤ n → mget M' j n = vget x j)
    (hschur : 0 < vget x n - dot (solveUT U (x.take n)) (solveUT U (x.take n))) :
    ∃ S, cholinsertlast sqrt U x = some S ∧ IsCholFactor (n + 1) S M' := by
  obtain ⟨hU, hpos, hg⟩ := hf
  have htl : (x.take n).length = n := by simp [hx]
  obtain ⟨hyl, hy⟩ := solveUT_full n U (x.take n) hU htl (fun i hi => ne_of_gt (hpos i hi))
  set S12 := solveUT U (x.take n) with hS12
  obtain ⟨hspos, hssq⟩ := sqrt_pos_of_pos sqrt hs _ hschur
  set s22 := sqrt (vget x n - dot S12 S12) with hs22
  set S := List.zipWith (fun row v => row ++ [v]) U S12 ++ [List.replicate n 0 ++ [s22]] with hS
  have hcall : cholinsertlast sqrt U x = some S := by
    unfold cholinsertlast
    simp only [hU.1.1]
    rw [if_neg (not_lt.mpr hschur.le)]
  have hent : ∀ a b, mget S a b =
      if a < n then (if b < n then mget U a b else if b = n then vget S12 a else 0)
      else if a = n then (if b = n then s22 else 0) else 0 := by
    intro a b
    rw [hS, mget_border n U S12 _ hU.1 hyl a b, vget_replicate_append]
  have htake : ∀ m, m < n → vget (x.take n) m = vget x m := by
    intro m hm
    simp [vget, List.getD_eq_getElem?_getD, hm]
  have hSl : S.length = n + 1 := by simp [hS, hU.1.1, hyl]
  refine ⟨S, hcall, ⟨⟨hSl, ?_⟩, ?_⟩, ?_, ?_⟩
  · intro r hr
    rw [hS] at hr
    rcases List.mem_append.mp hr with h | h
    · obtain ⟨i, hi, rfl⟩ := List.mem_iff_getElem.mp h
      have hi' : i < U.length := by simp at hi; omega
      simp [hU.1.2 _ (List.getElem_mem hi')]
    · simp at h; subst h; simp
  · intro i j hji hi
    rw [hent]
    by_cases hin : i < n
    · rw [if_pos hin, if_pos (by omega)]; exact hU.2 i j hji hin
    · rw [if_neg hin, if_pos (by omega), if_neg (by omega)]
  · intro i hi
    rw [hent]
    by_cases hin : i < n
    · rw [if_pos hin, if_pos hin]; exact hpos i hin
    · rw [if_neg hin, if_pos (by omega), if_pos (by omega)]; exact hspos
  · intro a b ha hb
    rw [gram_eq_sum (n + 1) S hSl, Finset.sum_range_succ]
    have hsumU : ∀ (f : ℕ → α), (∀ k, k < n → mget S k a * mget S k b = f k) →
        ∑ k ∈ Finset.range n, mget S k a * mget S k b = ∑ k ∈ Finset.range n, f k :=
      fun f hfk => Finset.sum_congr rfl fun k hk => hfk k (Finset.mem_range.mp hk)
    by_cases han : a < n
    · by_cases hbn : b < n
      · rw [hsumU (fun k => mget U k a * mget U k b) (fun k hk => by
          rw [hent k a, hent k b, if_pos hk, if_pos hk, if_pos han, if_pos hbn])]
        rw [hent n a, if_neg (by omega), if_pos rfl, if_neg (by omega), zero_mul, add_zero,
          ← gram_eq_sum n U hU.1.1, hg a b han hbn, hlead a b han hbn]
      · have hbe : b = n := by omega
        subst hbe
        rw [hsumU (fun k => mget U k a * vget S12 k) (fun k hk => by
          rw [hent k a, hent k b, if_pos hk, if_pos hk, if_pos han, if_neg (by omega), if_pos rfl])]
        rw [hent b a, if_neg (by omega), if_pos rfl, if_neg (by omega), zero_mul, add_zero, hy a han,
          htake a han, hcol a han.le]
    · have hae : a = n := by omega
      subst hae
      by_cases hbn : b < a
      · rw [hsumU (fun k => vget S12 k * mget U k b) (fun k hk => by
          rw [hent k a, hent k b, if_pos hk, if_pos hk, if_neg (by omega), if_pos rfl, if_pos hbn])]
        rw [hent a b, if_neg (by omega), if_pos rfl, if_neg (by omega), mul_zero, add_zero]
        rw [Finset.sum_congr rfl (fun k _ => mul_comm (vget S12 k) (mget U k b)), hy b hbn, htake b hbn,
          hrow b hbn.le]
      · have hbe : b = a := by omega
        subst hbe
        rw [hsumU (fun k => vget S12 k * vget S12 k) (fun k hk => by
          rw [hent k b, if_pos hk, if_neg (by omega), if_pos rfl])]
        rw [hent b b, if_neg (by omega), if_pos rfl, if_pos rfl, hssq, ← dot_eq_sum b S12 S12 hyl hyl,
          hrow b le_rfl]
        ring

end Field

end Model
