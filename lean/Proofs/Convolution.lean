/-
Proofs/Convolution.lean — finite-sum toolkit and the scatter-accumulate lemma (property C03).
`α` is any commutative ring.
-/
import Model.Convolution
import Proofs.Core
import Proofs.Slim
import Mathlib.Algebra.Ring.Defs
import Mathlib.Tactic.Ring

namespace Model

open Impl Spec

variable {α : Type} [CommRing α]

/-! ### `lsum` -/

@[simp] theorem lsum_nil : lsum ([] : List α) = 0 := rfl
@[simp] theorem lsum_cons (a : α) (l : List α) : lsum (a :: l) = a + lsum l := rfl

theorem lsum_append (l₁ l₂ : List α) : lsum (l₁ ++ l₂) = lsum l₁ + lsum l₂ := by
  induction l₁ with
  | nil => simp
  | cons a l ih => simp [ih, add_assoc]

theorem lsum_map_zero {γ : Type} (l : List γ) : lsum (l.map fun _ => (0 : α)) = 0 := by
  induction l with
  | nil => rfl
  | cons a l ih => simp [ih]

theorem lsum_map_congr {γ : Type} (l : List γ) (f g : γ → α) (h : ∀ a ∈ l, f a = g a) :
    lsum (l.map f) = lsum (l.map g) := by
  rw [List.map_congr_left h]

theorem lsum_map_add {γ : Type} (l : List γ) (f g : γ → α) :
    lsum (l.map fun a => f a + g a) = lsum (l.map f) + lsum (l.map g) := by
  induction l with
  | nil => simp
  | cons a l ih => simp only [List.map_cons, lsum_cons, ih]; ring

theorem lsum_map_mul_left {γ : Type} (l : List γ) (c : α) (f : γ → α) :
    lsum (l.map fun a => c * f a) = c * lsum (l.map f) := by
  induction l with
  | nil => simp
  | cons a l ih => simp only [List.map_cons, lsum_cons, ih]; ring

theorem lsum_map_mul_right {γ : Type} (l : List γ) (c : α) (f : γ → α) :
    lsum (l.map fun a => f a * c) = lsum (l.map f) * c := by
  induction l with
  | nil => simp
  | cons a l ih => simp only [List.map_cons, lsum_cons, ih]; ring

/-- exchange of two finite sums -/
theorem lsum_comm {γ δ : Type} (l₁ : List γ) (l₂ : List δ) (F : γ → δ → α) :
    lsum (l₁.map fun a => lsum (l₂.map fun b => F a b))
      = lsum (l₂.map fun b => lsum (l₁.map fun a => F a b)) := by
  induction l₁ with
  | nil => simp [lsum_map_zero]
  | cons a l ih =>
    simp only [List.map_cons, lsum_cons, ih]
    rw [← lsum_map_add]

theorem lsum_flatMap {γ : Type} (l : List γ) (f : γ → List α) :
    lsum (l.flatMap f) = lsum (l.map fun a => lsum (f a)) := by
  induction l with
  | nil => rfl
  | cons a l ih => simp [List.flatMap_cons, lsum_append, ih]

/-- a sum with at most one non-zero term -/
theorem lsum_range_single (n k : Nat) (f : Nat → α) (hk : k < n) (h0 : ∀ s, s < n → s ≠ k → f s = 0) :
    lsum ((List.range n).map f) = f k := by
  induction n with
  | zero => omega
  | succ n ih =>
    rw [List.range_succ, List.map_append, lsum_append]
    simp only [List.map_cons, List.map_nil, lsum_cons, lsum_nil, add_zero]
    by_cases hkn : k = n
    · subst hkn
      have : lsum ((List.range k).map f) = 0 := by
        rw [lsum_map_congr _ f (fun _ => 0) (fun s hs => h0 s (by
          have := List.mem_range.mp hs; omega) (by have := List.mem_range.mp hs; omega))]
        exact lsum_map_zero _
      rw [this, zero_add]
    · rw [ih (by omega) (fun s hs hne => h0 s (by omega) hne), h0 n (by omega) (fun h => hkn h.symm),
        add_zero]

theorem lsum_range_zero (n : Nat) (f : Nat → α) (h0 : ∀ s, s < n → f s = 0) :
    lsum ((List.range n).map f) = 0 := by
  rw [lsum_map_congr _ f (fun _ => 0) (fun s hs => h0 s (List.mem_range.mp hs))]
  exact lsum_map_zero _

/-- sum over a `filterMap` then `filter`, as a sum of guarded terms over the original list -/
theorem lsum_filterMap_filter {γ δ : Type} (l : List γ) (g : γ → Option δ) (P : δ → Bool) (f : δ → α) :
    lsum (((l.filterMap g).filter P).map f)
      = lsum (l.map fun a => match g a with
          | some b => if P b then f b else 0
          | none => 0) := by
  induction l with
  | nil => rfl
  | cons a l ih =>
    simp only [List.filterMap_cons, List.map_cons, lsum_cons]
    cases hg : g a with
    | none => simp [ih]
    | some b =>
      simp only [List.filter_cons]
      by_cases hP : P b = true
      · simp [hP, ih]
      · simp [hP, ih]

/-! ### the scatter-accumulate lemma -/

/-- `out[t] += x` -/
def addAt (out : List α) (e : Nat × α) : List α := out.set e.1 (out.getD e.1 0 + e.2)

@[simp] theorem addAt_length (out : List α) (e : Nat × α) : (addAt out e).length = out.length := by
  simp [addAt]

theorem addAt_fold_length (es : List (Nat × α)) (out : List α) :
    (es.foldl addAt out).length = out.length := by
  induction es generalizing out with
  | nil => rfl
  | cons e es ih => simp [ih]

/-- adding zero changes nothing (whether or not the target is in range) -/
theorem addAt_zero (out : List α) (t : Nat) : addAt out (t, 0) = out := by
  unfold addAt
  simp only [add_zero]
  by_cases ht : t < out.length
  · apply List.ext_getElem
    · simp
    · intro i h1 h2
      by_cases hi : t = i
      · subst hi; simp [List.getD_eq_getElem?_getD, ht]
      · simp [List.getElem_set_ne hi]
  · exact List.set_eq_of_length_le (by omega)

/-- after any sequence of `out[t] += x` updates, entry `t` holds its initial value plus the sum of
    the addends aimed at `t`. -/
theorem addAt_fold_getD (es : List (Nat × α)) (out : List α) (t : Nat) (ht : t < out.length) :
    (es.foldl addAt out).getD t 0
      = out.getD t 0 + lsum ((es.filter fun e => e.1 == t).map (·.2)) := by
  induction es generalizing out with
  | nil => simp
  | cons e es ih =>
    simp only [List.foldl_cons, List.filter_cons]
    rw [ih _ (by simpa using ht)]
    by_cases he : e.1 = t
    · subst he
      simp only [beq_self_eq_true, if_true, List.map_cons, lsum_cons]
      have : (addAt out e).getD e.1 0 = out.getD e.1 0 + e.2 := by
        simp [addAt, List.getD_eq_getElem?_getD, List.getElem?_set_self ht]
      rw [this]; ring
    · have hb : (e.1 == t) = false := by simpa using he
      simp only [hb, Bool.false_eq_true, if_false]
      have : (addAt out e).getD t 0 = out.getD t 0 := by
        simp [addAt, List.getD_eq_getElem?_getD, List.getElem?_set_ne he]
      rw [this]

theorem foldl_range_getD {γ β : Type} (l : List γ) (d : γ) (f : β → γ → β) (init : β) :
    (List.range l.length).foldl (fun acc k => f acc (l.getD k d)) init = l.foldl f init := by
  have hmap : (List.range l.length).map (fun i => l.getD i d) = l := by
    apply List.ext_getElem
    · simp
    · intro i h1 h2
      simp [List.getD_eq_getElem?_getD, h2]
  conv => rhs; rw [← hmap]
  rw [List.foldl_map]

/-- the addends produced by source `s`: its frame entries scaled by its value -/
def frameEntries (frames : List (List (Nat × α))) (vals : List α) (s : Nat) : List (Nat × α) :=
  (frames.getD s []).map fun e => (e.1, vals.getD s 0 * e.2)

/-- the double loop of `convolve_jit` is one long sequence of `out[t] += x` updates -/
theorem scatterFrames_eq (frames : List (List (Nat × α))) (vals out : List α) :
    scatterFrames frames vals out
      = ((List.range vals.length).flatMap (frameEntries frames vals)).foldl addAt out := by
  unfold scatterFrames
  rw [List.foldl_flatMap]
  congr 1
  funext out s
  unfold frameEntries
  rw [List.foldl_map]
  exact foldl_range_getD (frames.getD s []) (0, 0)
    (fun out e => out.set e.1 (out.getD e.1 0 + vals.getD s 0 * e.2)) out

theorem scatterFrames_length (frames : List (List (Nat × α))) (vals out : List α) :
    (scatterFrames frames vals out).length = out.length := by
  rw [scatterFrames_eq, addAt_fold_length]

/-- **scatter-accumulate**: the double loop `out[index[s,k]] += vals[s] * kernel[s,k]` leaves in
    entry `t` its initial value plus `Σ_s Σ_{(t',w) ∈ frame s, t' = t} vals[s]·w`. -/
theorem scatterFrames_getD (frames : List (List (Nat × α))) (vals out : List α) (t : Nat)
    (ht : t < out.length) :
    (scatterFrames frames vals out).getD t 0
      = out.getD t 0 + lsum ((List.range vals.length).map fun s =>
          lsum (((frames.getD s []).filter fun e => e.1 == t).map fun e => vals.getD s 0 * e.2)) := by
  rw [scatterFrames_eq, addAt_fold_getD _ _ _ ht, List.filter_flatMap, List.map_flatMap, lsum_flatMap]
  congr 2
  apply List.map_congr_left
  intro s _
  unfold frameEntries
  rw [List.filter_map, List.map_map]
  rfl

end Model
