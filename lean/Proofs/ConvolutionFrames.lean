/-
Proofs/ConvolutionFrames.lean — `mask_index_array` and `frame_at_coordinates_jit` characterised
(property C03): the frame of a source pixel lists exactly the unmasked in-array targets of its
window, each once, with the kernel entry of the offset.
-/
import Proofs.Convolution

namespace Model

open Impl Spec

/-! ### `mask_index_array` -/

/-- running-count list: `some (count so far)` at `c`-elements, `none` elsewhere -/
def idxList {γ : Type} (c : γ → Bool) : List γ → Nat → List (Option Nat)
  | [], _ => []
  | a :: l, n => if c a then some n :: idxList c l (n + 1) else none :: idxList c l n

theorem mia_loop {γ : Type} (l : List γ) (c : γ → Bool) (acc : List (Option Nat)) (n : Nat) :
    l.foldl (fun (st : List (Option Nat) × Nat) p =>
        if c p then (st.1 ++ [some st.2], st.2 + 1) else (st.1 ++ [none], st.2)) (acc, n)
      = (acc ++ idxList c l n, n + (l.filter c).length) := by
  induction l generalizing acc n with
  | nil => simp [idxList]
  | cons a l ih =>
    simp only [List.foldl_cons, idxList, List.filter_cons]
    by_cases hc : c a = true
    · simp only [hc, if_true]
      rw [ih]
      simp; omega
    · simp only [hc, Bool.false_eq_true, if_false]
      rw [ih]
      simp

theorem idxList_getElem? {γ : Type} (c : γ → Bool) (l : List γ) (n i : Nat) (hi : i < l.length) :
    (idxList c l n)[i]?
      = some (if c l[i] then some (n + ((l.take i).filter c).length) else none) := by
  induction l generalizing n i with
  | nil => simp at hi
  | cons a l ih =>
    cases i with
    | zero =>
      by_cases hc : c a = true <;> simp [idxList, hc]
    | succ i =>
      have hi' : i < l.length := by simpa using hi
      by_cases hc : c a = true
      · simp only [idxList, hc, if_true, List.getElem?_cons_succ, List.getElem_cons_succ,
          List.take_succ_cons, List.filter_cons, List.length_cons]
        rw [ih (n + 1) i hi']
        by_cases hc2 : c l[i] = true
        · simp [hc2]; omega
        · simp [hc2]
      · simp only [idxList, hc, Bool.false_eq_true, if_false, List.getElem?_cons_succ,
          List.getElem_cons_succ, List.take_succ_cons, List.filter_cons]
        rw [ih n i hi']

/-- the `i`-th element, if it passes the filter, sits in the filtered list at position
    "number of earlier elements passing the filter" -/
theorem filter_getElem?_take {γ : Type} (c : γ → Bool) (l : List γ) (i : Nat) (hi : i < l.length)
    (hc : c l[i] = true) : (l.filter c)[((l.take i).filter c).length]? = some l[i] := by
  have hsplit : l = l.take i ++ l[i] :: l.drop (i + 1) := by
    rw [List.getElem_cons_drop, List.take_append_drop]
  conv => lhs; arg 1; rw [hsplit]
  rw [List.filter_append, List.filter_cons, if_pos hc]
  rw [List.getElem?_append_right (Nat.le_refl _)]
  simp

theorem maskIndexArray_eq (m : Mask) :
    Impl.maskIndexArray m = idxList (fun p => !m.get p.1 p.2) (pixels m.h m.w) 0 := by
  unfold Impl.maskIndexArray
  rw [forYX_eq_foldl]
  have := mia_loop (pixels m.h m.w) (fun p => !m.get p.1 p.2) [] 0
  simp only [List.nil_append] at this
  rw [this]

theorem idxList_getElem?' {γ : Type} (c : γ → Bool) (l : List γ) (n i : Nat) (a : γ)
    (ha : l[i]? = some a) :
    (idxList c l n)[i]? = some (if c a then some (n + ((l.take i).filter c).length) else none) := by
  obtain ⟨hi, hai⟩ := List.getElem?_eq_some_iff.mp ha
  rw [idxList_getElem? c l n i hi, hai]

theorem filter_getElem?_take' {γ : Type} (c : γ → Bool) (l : List γ) (i : Nat) (a : γ)
    (ha : l[i]? = some a) (hc : c a = true) :
    (l.filter c)[((l.take i).filter c).length]? = some a := by
  obtain ⟨hi, hai⟩ := List.getElem?_eq_some_iff.mp ha
  have := filter_getElem?_take c l i hi (by rw [hai]; exact hc)
  rw [hai] at this
  exact this

theorem pixels_getElem?_flat {h w : Nat} {p : Nat × Nat} (hp : p ∈ pixels h w) :
    (pixels h w)[p.1 * w + p.2]? = some p := by
  obtain ⟨k, hk, hkeq⟩ := List.getElem_of_mem hp
  have := pixels_getElem h w k hk
  rw [hkeq] at this
  simp only [flat] at this
  rw [this]
  exact List.getElem?_eq_some_iff.mpr ⟨hk, hkeq⟩

/-- masked in-array pixel: `mask_index_array == -1` -/
theorem mia_masked (m : Mask) {p : Nat × Nat} (hp1 : p.1 < m.h) (hp2 : p.2 < m.w)
    (hm : m.get p.1 p.2 = true) : (Impl.maskIndexArray m).getD (p.1 * m.w + p.2) none = none := by
  have hpi := pixels_getElem?_flat (mem_pixels.mpr ⟨hp1, hp2⟩)
  rw [maskIndexArray_eq, List.getD_eq_getElem?_getD,
    idxList_getElem?' (fun p => !m.get p.1 p.2) (pixels m.h m.w) 0 _ p hpi]
  simp [hm]

/-- unmasked in-array pixel: `mask_index_array` holds its slim index -/
theorem mia_unmasked (m : Mask) {p : Nat × Nat} (hp1 : p.1 < m.h) (hp2 : p.2 < m.w)
    (hm : m.get p.1 p.2 = false) :
    ∃ v, (Impl.maskIndexArray m).getD (p.1 * m.w + p.2) none = some v
      ∧ (Spec.unmaskedPixels m)[v]? = some p := by
  have hpi := pixels_getElem?_flat (mem_pixels.mpr ⟨hp1, hp2⟩)
  refine ⟨(((pixels m.h m.w).take (p.1 * m.w + p.2)).filter fun p => !m.get p.1 p.2).length, ?_, ?_⟩
  · rw [maskIndexArray_eq, List.getD_eq_getElem?_getD,
      idxList_getElem?' (fun p => !m.get p.1 p.2) (pixels m.h m.w) 0 _ p hpi]
    simp [hm]
  · exact filter_getElem?_take' (fun p => !m.get p.1 p.2) (pixels m.h m.w) _ p hpi (by simp [hm])

/-! ### `frame_at_coordinates_jit` -/

variable {α : Type} [CommRing α]

/-- the body of the `i, j` loop as an optional entry -/
def frameEntry (m : Mask) (mia : List (Option Nat)) (K : Kernel α) (c : Nat × Nat) (ij : Nat × Nat) :
    Option (Nat × α) :=
  let x : Int := (c.1 : Int) - ((K.h / 2 : Nat) : Int) + (ij.1 : Int)
  let y : Int := (c.2 : Int) - ((K.w / 2 : Nat) : Int) + (ij.2 : Int)
  if 0 ≤ x ∧ x < (m.h : Int) ∧ 0 ≤ y ∧ y < (m.w : Int) then
    match mia.getD (x.toNat * m.w + y.toNat) none with
    | some v => if !m.get x.toNat y.toNat then some (v, K.get ij.1 ij.2) else none
    | none => none
  else none

theorem foldl_append_filterMap {γ δ : Type} (l : List γ) (g : γ → Option δ) (init : List δ) :
    l.foldl (fun acc a => match g a with | some b => acc ++ [b] | none => acc) init
      = init ++ l.filterMap g := by
  induction l generalizing init with
  | nil => simp
  | cons a l ih =>
    simp only [List.foldl_cons, List.filterMap_cons]
    rw [ih]
    cases g a <;> simp

theorem frameAt_eq (m : Mask) (mia : List (Option Nat)) (K : Kernel α) (c : Nat × Nat) :
    Impl.frameAt m mia K c = (pixels K.h K.w).filterMap (frameEntry m mia K c) := by
  unfold Impl.frameAt
  rw [forYX_eq_foldl]
  have := foldl_append_filterMap (pixels K.h K.w) (frameEntry m mia K c) []
  simp only [List.nil_append] at this
  rw [← this]
  congr 1
  funext acc ij
  unfold frameEntry
  simp only
  split
  · split <;> rename_i hmia
    · split <;> simp_all
    · simp_all
  · rfl

/-- **frame characterisation**: among the entries of the frame of source pixel `c`, those aimed at
    slim index `k` (pixel `p`) contribute `v · K[i,j]` exactly for the offset `(i,j)` with
    `c − half + (i,j) = p`. -/
theorem frame_filter_sum (m : Mask) (K : Kernel α) (c : Nat × Nat) (k : Nat)
    (hk : k < (Spec.unmaskedPixels m).length) (v : α) :
    lsum (((Impl.frameAt m (Impl.maskIndexArray m) K c).filter fun e => e.1 == k).map
        fun e => v * e.2)
      = lsum ((pixels K.h K.w).map fun ij =>
          if (c.1 : Int) - ((K.h / 2 : Nat) : Int) + (ij.1 : Int) = ((Spec.unmaskedPixels m)[k]).1
              ∧ (c.2 : Int) - ((K.w / 2 : Nat) : Int) + (ij.2 : Int) = ((Spec.unmaskedPixels m)[k]).2
          then v * K.get ij.1 ij.2 else 0) := by
  rw [frameAt_eq, lsum_filterMap_filter]
  apply lsum_map_congr
  intro ij _
  have hp := mem_unmaskedPixels.mp (List.getElem_mem hk)
  generalize hpdef : (Spec.unmaskedPixels m)[k] = p at hp ⊢
  unfold frameEntry
  simp only
  generalize hx : (c.1 : Int) - ((K.h / 2 : Nat) : Int) + (ij.1 : Int) = x
  generalize hy : (c.2 : Int) - ((K.w / 2 : Nat) : Int) + (ij.2 : Int) = y
  by_cases hin : 0 ≤ x ∧ x < (m.h : Int) ∧ 0 ≤ y ∧ y < (m.w : Int)
  · simp only [hin, and_self, if_true]
    have hq1 : x.toNat < m.h := by omega
    have hq2 : y.toNat < m.w := by omega
    cases hmq : m.get x.toNat y.toNat with
    | true =>
      have := mia_masked m (p := (x.toNat, y.toNat)) hq1 hq2 hmq
      simp only at this
      rw [this]
      have hne : ¬ (x = (p.1 : Int) ∧ y = (p.2 : Int)) := by
        rintro ⟨h1, h2⟩
        have e1 : x.toNat = p.1 := by omega
        have e2 : y.toNat = p.2 := by omega
        rw [e1, e2, hp.2.2] at hmq
        exact Bool.noConfusion hmq
      simp [hne]
    | false =>
      obtain ⟨v', hv', hun⟩ := mia_unmasked m (p := (x.toNat, y.toNat)) hq1 hq2 hmq
      simp only at hv'
      rw [hv']
      simp only [Bool.not_false, if_true]
      obtain ⟨hv'lt, hv'eq⟩ := List.getElem?_eq_some_iff.mp hun
      by_cases hvk : v' = k
      · subst hvk
        have : (x.toNat, y.toNat) = p := by rw [← hv'eq, hpdef]
        have e1 : x = (p.1 : Int) := by rw [← this]; simp only; omega
        have e2 : y = (p.2 : Int) := by rw [← this]; simp only; omega
        simp [e1, e2]
      · have hne : ¬ (x = (p.1 : Int) ∧ y = (p.2 : Int)) := by
          rintro ⟨h1, h2⟩
          apply hvk
          apply unmaskedPixels_flat_inj m v' k hv'lt hk
          rw [hv'eq, hpdef]
          have e1 : x.toNat = p.1 := by omega
          have e2 : y.toNat = p.2 := by omega
          simp only [e1, e2]
        have hb : (v' == k) = false := by simpa using hvk
        simp [hb, hne]
  · have hne : ¬ (x = (p.1 : Int) ∧ y = (p.2 : Int)) := by
      rintro ⟨h1, h2⟩
      apply hin
      omega
    simp [hin, hne]

end Model
