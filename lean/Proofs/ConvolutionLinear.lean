/-
Proofs/ConvolutionLinear.lean — linearity of the scatter-accumulate operators (C03.d).
-/
import Proofs.ConvolutionMatrix

namespace Model

open Impl Spec

variable {α : Type} [CommRing α]

/-- one scatter pass is linear in the source values (and in the initial contents) -/
theorem scatterFrames_linear (frames : List (List (Nat × α))) (a : α) (x y z out ox oy : List α)
    (hx : x.length = z.length) (hy : y.length = z.length)
    (hz : ∀ s, z.getD s 0 = a * x.getD s 0 + y.getD s 0)
    (t : Nat) (ht : t < out.length) (hox : ox.length = out.length) (hoy : oy.length = out.length)
    (hout : out.getD t 0 = a * ox.getD t 0 + oy.getD t 0) :
    (scatterFrames frames z out).getD t 0
      = a * (scatterFrames frames x ox).getD t 0 + (scatterFrames frames y oy).getD t 0 := by
  rw [scatterFrames_getD _ _ _ _ ht, scatterFrames_getD _ _ _ _ (by omega : t < ox.length),
    scatterFrames_getD _ _ _ _ (by omega : t < oy.length), hx, hy, hout]
  have : ∀ s, lsum (((frames.getD s []).filter fun e => e.1 == t).map fun e => z.getD s 0 * e.2)
      = a * lsum (((frames.getD s []).filter fun e => e.1 == t).map fun e => x.getD s 0 * e.2)
        + lsum (((frames.getD s []).filter fun e => e.1 == t).map fun e => y.getD s 0 * e.2) := by
    intro s
    rw [← lsum_map_mul_left, ← lsum_map_add]
    apply lsum_map_congr
    intro e _
    rw [hz s]; ring
  rw [lsum_map_congr _ _ _ (fun s _ => this s), lsum_map_add, lsum_map_mul_left]
  ring

theorem getD_replicate_zero (n t : Nat) : (List.replicate n (0 : α)).getD t 0 = 0 := by
  simp only [List.getD_eq_getElem?_getD, List.getElem?_replicate]
  split <;> rfl

/-- `convolve_jit` is linear in (image, blurring image) -/
theorem convolve_linear (cv : Convolver α) (a : α) (x y z bx by' bz : List α)
    (hx : x.length = z.length) (hy : y.length = z.length)
    (hz : ∀ s, z.getD s 0 = a * x.getD s 0 + y.getD s 0)
    (hbx : bx.length = bz.length) (hby : by'.length = bz.length)
    (hbz : ∀ s, bz.getD s 0 = a * bx.getD s 0 + by'.getD s 0)
    (t : Nat) (ht : t < z.length) :
    (Impl.convolve cv z bz).getD t 0
      = a * (Impl.convolve cv x bx).getD t 0 + (Impl.convolve cv y by').getD t 0 := by
  unfold Impl.convolve
  apply scatterFrames_linear _ a bx by' bz _ _ _ hbx hby hbz t
  · rw [scatterFrames_length]; simpa using ht
  · simp [scatterFrames_length, hx]
  · simp [scatterFrames_length, hy]
  · apply scatterFrames_linear _ a x y z _ _ _ hx hy hz t (by simpa using ht) (by simp [hx])
      (by simp [hy])
    rw [getD_replicate_zero, getD_replicate_zero, getD_replicate_zero]; ring

/-- `convolve_no_blurring_jit` is linear -/
theorem convolveNoBlurring_linear (cv : Convolver α) (a : α) (x y z : List α)
    (hx : x.length = z.length) (hy : y.length = z.length)
    (hz : ∀ s, z.getD s 0 = a * x.getD s 0 + y.getD s 0) (t : Nat) (ht : t < z.length) :
    (Impl.convolveNoBlurring cv z).getD t 0
      = a * (Impl.convolveNoBlurring cv x).getD t 0 + (Impl.convolveNoBlurring cv y).getD t 0 := by
  unfold Impl.convolveNoBlurring
  apply scatterFrames_linear _ a x y z _ _ _ hx hy hz t (by simpa using ht) (by simp [hx])
    (by simp [hy])
  rw [getD_replicate_zero, getD_replicate_zero, getD_replicate_zero]; ring

end Model
