/-
Proofs/ConvolutionMain.lean — the masked convolution equals the true 2-D convolution (C03.a, e).
-/
import Proofs.ConvolutionFrames
import Proofs.MaskSets

namespace Model

open Impl Spec

variable {α : Type} [CommRing α]

/-! ### what a successfully built `Convolver` holds -/

omit [CommRing α] in
theorem imageFrames_loop (m : Mask) (c : Nat × Nat → Bool) (F : Nat × Nat → List (Nat × α)) :
    forYX m.h m.w (fun acc y x => if c (y, x) then acc ++ [F (y, x)] else acc) []
      = ((pixels m.h m.w).filter c).map F := by
  rw [forYX_eq_foldl]
  have := foldl_append_if (pixels m.h m.w) c F []
  simpa using this

structure ConvolverSpec (m : Mask) (K : Kernel α) (cv : Convolver α) : Prop where
  oddH : K.h % 2 = 1
  oddW : K.w % 2 = 1
  blur : Impl.blurringFrom m K.h K.w = .ok cv.blurringMask
  imageFrames : cv.imageFrames
    = (Spec.unmaskedPixels m).map (Impl.frameAt m (Impl.maskIndexArray m) K)
  blurringFrames : cv.blurringFrames
    = (Spec.unmaskedPixels cv.blurringMask).map (Impl.frameAt m (Impl.maskIndexArray m) K)
  pixelsInMask : cv.pixelsInMask = (Spec.unmaskedPixels m).length

theorem convolver_ok (m : Mask) (K : Kernel α) (cv : Convolver α)
    (h : Impl.convolver m K = .ok cv) : ConvolverSpec m K cv := by
  unfold Impl.convolver at h
  by_cases hev : (K.h % 2 == 0 || K.w % 2 == 0) = true
  · simp [hev] at h
  · simp only [hev, Bool.false_eq_true, if_false] at h
    have hodd : K.h % 2 = 1 ∧ K.w % 2 = 1 := by
      simp only [Bool.or_eq_true, beq_iff_eq, not_or] at hev
      omega
    cases hbb : Impl.blurringBits m K.h K.w with
    | none => rw [hbb] at h; simp at h
    | some bb =>
      rw [hbb] at h
      simp only [Except.ok.injEq] at h
      have hblur : Impl.blurringFrom m K.h K.w = .ok { h := m.h, w := m.w, bits := bb } := by
        have hev' : (K.h % 2 == 0 || K.w % 2 == 0) = false := by simpa using hev
        simp only [Impl.blurringFrom, hev', hbb, Bool.false_eq_true, if_false]
      obtain ⟨_, _, _, hget⟩ := C10_blurring_spec m hodd.1 hodd.2 hblur
      subst h
      refine ⟨hodd.1, hodd.2, hblur, ?_, ?_, totalPixels_eq m⟩
      · exact imageFrames_loop m (fun p => !m.get p.1 p.2) _
      · have := imageFrames_loop (α := α) m
          (fun p => m.get p.1 p.2 && !(Mask.get { h := m.h, w := m.w, bits := bb } p.1 p.2))
          (Impl.frameAt m (Impl.maskIndexArray m) K)
        simp only at this ⊢
        rw [this]
        unfold Spec.unmaskedPixels
        simp only
        congr 1
        apply List.filter_congr
        intro p hp
        rw [mem_pixels] at hp
        cases hb : Mask.get { h := m.h, w := m.w, bits := bb } p.1 p.2 with
        | true => simp
        | false =>
          have := ((hget p.1 p.2 hp.1 hp.2).mp hb).1
          simp [this]

/-! ### gather side: the sources that hit a given position -/

theorem getD_nativeFrom_hit (m : Mask) (vals : List α) (k : Nat)
    (hk : k < (Spec.unmaskedPixels m).length) :
    (Impl.nativeFrom m vals 0).getD
        (((Spec.unmaskedPixels m)[k]).1 * m.w + ((Spec.unmaskedPixels m)[k]).2) 0
      = vals.getD k 0 := by
  have := nativeFrom_hit m vals (0 : α) k hk
  simp only [flat] at this
  rw [List.getD_eq_getElem?_getD, this]
  rfl

/-- `Σ_s [pixel s = (qy,qx)] · vals[s] · c` over the unmasked pixels of a mask is the native array of
    `vals` (zeros at masked positions) read at `(qy,qx)` (zero outside the frame), times `c`. -/
theorem source_sum (m : Mask) (vals : List α) (qy qx : Int) (c : α) :
    lsum ((List.range (Spec.unmaskedPixels m).length).map fun s =>
        if (((Spec.unmaskedPixels m).getD s (0, 0)).1 : Int) = qy
            ∧ (((Spec.unmaskedPixels m).getD s (0, 0)).2 : Int) = qx
        then vals.getD s 0 * c else 0)
      = readZ m.h m.w (Impl.nativeFrom m vals 0) qy qx * c := by
  by_cases hq : (0 ≤ qy ∧ qy < (m.h : Int) ∧ 0 ≤ qx ∧ qx < (m.w : Int))
      ∧ m.get qy.toNat qx.toNat = false
  · obtain ⟨hin, hm⟩ := hq
    have hmem : (qy.toNat, qx.toNat) ∈ Spec.unmaskedPixels m :=
      mem_unmaskedPixels.mpr ⟨by simp only; omega, by simp only; omega, hm⟩
    obtain ⟨k0, hk0, hk0eq⟩ := List.getElem_of_mem hmem
    rw [lsum_range_single _ k0 _ hk0]
    · have hg : (Spec.unmaskedPixels m).getD k0 (0, 0) = (qy.toNat, qx.toNat) := by
        simp [List.getD_eq_getElem?_getD, hk0, hk0eq]
      have hcond : ((qy.toNat : Nat) : Int) = qy ∧ ((qx.toNat : Nat) : Int) = qx := by omega
      simp only [hg, hcond, and_self, if_true]
      unfold readZ
      simp only [hin, and_self, if_true]
      have := getD_nativeFrom_hit m vals k0 hk0
      rw [hk0eq] at this
      simp only at this
      rw [this]
    · intro s hs hne
      have hg : (Spec.unmaskedPixels m).getD s (0, 0) = (Spec.unmaskedPixels m)[s] := by
        simp [List.getD_eq_getElem?_getD, hs]
      rw [hg]
      have : ¬ ((((Spec.unmaskedPixels m)[s]).1 : Int) = qy ∧ (((Spec.unmaskedPixels m)[s]).2 : Int) = qx) := by
        rintro ⟨h1, h2⟩
        apply hne
        apply unmaskedPixels_flat_inj m s k0 hs hk0
        rw [hk0eq]
        have e1 : ((Spec.unmaskedPixels m)[s]).1 = qy.toNat := by omega
        have e2 : ((Spec.unmaskedPixels m)[s]).2 = qx.toNat := by omega
        simp only [flat, e1, e2]
      simp [this]
  · rw [lsum_range_zero]
    · unfold readZ
      by_cases hin : 0 ≤ qy ∧ qy < (m.h : Int) ∧ 0 ≤ qx ∧ qx < (m.w : Int)
      · have hm : m.get qy.toNat qx.toNat = true := by
          cases h : m.get qy.toNat qx.toNat with
          | true => rfl
          | false => exact absurd ⟨hin, h⟩ hq
        simp only [hin, and_self, if_true]
        have hj : qy.toNat * m.w + qx.toNat < m.h * m.w :=
          flat_lt (p := (qy.toNat, qx.toNat)) (mem_pixels.mpr ⟨by simp only; omega, by simp only; omega⟩)
        have := nativeFrom_masked m vals (0 : α) _ hj (by simpa [Mask.get] using hm)
        rw [List.getD_eq_getElem?_getD, this]
        simp
      · simp [hin]
    · intro s hs
      have hg : (Spec.unmaskedPixels m).getD s (0, 0) = (Spec.unmaskedPixels m)[s] := by
        simp [List.getD_eq_getElem?_getD, hs]
      rw [hg]
      have hmem := mem_unmaskedPixels.mp (List.getElem_mem hs)
      have : ¬ ((((Spec.unmaskedPixels m)[s]).1 : Int) = qy ∧ (((Spec.unmaskedPixels m)[s]).2 : Int) = qx) := by
        rintro ⟨h1, h2⟩
        apply hq
        have e1 : qy.toNat = ((Spec.unmaskedPixels m)[s]).1 := by omega
        have e2 : qx.toNat = ((Spec.unmaskedPixels m)[s]).2 := by omega
        refine ⟨by omega, ?_⟩
        rw [e1, e2]; exact hmem.2.2
      simp [this]

/-- one scatter pass (frames of the unmasked pixels of `ms`, built on mask `m`) seen from target `k` -/
theorem scatter_pass (m ms : Mask) (K : Kernel α) (vals : List α) (k : Nat)
    (hk : k < (Spec.unmaskedPixels m).length)
    (hlen : vals.length = (Spec.unmaskedPixels ms).length) :
    lsum ((List.range vals.length).map fun s =>
        lsum (((((Spec.unmaskedPixels ms).map (Impl.frameAt m (Impl.maskIndexArray m) K)).getD s []).filter
          fun e => e.1 == k).map fun e => vals.getD s 0 * e.2))
      = lsum ((pixels K.h K.w).map fun ij =>
          readZ ms.h ms.w (Impl.nativeFrom ms vals 0)
            ((((Spec.unmaskedPixels m)[k]).1 : Int) + ((K.h / 2 : Nat) : Int) - (ij.1 : Int))
            ((((Spec.unmaskedPixels m)[k]).2 : Int) + ((K.w / 2 : Nat) : Int) - (ij.2 : Int))
          * K.get ij.1 ij.2) := by
  rw [hlen]
  have step1 : ∀ s ∈ List.range (Spec.unmaskedPixels ms).length,
      lsum (((((Spec.unmaskedPixels ms).map (Impl.frameAt m (Impl.maskIndexArray m) K)).getD s []).filter
          fun e => e.1 == k).map fun e => vals.getD s 0 * e.2)
      = lsum ((pixels K.h K.w).map fun ij =>
          if (((Spec.unmaskedPixels ms).getD s (0, 0)).1 : Int)
                = (((Spec.unmaskedPixels m)[k]).1 : Int) + ((K.h / 2 : Nat) : Int) - (ij.1 : Int)
              ∧ (((Spec.unmaskedPixels ms).getD s (0, 0)).2 : Int)
                = (((Spec.unmaskedPixels m)[k]).2 : Int) + ((K.w / 2 : Nat) : Int) - (ij.2 : Int)
          then vals.getD s 0 * K.get ij.1 ij.2 else 0) := by
    intro s hs
    have hs' := List.mem_range.mp hs
    have hfr : ((Spec.unmaskedPixels ms).map (Impl.frameAt m (Impl.maskIndexArray m) K)).getD s []
        = Impl.frameAt m (Impl.maskIndexArray m) K ((Spec.unmaskedPixels ms).getD s (0, 0)) := by
      simp [List.getD_eq_getElem?_getD, hs']
    rw [hfr, frame_filter_sum m K _ k hk]
    apply lsum_map_congr
    intro ij _
    apply if_congr _ rfl rfl
    constructor <;> (rintro ⟨h1, h2⟩; constructor <;> omega)
  rw [lsum_map_congr _ _ _ step1, lsum_comm]
  apply lsum_map_congr
  intro ij _
  exact source_sum ms vals _ _ (K.get ij.1 ij.2)

/-! ### C03.a — the masked convolution is the true convolution of the combined native image -/

theorem readZ_addNative (h w : Nat) (a b : List α) (ha : a.length = h * w) (hb : b.length = h * w)
    (y x : Int) :
    readZ h w (addNative a b) y x = readZ h w a y x + readZ h w b y x := by
  unfold readZ addNative
  by_cases hin : 0 ≤ y ∧ y < (h : Int) ∧ 0 ≤ x ∧ x < (w : Int)
  · simp only [hin, and_self, if_true]
    have hj : y.toNat * w + x.toNat < h * w :=
      flat_lt (p := (y.toNat, x.toNat)) (mem_pixels.mpr ⟨by simp only; omega, by simp only; omega⟩)
    simp [List.getD_eq_getElem?_getD, ha, hb, hj]
  · simp [hin]

theorem convolve_length (cv : Convolver α) (img blur : List α) :
    (Impl.convolve cv img blur).length = img.length := by
  simp [Impl.convolve, scatterFrames_length]

theorem convolveNoBlurring_length (cv : Convolver α) (img : List α) :
    (Impl.convolveNoBlurring cv img).length = img.length := by
  simp [Impl.convolveNoBlurring, scatterFrames_length]

theorem convolve_getD (m : Mask) (K : Kernel α) (cv : Convolver α)
    (hcv : Impl.convolver m K = .ok cv) (img blur : List α)
    (himg : img.length = (Spec.unmaskedPixels m).length)
    (hblur : blur.length = (Spec.unmaskedPixels cv.blurringMask).length)
    (k : Nat) (hk : k < (Spec.unmaskedPixels m).length) :
    (Impl.convolve cv img blur).getD k 0
      = conv2 m.h m.w K
          (addNative (Impl.nativeFrom m img 0) (Impl.nativeFrom cv.blurringMask blur 0))
          ((Spec.unmaskedPixels m)[k]) := by
  have spec := convolver_ok m K cv hcv
  obtain ⟨hbh, hbw, _, _⟩ := C10_blurring_spec m spec.oddH spec.oddW spec.blur
  unfold Impl.convolve
  have hk1 : k < (List.replicate img.length (0 : α)).length := by simpa [himg] using hk
  have hk2 : k < (scatterFrames cv.imageFrames img (List.replicate img.length 0)).length := by
    rw [scatterFrames_length]; exact hk1
  rw [scatterFrames_getD _ _ _ _ hk2, scatterFrames_getD _ _ _ _ hk1]
  have h0 : (List.replicate img.length (0 : α)).getD k 0 = 0 := by
    simp only [List.getD_eq_getElem?_getD, List.getElem?_replicate]
    split <;> rfl
  rw [h0, zero_add, spec.imageFrames, spec.blurringFrames,
    scatter_pass m m K img k hk himg, scatter_pass m cv.blurringMask K blur k hk hblur]
  unfold conv2
  rw [← lsum_map_add]
  apply lsum_map_congr
  intro ij _
  rw [readZ_addNative m.h m.w _ _ (nativeFrom_length m img 0)
    (by rw [nativeFrom_length, hbh, hbw]), hbh, hbw]
  ring

theorem convolveNoBlurring_getD (m : Mask) (K : Kernel α) (cv : Convolver α)
    (hcv : Impl.convolver m K = .ok cv) (img : List α)
    (himg : img.length = (Spec.unmaskedPixels m).length)
    (k : Nat) (hk : k < (Spec.unmaskedPixels m).length) :
    (Impl.convolveNoBlurring cv img).getD k 0
      = conv2 m.h m.w K (Impl.nativeFrom m img 0) ((Spec.unmaskedPixels m)[k]) := by
  have spec := convolver_ok m K cv hcv
  unfold Impl.convolveNoBlurring
  have hk1 : k < (List.replicate img.length (0 : α)).length := by simpa [himg] using hk
  rw [scatterFrames_getD _ _ _ _ hk1]
  have h0 : (List.replicate img.length (0 : α)).getD k 0 = 0 := by
    simp only [List.getD_eq_getElem?_getD, List.getElem?_replicate]
    split <;> rfl
  rw [h0, zero_add, spec.imageFrames, scatter_pass m m K img k hk himg]
  rfl

/-! ### C03.e — agreement with the whole-frame convolution -/

theorem slimFrom_length (m : Mask) (a : List α) :
    (Impl.slimFrom m a 0).length = (Spec.unmaskedPixels m).length := by
  rw [slimFrom_eq]; simp [Spec.slimFrom]

/-- native(slim(A)) read at an integer position: `A` on the unmasked in-array pixels, zero elsewhere -/
theorem readZ_native_slim (m : Mask) (a : List α) (y x : Int) :
    readZ m.h m.w (Impl.nativeFrom m (Impl.slimFrom m a 0) 0) y x
      = if (0 ≤ y ∧ y < (m.h : Int) ∧ 0 ≤ x ∧ x < (m.w : Int)) ∧ m.get y.toNat x.toNat = false
        then a.getD (y.toNat * m.w + x.toNat) 0 else 0 := by
  unfold readZ
  by_cases hin : 0 ≤ y ∧ y < (m.h : Int) ∧ 0 ≤ x ∧ x < (m.w : Int)
  · simp only [hin, and_self, if_true, true_and]
    have hj : y.toNat * m.w + x.toNat < m.h * m.w :=
      flat_lt (p := (y.toNat, x.toNat)) (mem_pixels.mpr ⟨by simp only; omega, by simp only; omega⟩)
    cases hm : m.get y.toNat x.toNat with
    | true =>
      have := nativeFrom_masked m (Impl.slimFrom m a 0) (0 : α) _ hj (by simpa [Mask.get] using hm)
      rw [List.getD_eq_getElem?_getD, this]
      simp
    | false =>
      obtain ⟨k, hk, hflat⟩ := exists_slim_index m _ hj (by simpa [Mask.get] using hm)
      have := nativeFrom_hit m (Impl.slimFrom m a 0) (0 : α) k hk
      rw [hflat] at this
      rw [List.getD_eq_getElem?_getD, this, slimFrom_eq]
      simp [Spec.slimFrom, hk, hflat]
  · simp [hin]

theorem whole_frame (m : Mask) (K : Kernel α) (cv : Convolver α)
    (hcv : Impl.convolver m K = .ok cv) (a : List α)
    (k : Nat) (hk : k < (Spec.unmaskedPixels m).length) :
    (Impl.convolve cv (Impl.slimFrom m a 0) (Impl.slimFrom cv.blurringMask a 0)).getD k 0
      = conv2 m.h m.w K a ((Spec.unmaskedPixels m)[k]) := by
  have spec := convolver_ok m K cv hcv
  obtain ⟨hbh, hbw, _, hget⟩ := C10_blurring_spec m spec.oddH spec.oddW spec.blur
  rw [convolve_getD m K cv hcv _ _ (slimFrom_length m a) (slimFrom_length cv.blurringMask a) k hk]
  have hp := mem_unmaskedPixels.mp (List.getElem_mem hk)
  generalize (Spec.unmaskedPixels m)[k] = p at hp ⊢
  unfold conv2
  apply lsum_map_congr
  intro ij hij
  rw [mem_pixels] at hij
  congr 1
  rw [readZ_addNative m.h m.w _ _ (nativeFrom_length m _ 0) (by rw [nativeFrom_length, hbh, hbw])]
  have h2 := readZ_native_slim cv.blurringMask a
    ((p.1 : Int) + ((K.h / 2 : Nat) : Int) - (ij.1 : Int)) ((p.2 : Int) + ((K.w / 2 : Nat) : Int) - (ij.2 : Int))
  rw [hbh, hbw] at h2
  rw [readZ_native_slim m a, h2]
  generalize hy : (p.1 : Int) + ((K.h / 2 : Nat) : Int) - (ij.1 : Int) = y
  generalize hx : (p.2 : Int) + ((K.w / 2 : Nat) : Int) - (ij.2 : Int) = x
  unfold readZ
  by_cases hin : 0 ≤ y ∧ y < (m.h : Int) ∧ 0 ≤ x ∧ x < (m.w : Int)
  · simp only [hin, and_self, if_true, true_and]
    have hb := hget y.toNat x.toNat (by omega) (by omega)
    cases hm : m.get y.toNat x.toNat with
    | false =>
      have : cv.blurringMask.get y.toNat x.toNat ≠ false := by
        intro h
        have := (hb.mp h).1
        rw [hm] at this
        exact Bool.noConfusion this
      simp [this]
    | true =>
      have : cv.blurringMask.get y.toNat x.toNat = false := by
        apply hb.mpr
        refine ⟨hm, p, hp.1, hp.2.1, hp.2.2, ?_⟩
        unfold inFootprint half
        simp only
        omega
      simp [this]
  · simp [hin]

end Model
