/-
Proofs/ConvolutionMatrix.lean — `convolve_matrix_jit` acts column by column as
`convolve_no_blurring_jit` (C03.c), for every sparsity test that only skips zeros.
-/
import Proofs.Convolution

namespace Model

open Impl Spec

variable {α : Type} [CommRing α]

/-- column `c` of a matrix stored as a list of rows -/
def col (c : Nat) (M : List (List α)) : List α := M.map fun r => r.getD c 0

def Shape (nr nc : Nat) (M : List (List α)) : Prop := M.length = nr ∧ ∀ r ∈ M, r.length = nc

theorem matAdd_shape {nr nc : Nat} {out : List (List α)} (hs : Shape nr nc out) (t c : Nat) (v : α) :
    Shape nr nc (Impl.matAdd out t c v) := by
  unfold Impl.matAdd
  refine ⟨by simpa using hs.1, ?_⟩
  intro r hr
  by_cases ht : t < out.length
  · rcases List.mem_or_eq_of_mem_set hr with h | h
    · exact hs.2 r h
    · rw [h, List.length_set]
      have : out.getD t [] = out[t] := by simp [List.getD_eq_getElem?_getD, ht]
      rw [this]
      exact hs.2 _ (List.getElem_mem ht)
  · rw [List.set_eq_of_length_le (by omega)] at hr
    exact hs.2 r hr

theorem col_matAdd {nr nc : Nat} {out : List (List α)} (hs : Shape nr nc out) (t c c' : Nat)
    (hc' : c' < nc) (v : α) :
    col c (Impl.matAdd out t c' v) = if c' = c then addAt (col c out) (t, v) else col c out := by
  unfold Impl.matAdd col
  by_cases ht : t < out.length
  · have hrow : out.getD t [] = out[t] := by simp [List.getD_eq_getElem?_getD, ht]
    have hrl : (out[t]).length = nc := hs.2 _ (List.getElem_mem ht)
    rw [List.map_set, hrow]
    by_cases hcc : c' = c
    · subst hcc
      simp only [if_true, addAt]
      congr 1
      have : (List.map (fun r => r.getD c' 0) out).getD t 0 = (out[t]).getD c' 0 := by
        simp [List.getD_eq_getElem?_getD, ht]
      rw [this]
      simp [List.getD_eq_getElem?_getD, List.getElem?_set_self (by omega : c' < (out[t]).length)]
    · simp only [hcc, if_false]
      have : ((out[t]).set c' ((out[t]).getD c' 0 + v)).getD c 0 = (out[t]).getD c 0 := by
        simp [List.getD_eq_getElem?_getD, List.getElem?_set_ne hcc]
      rw [this]
      apply List.ext_getElem
      · simp
      · intro i h1 h2
        by_cases hi : t = i
        · subst hi; simp
        · simp [List.getElem_set_ne hi]
  · rw [List.set_eq_of_length_le (by omega)]
    split
    · unfold addAt
      rw [List.set_eq_of_length_le (by simp; omega)]
    · rfl

/-- innermost loop (entries of one frame) seen on column `c` -/
theorem col_frame_loop {nr nc : Nat} (fr : List (Nat × α)) (out : List (List α)) (hs : Shape nr nc out)
    (c c' : Nat) (hc' : c' < nc) (v : α) :
    Shape nr nc (fr.foldl (fun out e => Impl.matAdd out e.1 c' (v * e.2)) out)
    ∧ col c (fr.foldl (fun out e => Impl.matAdd out e.1 c' (v * e.2)) out)
        = if c' = c then (fr.map fun e => (e.1, v * e.2)).foldl addAt (col c out) else col c out := by
  induction fr generalizing out with
  | nil => exact ⟨hs, by simp⟩
  | cons e fr ih =>
    simp only [List.foldl_cons, List.map_cons]
    obtain ⟨h1, h2⟩ := ih (Impl.matAdd out e.1 c' (v * e.2)) (matAdd_shape hs _ _ _)
    refine ⟨h1, ?_⟩
    rw [h2, col_matAdd hs _ _ _ hc']
    split <;> rfl

/-- the entries source `s` contributes to column `c` under the sparsity test -/
def keptEntries (keep : α → Bool) (frames : List (List (Nat × α))) (M : List (List α)) (c s : Nat) :
    List (Nat × α) :=
  if keep ((M.getD s []).getD c 0) then
    (frames.getD s []).map fun e => (e.1, (M.getD s []).getD c 0 * e.2)
  else []

/-- middle loop (all sources of one column) seen on column `c` -/
theorem col_source_loop {nr nc : Nat} (keep : α → Bool) (cv : Convolver α) (M : List (List α))
    (ss : List Nat) (out : List (List α)) (hs : Shape nr nc out) (c c' : Nat) (hc' : c' < nc) :
    let body := fun (out : List (List α)) (s : Nat) =>
      let value := (M.getD s []).getD c' 0
      if keep value then
        let fr := cv.imageFrames.getD s []
        (List.range fr.length).foldl
          (fun out k => let e := fr.getD k (0, 0); Impl.matAdd out e.1 c' (value * e.2)) out
      else out
    Shape nr nc (ss.foldl body out)
    ∧ col c (ss.foldl body out)
        = if c' = c then (ss.flatMap (keptEntries keep cv.imageFrames M c)).foldl addAt (col c out)
          else col c out := by
  intro body
  induction ss generalizing out with
  | nil => exact ⟨hs, by simp⟩
  | cons s ss ih =>
    simp only [List.foldl_cons, List.flatMap_cons, List.foldl_append]
    have hbody : Shape nr nc (body out s) ∧ col c (body out s)
        = if c' = c then (keptEntries keep cv.imageFrames M c s).foldl addAt (col c out)
          else col c out := by
      simp only [body]
      by_cases hk : keep ((M.getD s []).getD c' 0) = true
      · simp only [hk, if_true]
        have hfold := foldl_range_getD (cv.imageFrames.getD s []) ((0, 0) : Nat × α)
          (fun out e => Impl.matAdd out e.1 c' ((M.getD s []).getD c' 0 * e.2)) out
        rw [hfold]
        obtain ⟨h1, h2⟩ := col_frame_loop (cv.imageFrames.getD s []) out hs c c' hc'
          ((M.getD s []).getD c' 0)
        refine ⟨h1, ?_⟩
        rw [h2]
        by_cases hcc : c' = c
        · subst hcc; simp only [keptEntries, hk, ↓reduceIte]
        · simp only [hcc, ↓reduceIte]
      · simp only [hk, Bool.false_eq_true, if_false]
        refine ⟨hs, ?_⟩
        by_cases hcc : c' = c
        · subst hcc; simp only [keptEntries, hk, ↓reduceIte, List.foldl_nil, Bool.false_eq_true]
        · simp only [hcc, ↓reduceIte]
    obtain ⟨h1, h2⟩ := ih (body out s) hbody.1
    refine ⟨h1, ?_⟩
    rw [h2, hbody.2]
    split <;> rfl

/-- outer loop over the columns -/
theorem col_convolveMatrixWith (keep : α → Bool) (cv : Convolver α) (nrows ncols : Nat)
    (M : List (List α)) (c : Nat) (hc : c < ncols) :
    col c (Impl.convolveMatrixWith keep cv nrows ncols M)
      = ((List.range nrows).flatMap (keptEntries keep cv.imageFrames M c)).foldl addAt
          (List.replicate nrows 0) := by
  unfold Impl.convolveMatrixWith
  have hinit : Shape nrows ncols (List.replicate nrows (List.replicate ncols (0 : α))) :=
    ⟨by simp, fun r hr => by rw [List.eq_of_mem_replicate hr]; simp⟩
  have hcol0 : col c (List.replicate nrows (List.replicate ncols (0 : α))) = List.replicate nrows 0 := by
    simp [col, List.getD_eq_getElem?_getD, hc]
  -- generalised over the prefix of columns already processed
  suffices H : ∀ n, n ≤ ncols →
      let R := (List.range n).foldl (fun out c' => (List.range nrows).foldl
        (fun out s =>
          let value := (M.getD s []).getD c' 0
          if keep value then
            let fr := cv.imageFrames.getD s []
            (List.range fr.length).foldl
              (fun out k => let e := fr.getD k (0, 0); Impl.matAdd out e.1 c' (value * e.2)) out
          else out) out) (List.replicate nrows (List.replicate ncols (0 : α)))
      Shape nrows ncols R ∧ col c R
        = if c < n then ((List.range nrows).flatMap (keptEntries keep cv.imageFrames M c)).foldl addAt
            (List.replicate nrows 0) else List.replicate nrows 0 by
    have := (H ncols (Nat.le_refl _)).2
    simp only [hc, if_true] at this
    exact this
  intro n
  induction n with
  | zero => intro _; exact ⟨hinit, by simpa using hcol0⟩
  | succ n ih =>
    intro hn
    obtain ⟨h1, h2⟩ := ih (by omega)
    simp only [List.range_succ, List.foldl_append, List.foldl_cons, List.foldl_nil]
    obtain ⟨g1, g2⟩ := col_source_loop keep cv M (List.range nrows) _ h1 c n (by omega)
    refine ⟨g1, ?_⟩
    rw [g2, h2]
    by_cases hcn : n = c
    · subst hcn
      simp
    · simp only [hcn, if_false]
      by_cases hlt : c < n
      · simp [hlt, Nat.lt_succ_of_lt hlt]
      · have : ¬ c < n + 1 := by omega
        simp [hlt, this]

/-- folding `out[t] += 0` updates does nothing -/
theorem addAt_fold_zeros (es : List (Nat × α)) (out : List α) (h : ∀ e ∈ es, e.2 = 0) :
    es.foldl addAt out = out := by
  induction es generalizing out with
  | nil => rfl
  | cons e es ih =>
    simp only [List.foldl_cons]
    have he : e = (e.1, 0) := by
      have := h e (List.mem_cons_self ..)
      exact Prod.ext rfl this
    rw [he, addAt_zero]
    exact ih out fun e' he' => h e' (List.mem_cons_of_mem _ he')

/-- the vector `convolve_no_blurring_jit` receives when handed column `c` -/
def colVec (nrows : Nat) (M : List (List α)) (c : Nat) : List α :=
  (List.range nrows).map fun s => (M.getD s []).getD c 0

theorem colVec_getD (nrows : Nat) (M : List (List α)) (c s : Nat) (hs : s < nrows) :
    (colVec nrows M c).getD s 0 = (M.getD s []).getD c 0 := by
  simp [colVec, List.getD_eq_getElem?_getD, hs]

/-- **C03.c**: if the sparsity test only skips zero entries, column `c` of the blurred mapping matrix
    is `convolve_no_blurring_jit` applied to column `c`. -/
theorem convolveMatrixWith_col (keep : α → Bool) (cv : Convolver α) (nrows ncols : Nat)
    (M : List (List α)) (c : Nat) (hc : c < ncols)
    (hkeep : ∀ s, s < nrows → keep ((M.getD s []).getD c 0) = false → (M.getD s []).getD c 0 = 0) :
    col c (Impl.convolveMatrixWith keep cv nrows ncols M)
      = Impl.convolveNoBlurring cv (colVec nrows M c) := by
  rw [col_convolveMatrixWith keep cv nrows ncols M c hc]
  unfold Impl.convolveNoBlurring
  rw [scatterFrames_eq]
  have hlen : (colVec nrows M c).length = nrows := by simp [colVec]
  rw [hlen]
  -- compare the two event lists source by source
  suffices H : ∀ (ss : List Nat) (out : List α), (∀ s ∈ ss, s < nrows) →
      (ss.flatMap (keptEntries keep cv.imageFrames M c)).foldl addAt out
        = (ss.flatMap (frameEntries cv.imageFrames (colVec nrows M c))).foldl addAt out by
    exact H _ _ (fun s hs => List.mem_range.mp hs)
  intro ss
  induction ss with
  | nil => intro out _; rfl
  | cons s ss ih =>
    intro out hss
    have hs : s < nrows := hss s (List.mem_cons_self ..)
    simp only [List.flatMap_cons, List.foldl_append]
    have hone : (keptEntries keep cv.imageFrames M c s).foldl addAt out
        = (frameEntries cv.imageFrames (colVec nrows M c) s).foldl addAt out := by
      unfold keptEntries frameEntries
      rw [colVec_getD nrows M c s hs]
      by_cases hk : keep ((M.getD s []).getD c 0) = true
      · simp only [hk, ↓reduceIte]
      · have hk' : keep ((M.getD s []).getD c 0) = false := by simpa using hk
        simp only [hk', Bool.false_eq_true, if_false, List.foldl_nil]
        rw [hkeep s hs hk']
        symm
        apply addAt_fold_zeros
        intro e he
        obtain ⟨e', _, rfl⟩ := List.mem_map.mp he
        simp
    rw [hone]
    exact ih _ (fun s' hs' => hss s' (List.mem_cons_of_mem _ hs'))

end Model
