/-
Proofs/ConvolutionPipeline.lean — lemmas for the simulate → mask → fit pipeline (C03, last clause).
`α` is any field.
-/
import Model.ConvolutionPipeline
import Proofs.ConvolutionMain
import Mathlib.Algebra.Field.Defs
import Mathlib.Algebra.Field.Basic

namespace Model

open Impl Spec

variable {α : Type} [Field α]

/-! ### kernel normalisation -/

@[simp] theorem kernel2d_false (K : Kernel α) : Impl.kernel2d K false = K := rfl

theorem kernel2d_h (K : Kernel α) (b : Bool) : (Impl.kernel2d K b).h = K.h := by
  cases b <;> rfl

theorem kernel2d_w (K : Kernel α) (b : Bool) : (Impl.kernel2d K b).w = K.w := by
  cases b <;> rfl

/-- after normalisation the entries sum to one -/
theorem kernelSum_normalized (K : Kernel α) (hS : Impl.kernelSum K ≠ 0) :
    Impl.kernelSum (Impl.kernel2d K true) = 1 := by
  unfold Impl.kernel2d Impl.kernelSum
  simp only [if_true]
  have : (K.vals.map fun v => v / lsum K.vals) = K.vals.map fun v => (fun v => v) v * (lsum K.vals)⁻¹ := by
    apply List.map_congr_left
    intro v _
    exact div_eq_mul_inv v _
  rw [this, lsum_map_mul_right]
  simp only [List.map_id']
  exact mul_inv_cancel₀ hS

/-- normalising a normalised kernel changes nothing: along any chain of `normalize=True`
    constructions normalisation acts exactly once -/
theorem kernel2d_idem (K : Kernel α) (hS : Impl.kernelSum K ≠ 0) :
    Impl.kernel2d (Impl.kernel2d K true) true = Impl.kernel2d K true := by
  have h1 := kernelSum_normalized K hS
  generalize Impl.kernel2d K true = K' at h1 ⊢
  unfold Impl.kernel2d
  simp only [if_true, h1, div_one, List.map_id']

/-- `kernel2d (kernel2d K b) b = kernel2d K b` for either flag -/
theorem kernel2d_idem' (K : Kernel α) (b : Bool) (hS : b = true → Impl.kernelSum K ≠ 0) :
    Impl.kernel2d (Impl.kernel2d K b) b = Impl.kernel2d K b := by
  cases b
  · rfl
  · exact kernel2d_idem K (hS rfl)

/-! ### all-False masks and `Array2D(values=native, mask)` -/

omit [Field α] in
theorem allFalse_get {h w : Nat} {p : Nat × Nat} (hp : p ∈ pixels h w) :
    (Mask.allFalse h w).get p.1 p.2 = false := by
  have := flat_lt hp
  simp only [flat] at this
  simp [Mask.get, Mask.allFalse, List.getD_eq_getElem?_getD, this]

omit [Field α] in
theorem unmaskedPixels_allFalse (h w : Nat) :
    Spec.unmaskedPixels (Mask.allFalse h w) = pixels h w := by
  unfold Spec.unmaskedPixels
  show (pixels h w).filter _ = pixels h w
  rw [List.filter_eq_self]
  intro p hp
  have := allFalse_get hp
  simp only [Mask.allFalse] at this ⊢
  simp [this]

theorem slimFrom_allFalse (h w : Nat) (a : List α) (ha : a.length = h * w) :
    Impl.slimFrom (Mask.allFalse h w) a 0 = a := by
  rw [slimFrom_eq]
  unfold Spec.slimFrom
  rw [unmaskedPixels_allFalse]
  show (pixels h w).map (fun p => a.getD (flat w p) 0) = a
  have : (pixels h w).map (fun p => a.getD (flat w p) 0)
      = ((pixels h w).map (flat w)).map (fun k => a.getD k 0) := by
    rw [List.map_map]; rfl
  rw [this, pixels_map_flat]
  apply List.ext_getElem
  · simp [ha]
  · intro i h1 h2
    simp [List.getD_eq_getElem?_getD, h2]

theorem nativeFrom_allFalse (h w : Nat) (a : List α) (ha : a.length = h * w) :
    Impl.nativeFrom (Mask.allFalse h w) a 0 = a := by
  apply List.ext_getElem?
  intro j
  by_cases hj : j < h * w
  · have hk : j < (Spec.unmaskedPixels (Mask.allFalse h w)).length := by
      rw [unmaskedPixels_allFalse, pixels_length]; exact hj
    have hhit := nativeFrom_hit (Mask.allFalse h w) a (0 : α) j hk
    have hflat : flat (Mask.allFalse h w).w (Spec.unmaskedPixels (Mask.allFalse h w))[j] = j := by
      have := pixels_getElem h w j (by rw [pixels_length]; exact hj)
      simp only [unmaskedPixels_allFalse]
      exact this
    rw [hflat] at hhit
    rw [hhit]
    simp [List.getD_eq_getElem?_getD, ha, hj]
  · have h1 : (Impl.nativeFrom (Mask.allFalse h w) a 0).length ≤ j := by
      rw [nativeFrom_length]; simp only [Mask.allFalse]; omega
    rw [List.getElem?_eq_none h1, List.getElem?_eq_none (by omega)]

/-- `Array2D(values=native, mask).slim` gathers the native values at the unmasked pixels -/
theorem array2dSlim_eq (m : Mask) (v : List α) : Impl.array2dSlim m v = Impl.slimFrom m v 0 := by
  unfold Impl.array2dSlim
  rw [slimFrom_eq, slimFrom_eq]
  unfold Spec.slimFrom
  apply List.map_congr_left
  intro p hp
  have hm := mem_unmaskedPixels.mp hp
  have hj : flat m.w p < m.h * m.w := flat_lt (mem_pixels.mpr ⟨hm.1, hm.2.1⟩)
  have hb : m.bits.getD (flat m.w p) true = false := by
    have := hm.2.2
    simpa [Mask.get, flat] using this
  have hb' : m.bits[flat m.w p]?.getD true = false := by simpa using hb
  simp [Impl.applyMask, List.getD_eq_getElem?_getD, hj, hb']

theorem zipWith_add_sub_replicate (c : List α) (n : Nat) (b : α) (hc : c.length = n) :
    List.zipWith (· - ·) (List.zipWith (· + ·) c (List.replicate n b)) (List.replicate n b) = c := by
  apply List.ext_getElem
  · simp [hc]
  · intro i h1 h2
    simp

/-! ### the stages of the pipeline -/

/-- contract assumed of `scipy.signal.convolve2d(mode="same")` for odd kernels -/
def Conv2dSameContract (scipy : Conv2dSame α) : Prop :=
  ∀ (h w : Nat) (K : Kernel α) (a : List α), K.h % 2 = 1 → K.w % 2 = 1 →
    scipy h w K a = (pixels h w).map fun p => conv2 h w K a p

theorem convSameFn_contract : Conv2dSameContract (Spec.convSameFn (α := α)) :=
  fun _ _ _ _ _ _ => rfl

theorem blurringFrom_ok_of_inside (m : Mask) {kh kw : Nat} (hkh : kh % 2 = 1) (hkw : kw % 2 = 1)
    (hin : ∀ p : Nat × Nat, p.1 < m.h → p.2 < m.w → m.get p.1 p.2 = false →
      Spec.footprintInside m.h m.w kh kw p) :
    ∃ bm, Impl.blurringFrom m kh kw = .ok bm := by
  have hodd : (kh % 2 == 0 || kw % 2 == 0) = false := by simp [hkh, hkw]
  have hsome := (blurringBits_isSome_iff m hkh hkw).mpr hin
  cases hb : Impl.blurringBits m kh kw with
  | none => rw [hb] at hsome; exact absurd hsome (by simp)
  | some b =>
    exact ⟨{ h := m.h, w := m.w, bits := b },
      by simp only [Impl.blurringFrom, hodd, hb, Bool.false_eq_true, if_false]⟩

theorem convolver_ok_of_inside (m : Mask) (K : Kernel α) (hkh : K.h % 2 = 1) (hkw : K.w % 2 = 1)
    (hin : ∀ p : Nat × Nat, p.1 < m.h → p.2 < m.w → m.get p.1 p.2 = false →
      Spec.footprintInside m.h m.w K.h K.w p) :
    ∃ cv, Impl.convolver m K = .ok cv := by
  have hodd : (K.h % 2 == 0 || K.w % 2 == 0) = false := by simp [hkh, hkw]
  have hsome := (blurringBits_isSome_iff m hkh hkw).mpr hin
  cases hb : Impl.blurringBits m K.h K.w with
  | none => rw [hb] at hsome; exact absurd hsome (by simp)
  | some b =>
    simp only [Impl.convolver, hodd, hb, Bool.false_eq_true, if_false]
    exact ⟨_, rfl⟩

/-- `Imaging.__init__` when the padding probe passes (or is not made) -/
theorem imagingInit_ok (mask : Mask) (data noise : List α) (psf : Kernel α) (pad norm : Bool)
    (hprobe : pad = true → ∃ bm, Impl.blurringFrom mask psf.h psf.w = .ok bm) :
    Impl.imagingInit mask data noise psf pad norm
      = .ok { mask := mask, data := data, noiseMap := noise, psf := Impl.kernel2d psf norm,
              useNormalizedPsf := norm } := by
  unfold Impl.imagingInit
  cases pad with
  | false => cases norm <;> simp [Impl.kernel2d]
  | true =>
    obtain ⟨bm, hbm⟩ := hprobe rfl
    cases norm <;> simp [hbm, Impl.kernel2d]

/-- stage 1: `SimulatorImaging(...).via_image_from(image)`, noise off, sky subtracted -/
theorem viaImageFrom_ok (scipy : Conv2dSame α) (hscipy : Conv2dSameContract scipy)
    (ex bg noise : α) (K : Kernel α) (norm : Bool) (hkh : K.h % 2 = 1) (hkw : K.w % 2 = 1)
    (hS : norm = true → Impl.kernelSum K ≠ 0) (h w : Nat) (image : List α) :
    Impl.viaImageFrom scipy (Impl.simulatorInit ex bg true K norm noise) h w image
      = .ok { mask := Mask.allFalse h w,
              data := (pixels h w).map fun p => conv2 h w (Impl.kernel2d K norm) image p,
              noiseMap := List.replicate (h * w) noise,
              psf := Impl.kernel2d K norm, useNormalizedPsf := norm } := by
  have hpsf : (Impl.simulatorInit ex bg true K norm noise).psf = Impl.kernel2d K norm := by
    cases norm <;> rfl
  unfold Impl.viaImageFrom Impl.viaImageFromWith
  simp only [hpsf, if_true]
  have hh : (Impl.kernel2d K norm).h % 2 = 1 := by rw [kernel2d_h]; exact hkh
  have hw : (Impl.kernel2d K norm).w % 2 = 1 := by rw [kernel2d_w]; exact hkw
  have hodd : ((Impl.kernel2d K norm).h % 2 == 0 || (Impl.kernel2d K norm).w % 2 == 0) = false := by
    simp [hh, hw]
  have hlen : ((pixels h w).map fun p => conv2 h w (Impl.kernel2d K norm) image p).length = h * w := by
    simp [pixels_length]
  have hconv : Impl.convolvedArrayFrom scipy (Impl.kernel2d K norm) (Mask.allFalse h w) image
      = some ((pixels h w).map fun p => conv2 h w (Impl.kernel2d K norm) image p) := by
    unfold Impl.convolvedArrayFrom
    simp only [hodd, Bool.false_eq_true, if_false]
    have : scipy (Mask.allFalse h w).h (Mask.allFalse h w).w (Impl.kernel2d K norm) image
        = (pixels h w).map fun p => conv2 h w (Impl.kernel2d K norm) image p :=
      hscipy h w _ image hh hw
    rw [this, slimFrom_allFalse h w _ hlen]
  rw [hconv]
  simp only
  have hbgs : (Impl.simulatorInit ex bg true K norm noise).backgroundSkyLevel = bg := rfl
  have hsub : (Impl.simulatorInit ex bg true K norm noise).subtractBackgroundSky = true := rfl
  have hnoise : (Impl.simulatorInit ex bg true K norm noise).noiseIfAddNoiseFalse = noise := rfl
  have hnorm : (Impl.simulatorInit ex bg true K norm noise).normalizePsf = norm := rfl
  rw [hbgs, hsub, hnoise, hnorm]
  simp only [if_true]
  rw [zipWith_add_sub_replicate _ _ _ hlen,
    imagingInit_ok _ _ _ _ false norm (fun h => Bool.noConfusion h), kernel2d_idem' K norm hS]

/-- stage 2: `Imaging.apply_mask(mask)` on the simulated (unmasked) dataset -/
theorem applyMask_ok (ds : Imaging α) (mask : Mask) (h w : Nat) (hds : ds.mask = Mask.allFalse h w)
    (hdata : ds.data.length = h * w) (hnoise : ds.noiseMap.length = h * w)
    (hprobe : ∃ bm, Impl.blurringFrom mask ds.psf.h ds.psf.w = .ok bm) :
    Impl.applyMaskDs ds mask
      = .ok { mask := mask, data := Impl.slimFrom mask ds.data 0,
              noiseMap := Impl.slimFrom mask ds.noiseMap 0,
              psf := Impl.kernel2d ds.psf ds.useNormalizedPsf,
              useNormalizedPsf := ds.useNormalizedPsf } := by
  unfold Impl.applyMaskDs Impl.applyMaskWith
  simp only [if_true]
  rw [hds, nativeFrom_allFalse h w _ hdata, nativeFrom_allFalse h w _ hnoise, array2dSlim_eq,
    array2dSlim_eq, imagingInit_ok _ _ _ _ true _ (fun _ => hprobe)]

/-! ### the composed pipeline -/

theorem slimFrom_convSame_getD (m : Mask) (K : Kernel α) (image : List α) (k : Nat)
    (hk : k < (Spec.unmaskedPixels m).length) :
    (Impl.slimFrom m ((pixels m.h m.w).map fun p => conv2 m.h m.w K image p) 0).getD k 0
      = conv2 m.h m.w K image ((Spec.unmaskedPixels m)[k]) := by
  rw [slimFrom_eq]
  have hmem := mem_unmaskedPixels.mp (List.getElem_mem hk)
  have hpix := pixels_getElem?_flat (mem_pixels.mpr ⟨hmem.1, hmem.2.1⟩)
  simp only [Spec.slimFrom, List.getD_eq_getElem?_getD, List.getElem?_map,
    List.getElem?_eq_getElem hk, Option.map_some, Option.getD_some, flat, hpix]

theorem simulateAndFit_spec (scipy : Conv2dSame α) (hscipy : Conv2dSameContract scipy)
    (ex bg noise : α) (K : Kernel α) (norm : Bool) (hkh : K.h % 2 = 1) (hkw : K.w % 2 = 1)
    (hS : norm = true → Impl.kernelSum K ≠ 0) (mask : Mask) (image : List α)
    (hin : ∀ p : Nat × Nat, p.1 < mask.h → p.2 < mask.w → mask.get p.1 p.2 = false →
      Spec.footprintInside mask.h mask.w K.h K.w p) :
    ∃ obs, Impl.simulateAndFit scipy ex bg true K norm noise mask image = .ok obs
      ∧ obs.psf = Impl.kernel2d K norm
      ∧ obs.simulated
          = (pixels mask.h mask.w).map (fun p => conv2 mask.h mask.w (Impl.kernel2d K norm) image p)
      ∧ obs.data = Impl.slimFrom mask obs.simulated 0
      ∧ obs.residual.length = (Spec.unmaskedPixels mask).length
      ∧ ∀ k, obs.residual.getD k 0 = 0 := by
  have h1 := viaImageFrom_ok scipy hscipy ex bg noise K norm hkh hkw hS mask.h mask.w image
  unfold Impl.viaImageFrom at h1
  have hh : (Impl.kernel2d K norm).h % 2 = 1 := by rw [kernel2d_h]; exact hkh
  have hw : (Impl.kernel2d K norm).w % 2 = 1 := by rw [kernel2d_w]; exact hkw
  have hin' : ∀ p : Nat × Nat, p.1 < mask.h → p.2 < mask.w → mask.get p.1 p.2 = false →
      Spec.footprintInside mask.h mask.w (Impl.kernel2d K norm).h (Impl.kernel2d K norm).w p := by
    rw [kernel2d_h, kernel2d_w]; exact hin
  have h2 := applyMask_ok
    ({ mask := Mask.allFalse mask.h mask.w,
       data := (pixels mask.h mask.w).map fun p => conv2 mask.h mask.w (Impl.kernel2d K norm) image p,
       noiseMap := List.replicate (mask.h * mask.w) noise,
       psf := Impl.kernel2d K norm, useNormalizedPsf := norm } : Imaging α)
    mask mask.h mask.w rfl (by simp [pixels_length]) (by simp)
    (blurringFrom_ok_of_inside mask hh hw hin')
  unfold Impl.applyMaskDs at h2
  simp only at h2
  rw [kernel2d_idem' K norm hS] at h2
  obtain ⟨cv, hcv⟩ := convolver_ok_of_inside mask (Impl.kernel2d K norm) hh hw hin'
  unfold Impl.simulateAndFit Impl.simulateAndFitWith
  simp only [h1, h2, hcv]
  refine ⟨_, rfl, rfl, rfl, rfl, ?_, ?_⟩
  · simp only [List.length_zipWith, slimFrom_length, convolve_length, array2dSlim_eq, Nat.min_self]
  · intro k
    simp only [array2dSlim_eq]
    by_cases hk : k < (Spec.unmaskedPixels mask).length
    · have hz : (List.zipWith (· - ·)
          (Impl.slimFrom mask ((pixels mask.h mask.w).map fun p =>
            conv2 mask.h mask.w (Impl.kernel2d K norm) image p) 0)
          (Impl.convolve cv (Impl.slimFrom mask image 0) (Impl.slimFrom cv.blurringMask image 0))).getD k 0
          = (Impl.slimFrom mask ((pixels mask.h mask.w).map fun p =>
              conv2 mask.h mask.w (Impl.kernel2d K norm) image p) 0).getD k 0
            - (Impl.convolve cv (Impl.slimFrom mask image 0) (Impl.slimFrom cv.blurringMask image 0)).getD k 0 := by
        have l1 : k < (Impl.slimFrom mask ((pixels mask.h mask.w).map fun p =>
            conv2 mask.h mask.w (Impl.kernel2d K norm) image p) 0).length := by
          rw [slimFrom_length]; exact hk
        have l2 : k < (Impl.convolve cv (Impl.slimFrom mask image 0)
            (Impl.slimFrom cv.blurringMask image 0)).length := by
          rw [convolve_length, slimFrom_length]; exact hk
        simp [List.getD_eq_getElem?_getD, l1, l2]
      rw [hz, slimFrom_convSame_getD mask _ image k hk, whole_frame mask _ cv hcv image k hk, sub_self]
    · rw [List.getD_eq_getElem?_getD, List.getElem?_eq_none]
      · rfl
      · simp only [List.length_zipWith, slimFrom_length, convolve_length, Nat.min_self]
        omega

end Model
