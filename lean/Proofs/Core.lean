/-
Proofs/Core.lean — loop-shape lemmas shared by every property (core Lean only).
-/
import Model.Core

namespace Model

theorem forYX_eq_foldl (h w : Nat) (f : β → Nat → Nat → β) (init : β) :
    forYX h w f init = (pixels h w).foldl (fun acc p => f acc p.1 p.2) init := by
  unfold forYX pixels
  simp [List.foldl_flatMap, List.foldl_map]

/-- conditional append loop = filter ∘ map -/
theorem foldl_append_if (l : List γ) (c : γ → Bool) (g : γ → δ) (init : List δ) :
    l.foldl (fun acc p => if c p then acc ++ [g p] else acc) init
      = init ++ (l.filter c).map g := by
  induction l generalizing init with
  | nil => simp
  | cons a l ih =>
    simp only [List.foldl_cons, List.filter_cons]
    rw [ih]
    split <;> simp

theorem mem_pixels {h w : Nat} {p : Nat × Nat} : p ∈ pixels h w ↔ p.1 < h ∧ p.2 < w := by
  obtain ⟨y, x⟩ := p
  simp [pixels]

theorem pixels_succ (h w : Nat) :
    pixels (h + 1) w = pixels h w ++ (List.range w).map fun x => (h, x) := by
  simp [pixels, List.range_succ, List.flatMap_append]

theorem pixels_map_flat (h w : Nat) : (pixels h w).map (flat w) = List.range (h * w) := by
  induction h with
  | zero => simp [pixels]
  | succ h ih =>
    rw [pixels_succ, List.map_append, ih, Nat.succ_mul, List.range_add]
    simp [flat, Function.comp_def]

theorem pixels_length (h w : Nat) : (pixels h w).length = h * w := by
  have := congrArg List.length (pixels_map_flat h w)
  simpa using this

/-- the k-th pixel in row-major order is `(k / w, k % w)` -/
theorem pixels_getElem (h w k : Nat) (hk : k < (pixels h w).length) :
    flat w ((pixels h w)[k]) = k := by
  have h1 : ((pixels h w).map (flat w))[k]'(by simpa using hk) = (List.range (h * w))[k]'(by
      rw [pixels_length] at hk; simpa using hk) := by
    simp only [pixels_map_flat]
  simpa using h1

/-- row-major order is strictly increasing in the flattened index -/
theorem pixels_pairwise_flat (h w : Nat) :
    (pixels h w).Pairwise (fun p q => flat w p < flat w q) := by
  have : ((pixels h w).map (flat w)).Pairwise (· < ·) := by
    rw [pixels_map_flat]; exact List.pairwise_lt_range
  exact List.pairwise_map.mp this

theorem flat_lt {h w : Nat} {p : Nat × Nat} (hp : p ∈ pixels h w) : flat w p < h * w := by
  have : flat w p ∈ (pixels h w).map (flat w) := List.mem_map_of_mem hp
  rw [pixels_map_flat] at this
  simpa using this

theorem flat_injOn {w : Nat} {p q : Nat × Nat} (hp : p.2 < w) (hq : q.2 < w)
    (h : flat w p = flat w q) : p = q := by
  obtain ⟨py, px⟩ := p
  obtain ⟨qy, qx⟩ := q
  simp only [flat] at h
  simp only at hp hq
  have hw : 0 < w := by omega
  have h1 : (py * w + px) / w = (qy * w + qx) / w := by rw [h]
  have h2 : (py * w + px) % w = (qy * w + qx) % w := by rw [h]
  rw [Nat.mul_comm py, Nat.mul_comm qy] at h1 h2
  rw [Nat.mul_add_div hw, Nat.mul_add_div hw, Nat.div_eq_of_lt hp, Nat.div_eq_of_lt hq] at h1
  rw [Nat.mul_add_mod, Nat.mul_add_mod, Nat.mod_eq_of_lt hp, Nat.mod_eq_of_lt hq] at h2
  simp at h1
  simp [h1, h2]

end Model
