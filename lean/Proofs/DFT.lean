/-
Proofs/DFT.lean — loop lemmas and refinement lemmas for Model/DFT.lean (property C13).
-/
import Model.DFT
import Model.Slim
import Proofs.Core
import Proofs.Slim
import Mathlib.Tactic.Ring
import Mathlib.Tactic.FieldSimp
import Mathlib.Tactic.Linarith
import Mathlib.Algebra.BigOperators.Group.List.Basic
import Mathlib.Algebra.BigOperators.Ring.List
import Mathlib.Algebra.Order.Field.Basic

namespace Model
namespace DFTProofs

open Impl.DFT

/-! ### point updates -/

@[simp] theorem pointSet_get {β : Type} (a : Arr β) (k : Nat) (v : β) (j : Nat) :
    (pointSet a k v).get j = if j = k then v else a.get j := rfl

@[simp] theorem pointSet_n {β : Type} (a : Arr β) (k : Nat) (v : β) : (pointSet a k v).n = a.n := rfl

@[simp] theorem pointSet2_get {β : Type} (a : Arr2 β) (k c : Nat) (v : β) (i j : Nat) :
    (pointSet2 a k c v).get i j = if i = k ∧ j = c then v else a.get i j := rfl

@[simp] theorem pointSet2_rows {β : Type} (a : Arr2 β) (k c : Nat) (v : β) :
    (pointSet2 a k c v).rows = a.rows := rfl

@[simp] theorem pointSet2_cols {β : Type} (a : Arr2 β) (k c : Nat) (v : β) :
    (pointSet2 a k c v).cols = a.cols := rfl

/-! ### 1-D accumulation loops -/

/-- `for k in range(K): a[k] = upd(a[k], k)` -/
theorem inner_loop {β : Type} (K : Nat) (upd : β → Nat → β) (a : Arr β) :
    let r := (List.range K).foldl (fun a k => pointSet a k (upd (a.get k) k)) a
    r.n = a.n ∧ ∀ j, r.get j = if j < K then upd (a.get j) j else a.get j := by
  induction K with
  | zero => simp
  | succ K ih =>
    obtain ⟨ihn, ih⟩ := ih
    simp only [List.range_succ, List.foldl_append, List.foldl_cons, List.foldl_nil]
    refine ⟨by simp [ihn], ?_⟩
    intro j
    simp only [pointSet_get, ih]
    by_cases hj : j = K
    · subst hj; simp
    · by_cases hj2 : j < K
      · simp [hj, hj2, Nat.lt_succ_of_lt hj2]
      · have : ¬ j < K + 1 := by omega
        simp [hj, hj2, this]

/-- `for i in l: for k in range(K): a[k] = upd(a[k], i, k)` — each entry folds over `l` on its own -/
theorem outer_loop {ι β : Type} (l : List ι) (K : Nat) (upd : β → ι → Nat → β) (a : Arr β) :
    let r := l.foldl (fun a i => (List.range K).foldl (fun a k => pointSet a k (upd (a.get k) i k)) a) a
    r.n = a.n ∧ ∀ j, r.get j = if j < K then l.foldl (fun b i => upd b i j) (a.get j) else a.get j := by
  induction l generalizing a with
  | nil => simp
  | cons i l ih =>
    simp only [List.foldl_cons]
    obtain ⟨h1n, h1⟩ := inner_loop K (fun b k => upd b i k) a
    obtain ⟨h2n, h2⟩ := ih ((List.range K).foldl (fun a k => pointSet a k (upd (a.get k) i k)) a)
    refine ⟨by rw [h2n, h1n], ?_⟩
    intro j
    rw [h2 j, h1 j]
    by_cases hj : j < K <;> simp [hj]

/-- `forYX N K` with a body that accumulates into entry `k` of a 1-D array -/
theorem forYX_accum {β : Type} (N K : Nat) (upd : β → Nat → Nat → β) (a : Arr β) :
    let r := forYX N K (fun a p k => pointSet a k (upd (a.get k) p k)) a
    r.n = a.n
    ∧ ∀ j, r.get j = if j < K then (List.range N).foldl (fun b p => upd b p j) (a.get j) else a.get j :=
  outer_loop (List.range N) K upd a

/-- `for k in l: a[p] = upd(a[p], k)` -/
theorem self_inner {κ β : Type} (l : List κ) (p : Nat) (upd : β → κ → β) (a : Arr β) :
    let r := l.foldl (fun a k => pointSet a p (upd (a.get p) k)) a
    r.n = a.n ∧ ∀ j, r.get j = if j = p then l.foldl upd (a.get p) else a.get j := by
  induction l generalizing a with
  | nil => intro r; exact ⟨rfl, fun j => by by_cases h : j = p <;> simp [r, h]⟩
  | cons k l ih =>
    simp only [List.foldl_cons]
    obtain ⟨hn, h⟩ := ih (pointSet a p (upd (a.get p) k))
    refine ⟨by rw [hn]; rfl, ?_⟩
    intro j
    rw [h j]
    by_cases hj : j = p <;> simp [hj]

/-- `for p in range(n): for k in l: a[p] = upd(a[p], p, k)` -/
theorem self_outer {κ β : Type} (n : Nat) (l : List κ) (upd : β → Nat → κ → β) (a : Arr β) :
    let r := (List.range n).foldl (fun a p => l.foldl (fun a k => pointSet a p (upd (a.get p) p k)) a) a
    r.n = a.n ∧ ∀ j, r.get j = if j < n then l.foldl (fun b k => upd b j k) (a.get j) else a.get j := by
  induction n with
  | zero => simp
  | succ n ih =>
    obtain ⟨ihn, ih⟩ := ih
    simp only [List.range_succ, List.foldl_append, List.foldl_cons, List.foldl_nil]
    obtain ⟨hn, h⟩ := self_inner l n (fun b k => upd b n k)
      ((List.range n).foldl (fun a p => l.foldl (fun a k => pointSet a p (upd (a.get p) p k)) a) a)
    refine ⟨by rw [hn, ihn], ?_⟩
    intro j
    rw [h j, ih j, ih n]
    by_cases hj : j = n
    · subst hj; simp
    · by_cases hj2 : j < n
      · simp [hj, hj2, Nat.lt_succ_of_lt hj2]
      · have : ¬ j < n + 1 := by omega
        simp [hj, hj2, this]

/-! ### 2-D loops -/

/-- fixed column `c`: `for k in range(K): T[k, c] = upd(T[k, c], k)` -/
theorem col_inner {β : Type} (K c : Nat) (upd : β → Nat → β) (T : Arr2 β) :
    let r := (List.range K).foldl (fun T k => pointSet2 T k c (upd (T.get k c) k)) T
    r.rows = T.rows ∧ r.cols = T.cols
    ∧ ∀ i j, r.get i j = if j = c ∧ i < K then upd (T.get i c) i else T.get i j := by
  induction K with
  | zero => simp
  | succ K ih =>
    obtain ⟨ihr, ihc, ih⟩ := ih
    simp only [List.range_succ, List.foldl_append, List.foldl_cons, List.foldl_nil]
    refine ⟨by simp [ihr], by simp [ihc], ?_⟩
    intro i j
    simp only [pointSet2_get, ih]
    by_cases hj : j = c
    · subst hj
      by_cases hi : i = K
      · subst hi; simp
      · by_cases hi2 : i < K
        · simp [hi, hi2, Nat.lt_succ_of_lt hi2]
        · have : ¬ i < K + 1 := by omega
          simp [hi, hi2, this]
    · simp [hj]

/-- fixed column `c`, guarded rows: `for p in l: if cond p: for k in range(K): T[k,c] = upd(T[k,c], p, k)` -/
theorem col_middle {ι β : Type} (l : List ι) (K c : Nat) (cond : ι → Bool) (upd : β → ι → Nat → β)
    (T : Arr2 β) :
    let r := l.foldl (fun T p =>
      if cond p then (List.range K).foldl (fun T k => pointSet2 T k c (upd (T.get k c) p k)) T else T) T
    r.rows = T.rows ∧ r.cols = T.cols
    ∧ ∀ i j, r.get i j
        = if j = c ∧ i < K then l.foldl (fun b p => if cond p then upd b p i else b) (T.get i c)
          else T.get i j := by
  induction l generalizing T with
  | nil =>
    intro r
    refine ⟨rfl, rfl, fun i j => ?_⟩
    by_cases h : j = c ∧ i < K
    · obtain ⟨rfl, _⟩ := h
      simp [r, *]
    · simp [r, h]
  | cons p l ih =>
    simp only [List.foldl_cons]
    by_cases hc : cond p
    · simp only [hc, if_true]
      obtain ⟨a1, a2, a3⟩ := col_inner K c (fun b k => upd b p k) T
      obtain ⟨b1, b2, b3⟩ := ih ((List.range K).foldl (fun T k => pointSet2 T k c (upd (T.get k c) p k)) T)
      refine ⟨by rw [b1, a1], by rw [b2, a2], ?_⟩
      intro i j
      rw [b3 i j, a3 i j, a3 i c]
      by_cases h : j = c ∧ i < K
      · simp [h]
      · simp [h]
    · simp only [hc, Bool.false_eq_true, if_false]
      exact ih T

/-- all columns: the triple loop of `transformed_mapping_matrix*_jit` -/
theorem col_outer {ι β : Type} (C : Nat) (l : List ι) (K : Nat) (cond : ι → Nat → Bool)
    (upd : β → ι → Nat → Nat → β) (T : Arr2 β) :
    let r := (List.range C).foldl (fun T c => l.foldl (fun T p =>
      if cond p c then (List.range K).foldl (fun T k => pointSet2 T k c (upd (T.get k c) p c k)) T
      else T) T) T
    r.rows = T.rows ∧ r.cols = T.cols
    ∧ ∀ i j, r.get i j
        = if j < C ∧ i < K then l.foldl (fun b p => if cond p j then upd b p j i else b) (T.get i j)
          else T.get i j := by
  induction C with
  | zero => simp
  | succ C ih =>
    obtain ⟨ihr, ihc, ih⟩ := ih
    simp only [List.range_succ, List.foldl_append, List.foldl_cons, List.foldl_nil]
    obtain ⟨a1, a2, a3⟩ := col_middle l K C (fun p => cond p C) (fun b p k => upd b p C k)
      ((List.range C).foldl (fun T c => l.foldl (fun T p =>
        if cond p c then (List.range K).foldl (fun T k => pointSet2 T k c (upd (T.get k c) p c k)) T
        else T) T) T)
    refine ⟨by rw [a1, ihr], by rw [a2, ihc], ?_⟩
    intro i j
    rw [a3 i j, ih i j, ih i C]
    by_cases hj : j = C
    · subst hj
      by_cases hi : i < K
      · simp [hi]
      · simp [hi]
    · by_cases hj2 : j < C
      · have : j < C + 1 := by omega
        simp [hj, hj2, this]
      · have : ¬ j < C + 1 := by omega
        simp [hj, hj2, this]

/-- fixed row `p`: `for k in range(K): T[p, k] = g(T[p, k], k)` -/
theorem row_inner {β : Type} (K p : Nat) (g : β → Nat → β) (T : Arr2 β) :
    let r := (List.range K).foldl (fun t k => pointSet2 t p k (g (t.get p k) k)) T
    r.rows = T.rows ∧ r.cols = T.cols
    ∧ ∀ i j, r.get i j = if i = p ∧ j < K then g (T.get p j) j else T.get i j := by
  induction K with
  | zero => simp
  | succ K ih =>
    obtain ⟨ihr, ihc, ih⟩ := ih
    simp only [List.range_succ, List.foldl_append, List.foldl_cons, List.foldl_nil]
    refine ⟨by simp [ihr], by simp [ihc], ?_⟩
    intro i j
    simp only [pointSet2_get, ih]
    by_cases hi : i = p
    · subst hi
      by_cases hj : j = K
      · subst hj; simp
      · by_cases hj2 : j < K
        · simp [hj, hj2, Nat.lt_succ_of_lt hj2]
        · have : ¬ j < K + 1 := by omega
          simp [hj, hj2, this]
    · simp [hi]

/-- `forYX N K` visiting every cell once: `T[p, k] = g(T[p, k], p, k)` -/
theorem table_fill {β : Type} (N K : Nat) (g : β → Nat → Nat → β) (T : Arr2 β) :
    let r := forYX N K (fun t p k => pointSet2 t p k (g (t.get p k) p k)) T
    r.rows = T.rows ∧ r.cols = T.cols
    ∧ ∀ i j, r.get i j = if i < N ∧ j < K then g (T.get i j) i j else T.get i j := by
  unfold forYX
  induction N with
  | zero => simp
  | succ N ih =>
    obtain ⟨ihr, ihc, ih⟩ := ih
    simp only [List.range_succ, List.foldl_append, List.foldl_cons, List.foldl_nil]
    obtain ⟨a1, a2, a3⟩ := row_inner K N (fun b k => g b N k)
      ((List.range N).foldl (fun acc y => (List.range K).foldl
        (fun acc x => pointSet2 acc y x (g (acc.get y x) y x)) acc) T)
    refine ⟨by rw [a1, ihr], by rw [a2, ihc], ?_⟩
    intro i j
    rw [a3 i j, ih i j, ih N j]
    by_cases hi : i = N
    · subst hi
      by_cases hj : j < K <;> simp [hj]
    · by_cases hi2 : i < N
      · have : i < N + 1 := by omega
        simp [hi, hi2, this]
      · have : ¬ i < N + 1 := by omega
        simp [hi, hi2, this]

/-! ### folds as finite sums -/
section sums
variable {α : Type} [CommRing α]

theorem foldl_cx_add {ι : Type} (l : List ι) (f g : ι → α) (b : Cx α) :
    l.foldl (fun b i => Cx.add b ⟨f i, g i⟩) b = ⟨b.re + (l.map f).sum, b.im + (l.map g).sum⟩ := by
  induction l generalizing b with
  | nil => simp
  | cons i l ih =>
    simp only [List.foldl_cons, ih, List.map_cons, List.sum_cons]
    simp [Cx.add, add_assoc]

theorem foldl_cx_add_cond {ι : Type} (l : List ι) (cond : ι → Bool) (f g : ι → α) (b : Cx α) :
    l.foldl (fun b i => if cond i then Cx.add b ⟨f i, g i⟩ else b) b
      = ⟨b.re + (l.map fun i => if cond i then f i else 0).sum,
         b.im + (l.map fun i => if cond i then g i else 0).sum⟩ := by
  induction l generalizing b with
  | nil => simp
  | cons i l ih =>
    simp only [List.foldl_cons, ih, List.map_cons, List.sum_cons]
    cases cond i <;> simp [Cx.add, add_assoc]

theorem foldl_add_map {κ : Type} (l : List κ) (f : κ → α) (b : α) :
    l.foldl (fun b k => b + f k) b = b + (l.map f).sum := by
  induction l generalizing b with
  | nil => simp
  | cons k l ih => simp [ih, add_assoc]

theorem foldl_add_sub {κ : Type} (l : List κ) (f g : κ → α) (b : α) :
    l.foldl (fun b k => b + f k - g k) b = b + (l.map fun k => f k - g k).sum := by
  induction l generalizing b with
  | nil => simp
  | cons k l ih => simp only [List.foldl_cons, ih, List.map_cons, List.sum_cons]; ring

theorem plain_foldl_add (l : List α) : l.foldl (· + ·) 0 = l.sum := by
  have := foldl_add_map l (fun x => x) 0
  simpa using this

end sums

/-! ### Spec layer: the transform as finite sums -/
namespace Spec
variable {α : Type} [CommRing α]

/-- `V = Σ_p I_p · (cos θ_p, sin θ_p)`, `θ_p = -2π (x_p u + y_p v)`: one visibility of the image -/
def visibility (cos sin : α → α) (pi : α) (image : List α) (grid : List (α × α)) (uvk : α × α) : Cx α :=
  ⟨((List.range image.length).map fun p => image.getD p 0 * cos (phase pi (at2 grid p) uvk)).sum,
   ((List.range image.length).map fun p => image.getD p 0 * sin (phase pi (at2 grid p) uvk)).sum⟩

/-- column `c` of a mapping matrix with `nRows` rows -/
def column (M : List (List α)) (nRows c : Nat) : List α := (List.range nRows).map fun p => matAt M p c

/-- the adjoint sum at pixel `g`: `Σ_k (V_k.re · cos φ_k − V_k.im · sin φ_k)`, `φ_k = +2π (x u_k + y v_k)` -/
def adjointAt (cos sin : α → α) (pi : α) (g : α × α) (uv : List (α × α)) (vis : List (Cx α)) : α :=
  ((List.range uv.length).map fun k =>
    (vis.getD k ⟨0, 0⟩).re * cos (phasePos pi g (at2 uv k))
      - (vis.getD k ⟨0, 0⟩).im * sin (phasePos pi g (at2 uv k))).sum

end Spec

/-! ### refinement: the loops compute the sums -/
section refinement
variable {α : Type} [CommRing α]

theorem preloadReal_get (cos : α → α) (pi : α) (grid uv : List (α × α)) (p k : Nat) :
    (preloadReal cos pi grid uv).get p k
      = if p < grid.length ∧ k < uv.length then cos (phase pi (at2 grid p) (at2 uv k)) else 0 := by
  unfold preloadReal
  have := (table_fill grid.length uv.length
    (fun (b : α) p k => b + cos (phase pi (at2 grid p) (at2 uv k))) (Arr2.full grid.length uv.length 0)).2.2 p k
  rw [this]
  simp [Arr2.full]

theorem preloadImag_get (sin : α → α) (pi : α) (grid uv : List (α × α)) (p k : Nat) :
    (preloadImag sin pi grid uv).get p k
      = if p < grid.length ∧ k < uv.length then sin (phase pi (at2 grid p) (at2 uv k)) else 0 := by
  unfold preloadImag
  have := (table_fill grid.length uv.length
    (fun (b : α) p k => b + sin (phase pi (at2 grid p) (at2 uv k))) (Arr2.full grid.length uv.length 0)).2.2 p k
  rw [this]
  simp [Arr2.full]

theorem visibilitiesJit_spec (cos sin : α → α) (pi : α) (image : List α) (grid uv : List (α × α)) :
    (visibilitiesJit cos sin pi image grid uv).n = uv.length
    ∧ ∀ k, k < uv.length →
        (visibilitiesJit cos sin pi image grid uv).get k
          = Spec.visibility cos sin pi image grid (at2 uv k) := by
  unfold visibilitiesJit
  obtain ⟨hn, h⟩ := forYX_accum image.length uv.length
    (fun (b : Cx α) p k => Cx.add b
      ⟨image.getD p 0 * cos (phase pi (at2 grid p) (at2 uv k)),
       image.getD p 0 * sin (phase pi (at2 grid p) (at2 uv k))⟩) (Arr.full uv.length ⟨0, 0⟩)
  refine ⟨by rw [hn]; rfl, ?_⟩
  intro k hk
  rw [h k]
  simp only [hk, if_true]
  rw [foldl_cx_add]
  simp [Arr.full, Spec.visibility]

theorem visibilitiesViaPreload_spec (cos sin : α → α) (pi : α) (image : List α)
    (grid uv : List (α × α)) (hlen : image.length ≤ grid.length) :
    (visibilitiesViaPreload image uv.length (preloadReal cos pi grid uv) (preloadImag sin pi grid uv)).n
      = uv.length
    ∧ ∀ k, k < uv.length →
        (visibilitiesViaPreload image uv.length (preloadReal cos pi grid uv)
            (preloadImag sin pi grid uv)).get k
          = Spec.visibility cos sin pi image grid (at2 uv k) := by
  unfold visibilitiesViaPreload
  obtain ⟨hn, h⟩ := forYX_accum image.length uv.length
    (fun (b : Cx α) p k => Cx.add b
      ⟨image.getD p 0 * (preloadReal cos pi grid uv).get p k,
       image.getD p 0 * (preloadImag sin pi grid uv).get p k⟩) (Arr.full uv.length ⟨0, 0⟩)
  refine ⟨by rw [hn]; rfl, ?_⟩
  intro k hk
  rw [h k]
  simp only [hk, if_true]
  rw [foldl_cx_add]
  simp only [Arr.full, Spec.visibility, zero_add]
  congr 1
  · congr 1
    apply List.map_congr_left
    intro p hp
    have hp' : p < grid.length := by
      have : p < image.length := by simpa using hp
      omega
    rw [preloadReal_get]; simp [hp', hk]
  · congr 1
    apply List.map_congr_left
    intro p hp
    have hp' : p < grid.length := by
      have : p < image.length := by simpa using hp
      omega
    rw [preloadImag_get]; simp [hp', hk]

theorem imageViaJit_spec (cos sin : α → α) (pi : α) (n : Nat) (grid uv : List (α × α))
    (vis : List (Cx α)) :
    (imageViaJit cos sin pi n grid uv vis).n = n
    ∧ ∀ p, p < n →
        (imageViaJit cos sin pi n grid uv vis).get p = Spec.adjointAt cos sin pi (at2 grid p) uv vis := by
  unfold imageViaJit forYX
  have hbody : ∀ (img : Arr α) (p k : Nat),
      (let v := vis.getD k ⟨0, 0⟩
       let img1 := pointSet img p (img.get p + v.re * cos (phasePos pi (at2 grid p) (at2 uv k)))
       pointSet img1 p (img1.get p - v.im * sin (phasePos pi (at2 grid p) (at2 uv k))))
      = pointSet img p (img.get p + (vis.getD k ⟨0, 0⟩).re * cos (phasePos pi (at2 grid p) (at2 uv k))
          - (vis.getD k ⟨0, 0⟩).im * sin (phasePos pi (at2 grid p) (at2 uv k))) := by
    intro img p k
    simp only [pointSet, if_true]
    congr 1
    funext j
    by_cases hj : j = p <;> simp [hj]
  simp only [hbody]
  obtain ⟨hn, h⟩ := self_outer n (List.range uv.length)
    (fun (b : α) p k => b + (vis.getD k ⟨0, 0⟩).re * cos (phasePos pi (at2 grid p) (at2 uv k))
          - (vis.getD k ⟨0, 0⟩).im * sin (phasePos pi (at2 grid p) (at2 uv k))) (Arr.full n 0)
  refine ⟨by rw [hn]; rfl, ?_⟩
  intro p hp
  rw [h p]
  simp only [hp, if_true]
  rw [foldl_add_sub]
  simp [Arr.full, Spec.adjointAt]

end refinement

/-! ### the transformed mapping matrix -/
section transformed
variable {α : Type} [CommRing α]

theorem Spec.column_length (M : List (List α)) (nRows c : Nat) : (Spec.column M nRows c).length = nRows := by
  simp [Spec.column]

theorem Spec.column_getD (M : List (List α)) (nRows c p : Nat) (hp : p < nRows) :
    (Spec.column M nRows c).getD p 0 = matAt M p c := by
  simp [Spec.column, List.getD_eq_getElem?_getD, hp]

/-- dropping the entries the sparsity test skips changes nothing when it skips only zeros -/
theorem cond_sum_eq {ι : Type} (l : List ι) (keep : α → Bool) (v : ι → α)
    (hkeep : ∀ p ∈ l, keep (v p) = false → v p = 0) (x : ι → α) :
    (l.map fun p => if keep (v p) then v p * x p else 0).sum = (l.map fun p => v p * x p).sum := by
  congr 1
  apply List.map_congr_left
  intro p hp
  cases h : keep (v p)
  · simp [hkeep p hp h]
  · simp

theorem transformedJit_spec (keep : α → Bool)
    (cos sin : α → α) (pi : α) (M : List (List α)) (nRows nCols : Nat) (grid uv : List (α × α))
    (hkeep : ∀ p c, p < nRows → c < nCols → keep (matAt M p c) = false → matAt M p c = 0) :
    let T := transformedMappingMatrixJit keep cos sin pi M nRows nCols grid uv
    T.rows = uv.length ∧ T.cols = nCols
    ∧ ∀ k c, k < uv.length → c < nCols →
        T.get k c = Spec.visibility cos sin pi (Spec.column M nRows c) grid (at2 uv k) := by
  intro T
  obtain ⟨h1, h2, h3⟩ := col_outer nCols (List.range nRows) uv.length
    (fun p c => keep (matAt M p c))
    (fun (b : Cx α) p c k => Cx.add b
      ⟨matAt M p c * cos (phase pi (at2 grid p) (at2 uv k)),
       matAt M p c * sin (phase pi (at2 grid p) (at2 uv k))⟩) (Arr2.full uv.length nCols ⟨0, 0⟩)
  refine ⟨h1, h2, ?_⟩
  intro k c hk hc
  show (transformedMappingMatrixJit keep cos sin pi M nRows nCols grid uv).get k c = _
  unfold transformedMappingMatrixJit
  rw [h3 k c]
  simp only [hk, hc, and_self, if_true]
  rw [foldl_cx_add_cond]
  simp only [Arr2.full, zero_add, Spec.visibility, Spec.column_length]
  congr 1
  · rw [cond_sum_eq _ keep (fun p => matAt M p c)
      (fun p hp => hkeep p c (by simpa using hp) hc)]
    congr 1
    apply List.map_congr_left
    intro p hp
    rw [Spec.column_getD _ _ _ _ (by simpa using hp)]
  · rw [cond_sum_eq _ keep (fun p => matAt M p c)
      (fun p hp => hkeep p c (by simpa using hp) hc)]
    congr 1
    apply List.map_congr_left
    intro p hp
    rw [Spec.column_getD _ _ _ _ (by simpa using hp)]

theorem transformedPreload_spec (keep : α → Bool)
    (cos sin : α → α) (pi : α) (M : List (List α)) (nRows nCols : Nat) (grid uv : List (α × α))
    (hkeep : ∀ p c, p < nRows → c < nCols → keep (matAt M p c) = false → matAt M p c = 0)
    (hrows : nRows ≤ grid.length) :
    let T := transformedMappingMatrixViaPreload keep M nRows nCols uv.length
      (preloadReal cos pi grid uv) (preloadImag sin pi grid uv)
    T.rows = uv.length ∧ T.cols = nCols
    ∧ ∀ k c, k < uv.length → c < nCols →
        T.get k c = Spec.visibility cos sin pi (Spec.column M nRows c) grid (at2 uv k) := by
  intro T
  obtain ⟨h1, h2, h3⟩ := col_outer nCols (List.range nRows) uv.length
    (fun p c => keep (matAt M p c))
    (fun (b : Cx α) p c k => Cx.add b
      ⟨matAt M p c * (preloadReal cos pi grid uv).get p k,
       matAt M p c * (preloadImag sin pi grid uv).get p k⟩) (Arr2.full uv.length nCols ⟨0, 0⟩)
  refine ⟨h1, h2, ?_⟩
  intro k c hk hc
  show (transformedMappingMatrixViaPreload keep M nRows nCols uv.length
      (preloadReal cos pi grid uv) (preloadImag sin pi grid uv)).get k c = _
  unfold transformedMappingMatrixViaPreload
  rw [h3 k c]
  simp only [hk, hc, and_self, if_true]
  rw [foldl_cx_add_cond]
  simp only [Arr2.full, zero_add, Spec.visibility, Spec.column_length]
  congr 1
  · rw [cond_sum_eq _ keep (fun p => matAt M p c)
      (fun p hp => hkeep p c (by simpa using hp) hc)]
    congr 1
    apply List.map_congr_left
    intro p hp
    have hp' : p < nRows := by simpa using hp
    rw [Spec.column_getD _ _ _ _ hp', preloadReal_get]
    simp [show p < grid.length by omega, hk]
  · rw [cond_sum_eq _ keep (fun p => matAt M p c)
      (fun p hp => hkeep p c (by simpa using hp) hc)]
    congr 1
    apply List.map_congr_left
    intro p hp
    have hp' : p < nRows := by simpa using hp
    rw [Spec.column_getD _ _ _ _ hp', preloadImag_get]
    simp [show p < grid.length by omega, hk]

theorem keepNonzero_spec [BEq α] [LawfulBEq α] (v : α) : keepNonzero v = false → v = 0 := by
  unfold keepNonzero
  intro h
  simpa using h

end transformed

/-! ### the adjoint -/
section adjoint
variable {α : Type} [CommRing α]

/-- entry `A[k, p] = exp(-2πi (x_p u_k + y_p v_k))` of the forward operator, as a pair -/
def Spec.opEntry (cos sin : α → α) (pi : α) (g uvk : α × α) : Cx α :=
  ⟨cos (phase pi g uvk), sin (phase pi g uvk)⟩

/-- real part of `conj(a) * v` -/
def Spec.reConjMul (a v : Cx α) : α := a.re * v.re + a.im * v.im

theorem phasePos_eq_neg (pi : α) (g uvk : α × α) : phasePos pi g uvk = -(phase pi g uvk) := by
  unfold phasePos phase; ring

/-- with an even `cos` and an odd `sin`, the adjoint sum is `Σ_k Re(conj(A[k,p]) · V_k)` -/
theorem adjointAt_eq_reConj (cos sin : α → α) (hcos : ∀ x, cos (-x) = cos x)
    (hsin : ∀ x, sin (-x) = -sin x) (pi : α) (g : α × α) (uv : List (α × α)) (vis : List (Cx α)) :
    Spec.adjointAt cos sin pi g uv vis
      = ((List.range uv.length).map fun k =>
          Spec.reConjMul (Spec.opEntry cos sin pi g (at2 uv k)) (vis.getD k ⟨0, 0⟩)).sum := by
  unfold Spec.adjointAt Spec.reConjMul Spec.opEntry
  congr 1
  apply List.map_congr_left
  intro k _
  rw [phasePos_eq_neg, hcos, hsin]
  ring

theorem sum_comm' {ι κ : Type} (l1 : List ι) (l2 : List κ) (f : ι → κ → α) :
    (l1.map fun i => (l2.map fun k => f i k).sum).sum = (l2.map fun k => (l1.map fun i => f i k).sum).sum := by
  induction l1 with
  | nil => simp
  | cons a l ih =>
    simp only [List.map_cons, List.sum_cons, ih]
    rw [← List.sum_map_add]

/-- `⟨A x, V⟩ = ⟨x, A† V⟩` (real inner products): the image returned from visibilities is the
    conjugate-transpose operator -/
theorem adjoint_identity (cos sin : α → α) (hcos : ∀ x, cos (-x) = cos x)
    (hsin : ∀ x, sin (-x) = -sin x) (pi : α) (x : List α) (grid uv : List (α × α)) (vis : List (Cx α)) :
    ((List.range uv.length).map fun k =>
        Spec.reConjMul (Spec.visibility cos sin pi x grid (at2 uv k)) (vis.getD k ⟨0, 0⟩)).sum
      = ((List.range x.length).map fun p =>
          x.getD p 0 * Spec.adjointAt cos sin pi (at2 grid p) uv vis).sum := by
  have h1 : ∀ k, Spec.reConjMul (Spec.visibility cos sin pi x grid (at2 uv k)) (vis.getD k ⟨0, 0⟩)
      = ((List.range x.length).map fun p =>
          x.getD p 0 * Spec.reConjMul (Spec.opEntry cos sin pi (at2 grid p) (at2 uv k))
            (vis.getD k ⟨0, 0⟩)).sum := by
    intro k
    unfold Spec.reConjMul Spec.visibility Spec.opEntry
    simp only
    rw [← List.sum_map_mul_right, ← List.sum_map_mul_right, ← List.sum_map_add]
    congr 1
    apply List.map_congr_left
    intro p _
    ring
  simp only [h1]
  rw [sum_comm']
  congr 1
  apply List.map_congr_left
  intro p _
  rw [adjointAt_eq_reConj cos sin hcos hsin, ← List.sum_map_mul_left]

end adjoint

/-! ### interferometer normal equations -/
section normal
variable {α : Type} [Field α]

theorem dataVector_spec (T : List (List (Cx α))) (nVis nCols : Nat) (vis noise : List (Cx α)) :
    (dataVector T nVis nCols vis noise).n = nCols
    ∧ ∀ c, c < nCols →
        (dataVector T nVis nCols vis noise).get c
          = ((List.range nVis).map fun k =>
              (vis.getD k ⟨0, 0⟩).re * (cxAt T k c).re / ((noise.getD k ⟨0, 0⟩).re ^ 2)
              + (vis.getD k ⟨0, 0⟩).im * (cxAt T k c).im / ((noise.getD k ⟨0, 0⟩).im ^ 2)).sum := by
  unfold dataVector
  obtain ⟨hn, h⟩ := forYX_accum nVis nCols
    (fun (b : α) k c => b + ((vis.getD k ⟨0, 0⟩).re * (cxAt T k c).re
        / ((noise.getD k ⟨0, 0⟩).re * (noise.getD k ⟨0, 0⟩).re)
      + (vis.getD k ⟨0, 0⟩).im * (cxAt T k c).im
        / ((noise.getD k ⟨0, 0⟩).im * (noise.getD k ⟨0, 0⟩).im))) (Arr.full nCols 0)
  refine ⟨by rw [hn]; rfl, ?_⟩
  intro c hc
  rw [h c]
  simp only [hc, if_true]
  rw [foldl_add_map]
  simp [Arr.full, pow_two]

theorem gram_spec (M : Nat → Nat → α) (noise : Nat → α) (nVis i j : Nat) :
    gram M noise nVis i j = ((List.range nVis).map fun k => M k i * M k j / (noise k) ^ 2).sum := by
  unfold gram
  rw [plain_foldl_add]
  congr 1
  apply List.map_congr_left
  intro k _
  rw [pow_two, div_mul_div_comm]

theorem diag_add_loop (l : List Nat) (hl : l.Nodup) (d : α) (F : Arr2 α) :
    let r := l.foldl (fun F i => pointSet2 F i i (F.get i i + d)) F
    r.rows = F.rows ∧ r.cols = F.cols
    ∧ ∀ i j, r.get i j = F.get i j + if i = j ∧ i ∈ l then d else 0 := by
  induction l generalizing F with
  | nil => simp
  | cons a l ih =>
    simp only [List.foldl_cons]
    have hl' := (List.nodup_cons.mp hl)
    obtain ⟨h1, h2, h3⟩ := ih hl'.2 (pointSet2 F a a (F.get a a + d))
    refine ⟨by rw [h1]; rfl, by rw [h2]; rfl, ?_⟩
    intro i j
    rw [h3 i j, pointSet2_get]
    by_cases hi : i = a
    · subst hi
      by_cases hj : j = i
      · subst hj
        simp [hl'.1]
      · have : ¬ i = j := fun h => hj h.symm
        simp [hj, this]
    · by_cases hij : i = j
      · subst hij
        simp [hi]
      · simp [hi, hij]

theorem curvatureMatrix_spec (T : List (List (Cx α))) (nVis nCols : Nat) (noise : List (Cx α))
    (noReg : List Nat) (hnd : noReg.Nodup) (d : α) (i j : Nat) :
    (curvatureMatrix T nVis nCols noise noReg d).get i j
      = ((List.range nVis).map fun k =>
          (cxAt T k i).re * (cxAt T k j).re / ((noise.getD k ⟨0, 0⟩).re ^ 2)).sum
        + ((List.range nVis).map fun k =>
          (cxAt T k i).im * (cxAt T k j).im / ((noise.getD k ⟨0, 0⟩).im ^ 2)).sum
        + if i = j ∧ i ∈ noReg then d else 0 := by
  unfold curvatureMatrix
  rw [(diag_add_loop noReg hnd d _).2.2 i j]
  simp only [gram_spec]

end normal

/-! ### the transformer's grid: unmasked pixel centres in radians -/
section grid
variable {α : Type} [Field α]

theorem gridSlimViaMask_eq (m : Mask) (sy sx oy ox : α) :
    gridSlimViaMask m sy sx oy ox
      = (Impl.nativeForSlim m).map fun p =>
          ((-((p.1 : α) - (centralScaled m.h m.w sy sx oy ox).1)) * sy,
           ((p.2 : α) - (centralScaled m.h m.w sy sx oy ox).2) * sx) := by
  unfold gridSlimViaMask
  rw [forYX_eq_foldl, nativeForSlim_eq]
  have := foldl_append_if (pixels m.h m.w) (fun p => !m.get p.1 p.2)
    (fun p => ((-((p.1 : α) - (centralScaled m.h m.w sy sx oy ox).1)) * sy,
               ((p.2 : α) - (centralScaled m.h m.w sy sx oy ox).2) * sx)) []
  simpa [Spec.unmaskedPixels] using this

/-- pixel `(y, x)` of an `H×W` frame has its centre at
    `(o_y + ((H-1)/2 - y)·s_y,  o_x + (x - (W-1)/2)·s_x)` -/
theorem centre_formula (h w : Nat) (sy sx oy ox : α) (hsy : sy ≠ 0) (hsx : sx ≠ 0) (y x : Nat) :
    ((-((y : α) - (centralScaled h w sy sx oy ox).1)) * sy,
      ((x : α) - (centralScaled h w sy sx oy ox).2) * sx)
      = (oy + ((((h - 1 : Nat) : α)) / 2 - y) * sy, ox + ((x : α) - (((w - 1 : Nat) : α)) / 2) * sx) := by
  unfold centralScaled
  simp only
  congr 1
  · field_simp; ring
  · field_simp; ring

theorem transformerGrid_eq (pi : α) (m : Mask) (sy sx oy ox : α) (hsy : sy ≠ 0) (hsx : sx ≠ 0) :
    transformerGrid pi m sy sx oy ox
      = (Impl.nativeForSlim m).map fun p =>
          ((oy + ((((m.h - 1 : Nat) : α)) / 2 - p.1) * sy) * pi / ((648000 : Nat) : α),
           (ox + ((p.2 : α) - (((m.w - 1 : Nat) : α)) / 2) * sx) * pi / ((648000 : Nat) : α)) := by
  unfold transformerGrid inRadians
  rw [gridSlimViaMask_eq, List.map_map]
  apply List.map_congr_left
  intro p _
  simp only [Function.comp]
  have := centre_formula m.h m.w sy sx oy ox hsy hsx p.1 p.2
  rw [Prod.ext_iff] at this
  simp only at this
  rw [this.1, this.2]

end grid

/-! ### the pre-repair sparsity test `value > 0` -/
section positive
variable {α : Type} [Field α] [LinearOrder α]

theorem keepPositive_spec_of_nonneg (v : α) (hv : 0 ≤ v) : keepPositive v = false → v = 0 := by
  unfold keepPositive
  intro h
  have : ¬ (0 : α) < v := by simpa using h
  exact le_antisymm (not_lt.mp this) hv

end positive

/-! ### `np.hstack` of the per-object transformed mapping matrices -/
theorem hstack_row {β : Type} (K : Nat) (Ms : List (List (List β))) (k : Nat) (hk : k < K) :
    (hstack K Ms).getD k [] = Ms.flatMap fun M => M.getD k [] := by
  simp [hstack, List.getD_eq_getElem?_getD, List.getElem?_range hk]

theorem hstack_length {β : Type} (K : Nat) (Ms : List (List (List β))) : (hstack K Ms).length = K := by
  simp [hstack]

theorem cxAt_table {α : Type} [Zero α] (K C : Nat) (f : Nat → Nat → Cx α) (k c : Nat)
    (hk : k < K) (hc : c < C) :
    cxAt ((List.range K).map fun k => (List.range C).map fun c => f k c) k c = f k c := by
  simp [cxAt, List.getD_eq_getElem?_getD, List.getElem?_range hk, List.getElem?_range hc]

end DFTProofs
end Model
