/-
Proofs/DFTRecon.lean — refinement for Model/DFTRecon.lean: the accumulation loop of
`mapped_reconstructed_visibilities_from` is the complex matrix–vector product (all sizes, any number type
with `+`, `*`, `0`: the sums are taken in the code's own order), and over a commutative ring the
components are the usual finite sums.
-/
import Model.DFTRecon
import Proofs.DFT

namespace Model
namespace DFTReconProofs

open Impl.DFT DFTProofs

section generic
variable {α : Type} [Add α] [Mul α] [OfNat α 0]

omit [Mul α] [OfNat α 0] in
/-- a complex accumulation is the pair of the component accumulations -/
theorem foldl_cx_add {κ : Type} (l : List κ) (f g : κ → α) (x y : α) :
    l.foldl (fun (b : Cx α) k => Cx.add b ⟨f k, g k⟩) ⟨x, y⟩
      = ⟨l.foldl (fun b k => b + f k) x, l.foldl (fun b k => b + g k) y⟩ := by
  induction l generalizing x y with
  | nil => rfl
  | cons k l ih => simp only [List.foldl_cons, Cx.add]; exact ih _ _

/-- shape and entries of the loop result -/
theorem mappedReconVis_spec (T : List (List (Cx α))) (nVis : Nat) (recon : List α) :
    (mappedReconVis T nVis recon).n = nVis
    ∧ ∀ i, i < nVis → (mappedReconVis T nVis recon).get i = Spec.DFTRecon.row T recon i := by
  unfold mappedReconVis forYX
  obtain ⟨hn, h⟩ := self_outer nVis (List.range recon.length)
    (fun (b : Cx α) i j =>
      Cx.add b ⟨recon.getD j 0 * (cxAt T i j).re, recon.getD j 0 * (cxAt T i j).im⟩)
    (Arr.full nVis ⟨0, 0⟩)
  refine ⟨by rw [hn]; rfl, ?_⟩
  intro i hi
  rw [h i]
  simp only [hi, if_true, Arr.full]
  rw [foldl_cx_add]
  simp [Spec.DFTRecon.row, List.foldl_map]

/-- REFINEMENT: the loop computes the matrix–vector product -/
theorem mappedReconVis_eq (T : List (List (Cx α))) (nVis : Nat) (recon : List α) :
    (mappedReconVis T nVis recon).toList = Spec.DFTRecon.mappedReconVis T nVis recon := by
  obtain ⟨hn, h⟩ := mappedReconVis_spec T nVis recon
  unfold Arr.toList Spec.DFTRecon.mappedReconVis
  rw [hn]
  apply List.map_congr_left
  intro i hi
  exact h i (by simpa using hi)

end generic

section ring
variable {α : Type} [CommRing α]

/-- over a commutative ring the components are the finite sums `Σ_j r_j · Re T[i,j]`, `Σ_j r_j · Im T[i,j]` -/
theorem row_eq_sum (T : List (List (Cx α))) (recon : List α) (i : Nat) :
    Spec.DFTRecon.row T recon i
      = ⟨((List.range recon.length).map fun j => recon.getD j 0 * (cxAt T i j).re).sum,
         ((List.range recon.length).map fun j => recon.getD j 0 * (cxAt T i j).im).sum⟩ := by
  unfold Spec.DFTRecon.row
  rw [plain_foldl_add, plain_foldl_add]

end ring

end DFTReconProofs
end Model
