/-
Proofs/Decorators.lean — helper lemmas for property C17: `transform`, and the container plumbing of
`to_array / to_grid / to_vector_yx` (core Lean only).
-/
import Model.Decorators
import Proofs.Slim

namespace Model
namespace Dec

theorem transform_true (tr : γ → γ) (f : Bool → γ → δ) (g : γ) : transform tr f true g = f true g := by
  simp [transform]

theorem transform_false (tr : γ → γ) (f : Bool → γ → δ) (g : γ) :
    transform tr f false g = f true (tr g) := by
  simp [transform]

/-- `n` nested `transform` decorators -/
def transformN (tr : γ → γ) (f : Bool → γ → δ) : Nat → Bool → γ → δ
  | 0 => f
  | n + 1 => transform tr (transformN tr f n)

theorem transformN_true (tr : γ → γ) (f : Bool → γ → δ) (n : Nat) (g : γ) :
    transformN tr f n true g = f true g := by
  induction n with
  | zero => rfl
  | succ n ih => simp [transformN, transform_true, ih]

theorem transformN_false (tr : γ → γ) (f : Bool → γ → δ) (n : Nat) (g : γ) :
    transformN tr f (n + 1) false g = f true (tr g) := by
  simp [transformN, transform_false, transformN_true]

/-! ### wrapping on a uniform grid -/

theorem wrapOne_uniform (kind : Kind) (m : Mask) (pts : List (α × α)) (v : List β) (zero : β)
    (hv : v.length = Impl.totalPixels m) :
    wrapOne kind (.uniform m pts) v zero = some (.uniform kind m (.slim v)) := by
  simp [wrapOne, Impl.convertArray2d, hv]

theorem wrapOne_uniform_bad (kind : Kind) (m : Mask) (pts : List (α × α)) (v : List β) (zero : β)
    (hv : v.length ≠ Impl.totalPixels m) :
    wrapOne kind (.uniform m pts) v zero = none := by
  simp [wrapOne, Impl.convertArray2d, hv]

theorem viewSlim_slim (m : Mask) (v : List β) (zero : β) (hv : v.length = Impl.totalPixels m) :
    Impl.viewSlim m (.slim v) zero = some (.slim v) := by
  simp [Impl.viewSlim, Impl.convertArray2d, Impl.Stored.toInput, hv]

theorem viewNative_slim (m : Mask) (v : List β) (zero : β) (hv : v.length = Impl.totalPixels m) :
    Impl.viewNative m (.slim v) zero = some (.native (Impl.nativeFrom m v zero)) := by
  simp [Impl.viewNative, Impl.convertArray2d, Impl.Stored.toInput, hv]

theorem mapM_wrapOne_uniform (kind : Kind) (m : Mask) (pts : List (α × α)) (vs : List (List β))
    (zero : β) (hv : ∀ v ∈ vs, v.length = Impl.totalPixels m) :
    (vs.mapM fun v => wrapOne kind (.uniform m pts) v zero)
      = some (vs.map fun v => Container.uniform kind m (.slim v)) := by
  induction vs with
  | nil => rfl
  | cons v vs ih =>
    have h1 := wrapOne_uniform kind m pts v zero (hv v (by simp))
    have h2 := ih (fun v' hv' => hv v' (by simp [hv']))
    simp [List.mapM_cons, h1, h2]

theorem mapM_wrapOne_irregular (kind : Kind) (pts : List (α × α)) (vs : List (List β)) (zero : β) :
    (vs.mapM fun v => wrapOne kind (.irregular pts) v zero)
      = some (vs.map fun v => Container.irregular kind v) := by
  induction vs with
  | nil => rfl
  | cons v vs ih =>
    rw [List.mapM_cons, ih]
    simp [wrapOne]

theorem mapM_wrapOne_oned (mask : List Bool) (xs : List α) (vs : List (List β)) (zero : β)
    (hv : ∀ v ∈ vs, v.length = unmasked1d mask) :
    (vs.mapM fun v => wrapOne .array (.oned mask xs) v zero)
      = some (vs.map fun v => Container.oned mask v) := by
  induction vs with
  | nil => rfl
  | cons v vs ih =>
    have h2 := ih (fun v' hv' => hv v' (by simp [hv']))
    rw [List.mapM_cons, h2]
    simp [wrapOne, hv v (by simp)]

theorem list_eq_map_range_getD (mask : List Bool) :
    mask = (List.range mask.length).map fun x => mask.getD x true := by
  apply List.ext_getElem
  · simp
  · intro k h1 h2
    simp [List.getElem?_eq_getElem h1]

/-- the 1×n frame `to_mask_2d` builds has as many unmasked pixels as the 1-D mask -/
theorem totalPixels_toMask2d (mask : List Bool) :
    Impl.totalPixels (toMask2d mask) = unmasked1d mask := by
  rw [totalPixels_eq]
  unfold Spec.unmaskedPixels unmasked1d toMask2d
  simp only [pixels, List.range_one, List.flatMap_cons, List.flatMap_nil, List.append_nil,
    List.filter_map, List.length_map]
  conv => rhs; rw [list_eq_map_range_getD mask, List.filter_map, List.length_map]
  congr 1
  apply List.filter_congr
  intro x _
  simp [Mask.get, Function.comp]

end Dec
end Model
