/-
Proofs/DecoratorsProjection.lean — the radially projected line (property C17, clause b) over any
linearly ordered field, for libm functions satisfying the contract `TrigOK`; the contract is
discharged for `Real.sqrt`, `Complex.arg`, `Real.sin`, `Real.cos`.
-/
import Model.Decorators
import Proofs.DecoratorsRadial
import Mathlib.Tactic.Ring
import Mathlib.Tactic.Linarith
import Mathlib.Algebra.Order.Field.Basic
import Mathlib.Algebra.Order.AbsoluteValue.Basic
import Mathlib.Analysis.SpecialFunctions.Complex.Arg
import Mathlib.Analysis.Real.Sqrt

namespace Model
namespace Dec

variable {α : Type} [Field α] [LinearOrder α] [IsStrictOrderedRing α]

/-- what the projection code needs of numpy's `sqrt`, `arctan2`, `sin`, `cos`, `radians` -/
structure TrigOK (T : Trig α) (pi : α) : Prop where
  sqrt_sq : ∀ x, T.sqrt (x * x) = |x|
  arctan2_pos : ∀ x, 0 ≤ x → T.arctan2 0 x = 0
  arctan2_neg : ∀ x, x < 0 → T.arctan2 0 x = pi
  sin_neg : ∀ a, T.sin (0 - a) = - T.sin a
  cos_neg : ∀ a, T.cos (0 - a) = T.cos a
  sin_pi_sub : ∀ a, T.sin (pi - a) = T.sin a
  cos_pi_sub : ∀ a, T.cos (pi - a) = - T.cos a
  radians_zero : T.radians 0 = 0
  sin_zero : T.sin 0 = 0
  cos_zero : T.cos 0 = 1

/-- a point `(0, x)` of the x axis, taken to the frame rotated by `angle` about the origin -/
theorem toReferenceFrame_axis_point {T : Trig α} {pi : α} (ok : TrigOK T pi) (angle x : α) :
    toReferenceFrame T (0, 0) angle [(0, x)]
      = [(-(x * T.sin (T.radians angle)), x * T.cos (T.radians angle))] := by
  simp only [toReferenceFrame, List.map_cons, List.map_nil, sub_zero, mul_zero, zero_add]
  rw [ok.sqrt_sq]
  rcases le_or_gt 0 x with hx | hx
  · rw [ok.arctan2_pos x hx, ok.sin_neg, ok.cos_neg, abs_of_nonneg hx]
    simp
  · rw [ok.arctan2_neg x hx, ok.sin_pi_sub, ok.cos_pi_sub, abs_of_neg hx]
    simp

/-- `Grid1D.grid_2d_radial_projected_from(angle)`: point k is `x_k · (−sin a, cos a)`, a = radians(angle)
    — the point `(0, x_k)` of the x axis rotated clockwise by the angle; order and number preserved. -/
theorem grid1dProjected_eq {T : Trig α} {pi : α} (ok : TrigOK T pi) (angle : α) (xs : List α) :
    grid1dProjected T angle xs
      = xs.map fun x => (-(x * T.sin (T.radians angle)), x * T.cos (T.radians angle)) := by
  induction xs with
  | nil => rfl
  | cons x xs ih =>
    have h1 := toReferenceFrame_axis_point ok angle x
    simp only [grid1dProjected, toReferenceFrame, List.map_cons, List.map_nil] at h1 ih ⊢
    rw [ih]
    simp only [List.cons.injEq] at h1
    rw [h1.1]

/-! ### the 2-D line -/

omit [LinearOrder α] [IsStrictOrderedRing α] in
theorem radialLoop_eq (cy cx ps : α) (n : Nat) :
    (List.range n).foldl
        (fun (acc : List (α × α) × α) _ => (acc.1 ++ [(cy, acc.2)], acc.2 + ps)) ([], cx)
      = ((List.range n).map fun (k : Nat) => (cy, cx + (k : α) * ps), cx + (n : α) * ps) := by
  induction n with
  | zero => simp
  | succ n ih =>
    rw [List.range_succ, List.foldl_append, ih]
    simp only [List.foldl_cons, List.foldl_nil, List.map_append, List.map_cons, List.map_nil]
    congr 1
    push_cast
    ring

omit [IsStrictOrderedRing α] in
/-- the loop of `grid_scaled_2d_slim_radial_projected_from` in closed form -/
theorem radialLine_eq [BEq α] (trunc : α → Nat) (extent : α × α × α × α) (centre scales : α × α) :
    radialLine trunc extent centre scales
      = (List.range (radialCount trunc extent centre scales)).map fun (k : Nat) =>
          (centre.1, centre.2 + (k : α) * radialStep extent centre scales) := by
  simp [radialLine, radialLoop_eq]

omit [IsStrictOrderedRing α] in
/-- the step is one of the two pixel scales -/
theorem radialStep_mem [BEq α] (extent : α × α × α × α) (centre scales : α × α) :
    radialStep extent centre scales = scales.1 ∨ radialStep extent centre scales = scales.2 := by
  obtain ⟨xmin, xmax, ymin, ymax⟩ := extent
  simp only [radialStep]
  split
  · exact Or.inl rfl
  · exact Or.inr rfl

/-- one point `centre + (0, d)`, `d ≥ 0`, through both frame changes of
    `Grid2D.grid_2d_radial_projected_from` -/
theorem projected_point {T : Trig α} {pi : α} (ok : TrigOK T pi) (centre : α × α) (angle d : α)
    (hd : 0 ≤ d) :
    fromReferenceFrame T centre 0 (toReferenceFrame T centre angle [(centre.1, centre.2 + d)])
      = [(centre.1 - d * T.sin (T.radians angle), centre.2 + d * T.cos (T.radians angle))] := by
  simp only [toReferenceFrame, fromReferenceFrame, List.map_cons, List.map_nil, sub_self,
    add_sub_cancel_left, mul_zero, zero_add, ok.radians_zero, ok.sin_zero, ok.cos_zero, mul_one,
    sub_zero]
  rw [ok.sqrt_sq, ok.arctan2_pos d hd, ok.sin_neg, ok.cos_neg, abs_of_nonneg hd]
  simp only [List.cons.injEq, Prod.mk.injEq, and_true]
  constructor <;> ring

/-- `Grid2D.grid_2d_radial_projected_from(centre, angle)`: point k is
    `centre + k·s·(−sin a, cos a)`, k = 0 … n−1, s the pixel scale of the longest axis distance,
    a = radians(angle): the points `centre + (0, k·s)` rotated clockwise about the centre. -/
theorem grid2dProjected_eq [BEq α] {T : Trig α} {pi : α} (ok : TrigOK T pi) (trunc : α → Nat)
    (extent : α × α × α × α) (centre scales : α × α) (angle : α)
    (hs : 0 ≤ scales.1 ∧ 0 ≤ scales.2) :
    grid2dProjected T trunc extent centre scales angle
      = (List.range (radialCount trunc extent centre scales)).map fun (k : Nat) =>
          (centre.1 - (k : α) * radialStep extent centre scales * T.sin (T.radians angle),
           centre.2 + (k : α) * radialStep extent centre scales * T.cos (T.radians angle)) := by
  have hstep : 0 ≤ radialStep extent centre scales := by
    rcases radialStep_mem extent centre scales with h | h <;> rw [h]
    · exact hs.1
    · exact hs.2
  unfold grid2dProjected
  rw [radialLine_eq]
  generalize radialCount trunc extent centre scales = n
  generalize radialStep extent centre scales = ps at hstep
  induction n with
  | zero => rfl
  | succ n ih =>
    rw [List.range_succ, List.map_append, List.map_append]
    have hpt := projected_point ok centre angle ((n : α) * ps)
      (mul_nonneg (Nat.cast_nonneg n) hstep)
    simp only [toReferenceFrame, fromReferenceFrame, List.map_append, List.map_cons, List.map_nil]
      at ih hpt ⊢
    rw [ih, hpt]

/-! ### the contract holds for the real functions -/

/-- numpy's functions as real functions: `arctan2 y x = arg (x + iy)`, `radians d = d·π/180` -/
noncomputable def realTrig : Trig ℝ :=
  ⟨Real.sqrt, fun y x => Complex.arg ⟨x, y⟩, Real.sin, Real.cos, fun d => d * (Real.pi / 180)⟩

theorem realTrig_ok : TrigOK realTrig Real.pi where
  sqrt_sq := Real.sqrt_mul_self_eq_abs
  arctan2_pos := fun _ h => Complex.arg_ofReal_of_nonneg h
  arctan2_neg := fun _ h => Complex.arg_ofReal_of_neg h
  sin_neg := fun a => by simp [realTrig]
  cos_neg := fun a => by simp [realTrig]
  sin_pi_sub := Real.sin_pi_sub
  cos_pi_sub := Real.cos_pi_sub
  radians_zero := by simp [realTrig]
  sin_zero := Real.sin_zero
  cos_zero := Real.cos_zero

/-- the square-root contract of the relocation theorems holds for `Real.sqrt` -/
theorem real_isSqrt : IsSqrt Real.sqrt :=
  fun x hx => ⟨Real.sqrt_nonneg x, Real.mul_self_sqrt hx⟩

end Dec
end Model
