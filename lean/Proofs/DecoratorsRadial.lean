/-
Proofs/DecoratorsRadial.lean — the radial-minimum relocation (property C17, clause c) over any
linearly ordered field, for any function `sqrt` satisfying the square-root contract.
-/
import Model.Decorators
import Mathlib.Tactic.Ring
import Mathlib.Tactic.Linarith
import Mathlib.Tactic.FieldSimp
import Mathlib.Algebra.Order.Field.Basic

namespace Model
namespace Dec

variable {α : Type} [Field α] [LinearOrder α] [IsStrictOrderedRing α]

/-- contract of the square root used by the profile's radius function and by the decorator -/
def IsSqrt (sqrt : α → α) : Prop := ∀ x, 0 ≤ x → 0 ≤ sqrt x ∧ sqrt x * sqrt x = x

theorem IsSqrt.sqrt_mul_self {sqrt : α → α} (h : IsSqrt sqrt) {x : α} (hx : 0 ≤ x) :
    sqrt (x * x) = x := by
  obtain ⟨h1, h2⟩ := h (x * x) (mul_self_nonneg x)
  exact (mul_self_inj h1 hx).mp h2

/-- the radius of a coordinate in the profile frame -/
def radius (sqrt : α → α) (p : α × α) : α := sqrt (p.1 * p.1 + p.2 * p.2)

theorem radius_mul_self {sqrt : α → α} (h : IsSqrt sqrt) (p : α × α) :
    radius sqrt p * radius sqrt p = p.1 * p.1 + p.2 * p.2 :=
  (h _ (add_nonneg (mul_self_nonneg _) (mul_self_nonneg _))).2

theorem radius_nonneg {sqrt : α → α} (h : IsSqrt sqrt) (p : α × α) : 0 ≤ radius sqrt p :=
  (h _ (add_nonneg (mul_self_nonneg _) (mul_self_nonneg _))).1

omit [IsStrictOrderedRing α] in
/-- a coordinate at or beyond the minimum reaches the function unchanged -/
theorem relocatePoint_outside (sqrt : α → α) (half rmin : α) (p : α × α) (r : α) (h : rmin ≤ r) :
    relocatePoint sqrt half rmin p r = p := by
  simp [relocatePoint, not_lt.mpr h]

/-- a coordinate strictly inside the minimum (and not at the centre) is rescaled by `r_min / r > 1`:
    same ray, moved outward, new radius exactly `r_min` -/
theorem relocatePoint_inside {sqrt : α → α} (hs : IsSqrt sqrt) (half rmin : α) (p : α × α)
    (h0 : 0 < radius sqrt p) (hlt : radius sqrt p < rmin) :
    relocatePoint sqrt half rmin p (radius sqrt p)
        = (rmin / radius sqrt p * p.1, rmin / radius sqrt p * p.2)
    ∧ 1 < rmin / radius sqrt p
    ∧ radius sqrt (relocatePoint sqrt half rmin p (radius sqrt p)) = rmin := by
  have hr := radius_mul_self hs p
  have hrm : 0 < rmin := lt_trans h0 hlt
  have hne : radius sqrt p ≠ 0 := ne_of_gt h0
  have heq : relocatePoint sqrt half rmin p (radius sqrt p)
      = (rmin / radius sqrt p * p.1, rmin / radius sqrt p * p.2) := by
    simp [relocatePoint, hlt, h0, mul_comm]
  refine ⟨heq, (one_lt_div h0).mpr hlt, ?_⟩
  rw [heq]
  unfold radius at *
  simp only
  have : rmin / sqrt (p.1 * p.1 + p.2 * p.2) * p.1 * (rmin / sqrt (p.1 * p.1 + p.2 * p.2) * p.1)
      + rmin / sqrt (p.1 * p.1 + p.2 * p.2) * p.2 * (rmin / sqrt (p.1 * p.1 + p.2 * p.2) * p.2)
      = rmin * rmin := by
    generalize sqrt (p.1 * p.1 + p.2 * p.2) = s at *
    have e : rmin / s * p.1 * (rmin / s * p.1) + rmin / s * p.2 * (rmin / s * p.2)
        = rmin / s * (rmin / s) * (p.1 * p.1 + p.2 * p.2) := by ring
    rw [e, ← hr]
    field_simp
  rw [this]
  exact hs.sqrt_mul_self (le_of_lt hrm)

/-- a coordinate at the centre (radius not positive) is placed at `(r_min·√½, r_min·√½)`: radius
    exactly `r_min` -/
theorem relocatePoint_centre {sqrt : α → α} (hs : IsSqrt sqrt) (half rmin : α) (p : α × α) (r : α)
    (hhalf : half + half = 1) (hr : ¬ 0 < r) (hrm : 0 < rmin) :
    relocatePoint sqrt half rmin p r = (rmin * sqrt half, rmin * sqrt half)
    ∧ radius sqrt (relocatePoint sqrt half rmin p r) = rmin := by
  have hlt : r < rmin := lt_of_le_of_lt (not_lt.mp hr) hrm
  have heq : relocatePoint sqrt half rmin p r = (rmin * sqrt half, rmin * sqrt half) := by
    simp [relocatePoint, hlt, hr]
  refine ⟨heq, ?_⟩
  rw [heq]
  unfold radius
  simp only
  have hh : 0 ≤ half := by
    by_contra hneg
    have : half < 0 := not_le.mp hneg
    linarith
  have h2 := (hs half hh).2
  have : rmin * sqrt half * (rmin * sqrt half) + rmin * sqrt half * (rmin * sqrt half) = rmin * rmin := by
    have : rmin * sqrt half * (rmin * sqrt half) = rmin * rmin * (sqrt half * sqrt half) := by ring
    rw [this, h2]
    have : rmin * rmin * half + rmin * rmin * half = rmin * rmin * (half + half) := by ring
    rw [this, hhalf, mul_one]
  rw [this]
  exact hs.sqrt_mul_self (le_of_lt hrm)

/-! ### the list level: order and length are preserved -/

omit [IsStrictOrderedRing α] in
theorem relocate_length (sqrt : α → α) (half rmin : α) (radii : List (α × α) → List α)
    (pts : List (α × α)) (h : (radii pts).length = pts.length) :
    (relocate sqrt half rmin radii pts).length = pts.length := by
  simp [relocate, h]

omit [IsStrictOrderedRing α] in
theorem relocate_getElem (sqrt : α → α) (half rmin : α) (pts : List (α × α)) (k : Nat)
    (hk : k < pts.length) :
    (relocate sqrt half rmin (radiiOf sqrt) pts)[k]? =
      some (relocatePoint sqrt half rmin pts[k] (radius sqrt pts[k])) := by
  simp [relocate, radiiOf, radius, hk]

end Dec
end Model
