/-
Proofs/EntryPoints.lean — translation lemmas for Model/EntryPoints.lean (property C12).
Everything is over an arbitrary ordered field; the only hypothesis is non-zero pixel scales.
-/
import Model.EntryPoints
import Proofs.Geometry
import Proofs.GeometryLoops
import Mathlib.Algebra.Order.Group.MinMax

namespace Model

set_option linter.unusedSectionVars false

section
variable {α : Type} [Field α] [LinearOrder α] [IsStrictOrderedRing α]

/-! ### the one place the origin enters -/

theorem centralScaled2_shift (shape : Nat × Nat) (s o d : α × α) (hs1 : s.1 ≠ 0) (hs2 : s.2 ≠ 0) :
    Impl.centralScaled2 shape s (o.1 + d.1, o.2 + d.2)
      = ((Impl.centralScaled2 shape s o).1 + d.1 / s.1, (Impl.centralScaled2 shape s o).2 - d.2 / s.2) := by
  simp only [Impl.centralScaled2]
  congr 1
  · field_simp; ring
  · field_simp; ring

theorem pixelCentreScaled_shift (shape : Nat × Nat) (s o d : α × α) (p : Nat × Nat)
    (hs1 : s.1 ≠ 0) (hs2 : s.2 ≠ 0) :
    Impl.pixelCentreScaled shape s (o.1 + d.1, o.2 + d.2) p
      = shiftPt d (Impl.pixelCentreScaled shape s o p) := by
  rw [pixelCentreScaled_eq _ _ _ _ hs1 hs2, pixelCentreScaled_eq _ _ _ _ hs1 hs2]
  simp only [pixelCentre_eq, shiftPt]
  congr 1 <;> ring

theorem pixelsOfScaled_shift (shape : Nat × Nat) (s o d p : α × α) (hs1 : s.1 ≠ 0) (hs2 : s.2 ≠ 0) :
    Impl.pixelsOfScaled shape s (o.1 + d.1, o.2 + d.2) (shiftPt d p)
      = Impl.pixelsOfScaled shape s o p := by
  rw [pixelsOfScaled_eq _ _ _ _ hs1 hs2, pixelsOfScaled_eq _ _ _ _ hs1 hs2]
  simp only [posY, posX, shiftPt]
  congr 2 <;> ring

theorem pixelCentreOfScaled_shift (trunc : α → Int) (shape : Nat × Nat) (s o d p : α × α)
    (hs1 : s.1 ≠ 0) (hs2 : s.2 ≠ 0) :
    Impl.pixelCentreOfScaled trunc shape s (o.1 + d.1, o.2 + d.2) (shiftPt d p)
      = Impl.pixelCentreOfScaled trunc shape s o p := by
  simp only [Impl.pixelCentreOfScaled, pixelsOfScaled_shift shape s o d p hs1 hs2]

theorem pixelCoordinates2_shift (trunc : α → Int) (shape : Nat × Nat) (s o d p : α × α)
    (hs1 : s.1 ≠ 0) (hs2 : s.2 ≠ 0) :
    Impl.pixelCoordinates2 trunc shape s (o.1 + d.1, o.2 + d.2) (shiftPt d p)
      = Impl.pixelCoordinates2 trunc shape s o p := by
  rw [← pixelCentreOfScaled_eq _ _ _ _ _ hs1 hs2, ← pixelCentreOfScaled_eq _ _ _ _ _ hs1 hs2]
  exact pixelCentreOfScaled_shift trunc shape s o d p hs1 hs2

theorem scaledOfPixels_shift (shape : Nat × Nat) (s o d pix : α × α) (hs1 : s.1 ≠ 0) (hs2 : s.2 ≠ 0) :
    Impl.scaledOfPixels shape s (o.1 + d.1, o.2 + d.2) pix
      = shiftPt d (Impl.scaledOfPixels shape s o pix) := by
  rw [scaledOfPixels_eq _ _ _ _ hs1 hs2, scaledOfPixels_eq _ _ _ _ hs1 hs2]
  simp only [shiftPt]
  congr 1 <;> ring

theorem extent_shift (shape : Nat × Nat) (s o d : α × α) :
    Impl.extent shape s (o.1 + d.1, o.2 + d.2)
      = ((Impl.extent shape s o).1 + d.2, (Impl.extent shape s o).2.1 + d.2,
         (Impl.extent shape s o).2.2.1 + d.1, (Impl.extent shape s o).2.2.2 + d.1) := by
  simp only [Impl.extent, Impl.scaledMinima, Impl.scaledMaxima, Impl.shapeNativeScaled]
  refine Prod.ext ?_ (Prod.ext ?_ (Prod.ext ?_ ?_)) <;> simp only <;> ring

/-! ### grids -/

theorem grid2dSlimViaMask_shift (m : Mask) (s o d : α × α) (hs1 : s.1 ≠ 0) (hs2 : s.2 ≠ 0) :
    Impl.grid2dSlimViaMask m s (o.1 + d.1, o.2 + d.2)
      = (Impl.grid2dSlimViaMask m s o).map (shiftPt d) := by
  rw [grid2dSlimViaMask_eq, grid2dSlimViaMask_eq, List.map_map]
  apply List.map_congr_left
  intro p _
  exact pixelCentreScaled_shift _ s o d p hs1 hs2

theorem gridFromMask_shift (g : Geom α) (bits : List Bool) (d : α × α)
    (hs1 : g.s.1 ≠ 0) (hs2 : g.s.2 ≠ 0) :
    Impl.gridFromMask (g.shift d) bits = (Impl.gridFromMask g bits).map (shiftPt d) := by
  simp only [Impl.gridFromMask, Geom.shift]
  exact grid2dSlimViaMask_shift _ g.s g.o d hs1 hs2

theorem gridAllFalse_shift (g : Geom α) (d : α × α) (hs1 : g.s.1 ≠ 0) (hs2 : g.s.2 ≠ 0) :
    Impl.gridAllFalse (g.shift d) = (Impl.gridAllFalse g).map (shiftPt d) := by
  simp only [Impl.gridAllFalse, Impl.grid2dSlimViaShape, Geom.shift]
  exact grid2dSlimViaMask_shift _ g.s g.o d hs1 hs2

theorem gather_shift (grid : List (α × α)) (idx : List Nat) (d : α × α)
    (hidx : ∀ k ∈ idx, k < grid.length) :
    Impl.gather (grid.map (shiftPt d)) idx = (Impl.gather grid idx).map (shiftPt d) := by
  simp only [Impl.gather, List.map_map]
  apply List.map_congr_left
  intro k hk
  have h := hidx k hk
  simp [List.getD_eq_getElem?_getD, h]

theorem subPixelCentre_shift (g : Geom α) (sub : Nat) (p q : Nat × Nat) (d : α × α)
    (hs1 : g.s.1 ≠ 0) (hs2 : g.s.2 ≠ 0) :
    Impl.subPixelCentre (g.shift d) sub p q = shiftPt d (Impl.subPixelCentre g sub p q) := by
  simp only [Impl.subPixelCentre, Geom.shift, centralScaled2_shift g.shape g.s g.o d hs1 hs2, shiftPt]
  congr 1
  · field_simp; ring
  · field_simp; ring

theorem overSampledGrid_shift (g : Geom α) (bits : List Bool) (sub : Nat) (d : α × α)
    (hs1 : g.s.1 ≠ 0) (hs2 : g.s.2 ≠ 0) :
    Impl.overSampledGrid (g.shift d) bits sub = (Impl.overSampledGrid g bits sub).map (shiftPt d) := by
  unfold Impl.overSampledGrid
  simp only [forYX_eq_foldl]
  have hshape : (g.shift d).shape = g.shape := rfl
  rw [hshape]
  generalize pixels g.shape.1 g.shape.2 = l
  suffices h : ∀ (acc acc' : List (α × α)), acc' = acc.map (shiftPt d) →
      l.foldl (fun acc p => if !(Mask.get ⟨g.shape.1, g.shape.2, bits⟩ p.1 p.2) then
          acc ++ (pixels sub sub).map (fun q => Impl.subPixelCentre (g.shift d) sub (p.1, p.2) q)
        else acc) acc'
      = (l.foldl (fun acc p => if !(Mask.get ⟨g.shape.1, g.shape.2, bits⟩ p.1 p.2) then
          acc ++ (pixels sub sub).map (fun q => Impl.subPixelCentre g sub (p.1, p.2) q)
        else acc) acc).map (shiftPt d) by
    exact h [] [] rfl
  induction l with
  | nil => intro acc acc' h; simpa using h
  | cons p l ih =>
    intro acc acc' h
    simp only [List.foldl_cons]
    apply ih
    split
    · subst h
      simp only [List.map_append, List.map_map]
      congr 1
      apply List.map_congr_left
      intro q _
      exact subPixelCentre_shift g sub (p.1, p.2) q d hs1 hs2
    · exact h

/-! ### max / min of translated columns -/

theorem foldl_max_add (l : List α) (a c : α) :
    (l.map (· + c)).foldl max (a + c) = l.foldl max a + c := by
  induction l generalizing a with
  | nil => rfl
  | cons b l ih =>
    simp only [List.map_cons, List.foldl_cons]
    rw [max_add_add_right, ih]

theorem foldl_min_add (l : List α) (a c : α) :
    (l.map (· + c)).foldl min (a + c) = l.foldl min a + c := by
  induction l generalizing a with
  | nil => rfl
  | cons b l ih =>
    simp only [List.map_cons, List.foldl_cons]
    rw [min_add_add_right, ih]

theorem colMax_add (l : List α) (c : α) :
    Impl.colMax (l.map (· + c)) = (Impl.colMax l).map (· + c) := by
  cases l with
  | nil => rfl
  | cons a l => simp [Impl.colMax, foldl_max_add]

theorem colMin_add (l : List α) (c : α) :
    Impl.colMin (l.map (· + c)) = (Impl.colMin l).map (· + c) := by
  cases l with
  | nil => rfl
  | cons a l => simp [Impl.colMin, foldl_min_add]

theorem map_fst_shift (grid : List (α × α)) (d : α × α) :
    (grid.map (shiftPt d)).map (·.1) = (grid.map (·.1)).map (· + d.1) := by
  simp [List.map_map, shiftPt, Function.comp_def]

theorem map_snd_shift (grid : List (α × α)) (d : α × α) :
    (grid.map (shiftPt d)).map (·.2) = (grid.map (·.2)).map (· + d.2) := by
  simp [List.map_map, shiftPt, Function.comp_def]

theorem gridCentre_shift (grid : List (α × α)) (d : α × α) :
    Impl.gridCentre (grid.map (shiftPt d)) = (Impl.gridCentre grid).map (shiftPt d) := by
  unfold Impl.gridCentre
  rw [map_fst_shift, map_snd_shift, colMax_add, colMin_add, colMax_add, colMin_add]
  cases Impl.colMax (grid.map (·.1)) <;> cases Impl.colMin (grid.map (·.1)) <;>
    cases Impl.colMax (grid.map (·.2)) <;> cases Impl.colMin (grid.map (·.2)) <;>
    simp [shiftPt]
  constructor <;> ring

/-! ### mask centre, zoom, overlay mesh -/

theorem maskCentre_shift (g : Geom α) (bits : List Bool) (d : α × α)
    (hs1 : g.s.1 ≠ 0) (hs2 : g.s.2 ≠ 0) :
    Impl.maskCentre (g.shift d) bits = (Impl.maskCentre g bits).map (shiftPt d) := by
  unfold Impl.maskCentre
  rw [gridFromMask_shift g bits d hs1 hs2, gridCentre_shift]

/-- the zoom centre lives in pixel space: it does not depend on the origin at all -/
theorem zoomCentre_shift (g : Geom α) (bits : List Bool) (d : α × α)
    (hs1 : g.s.1 ≠ 0) (hs2 : g.s.2 ≠ 0) :
    Impl.zoomCentre (g.shift d) bits = Impl.zoomCentre g bits := by
  unfold Impl.zoomCentre
  rw [gridFromMask_shift g bits d hs1 hs2, List.map_map]
  have : (Impl.pixelsOfScaled (g.shift d).shape (g.shift d).s (g.shift d).o ∘ shiftPt d)
      = Impl.pixelsOfScaled g.shape g.s g.o := by
    funext p
    exact pixelsOfScaled_shift g.shape g.s g.o d p hs1 hs2
  rw [this]

theorem zoomOffsetScaled_shift (g : Geom α) (bits : List Bool) (d : α × α)
    (hs1 : g.s.1 ≠ 0) (hs2 : g.s.2 ≠ 0) :
    Impl.zoomOffsetScaled (g.shift d) bits = Impl.zoomOffsetScaled g bits := by
  unfold Impl.zoomOffsetScaled
  rw [zoomCentre_shift g bits d hs1 hs2]
  rfl

theorem zoomMaskGeom_shift (g : Geom α) (bits : List Bool) (zs : Nat × Nat) (d : α × α)
    (hs1 : g.s.1 ≠ 0) (hs2 : g.s.2 ≠ 0) :
    Impl.zoomMaskGeom (g.shift d) bits zs = (Impl.zoomMaskGeom g bits zs).map (·.shift d) := by
  unfold Impl.zoomMaskGeom
  rw [zoomOffsetScaled_shift g bits d hs1 hs2]
  cases Impl.zoomOffsetScaled g bits with
  | none => rfl
  | some off =>
    simp only [Option.map_some, Geom.shift, Option.some.injEq]
    congr 1
    congr 1 <;> ring

theorem zoomedAroundMaskGeom_shift (g : Geom α) (bits : List Bool) (es : Nat × Nat) (d : α × α)
    (hs1 : g.s.1 ≠ 0) (hs2 : g.s.2 ≠ 0) :
    Impl.zoomedAroundMaskGeom (g.shift d) bits es
      = (Impl.zoomedAroundMaskGeom g bits es).map (·.shift d) := by
  unfold Impl.zoomedAroundMaskGeom
  rw [maskCentre_shift g bits d hs1 hs2]
  cases Impl.maskCentre g bits with
  | none => rfl
  | some c => rfl

theorem overlayMeshGeom_shift (grid : List (α × α)) (ms : Nat × Nat) (buffer : α) (d : α × α) :
    Impl.overlayMeshGeom (grid.map (shiftPt d)) ms buffer
      = (Impl.overlayMeshGeom grid ms buffer).map (·.shift d) := by
  unfold Impl.overlayMeshGeom
  rw [map_fst_shift, map_snd_shift, colMax_add, colMin_add, colMax_add, colMin_add]
  cases Impl.colMax (grid.map (·.1)) <;> cases Impl.colMin (grid.map (·.1)) <;>
    cases Impl.colMax (grid.map (·.2)) <;> cases Impl.colMin (grid.map (·.2)) <;>
    simp [Geom.shift]
  refine ⟨⟨?_, ?_⟩, ⟨?_, ?_⟩⟩ <;> ring

/-! ### radial projection -/

theorem radial_line_shift (n : Nat) (cy ps dy dx : α) (acc : List (α × α)) (r : α) :
    ((List.range n).foldl
        (fun (st : List (α × α) × α) _ => (st.1 ++ [(cy + dy, st.2)], st.2 + ps))
        (acc.map (shiftPt (dy, dx)), r + dx))
      = ((((List.range n).foldl
        (fun (st : List (α × α) × α) _ => (st.1 ++ [(cy, st.2)], st.2 + ps)) (acc, r)).1).map
          (shiftPt (dy, dx)),
         ((List.range n).foldl
        (fun (st : List (α × α) × α) _ => (st.1 ++ [(cy, st.2)], st.2 + ps)) (acc, r)).2 + dx) := by
  generalize List.range n = l
  induction l generalizing acc r with
  | nil => rfl
  | cons a l ih =>
    simp only [List.foldl_cons]
    have h1 : (List.map (shiftPt (dy, dx)) acc ++ [(cy + dy, r + dx)])
        = List.map (shiftPt (dy, dx)) (acc ++ [(cy, r)]) := by
      simp [shiftPt]
    have h2 : r + dx + ps = r + ps + dx := by ring
    rw [h1, h2]
    exact ih (acc ++ [(cy, r)]) (r + ps)

theorem radialProjected_shift (trunc : α → Int) (rot : α × α → α × α) (ext : α × α × α × α)
    (s c d : α × α) (shapeSlim : Nat) :
    Impl.radialProjected trunc rot (ext.1 + d.2, ext.2.1 + d.2, ext.2.2.1 + d.1, ext.2.2.2 + d.1) s
        (c.1 + d.1, c.2 + d.2) shapeSlim
      = (Impl.radialProjected trunc rot ext s c shapeSlim).map (shiftPt d) := by
  unfold Impl.radialProjected
  simp only
  have e1 : ext.2.1 + d.2 - (c.2 + d.2) = ext.2.1 - c.2 := by ring
  have e2 : ext.2.2.2 + d.1 - (c.1 + d.1) = ext.2.2.2 - c.1 := by ring
  have e3 : c.2 + d.2 - (ext.1 + d.2) = c.2 - ext.1 := by ring
  have e4 : c.1 + d.1 - (ext.2.2.1 + d.1) = c.1 - ext.2.2.1 := by ring
  rw [e1, e2, e3, e4]
  have hline := radial_line_shift
    (if shapeSlim = 0 then
      (trunc (max (max (max (ext.2.1 - c.2) (ext.2.2.2 - c.1)) (c.2 - ext.1)) (c.1 - ext.2.2.1) /
        if max (max (max (ext.2.1 - c.2) (ext.2.2.2 - c.1)) (c.2 - ext.1)) (c.1 - ext.2.2.1)
            = ext.2.2.2 - c.1 ∨
          max (max (max (ext.2.1 - c.2) (ext.2.2.2 - c.1)) (c.2 - ext.1)) (c.1 - ext.2.2.1)
            = c.1 - ext.2.2.1 then s.1 else s.2)).toNat + 1
     else shapeSlim)
    c.1
    (if max (max (max (ext.2.1 - c.2) (ext.2.2.2 - c.1)) (c.2 - ext.1)) (c.1 - ext.2.2.1)
          = ext.2.2.2 - c.1 ∨
        max (max (max (ext.2.1 - c.2) (ext.2.2.2 - c.1)) (c.2 - ext.1)) (c.1 - ext.2.2.1)
          = c.1 - ext.2.2.1 then s.1 else s.2)
    d.1 d.2 [] c.2
  simp only [List.map_nil] at hline
  rw [hline]
  simp only [List.map_map]
  apply List.map_congr_left
  intro p _
  simp only [Function.comp, shiftPt]
  have a1 : p.1 + d.1 - (c.1 + d.1) = p.1 - c.1 := by ring
  have a2 : p.2 + d.2 - (c.2 + d.2) = p.2 - c.2 := by ring
  rw [a1, a2]
  refine Prod.ext ?_ ?_ <;> simp only <;> ring

theorem rectangularPixIndexes_shift (trunc : α → Int) (mesh : Geom α) (grid : List (α × α))
    (d : α × α) (hs1 : mesh.s.1 ≠ 0) (hs2 : mesh.s.2 ≠ 0) :
    Impl.rectangularPixIndexes trunc (mesh.shift d) (grid.map (shiftPt d))
      = Impl.rectangularPixIndexes trunc mesh grid := by
  simp only [Impl.rectangularPixIndexes, List.map_map]
  apply List.map_congr_left
  intro p _
  simp only [Function.comp, Geom.shift]
  rw [pixelCentreOfScaled_shift trunc mesh.shape mesh.s mesh.o d p hs1 hs2]

end

end Model
