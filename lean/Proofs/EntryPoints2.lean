/-
Proofs/EntryPoints2.lean — refinement lemmas Impl = Spec (all sizes) for the hand models of
Model/EntryPoints2.lean.  Core Lean only.
-/
import Model.EntryPoints2
import Proofs.Core

open Model

namespace EntryPoints2

/-! ### `overlay.mask_for_overlay_from` -/

/-- the loop, started after `c` unmasked centres have been seen -/
theorem maskForOverlay_fold (m : Mask) (total : Nat) (l : List (Nat × Nat)) (acc : List Nat) (c : Nat) :
    l.foldl (Impl.maskForOverlayStep m total) (acc, min c (total - 1))
      = (acc ++ (List.range l.length).map (fun k =>
            min (c + ((l.take k).filter fun p => !m.get p.1 p.2).length) (total - 1)),
         min (c + (l.filter fun p => !m.get p.1 p.2).length) (total - 1)) := by
  induction l generalizing acc c with
  | nil => simp
  | cons a l ih =>
    simp only [List.foldl_cons]
    have hstep : Impl.maskForOverlayStep m total (acc, min c (total - 1)) a
        = (acc ++ [min c (total - 1)],
           min (c + (if (!m.get a.1 a.2) = true then 1 else 0)) (total - 1)) := by
      unfold Impl.maskForOverlayStep
      by_cases hu : (!m.get a.1 a.2) = true
      · simp only [hu, if_true]
        by_cases hlt : min c (total - 1) + 1 < total
        · simp only [hlt, if_true, Prod.mk.injEq, true_and]; omega
        · simp only [hlt, if_false, Prod.mk.injEq, true_and]; omega
      · simp only [hu]
        simp
    rw [hstep, ih]
    simp only [List.length_cons, List.range_succ_eq_map, List.map_cons, List.map_map, List.take_zero,
      List.filter_nil, List.length_nil, Nat.add_zero, List.append_assoc, List.cons_append,
      List.nil_append, Prod.mk.injEq]
    by_cases hu : (!m.get a.1 a.2) = true
    · refine ⟨?_, ?_⟩
      · congr 2
        apply List.map_congr_left
        intro k _
        simp only [Function.comp, List.take_succ_cons, List.filter_cons, hu, if_true, List.length_cons]
        congr 1
        omega
      · simp only [List.filter_cons, hu, if_true, List.length_cons]
        congr 1
        omega
    · refine ⟨?_, ?_⟩
      · congr 2
        apply List.map_congr_left
        intro k _
        simp only [Function.comp, List.take_succ_cons, List.filter_cons, hu]
        simp
      · simp only [List.filter_cons, hu]
        simp

/-- REFINEMENT: `mask_for_overlay_from` computes, for every overlaid centre, the number of earlier
    centres on unmasked pixels, capped at `total_pixels - 1` — for every mask, centre list and total. -/
theorem maskForOverlay_eq (m : Mask) (cs : List (Nat × Nat)) (total : Nat) :
    Impl.maskForOverlay m cs total = Spec.maskForOverlay m cs total := by
  unfold Impl.maskForOverlay Spec.maskForOverlay
  have h0 : (([] : List Nat), (0 : Nat)) = ([], min 0 (total - 1)) := by simp
  rw [h0, maskForOverlay_fold]
  simp

theorem maskForOverlay_length (m : Mask) (cs : List (Nat × Nat)) (total : Nat) :
    (Impl.maskForOverlay m cs total).length = cs.length := by
  rw [maskForOverlay_eq]; simp [Spec.maskForOverlay]

/-! ### `grid_2d_util.grid_2d_slim_upscaled_from` -/

/-- an unconditional append loop is a `flatMap` -/
theorem foldl_append_flatMap {ι γ : Type} (l : List ι) (F : ι → List γ) (init : List γ) :
    l.foldl (fun acc i => acc ++ F i) init = init ++ l.flatMap F := by
  induction l generalizing init with
  | nil => simp
  | cons a l ih => simp [ih]

theorem flatMap_singleton_eq_map {ι γ : Type} (l : List ι) (g : ι → γ) :
    (l.flatMap fun i => [g i]) = l.map g := by
  induction l with
  | nil => rfl
  | cons a l ih => simp [ih]

section
variable {α : Type} [Add α] [Sub α] [Mul α] [Div α] [NatCast α]

/-- REFINEMENT: `grid_2d_slim_upscaled_from` replaces every grid point, in order, by its `f × f` block
    of sub-cell centres in row-major order — for every grid, factor and pixel scales. -/
theorem gridUpscaled_eq (grid : List (α × α)) (f : Nat) (s : α × α) :
    Impl.gridUpscaled grid f s = Spec.gridUpscaled grid f s := by
  unfold Impl.gridUpscaled Spec.gridUpscaled
  simp only [forYX_eq_foldl]
  have inner : ∀ (p : α × α) (acc : List (α × α)),
      (pixels f f).foldl (fun acc q => acc ++ [Impl.upscaledPoint f s p q.1 q.2]) acc
        = acc ++ (pixels f f).map fun q => Impl.upscaledPoint f s p q.1 q.2 := by
    intro p acc
    rw [foldl_append_flatMap (pixels f f) (fun q => [Impl.upscaledPoint f s p q.1 q.2]) acc,
      flatMap_singleton_eq_map]
  simp only [inner]
  rw [foldl_append_flatMap grid (fun p => (pixels f f).map fun q => Impl.upscaledPoint f s p q.1 q.2) []]
  simp

theorem gridUpscaled_length (grid : List (α × α)) (f : Nat) (s : α × α) :
    (Impl.gridUpscaled grid f s).length = grid.length * (f * f) := by
  rw [gridUpscaled_eq]
  unfold Spec.gridUpscaled
  induction grid with
  | nil => simp
  | cons a l ih =>
    rw [List.flatMap_cons, List.length_append, ih, List.length_map, pixels_length, List.length_cons,
      Nat.add_one_mul]
    omega

end

/-! ### `grid_2d_util.grid_pixels_in_mask_pixels_from` -/

section
variable {α : Type} [Add α] [NatCast α]

/-- one scatter increment on a table of counters -/
theorem scatter_step (one : α) (N : Nat) (c0 : Nat → Nat) (k : Nat) :
    (((List.range N).map fun j => Spec.countAs one (c0 j)).set k
        ((((List.range N).map fun j => Spec.countAs one (c0 j)).getD k ((0 : Nat) : α)) + one))
      = (List.range N).map fun j => Spec.countAs one (c0 j + if k == j then 1 else 0) := by
  apply List.ext_getElem
  · simp
  · intro j h1 h2
    have hj : j < N := by simpa using h2
    rw [List.getElem_set]
    by_cases hkj : k = j
    · subst hkj
      simp [List.getD_eq_getElem?_getD, hj, Spec.countAs]
    · simp [hkj]

/-- the scatter-count loop `for k in ks: a[k] += 1` over a table of counters -/
theorem scatter_count (one : α) (N : Nat) (ks : List Nat) (c0 : Nat → Nat) :
    ks.foldl (fun a k => a.set k (a.getD k ((0 : Nat) : α) + one))
        ((List.range N).map fun j => Spec.countAs one (c0 j))
      = (List.range N).map fun j => Spec.countAs one (c0 j + (ks.filter fun k => k == j).length) := by
  induction ks generalizing c0 with
  | nil => simp
  | cons k ks ih =>
    simp only [List.foldl_cons]
    rw [scatter_step, ih]
    apply List.map_congr_left
    intro j _
    congr 1
    by_cases hkj : (k == j) = true
    · simp only [hkj, if_true, List.filter_cons, List.length_cons]; omega
    · simp only [hkj, List.filter_cons]; simp

end

section
variable {α : Type} [Add α] [Sub α] [Div α] [Neg α] [NatCast α]

/-- REFINEMENT: `grid_pixels_in_mask_pixels_from` returns, for every pixel of the frame (row-major), the
    number of grid points whose pixel centre is that pixel (as `0 + 1 + … + 1`) — for every grid and
    frame (centres are compared by flattened index `y * W + x`, which is the pixel itself for centres
    inside the frame). -/
theorem pixelsInMaskPixels_eq (trunc : α → Int) (g : Geom α) (grid : List (α × α)) :
    Impl.pixelsInMaskPixels trunc g grid = Spec.pixelsInMaskPixels trunc g grid := by
  unfold Impl.pixelsInMaskPixels Spec.pixelsInMaskPixels
  generalize Impl.gridPixelCentres2 trunc g.shape g.s g.o grid = cs
  have e1 : cs.foldl (Impl.bumpAt ((1 : Nat) : α) g.shape.2)
        (List.replicate (g.shape.1 * g.shape.2) ((0 : Nat) : α))
      = (cs.map fun c => c.1.toNat * g.shape.2 + c.2.toNat).foldl
          (fun a k => a.set k (a.getD k ((0 : Nat) : α) + ((1 : Nat) : α)))
          ((List.range (g.shape.1 * g.shape.2)).map fun j => Spec.countAs ((1 : Nat) : α) ((fun _ => 0) j)) := by
    rw [List.foldl_map]
    have : (List.range (g.shape.1 * g.shape.2)).map (fun j => Spec.countAs ((1 : Nat) : α) ((fun _ => 0) j))
        = List.replicate (g.shape.1 * g.shape.2) ((0 : Nat) : α) := by
      apply List.ext_getElem <;> simp [Spec.countAs]
    rw [this]
    rfl
  rw [e1, scatter_count, ← pixels_map_flat, List.map_map]
  apply List.map_congr_left
  intro p _
  simp only [Function.comp, flat, Nat.zero_add, List.filter_map, List.length_map]
  rfl

theorem pixelsInMaskPixels_length (trunc : α → Int) (g : Geom α) (grid : List (α × α)) :
    (Impl.pixelsInMaskPixels trunc g grid).length = g.shape.1 * g.shape.2 := by
  rw [pixelsInMaskPixels_eq]
  simp [Spec.pixelsInMaskPixels, pixels_length]

end

end EntryPoints2
