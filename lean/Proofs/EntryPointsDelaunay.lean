/-
Proofs/EntryPointsDelaunay.lean — C12 on the Delaunay mapper: the interpolation tables of
Model/Mapper.lean (property C06's model) are unchanged when source-plane grid and mesh vertices are
translated together, given that Qhull returns the same combinatorial answer for the translated input
(`simplexFor`, `simplices` — its contract, checked by the harness) and indexes are in range.
-/
import Model.Mapper
import Model.EntryPoints
import Mathlib.Tactic.Ring
import Mathlib.Algebra.Order.Field.Basic

namespace Model

set_option linter.unusedSectionVars false

section
variable {α : Type} [Field α] [LinearOrder α] [IsStrictOrderedRing α]

theorem triangleArea_shift (d a b c : α × α) :
    Impl.triangleArea (shiftPt d a) (shiftPt d b) (shiftPt d c) = Impl.triangleArea a b c := by
  simp only [Impl.triangleArea, shiftPt]
  congr 2
  ring

theorem baryWeights_shift (d v0 v1 v2 p : α × α) :
    Impl.baryWeights (shiftPt d v0) (shiftPt d v1) (shiftPt d v2) (shiftPt d p)
      = Impl.baryWeights v0 v1 v2 p := by
  simp only [Impl.baryWeights, triangleArea_shift]

theorem sqDist_shift (d p q : α × α) :
    Impl.sqDist (shiftPt d p) (shiftPt d q) = Impl.sqDist p q := by
  simp only [Impl.sqDist, shiftPt]
  ring

theorem getD_map_shift (l : List (α × α)) (d : α × α) (k : Nat) (hk : k < l.length) (z z' : α × α) :
    (l.map (shiftPt d)).getD k z = shiftPt d (l.getD k z') := by
  simp [List.getD_eq_getElem?_getD, hk]

/-- nearest-vertex fallback and located simplices: the index table is unchanged -/
theorem pixIndexesDelaunay_shift (grid mesh : List (α × α)) (simplexFor : List Int)
    (simplices : List (List Int)) (d : α × α) :
    Impl.pixIndexesDelaunay (grid.map (shiftPt d)) simplexFor simplices (mesh.map (shiftPt d))
      = Impl.pixIndexesDelaunay grid simplexFor simplices mesh := by
  unfold Impl.pixIndexesDelaunay
  simp only [List.length_map]
  congr 1
  · apply List.map_congr_left
    intro i hi
    have hi' : i < grid.length := by simpa using hi
    split
    · rfl
    · rw [getD_map_shift grid d i hi' (0, 0) (0, 0), List.map_map]
      congr 3
      apply List.map_congr_left
      intro q _
      exact sqDist_shift d _ q
  · congr 1
    apply List.map_congr_left
    intro i hi
    have hi' : i < grid.length := by simpa using hi
    split
    · rfl
    · rw [getD_map_shift grid d i hi' (0, 0) (0, 0), List.map_map]
      congr 3
      apply List.map_congr_left
      intro q _
      exact sqDist_shift d _ q

/-- the barycentric / nearest-vertex weights are unchanged, provided every vertex index of a located
    simplex is a valid mesh index (Qhull's contract) -/
theorem pixelWeightsDelaunay_shift (grid mesh : List (α × α)) (idx : List (List Int)) (d : α × α)
    (hidx : ∀ sub, sub < grid.length → (idx.getD sub []).getD 1 (-1) ≠ -1 →
      ∀ k, k < 3 → ((idx.getD sub []).getD k 0).toNat < mesh.length) :
    Impl.pixelWeightsDelaunay (grid.map (shiftPt d)) (mesh.map (shiftPt d)) grid.length idx
      = Impl.pixelWeightsDelaunay grid mesh grid.length idx := by
  unfold Impl.pixelWeightsDelaunay
  apply List.map_congr_left
  intro sub hsub
  have hs : sub < grid.length := by simpa using hsub
  simp only []
  split
  · rename_i hb
    have hne : (idx.getD sub []).getD 1 (-1) ≠ -1 := by simpa using hb
    have h := hidx sub hs hne
    rw [getD_map_shift mesh d _ (h 0 (by omega)) (0, 0) (0, 0),
      getD_map_shift mesh d _ (h 1 (by omega)) (0, 0) (0, 0),
      getD_map_shift mesh d _ (h 2 (by omega)) (0, 0) (0, 0),
      getD_map_shift grid d sub hs (0, 0) (0, 0)]
    exact baryWeights_shift d _ _ _ _
  · rfl

/-- `MapperDelaunay.pix_sub_weights` (indexes, sizes and weights) on translated grid + mesh -/
theorem delaunayPixSubWeights_shift (grid mesh : List (α × α)) (simplexFor : List Int)
    (simplices : List (List Int)) (d : α × α)
    (hidx : ∀ sub, sub < grid.length →
      ((Impl.pixIndexesDelaunay grid simplexFor simplices mesh).1.getD sub []).getD 1 (-1) ≠ -1 →
      ∀ k, k < 3 →
        (((Impl.pixIndexesDelaunay grid simplexFor simplices mesh).1.getD sub []).getD k 0).toNat
          < mesh.length) :
    Impl.delaunayPixSubWeights (grid.map (shiftPt d)) (mesh.map (shiftPt d)) simplexFor simplices
      = Impl.delaunayPixSubWeights grid mesh simplexFor simplices := by
  unfold Impl.delaunayPixSubWeights
  simp only [pixIndexesDelaunay_shift, List.length_map]
  congr 1
  exact pixelWeightsDelaunay_shift grid mesh _ d hidx

end

end Model
